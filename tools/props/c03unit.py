"""C03 unit-level tie: the real LocalHeap / SymbolTableNode / linkToParent code against the Coq model
(Model/GroupNS.v, predicates in Model/GroupNSTie.v) and against an independent Python oracle.

run_unit(ctx) -> dict(violations=[...], known=[...], evaluations=int, distinct=int, samples=[...], ...)

Two streams (harness subcommand `c03unit`):
  struct: NewLocalHeap/AddString/WriteTo/LoadLocalHeap/PrepareForModification/GetString and
          NewSymbolTableNode/AddEntry/WriteAt/ParseSymbolTableNode with a write/load cycle after every
          k-th insertion (k=1 is what linkToParent does);
  link:   histories of CreateGroup/CreateDataset/CreateHardLink/CreateSoftLink and raw linkToParent calls
          on a real file; observables are ok/err per call, "did any group structure change on disk",
          every registered group's heap segment + node entries, reference counts.
Gate: Go == Coq model on every case, and the specification evaluated on the Go outputs by the Python
oracle (names retrievable, no aliasing, capacity answers, failing call changes nothing, hard link entry
= target object).  Inputs in a known deviation class (KNOWN below) are compared with the model only.
"""
import os, sys, time
sys.path.insert(0, os.path.dirname(os.path.dirname(os.path.abspath(__file__))))
import vlib

# deviation classes of the unchanged tree (each reproduced by a Coq `_refuted` lemma in Props/C03.v)
KNOWN = {
    "C03-empty-name": "an empty link name (CreateGroup(\"//\"), CreateDataset(\"/\")) is accepted; after the next insertion it reads back as that next name",
    "C03-nul-name": "a link name containing a NUL byte is accepted and reads back truncated at the NUL (can duplicate an existing name)",
    "C03-hardlink-to-group": "a group reachable through two paths (hard link whose target is a group) is listed with its children only under the first path visited; nothing can be created through the second path (fw.groups does not know it)",
    "C03-hardlink-to-link-object": "a hard link whose target is a soft/external link object grows that object's header (RefCount message) beyond its exact-size allocation and overwrites the next structure",
    "C03-refcount-after-failed-hardlink": "a CreateHardLink that fails in linkToParent (duplicate name / full group) leaves the target's stored reference count one too high when it was 1 before",
}


def hx(b):
    return bytes(b).hex()


# ----------------------------------------------------------------------------- oracle: structures
def new_heap_size(n):
    n = max(n, 16)
    return n if n % 8 == 0 else (n // 8 + 1) * 8


def py_used_size(data):
    i = len(data) - 1
    while i >= 0 and data[i] == 0:
        i -= 1
    if i < 0:
        return 0
    j = data.find(b"\x00", i + 1)
    return (j + 1) if j >= 0 else i + 1


def py_get_string(data, off):
    if off >= len(data):
        return None
    j = data.find(b"\x00", off)
    return None if j < 0 else data[off:j]


def py_struct(case):
    """Independent transcription of the two structures (for Go != model triage)."""
    dss = new_heap_size(case["cap"])
    strings, cap_s, ents = b"", case["scap"], []
    steps = []
    def cycle(reload):
        nonlocal strings, cap_s, ents
        seg = strings + b"\x00" * max(0, dss - len(strings))
        disk_e = ents[:32]
        if reload:
            data = seg[:dss]
            strings = data[:py_used_size(data)]
            ents = list(disk_e)
            cap_s = max(32, len(ents))
        else:
            strings = seg
        return seg[:dss], disk_e
    for i, nm in enumerate(case["_names"]):
        if len(strings) + len(nm) + 1 > dss:
            steps.append((0, True, False))
        else:
            off = len(strings)
            strings += nm + b"\x00"
            if len(ents) >= cap_s:
                steps.append((off, False, True))
            else:
                ents.append((off, i + 1))
                steps.append((off, False, False))
        if case["k"] > 0 and (i + 1) % case["k"] == 0:
            cycle(case["reload"])
    data, disk_e = cycle(True)
    return dict(dss=dss, steps=steps, data=data, entries=disk_e, names=[py_get_string(data, o) for o, _ in disk_e])


def struct_class(case):
    names = case["_names"]
    if any(n == b"" for n in names):
        return "C03-empty-name"
    if any(b"\x00" in n for n in names):
        return "C03-nul-name"
    return None


def struct_spec(case, res):
    """Specification on the implementation's output: every accepted name is retrievable under its own
    entry, refusals happen exactly when the name does not fit.  Only stated for k=1/reload (the way
    linkToParent uses the structures) and well-formed names."""
    names = case["_names"]
    dss = res["dss"]
    out = []
    accepted = [i for i, s in enumerate(res["steps"]) if not s["herr"] and not s["serr"]]
    if len(accepted) != len(res["entries"]):
        out.append("accepted %d names but the node has %d entries" % (len(accepted), len(res["entries"])))
        return out
    for i, (e, gn) in zip(accepted, zip(res["entries"], res["names"])):
        if e[1] != i + 1:
            out.append("entry order: entry for name #%d carries object %d" % (i, e[1]))
        if gn is None or bytes.fromhex(gn) != names[i]:
            out.append("name #%d %r reads back as %r" % (i, names[i], None if gn is None else bytes.fromhex(gn)))
    if case["k"] == 1 and case["reload"]:
        used, cnt = 0, 0
        for i, s in enumerate(res["steps"]):
            need = len(names[i]) + 1
            fits_h = used + need <= dss
            if s["herr"] != (not fits_h):
                out.append("name #%d: heap %s although used=%d need=%d size=%d" % (i, "refused" if s["herr"] else "accepted", used, need, dss))
                break
            if fits_h:
                used += need
                # node capacity: scap before the first reload, 32 afterwards
                lim = case["scap"] if i == 0 else 32
                if s["serr"] != (cnt >= lim):
                    out.append("name #%d: node %s with %d entries (capacity %d)" % (i, "refused" if s["serr"] else "accepted", cnt, lim))
                    break
                if not s["serr"]:
                    cnt += 1
    return out


# ----------------------------------------------------------------------------- generators
def rand_name(rng, odd):
    r = rng.random()
    if odd and r < 0.08:
        return b""
    if odd and r < 0.16:
        n = bytearray(rng.randrange(1, 256) for _ in range(rng.randint(1, 5)))
        n[rng.randrange(len(n))] = 0
        if rng.random() < 0.3:
            n.append(0)
        return bytes(n)
    ln = rng.choice([1, 1, 2, 2, 3, 5, 7, 8, 13, 20, 31, 60, 100, 200, 254, 255])
    ln = rng.randint(1, ln)
    if rng.random() < 0.5:
        return bytes(rng.choice(b"abcxyz_01") for _ in range(ln))
    return bytes(rng.randrange(1, 256) for _ in range(ln))


def gen_struct(rng, n):
    cases = []
    for t in range(n):
        cap = rng.choice([0, 1, 15, 16, 17, 24, 31, 32, 33, 40, 64, 100, 255, 256, 256, 256, 257, 512])
        dss = new_heap_size(cap)
        scap = rng.choice([1, 2, 3, 4, 8, 31, 32, 32, 32])
        k = rng.choice([1, 1, 1, 1, 2, 3, 5, 0])
        reload = rng.random() < 0.85
        odd = rng.random() < 0.3
        style = rng.random()
        names = []
        if style < 0.35:
            # fill the heap exactly / one short / one over
            tgt = dss + rng.choice([-1, 0, 0, 1, 2])
            used = 0
            while used < tgt and len(names) < 40:
                rem = tgt - used
                ln = rng.randint(1, max(1, min(rem - 1, rng.choice([1, 2, 3, 8, 30, 300]))))
                if rem - (ln + 1) == 1:      # would leave exactly one byte
                    ln += rng.choice([0, 1])
                nm = rand_name(rng, False)[:ln].ljust(ln, b"q")
                names.append(nm)
                used += ln + 1
            names += [rand_name(rng, odd) for _ in range(rng.randint(0, 3))]
        elif style < 0.6:
            # many short names: node capacity
            cnt = rng.choice([scap - 1, scap, scap + 1, 31, 32, 33, 34, 40])
            names = [b"%c%d" % (rng.choice(b"abcd"), i) if rng.random() < 0.9 else rand_name(rng, odd) for i in range(max(1, cnt))]
            if rng.random() < 0.5:
                names = [n[:1] + n[2:] if len(n) > 2 and rng.random() < 0.3 else n for n in names]
        else:
            names = [rand_name(rng, odd) for _ in range(rng.randint(1, 12))]
        cases.append(dict(mode="struct", cap=cap, scap=scap, k=k, reload=reload, names=[hx(x) for x in names], _names=names))
    return cases


def gen_link(rng, n, builddir):
    cases = []
    for t in range(n):
        ops, meta = [], []
        groups = ["/"]
        objs = []          # dataset paths
        style = rng.random()
        big = style < 0.3            # overflow one group
        longn = 0.3 <= style < 0.5   # fill a heap with long names
        odd = 0.5 <= style < 0.7     # ill-formed paths / odd raw names
        nops = rng.randint(3, 14) if not big else rng.randint(30, 44)
        pool = ["a", "b", "c", "d1", "g", "x", "data", "sub"]
        def fresh(parent):
            nm = rng.choice(pool) + (str(rng.randint(0, 60)) if (big or rng.random() < 0.3) else "")
            if longn:
                nm += "_" * rng.choice([10, 40, 60, 90, 120])
            return (parent.rstrip("/") + "/" + nm)
        for i in range(nops):
            r = rng.random()
            parent = rng.choice(groups) if not big else (groups[-1] if rng.random() < 0.85 else rng.choice(groups))
            if odd and r < 0.25:
                p = rng.choice(["//", "/", "/a/", "/a//b", "//d", "/a\x00b", "/a\x00", "rel", "", "/g/", "/a/b/"])
                ops.append({"op": rng.choice(["mkgroup", "mkds", "mkgroup"]), "path": hx(p.encode("latin1"))})
            elif odd and r < 0.4:
                raw = rng.choice([b"", b"a\x00b", b"\x00", b"a/b", b"n", b"a", bytes([255, 254]), b"x" * 10])
                ops.append({"op": "link", "parent": hx((parent.rstrip("/") if parent != "/" else rng.choice(["", "/"])).encode()),
                            "name": hx(raw), "child": (1 << 40) + i})
            elif r < 0.35:
                p = fresh(parent)
                ops.append({"op": "mkgroup", "path": hx(p.encode())})
                if p not in groups and p not in objs and not big:
                    groups.append(p)
                elif big and len(groups) < 2:
                    groups.append(p)
            elif r < 0.6:
                p = fresh(parent)
                ops.append({"op": "mkds", "path": hx(p.encode())})
                if p not in groups and p not in objs:
                    objs.append(p)
            elif r < 0.72 and (objs or len(groups) > 1):
                tgt = rng.choice(objs + ([g for g in groups if g != "/"] if rng.random() < 0.3 else []) or objs or groups[1:])
                ops.append({"op": "hardlink", "path": hx(fresh(parent).encode() if rng.random() < 0.8 else tgt.encode()), "target": hx(tgt.encode())})
            elif r < 0.8:
                tq = rng.choice(["/d", "/nowhere/x", "/a" + "t" * rng.choice([1, 100, 230, 250])])
                ops.append({"op": rng.choice(["softlink", "softlink", "extlink"]), "path": hx(fresh(parent).encode()), "target": hx(tq.encode())})
            elif r < 0.9 and (objs or len(groups) > 1):
                # duplicate request
                p = rng.choice(objs + groups[1:])
                ops.append(rng.choice([{"op": "mkgroup", "path": hx(p.encode())}, {"op": "mkds", "path": hx(p.encode())},
                                       {"op": "hardlink", "path": hx(p.encode()), "target": hx(rng.choice(objs + groups[1:]).encode())},
                                       {"op": "softlink", "path": hx(p.encode()), "target": hx(b"/d")}]))
            else:
                # missing parent / missing target
                ops.append(rng.choice([{"op": "mkgroup", "path": hx(b"/nope/g")}, {"op": "mkds", "path": hx(b"/nope%d/d" % rng.randint(0, 3))},
                                       {"op": "hardlink", "path": hx(fresh(parent).encode()), "target": hx(b"/does/not/exist")},
                                       {"op": "hardlink", "path": hx(b"/nope/l"), "target": hx((objs or ["/x"])[0].encode())},
                                       {"op": "softlink", "path": hx(b"/nope/s"), "target": hx(b"/d")}]))
        cases.append(dict(mode="link", sb=rng.choice([2, 2, 2, 0, 3]), ops=ops, dir=builddir))
    return cases


# ----------------------------------------------------------------------------- oracle: link histories
SL = 47


def spec_split(p):
    """specification path syntax: '/' name ('/' name)*; names non-empty, no NUL. None = ill-formed."""
    if not p.startswith(b"/"):
        return None
    if p == b"/":
        return []
    cs = p[1:].split(b"/")
    if any(c == b"" or b"\x00" in c for c in cs):
        return None
    return cs


class NSOracle:
    """object ids = index of the creating call + 1 (root 0); groups: id -> list of (name, child)"""
    def __init__(self):
        self.kind = {0: "g"}
        self.ch = {0: []}

    def resolve(self, cs):
        cur = 0
        for n in cs:
            if self.kind.get(cur) != "g":
                return None
            nxt = [c for (m, c) in self.ch[cur] if m == n]
            if not nxt:
                return None
            cur = nxt[0]
        return cur

    def must(self, op):
        """'err' when the specification requires a refusal, None when the call may succeed (capacity
        refusals are legitimate), 'skip' outside the specification's path syntax."""
        k = op["op"]
        if k == "link":
            return "skip"
        cs = spec_split(bytes.fromhex(op["path"]))
        if cs is None or (cs == [] and k == "mkds"):
            return "skip"         # CreateDataset("/") links the empty name: class C03-empty-name
        if cs == []:
            return "err"
        if k in ("softlink", "extlink"):
            tq = bytes.fromhex(op["target"])
            if not tq.startswith(b"/") or b"//" in tq:
                return "err"
        g = self.resolve(cs[:-1])
        if g is None or self.kind[g] != "g":
            return "err"
        if any(m == cs[-1] for m, _ in self.ch[g]):
            return "err"
        if k == "hardlink":
            qs = spec_split(bytes.fromhex(op["target"]))
            if qs is None:
                return "skip"
            if qs == [] or self.resolve(qs) is None:
                return "err"      # the API refuses "/" as a target
        return None

    def apply(self, i, op):
        k = op["op"]
        cs = spec_split(bytes.fromhex(op["path"]))
        g = self.resolve(cs[:-1])
        if k == "hardlink":
            tid = self.resolve(spec_split(bytes.fromhex(op["target"])))
            self.ch[g].append((cs[-1], tid))
            return tid
        nid = i + 1
        self.kind[nid] = {"mkgroup": "g", "mkds": "d", "softlink": "s", "extlink": "s"}[k]
        if k == "mkgroup":
            self.ch[nid] = []
        self.ch[g].append((cs[-1], nid))
        return nid


def link_judge(case, res):
    """Returns (spec_violations, known_classes, renamed groups, renamed refcounts, in_spec, hard-link-to-link-object seen)."""
    viol, known = [], set()
    orc = NSOracle()
    addr2id = {}
    in_spec = True
    failed_hl_targets = set()
    hl_to_link = False
    link_objs = set()
    for i, (op, r) in enumerate(zip(case["ops"], res["results"])):
        if r.get("panic"):
            viol.append("call %d %s panicked: %s" % (i, op["op"], r["panic"]))
            in_spec = False
            continue
        ok = bool(r.get("ok"))
        if not ok and r.get("changed"):
            viol.append("call %d %s failed (%s) but a group's heap/node changed on disk" % (i, op["op"], r.get("err")))
        if ok and op["op"] in ("mkgroup", "mkds", "softlink", "extlink"):
            addr2id[r["newaddr"]] = i + 1
            if op["op"] in ("softlink", "extlink"):
                link_objs.add(r["newaddr"])
        if ok and op["op"] == "hardlink" and r["newaddr"] in link_objs:
            hl_to_link = True
        m = orc.must(op) if in_spec else "skip"
        if m == "skip":
            if ok or op["op"] == "link":
                # outside the specification's syntax: from here on only Go == model is checked
                if op["op"] == "link":
                    nm = bytes.fromhex(op["name"])
                    if ok and (nm == b"" or b"\x00" in nm or b"/" in nm):
                        in_spec = False
                    elif ok:
                        # a raw link with a well-formed name: follow it in the oracle
                        pp = bytes.fromhex(op["parent"])
                        g = orc.resolve(spec_split(pp) or []) if pp not in (b"", b"/") else 0
                        if g is None:
                            in_spec = False
                        else:
                            orc.ch[g].append((nm, op["child"]))
                            orc.kind[op["child"]] = "d"
                else:
                    p = bytes.fromhex(op["path"])
                    nm = p.rstrip(b"/").split(b"/")[-1] if p != b"/" else b""
                    known.add("C03-empty-name" if nm == b"" else ("C03-nul-name" if b"\x00" in p else "C03-path-syntax"))
                    in_spec = False
            continue
        if m == "err" and ok:
            viol.append("call %d %s %r was accepted but must be rejected" % (i, op["op"], bytes.fromhex(op["path"])))
            in_spec = False
            continue
        if ok:
            tid = orc.apply(i, op)
            if op["op"] == "hardlink" and addr2id.get(r["newaddr"], r["newaddr"]) != tid:
                viol.append("call %d: hard link entry points to object %s, target is object %d" % (i, addr2id.get(r["newaddr"], r["newaddr"]), tid))
        elif op["op"] == "hardlink":
            qs = spec_split(bytes.fromhex(op["target"]))
            t = orc.resolve(qs) if qs else None
            if t is not None:
                failed_hl_targets.add(t)
    # final structures, addresses renamed to model ids
    # registered groups come back in creation order: the root, then one per successful mkgroup
    gids = [0] + [i + 1 for i, (op, r) in enumerate(zip(case["ops"], res["results"])) if op["op"] == "mkgroup" and r.get("ok")]
    groups = []
    for k, g in enumerate(res["groups"]):
        gid = gids[k] if k < len(gids) else None
        if (g.get("err") or gid is None) and hl_to_link:
            known.add("C03-hardlink-to-link-object")
            in_spec = False
            continue
        if g.get("err") or gid is None:
            viol.append("registered group %r unreadable: %s" % (bytes.fromhex(g["path"]), g.get("err")))
            continue
        ents = [(o, addr2id.get(a, a)) for o, a in g["entries"]]
        groups.append((gid, bytes.fromhex(g["data"]), ents))
        if in_spec and gid in orc.ch:
            got = [(py_get_string(bytes.fromhex(g["data"]), o), a) for o, a in ents]
            if got != orc.ch[gid]:
                viol.append("group %r lists %r, built %r" % (bytes.fromhex(g["path"]), got[:6], orc.ch[gid][:6]))
    rcs = []
    for a, rc in res["refcounts"]:
        oid = addr2id.get(a)
        if oid is None:
            continue
        rcs.append((oid, rc))
        if in_spec:
            nlinks = sum(1 for ch in orc.ch.values() for _, c in ch if c == oid)
            if rc != nlinks:
                if oid in failed_hl_targets:
                    known.add("C03-refcount-after-failed-hardlink")
                else:
                    viol.append("object %d has %d links but reference count %d" % (oid, nlinks, rc))
    return viol, known, groups, rcs, in_spec, hl_to_link


# ----------------------------------------------------------------------------- Coq side
def c_data(b):
    """byte string with a long zero tail -> (unhex "..." ++ zeros n)"""
    b = bytes(b)
    t = b.rstrip(b"\x00")
    return '(unhex "%s" ++ zeros %d)' % (t.hex(), len(b) - len(t))


def c_opt_bytes(h):
    return "None" if h is None else '(Some (unhex "%s"))' % h


def c_struct(case, res):
    steps = ";".join("(%d,%s,%s)" % (s["off"], vlib.cbool(s["herr"]), vlib.cbool(s["serr"])) for s in res["steps"])
    return 'struct_ok %d %d %d %s [%s] %d [%s] %s [%s] [%s]' % (
        case["cap"], case["scap"], case["k"], vlib.cbool(case["reload"]),
        ";".join('unhex "%s"' % n for n in case["names"]), res["dss"], steps, c_data(bytes.fromhex(res["data"])),
        ";".join("(%d,%d)" % (o, a) for o, a in res["entries"]), ";".join(c_opt_bytes(n) for n in res["names"]))


def c_uop(op):
    k = op["op"]
    if k == "mkgroup":
        return 'UOp (MkGroup (unhex "%s"))' % op["path"]
    if k == "mkds":
        return 'UOp (MkDataset (unhex "%s"))' % op["path"]
    if k == "hardlink":
        return 'UOp (HardLink (unhex "%s") (unhex "%s"))' % (op["path"], op["target"])
    if k == "softlink":
        return 'UOp (SoftLink (unhex "%s") (unhex "%s"))' % (op["path"], op["target"])
    if k == "extlink":
        # same namespace bookkeeping; the external link message is 10 bytes longer (file name "other.h5" + length)
        return 'UOp (SoftLink (unhex "%s") (unhex "%s"))' % (op["path"], op["target"] + "78" * 10)
    return 'ULink (unhex "%s") (unhex "%s") %d' % (op["parent"], op["name"], op["child"])


def source_cfg():
    """Thresholds and repair switches of the model, read from the source tree that is being checked
    (fails loudly when a pattern no longer matches: then the tie itself is broken)."""
    import re
    def src(rel):
        return open(os.path.join(vlib.REPO, rel)).read()
    gw, lw = src("group_write.go"), src("link_write.go")
    m1 = re.search(r"func \(fw \*FileWriter\) createGroupStructures\(\).*?structures\.NewLocalHeap\((\d+)\).*?structures\.NewSymbolTableNode\((\d+)\)", gw, re.S)
    m2 = re.search(r"stNode\.WriteAt\(fw\.writer, stNodeAddr, offsetSize, (\d+),", gw)
    if not m1 or not m2 or m1.group(2) != m2.group(1):
        raise RuntimeError("c03unit: cannot extract the heap size / node capacity from group_write.go")
    link_body = gw[gw.index("func (fw *FileWriter) linkToParent("):]
    link_body = link_body[:link_body.index("\n}\n")]
    cg = gw[gw.index("func (fw *FileWriter) CreateGroup("):]
    cg = cg[:cg.index("\n}\n")]
    wr = lw[lw.index("func writeV2RefCount("):]
    wr = wr[:wr.index("\n}\n")]
    if "fw.prepareLink(" in link_body:          # e5d916a: the checks live in prepareLink, shared with checkLinkable
        pl = gw[gw.index("func (fw *FileWriter) prepareLink("):]
        link_body = pl[:pl.index("\n}\n")]
    strict = ('childName == ""' in link_body) and ("IndexByte(childName, 0)" in link_body)
    check_first = all("fw.checkLinkable(" in body for body in (cg, src("dataset_write.go"), lw))
    canon = 'path = strings.TrimSuffix(path, "/")' in cg
    rcfix = "hasRefCountMessage(oh)" in wr
    m3 = re.search(r"maxGroupDepth\s*=\s*(\d+)", src("file.go"))
    gr = src("group.go")
    lo = gr[gr.index("func loadObject("):]
    lo = lo[:lo.index("\n}\n")]
    cyc_err = ("file.loading[address]" not in lo) and ("errLinkCycle" not in lo)   # loadObject lists the enclosing group itself
    return dict(heap_cap=int(m1.group(1)), snod_cap=int(m1.group(2)), soft_max=244, max_depth=int(m3.group(1)) if m3 else 0,
                strict_names=strict, canon_group_key=canon, rc_rollback_fix=rcfix, cycle_is_error=cyc_err, check_first=check_first)


def c_cfg(cfg):
    return "{| heap_cap := %d; snod_cap := %d; soft_max := %d; max_depth := %d; strict_names := %s; canon_group_key := %s; rc_rollback_fix := %s; cycle_is_error := %s; check_first := %s |}" % (
        cfg["heap_cap"], cfg["snod_cap"], cfg["soft_max"], cfg["max_depth"], vlib.cbool(cfg["strict_names"]), vlib.cbool(cfg["canon_group_key"]), vlib.cbool(cfg["rc_rollback_fix"]), vlib.cbool(cfg["cycle_is_error"]), vlib.cbool(cfg["check_first"]))


def c_link(case, res, groups, rcs, cfg):
    return 'link_ok %s [%s] [%s] [%s] [%s]' % (c_cfg(cfg), 
        ";".join(c_uop(o) for o in case["ops"]), ";".join(vlib.cbool(bool(r.get("ok"))) for r in res["results"]),
        ";".join('(%d, %s, [%s])' % (g, c_data(d), ";".join("(%d,%d)" % e for e in ents)) for g, d, ents in groups),
        ";".join("(%d,%d)" % x for x in rcs))


def walk_ids(case, res):
    """the Go walk with addresses renamed to model ids (root 0, object created by call i -> i+1)"""
    addr2id = {}
    for i, (op, r) in enumerate(zip(case["ops"], res["results"])):
        if r.get("ok") and op["op"] in ("mkgroup", "mkds", "softlink", "extlink"):
            addr2id[r["newaddr"]] = i + 1
    w = res["walk"]
    if w:
        addr2id[w[0][2]] = 0
    return [(p, {"g": 0, "d": 1}.get(k, 9), addr2id.get(a, a)) for p, k, a in w]


def c_read(case, res, cfg):
    if "walk" not in res:
        exp = "None"
    else:
        exp = "(Some [%s])" % ";".join('(unhex "%s", %d, %d)' % x for x in walk_ids(case, res))
    return 'read_ok %s [%s] %s' % (c_cfg(cfg), ";".join(c_uop(o) for o in case["ops"]), exp)


def group_link_class(case, res):
    """known class: a successful hard link whose target is a group (KNOWN_FINDINGS C03-hardlink-to-group)"""
    groups = set()
    for i, (op, r) in enumerate(zip(case["ops"], res["results"])):
        if r.get("ok") and op["op"] == "mkgroup":
            groups.add(r["newaddr"])
        if r.get("ok") and op["op"] == "hardlink" and r["newaddr"] in groups:
            return "C03-hardlink-to-group"
    return None


def reader_spec(case, res):
    """the specification on what Open + Walk shows: exactly the created paths with the right kinds, hard
    links sharing the object (soft/external links: class C03-soft-link, compared with the model only)"""
    if any(r.get("ok") and op["op"] in ("softlink", "extlink") for op, r in zip(case["ops"], res["results"])):
        return []
    if "walk" not in res:
        return ["the file written by these calls cannot be opened: %s" % res.get("open_error")]
    orc = NSOracle()
    for i, (op, r) in enumerate(zip(case["ops"], res["results"])):
        if r.get("ok"):
            orc.apply(i, op)
    exp = []
    def rec(gid, path):
        exp.append((path.hex(), 0, gid))
        for n, c in orc.ch[gid]:
            if orc.kind[c] == "g":
                rec(c, path + n + b"/")
            else:
                exp.append(((path + n).hex(), 1, c))
    rec(0, b"/")
    got = walk_ids(case, res)
    if got != exp:
        d = next((k for k in range(min(len(got), len(exp))) if got[k] != exp[k]), min(len(got), len(exp)))
        return ["after reopen the walk differs from the tree built at entry %d: got %r, built %r" % (
            d, got[d] if d < len(got) else None, exp[d] if d < len(exp) else None)]
    return []


def coq_mismatches(terms, name, chunk=150, workers=8):
    """indices of the terms (closed bool expressions) that evaluate to false in Coq; one coqc per chunk, in parallel"""
    if not terms:
        return []
    import concurrent.futures as cf
    def one(k):
        lab = "bad_%s_%d" % (name, k)
        text = ("From HV Require Import Base.Prelude Model.GroupNS Model.GroupNSTie.\n"
                "Definition %s := Eval vm_compute in mismatches (fun b : bool => b) [%s].\nPrint %s.\n" % (
                    lab, ";\n".join(terms[k:k + chunk]), lab))
        out = vlib.coq_eval(text, "c03unit_%s_%d" % (name, k))
        return [k + i for i in vlib.parse_nlist(out, lab)]
    with cf.ThreadPoolExecutor(workers) as ex:
        parts = list(ex.map(one, range(0, len(terms), chunk)))
    return [i for p in parts for i in p]


def canon(case):
    return {k: v for k, v in case.items() if not k.startswith("_")}


# ----------------------------------------------------------------------------- entry point
def run_unit(ctx, n_struct=None, n_link=None):
    H, rng = ctx.harness, ctx.rng
    thorough = ctx.tier == "thorough"
    n_struct = n_struct or (6000 if thorough else 500)
    n_link = n_link or (2500 if thorough else 200)
    builddir = os.path.join(vlib.BUILD, "scratch")
    os.makedirs(builddir, exist_ok=True)
    viol, known, samples = [], {}, []
    t0 = time.time()
    cfg = source_cfg()

    # ---- struct stream
    scases = [dict(mode="struct", cap=256, scap=32, k=1, reload=True, names=[hx(n) for n in nm], _names=nm) for nm in (
        [b"a"], [b"", b"x", b"y"], [b"a", b"a\x00b", b"c"], [b"x" * 255], [b"x" * 254, b""], [b"x" * 256],
        [b"n%d" % i for i in range(34)], [b"ab", b"", b"", b"c"], [b"\x00"], [b"a\x00"], [b"a", b"b\x00\x00", b"c"])]
    scases += gen_struct(rng, n_struct)
    sres = vlib.run_harness_parallel(H, "c03unit", [canon(c) for c in scases]) if len(scases) > 64 else vlib.run_harness(H, "c03unit", [canon(c) for c in scases])
    terms, idx = [], []
    distinct = set()
    for i, (c, r) in enumerate(zip(scases, sres)):
        if "panic" in r or "cycle_error" in r or "harness_error" in r:
            viol.append(dict(what="c03unit/struct: the structures failed: %s" % (r.get("panic") or r.get("cycle_error") or r.get("harness_error")),
                             failing_input=canon(c), impl=r))
            continue
        terms.append(c_struct(c, r))
        idx.append(i)
        distinct.add((c["cap"], c["k"], c["reload"], tuple(c["names"])))
    bad = set(idx[j] for j in coq_mismatches(terms, "struct"))
    nspec = 0
    for i, (c, r) in enumerate(zip(scases, sres)):
        if "steps" not in r or "data" not in r:
            continue
        cls = struct_class(c)
        spec = struct_spec(c, r) if (cls is None and c["k"] == 1 and c["reload"]) else []
        nspec += cls is None
        py = py_struct(c)
        py_same = (py["dss"] == r["dss"] and [(s["off"], s["herr"], s["serr"]) for s in r["steps"]] == py["steps"]
                   and bytes.fromhex(r["data"]) == py["data"] and [tuple(e) for e in r["entries"]] == py["entries"])
        if cls is not None and c["k"] == 1 and c["reload"] and struct_spec(c, r):
            known.setdefault(cls, dict(count=0, witness=canon(c), observed=struct_spec(c, r)[:2]))
            known[cls]["count"] += 1
        if spec:
            viol.append(dict(what="c03unit/struct: " + spec[0], failing_input=canon(c), impl=r, model_agrees=i not in bad, spec_violations=spec))
        elif i in bad:
            viol.append(dict(what="c03unit/struct: LocalHeap/SymbolTableNode and the Coq model disagree", case=canon(c), impl=r,
                             python_transcription_agrees_with_go=py_same, nofail=True,
                             correspondence="Model.GroupNSTie.struct_ok (add_string / prepare_for_modification / write_to / add_entry) vs internal/structures"))
        if i < 4 or (i % 211 == 0 and len(samples) < 8):
            samples.append(dict(case=canon(c), impl={k: r[k] for k in ("steps", "entries", "names")}))

    # ---- link stream
    hxs = lambda s: hx(s.encode("latin1"))
    G = lambda p: {"op": "mkgroup", "path": hxs(p)}
    D = lambda p: {"op": "mkds", "path": hxs(p)}
    L = lambda p, q: {"op": "hardlink", "path": hxs(p), "target": hxs(q)}
    S = lambda p, q: {"op": "softlink", "path": hxs(p), "target": hxs(q)}
    fixed = [
        [D("/d"), L("/d", "/d"), L("/l", "/d"), L("/l", "/d"), G("/g"), D("/g/e"), L("/g/k", "/d")],
        [G("//"), G("/x"), G("/y")], [D("/"), D("/x")], [G("/a"), G("/a\x00b"), G("/c")], [G("/a/"), G("/a/b"), G("/a//b"), G("/a")],
        [G("/g"), G("/g/x"), L("/h", "/g"), G("/h/y")], [G("/g"), G("/g/h"), L("/g/h/up", "/g")], [G("/g"), L("/g/self", "/g")],
        [G("/g"), L("/a", "/g"), G("/g/x"), D("/g/x/d"), L("/g/l", "/g/x/d"), S("/g/s", "/nowhere")],
        [D("/n%d" % i) for i in range(34)], [D("/" + "n" * 126), D("/" + "m" * 126), D("/z"), D("/" + "k" * 2)],
        [G("/g")] + [D("/g/n%d" % i) for i in range(33)] + [L("/g/l", "/g/n1"), L("/l", "/g/n1")],
        [D("/d"), S("/s", "/d"), L("/t", "/s"), G("/s/x"), S("/" + "s" * 100, "/" + "t" * 143), S("/" + "s" * 100, "/" + "t" * 144)],
    ]
    lcases = [dict(mode="link", sb=2, ops=o, dir=builddir) for o in fixed] + gen_link(rng, n_link, builddir)
    for c in lcases:
        # the reader is compared where every linked object is a real object header
        c["reopen"] = not any(o["op"] == "link" for o in c["ops"])
    lres = vlib.run_harness_parallel(H, "c03unit", lcases) if len(lcases) > 64 else vlib.run_harness(H, "c03unit", lcases)
    terms, idx = [], []
    rterms, ridx = [], []
    nopen_fail = 0
    judged = {}
    opmix = {}
    for i, (c, r) in enumerate(zip(lcases, lres)):
        if "results" not in r:
            viol.append(dict(what="c03unit/link: harness failed: %s" % (r.get("panic") or r.get("create_error") or r.get("harness_error")), failing_input=c, impl=r))
            continue
        v, kn, groups, rcs, in_spec, hl2l = link_judge(c, r)
        judged[i] = (v, kn, in_spec, hl2l)
        terms.append(c_link(c, r, groups, rcs, cfg))
        idx.append(i)
        if c.get("reopen") and not r.get("open_panic"):
            rterms.append(c_read(c, r, cfg))
            ridx.append(i)
            nopen_fail += "walk" not in r
        distinct.add(("link", tuple((o["op"], o.get("path"), o.get("target"), o.get("name")) for o in c["ops"])))
        for o, x in zip(c["ops"], r["results"]):
            key = o["op"] + (":ok" if x.get("ok") else ":" + err_class(x.get("err", "")))
            opmix[key] = opmix.get(key, 0) + 1
    bad = set(idx[j] for j in coq_mismatches(terms, "link", chunk=60))
    rbad = set(ridx[j] for j in coq_mismatches(rterms, "read", chunk=60))
    for i, (c, r) in enumerate(zip(lcases, lres)):
        if i not in judged:
            continue
        v, kn, in_spec, hl2l = judged[i]
        if r.get("open_panic"):
            v = v + ["reading the file back panicked: %s" % r["open_panic"]]
        # reader against the specification: only for histories inside the specification's domain
        gl = group_link_class(c, r)
        if in_spec and c.get("reopen") and not v:
            if gl:
                kn = set(kn) | {gl}
            else:
                rv = reader_spec(c, r)
                if rv:
                    v = v + rv
        if i in rbad and not v:
            viol.append(dict(what="c03unit/link: the reader (Open + Walk) and the Coq model (read_tree) disagree", case=dict(mode="link", sb=c["sb"], ops=c["ops"]),
                             impl=dict(walk=r.get("walk"), open_error=r.get("open_error")), nofail=True,
                             correspondence="Model.GroupNSTie.read_ok (GroupNS.read_tree / load_object / load_group) vs group.go loadChildren/loadObject, file.go enterLoad"))
        if hl2l and i in bad and not v:
            kn = set(kn) | {"C03-hardlink-to-link-object"}
            bad.discard(i)
        for k in kn:
            known.setdefault(k, dict(count=0, witness=dict(mode="link", sb=c["sb"], ops=c["ops"])))
            known[k]["count"] += 1
        if v:
            viol.append(dict(what="c03unit/link: " + v[0], failing_input=dict(mode="link", sb=c["sb"], ops=c["ops"]),
                             impl=dict(results=r["results"]), model_agrees=i not in bad, spec_violations=v))
        elif i in bad:
            viol.append(dict(what="c03unit/link: linkToParent and the Coq model disagree", case=dict(mode="link", sb=c["sb"], ops=c["ops"]),
                             impl=r, nofail=True, correspondence="Model.GroupNSTie.link_ok (GroupNS.step / link_to_parent) vs group_write.go, link_write.go"))
        if i in (0, 5, 8) or (i % 97 == 0 and len(samples) < 14):
            samples.append(dict(case=dict(ops=[(o["op"], bytes.fromhex(o.get("path", o.get("name", ""))).decode("latin1"),
                                                bytes.fromhex(o.get("target", "")).decode("latin1")) for o in c["ops"]][:12]),
                                impl=[("ok" if x.get("ok") else err_class(x.get("err", ""))) for x in r["results"]][:12]))
    # a class is a finding only while the tree still has the defect; with the repair in the source the
    # same inputs are merely inputs the structures are never given (struct stream) / normalised paths
    repaired = {"C03-empty-name": cfg["strict_names"], "C03-nul-name": cfg["strict_names"],
                "C03-refcount-after-failed-hardlink": cfg["rc_rollback_fix"], "C03-path-syntax": True}
    known_lines, notes = [], []
    listed = {k["id"] for k in vlib.known_findings("C03")}
    for k, d in sorted(known.items()):
        d["listed"] = k in listed
        line = "%s: %s (%d cases this run)" % (k, KNOWN.get(k, "path outside the specification's syntax (e.g. \"/a/\", \"//d\") accepted and normalised"), d["count"])
        (notes if repaired.get(k) else known_lines).append(line)
    return dict(violations=viol, known=known_lines, notes=notes, known_detail=known, evaluations=len(scases) + len(lcases),
                distinct=len(distinct), samples=samples, struct_cases=len(scases), link_cases=len(lcases),
                spec_checked_struct=nspec, link_calls=opmix, reader_cases=len(rterms), reader_open_failures=nopen_fail, wall_s=round(time.time() - t0, 1), model_cfg=cfg,
                rule="a case is distinct by (heap size, cycle period, names) resp. by its call sequence; every case is evaluated by Go, by the Coq model (vm_compute) and by the Python oracle")


def err_class(msg):
    for key, cls in (("already exists", "dup"), ("heap is full", "heapfull"), ("node is full", "snodfull"), ("does not exist", "noparent"),
                     ("not found", "notfound"), ("exceeds 255", "toolong"), ("consecutive", "badpath"), ("must start", "badpath"),
                     ("cannot be empty", "badpath"), ("root group", "badpath"), ("cannot create link to root", "badpath")):
        if key in msg:
            return cls
    return "other"


if __name__ == "__main__":
    import json
    class Ctx:
        pass
    ctx = Ctx()
    ctx.tier = os.environ.get("VERIF_TIER", "quick")
    ctx.seed, ctx.rng = vlib.seed_for("C03")
    ok, log = vlib.coq_make()
    if not ok:
        print(log[-3000:])
        sys.exit(2)
    ctx.harness = vlib.build_harness()
    try:
        res = run_unit(ctx)
    finally:
        vlib.cleanup()
    for k in res["known"]:
        print("KNOWN-FINDING: property=C03 " + k)
    for k in res["notes"]:
        print("note: " + k)
    for v in res["violations"][:10]:
        print("VIOLATION", v["what"])
        print("   ", json.dumps(v.get("failing_input") or v.get("case"))[:600])
    print({k: res[k] for k in ("evaluations", "distinct", "struct_cases", "link_cases", "reader_cases", "reader_open_failures", "wall_s", "model_cfg")}, "violations=%d" % len(res["violations"]))
    print("call mix:", res["link_calls"])
    sys.exit(1 if res["violations"] else 0)
