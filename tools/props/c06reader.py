"""C06, reader against specification - side obligation that connects the theorems of Props/C06Reader.v to real files.

The theorems say: for EVERY byte string the strict specification decoder accepts, the reader model returns an error or an
agreeing value.  Here the message bodies / superblocks of reference-library files (located by the Python walker of C05,
tools/props/c05spec.py; only structures the walker decodes without any deviation) are handed to Coq, which evaluates
Model/ReaderSpecTie.v rs_code on each: the strict specification decoder, the reader model (tied to the Go Parse*
functions by C11 / C07) and the boolean form of the agreement relation.

  code 0  the strict Coq decoder rejects (nothing claimed)        code 1  accepted, reader errs (allowed)
  code 2  accepted, reader value agrees                            code 3  accepted, reader value DISAGREES
  code 4  accepted, reader panics

Codes 3 / 4 on a reference file are C06 discrepancies at message level.  The classes refuted by a theorem are reported as
such (line `known`); anything else is a violation whose failing input is the structure's bytes.  For code 3 the real Go
parser is run on the same bytes (harness c11, raw mode) so that the report shows what the implementation returns.
"""
import collections, json, os
import vlib
from props import c05, c05spec, c06switch

KINDS = {"superblock": 1, "msg-dataspace": 5, "msg-datatype": 6, "msg-layout": 7, "msg-pipeline": 8, "msg-attribute": 9, "msg-attrinfo": 10, "msg-link": 11, "msg-symtab": 12}
GO_KIND = {"msg-pipeline": "filterpipe", "superblock": "superblock", "msg-dataspace": "dataspace", "msg-datatype": "datatype", "msg-layout": "layout",
           "msg-attribute": "attribute", "msg-attrinfo": "attrinfo", "msg-link": "link", "msg-symtab": "symtab"}
HEADER = "From HV Require Import Base.Prelude Base.Outcome Base.Bytes Model.ReaderSpecTie.\n"


def refuted_class(s, sw):
    """the theorem that refutes agreement for this structure's class under the variants [sw] of the three repair switches
    that the source tree under test implements, or None"""
    b, k, ctx = s["bytes"], s["kind"], s["ctx"]
    if k == "superblock" and len(b) > 10:
        if not sw["superblock"]:
            if b[8] in (2, 3) and not (b[9] == 8 and b[10] == 8):
                return "C06_reader_superblock_v2_sizes_refuted / _v2_lensize_refuted (unrepaired reader; size of offsets / lengths not both 8)"
            if b[8] == 0 and len(b) > 14 and b[13] != 8:
                return "C06_reader_superblock_v0_offsets_refuted (unrepaired reader; version 0, size of offsets not 8)"
        if b[8] == 0 and any(b[24:32]):
            return "C06_reader_superblock_v0_base_refuted (version 0, base address not 0)"
    if k == "msg-attribute" and len(b) > 0 and b[0] == 2 and not sw["attribute"]:
        return "C06_reader_attribute_v2_padding_refuted (unrepaired reader; attribute message version 2)"
    if k == "msg-pipeline" and len(b) > 0 and b[0] == 2 and not sw["pipeline"]:
        return "C06_reader_pipeline_v2_userfilter_refuted (unrepaired reader; version 2 message with a user-defined filter)"
    if k == "msg-dataspace" and len(b) >= 4 and b[0] == 2 and b[1] == 0 and b[3] == 1:
        return "C06_reader_dataspace_simple_rank0_refuted (version 2, kind simple, rank 0)"
    if k in ("msg-dataspace", "msg-attribute") and ctx and ctx[0] not in (4, 8):
        return "C06_reader_dataspace_lsz2_refuted (size of lengths not 4 or 8)"
    return None


def coq_codes(structs, sw, workers=8):
    import concurrent.futures as cf
    if not structs:
        return []

    def part(args):
        k, sub = args
        v = [HEADER]
        for j in range(0, len(sub), 1500):
            ch = sub[j:j + 1500]
            v.append("Definition cs_%d : list rs_case := [%s].\n" % (j, ";\n".join(
                '(%d, %s, "%s"%%string)' % (KINDS[s["kind"]], vlib.cNlist(s["ctx"]), s["bytes"].hex()) for s in ch)))
            v.append("Definition r_%d := Eval vm_compute in map (rs_case_code_gen %s %s %s) cs_%d.\nPrint r_%d.\n" % (
                j, c06switch.cb(sw["superblock"]), c06switch.cb(sw["attribute"]), c06switch.cb(sw["pipeline"]), j, j))
        out = vlib.coq_eval("".join(v), "c06reader_%d" % k)
        got = []
        for j in range(0, len(sub), 1500):
            got += vlib.parse_nlist(out, "r_%d" % j)
        return got

    order = sorted(range(len(structs)), key=lambda i: -len(structs[i]["bytes"]))
    buckets = [b for b in (order[k::workers] for k in range(workers)) if b]
    with cf.ThreadPoolExecutor(workers) as ex:
        res = list(ex.map(part, [(k, [structs[i] for i in b]) for k, b in enumerate(buckets)]))
    out = [0] * len(structs)
    for b, r in zip(buckets, res):
        for i, c in zip(b, r):
            out[i] = c
    return out


def tie(ctx):
    quick = ctx.tier == "quick"
    sw = c06switch.all_switches()
    refs, files = c05.reference_structs(1000)
    mine = [s for s in refs if s["kind"] in KINDS and len(s["bytes"]) <= 4000]
    ctx.rng.shuffle(mine)
    # every (kind, context, length) class once, then up to the budget
    seen, first, rest = set(), [], []
    for s in mine:
        k = (s["kind"], tuple(s["ctx"]), len(s["bytes"]), s["bytes"][:2])
        (rest if k in seen else first).append(s)
        seen.add(k)
    budget = 1500 if quick else 40000
    picked = (first + rest)[:budget]
    codes = coq_codes(picked, sw)
    hist = collections.Counter()
    viol, known = [], collections.Counter()
    bad = []
    for s, c in zip(picked, codes):
        hist["%s:%d" % (s["kind"], c)] += 1
        if c in (3, 4):
            bad.append((s, c))
    go = {}
    if bad:
        cases = [dict(kind=GO_KIND[s["kind"]], raw=s["bytes"].hex(),
                      sb=dict(v=2, o=(s["ctx"][0] if s["kind"] in ("msg-layout", "msg-link", "msg-symtab", "msg-attrinfo") and s["ctx"] else 8),
                              l=(s["ctx"][1] if s["kind"] == "msg-layout" else (s["ctx"][0] if s["kind"] in ("msg-dataspace", "msg-attribute") and s["ctx"] else 8)),
                              be=False)) for s, _ in bad[:50]]
        try:
            for (s, _), r in zip(bad[:50], vlib.run_harness(ctx.harness, "c11", cases)):
                go[id(s)] = r.get("raw")
        except Exception as e:      # the report is still made, without the implementation's answer
            go = {"error": str(e)[:300]}
    for s, c in bad:
        why = refuted_class(s, sw)
        if why:
            known[why] += 1
            continue
        viol.append(dict(
            what="reference file %s, %s (%s): the strict specification decoder accepts these bytes and the reader model %s" % (
                s.get("ref"), s["kind"], s.get("where"), "returns a different value" if c == 3 else "panics"),
            failing_input=dict(file=s.get("ref"), kind=s["kind"], ctx=s["ctx"], bytes=s["bytes"].hex()[:8000]),
            go=go.get(id(s)), code=c,
            replay_cmd="echo '{\"kind\":\"%s\",\"raw\":\"<bytes>\"}' | verifharness c11" % GO_KIND[s["kind"]]))
    known_lines = ["reader-vs-specification: %d structure(s) of reference files in a class refuted by %s" % (n, w) for w, n in sorted(known.items())]
    # model-level open findings (specification-conformant MESSAGES the reader decodes to other values; no bundled file contains one):
    # the witness bytes are parsed by the real Go parser on every run; still reproducing => KNOWN-FINDING line
    for e in vlib.known_findings("C06"):
        rc = e.get("reconfirm")
        if not rc:
            continue
        try:
            r = vlib.run_harness(ctx.harness, "c11", [rc["case"]])[0].get("raw") or {}
        except Exception as ex:
            r = {"c": "harness-error", "v": str(ex)[:200]}
        if r.get("c") == "ok" and r.get("v") == rc["expect"]:
            known_lines.append("%s: %s: the Go parser returns %s without error for the specification-conformant message %s (%s); Coq: %s" % (
                e["id"], e.get("call_site", "")[:80], json.dumps(r.get("v")), rc["case"]["raw"], rc.get("spec"), e.get("coq")))
        else:
            known_lines.append("%s no longer reproduces on the Go parser (now: %s)" % (e["id"], json.dumps(r)[:200]))
    cov = dict(source_switches=sw, reference_files=len(files), structures_available=len(mine), structures_evaluated=len(picked),
               classes=len(seen), codes=dict(sorted(hist.items())),
               accepted_and_agreeing=sum(1 for c in codes if c == 2), accepted_reader_error=sum(1 for c in codes if c == 1),
               strict_rejects=sum(1 for c in codes if c == 0), disagreeing=len(bad),
               rule="message bodies / superblocks of reference files that the Python walker decodes without deviation; "
                    "Coq evaluates strict specification decoder, reader model and agreement (Model/ReaderSpecTie.v rs_code)")
    return dict(violations=viol[:25], known=known_lines, coverage=cov)
