"""C05, whole-file tie: the Coq specification WALKER (coq/theories/Spec/Walk.v, evaluated through Model/WalkTie.v) against the
independent Python walker (tools/h5spec.py) on the complete bytes of files written by the library.

For every sampled file Coq computes `walk_obs` by vm_compute: acceptance (tolerant / strict), the proved boolean `walk_ok`,
the visited extents (start, end, kind), the deviation tags and a summary of the tree.  Gate:
  * same acceptance: the tolerant Coq walk accepts iff the Python walker reports no error (a file that a walker rejects is itself
    the failing input, also when both reject it); the strict walk accepts iff there is no deviation tag at all;
  * same multiset of extents over the kinds both walkers follow (kinds only Python follows are counted as not covered);
  * same set of deviation tags over the tags both know (the others are listed);
  * same tree summary (object header address, path, kind, shape, datatype class/size, layout class, attribute names);
  * walk_ok == Python's sweep (in bounds, below the end-of-file address, pairwise disjoint) over the same extents;
  * the extents the Coq walker visits are in bounds and pairwise disjoint (Coq extents_ok with the end-of-file address left out):
    a file that fails this is a specification violation by the Coq walker alone.
A difference is a violation dict like those of c05spec: `nofail=True` unless one of the walkers rejects the file (then the history
that produced the file is the failing input).

Files the Python walker cannot decode at all (new-style groups: h5spec raises Unsupported) are not part of this comparison: for them the
Coq walker is the JUDGE (coq_judge -> Model/WalkJudgeTie.v walkj_obs; the gate is tools/props/c05.py judge_dense: accepted, walk_ok,
deviation tags listed, tree summary incl. the link lists of the dense groups == the logical oracle).

Use:  t = WalkTie(ctx); t.offer(case, res) for every judged file (res = c05spec.walk / h5spec.walk result); t.finish() ->
(violations, coverage);  run_walk(ctx, files) does the three steps for a list of (case, res).
"""
import collections, concurrent.futures as cf, random, re
import vlib
from props import c05spec

KINDS = {"superblock": 1, "ohdr1": 2, "ohdr1-cont": 3, "ohdr2": 4, "ohdr2-cont": 5, "lheap-hdr": 6, "lheap-data": 7,
         "btree1-group": 8, "snod": 9, "btree1-chunk": 10, "chunk": 11, "contiguous-data": 12, "fheap-hdr": 13,
         "fheap-dblock": 14, "btree2-hdr": 15, "btree2-leaf": 16}
KINDNAME = {v: k for k, v in KINDS.items()}
# structures only the Python walker follows; a file that needs one of SKIP_KINDS to be decoded at all is left out
NOT_FOLLOWED = {"gcol"}
SKIP_KINDS = {"fheap-iblock"}
XTAGS = {"sb-eof-stale": 101, "refcount-too-high": 102, "refcount-too-low": 103, "snod-unsorted": 104, "btree1-group-keys": 105,
         "btree1-node-truncated": 106, "snod-node-truncated": 107, "fheap-offset-excludes-block-prefix": 108,
         "btree2-attr-type-5": 109, "group-dataspace-msg": 111, "dense-link-private-layout": 112, "btree2-link-id-truncated": 113,
         "refcount-ignores-dense-links": 114}
TAGS = dict(c05spec.TAGS, **XTAGS)
TAGNAME = {v: k for k, v in TAGS.items()}
# tags raised only inside structures the Coq walker does not follow / by clauses it does not have
PY_ONLY_TAGS = {"gcol-free-size", "vlen-elem-no-length", "datatype-trailing-bytes", "fheap-iblock-crc32"}
EXTENT_SWEEP_TAGS = {"btree1-node-truncated", "snod-node-truncated", "sb-eof-stale"}
OBJKIND = {"group": 1, "dataset": 2, "linkobject": 3}
LAYOUT = {"compact": 0, "contiguous": 1, "chunked": 2}

HEADER = "From HV Require Import Base.Prelude Model.WalkTie.\n"
CORR = "Spec.Walk.walk (through Model.WalkTie.walk_obs; theorems Props/C05Walk.v) vs tools/h5spec.py Walker on the same file bytes"


def py_summary(res):
    """what the Python walker says about a file, in the vocabulary of walk_obs"""
    ext = sorted((s, e, KINDS[k]) for s, e, k, _ in res["extents"] if k in KINDS)
    other = collections.Counter(k for _, _, k, _ in res["extents"] if k not in KINDS)
    tags = {t for t, _, _ in res["deviations"]}
    tree = []
    for a, nd in res["tree"]["objects"].items():
        if "error" in nd or nd.get("kind") not in OBJKIND:
            continue
        ds = nd["kind"] == "dataset"
        tree.append((a, nd["path"].encode("utf-8", "surrogateescape"), OBJKIND[nd["kind"]], tuple(nd["dims"]) if ds else (),
                     nd["dt"]["cls"] if ds else 0, nd["dt"]["size"] if ds else 0, LAYOUT[nd["layout"]] if ds else 0,
                     tuple(sorted(bytes(n) for n in nd["attrs"]))))
    return dict(accept=not res["errors"], errors=list(res["errors"][:3]), extents=ext, other=other, tags=tags, tree=sorted(tree), eof=res["sb"].get("eof", 0),
                version=res["sb"].get("version"), size=res["size"])


def parse_obs(l):
    """walk_obs -> dict (see Model/WalkTie.v)"""
    code = l[0]
    d = dict(accept=bool(code & 1), strict=bool(code & 2), walk_ok=bool(code & 4), disjoint=bool(code & 8))
    if not d["accept"]:
        return d
    p = [1]
    def take():
        v = l[p[0]]
        p[0] += 1
        return v
    def take_bytes():
        n = take()
        b = bytes(l[p[0]:p[0] + n])
        p[0] += n
        return b
    d["version"], d["eof"] = take(), take()
    d["extents"] = sorted((take(), take(), take()) for _ in range(take()))
    d["tags"] = {take() for _ in range(take())}
    tree = []
    for _ in range(take()):
        addr, kind, cls, size, lay = take(), take(), take(), take(), take()
        dims = tuple(take() for _ in range(take()))
        path = take_bytes()
        attrs = tuple(sorted(take_bytes() for _ in range(take())))
        tree.append((addr, path, kind, dims, cls, size, lay, attrs))
    d["tree"] = sorted(tree)
    if p[0] != len(l):
        raise RuntimeError("walk_obs: %d numbers left over" % (len(l) - p[0]))
    return d


def parse_nested(out, label):
    """`label = [[a; b]; [c]]` printed by Print -> list of lists of int"""
    m = re.search(re.escape(label) + r"\s*=\s*", out)
    if not m:
        raise RuntimeError("cannot find %s in coqc output:\n%s" % (label, out[-2000:]))
    i = m.end()
    j = out.index("\n     :", i) if "\n     :" in out[i:] else len(out)
    body = re.sub(r"%[A-Za-z]+", "", out[i:j])
    return [[int(x) for x in re.findall(r"\d+", part)] for part in re.findall(r"\[([^\[\]]*)\]", body)]


def _eval_part(args):
    k, datas = args
    v = [HEADER]
    lit = lambda d: "[" + "; ".join('"%s"%%string' % d[i:i + 1500].hex() for i in range(0, len(d), 1500)) + "]"
    v.append("Definition fs : list (list string) := [%s].\n" % ";\n".join(lit(d) for d in datas))
    v.append("Definition r := Eval vm_compute in map walk_obs_hex fs.\nPrint r.\n")
    out = vlib.coq_eval("".join(v), "c05walk_%d" % k)
    got = parse_nested(out, "r")
    if len(got) != len(datas):
        raise RuntimeError("c05walk: %d results for %d files:\n%s" % (len(got), len(datas), out[-1500:]))
    return got


def coq_walk(datas, workers=12, shard_bytes=120000):
    """-> parsed walk_obs per file"""
    if not datas:
        return []
    order = sorted(range(len(datas)), key=lambda i: -len(datas[i]))
    total = sum(len(d) for d in datas)
    nsh = max(1, min(len(datas), max(workers, -(-total // shard_bytes))))
    shards, load = [[] for _ in range(nsh)], [0] * nsh
    for i in order:                                   # longest first, always into the lightest shard
        s = min(range(nsh), key=lambda j: load[j])
        shards[s].append(i)
        load[s] += len(datas[i])
    shards = [sh for sh in shards if sh]
    with cf.ThreadPoolExecutor(workers) as ex:
        res = list(ex.map(_eval_part, [(k, [datas[i] for i in sh]) for k, sh in enumerate(shards)]))
    out = [None] * len(datas)
    for sh, r in zip(shards, res):
        for i, l in zip(sh, r):
            out[i] = parse_obs(l)
    return out


# ----------------------------------------------------------------------------- the Coq walker as the judge (files tools/h5spec.py cannot decode)

JHEADER = "From HV Require Import Base.Prelude Model.RefWalkTie Model.WalkJudgeTie.\n"


def parse_judge(l):
    """walkj_obs -> dict (see Model/WalkJudgeTie.v)"""
    if l[0] == 0:
        return dict(accept=False, reason=l[1])
    code = l[0]
    d = dict(accept=True, walk_ok=bool(code & 4), disjoint=bool(code & 8))
    p = [1]
    def take():
        v = l[p[0]]
        p[0] += 1
        return v
    def take_bytes():
        n = take()
        b = bytes(l[p[0]:p[0] + n])
        p[0] += n
        return b
    d["version"], d["eof"] = take(), take()
    d["extents"] = sorted((take(), take(), take()) for _ in range(take()))
    d["tags"] = {take() for _ in range(take())}
    d["tree"] = []
    for _ in range(take()):
        o = dict(addr=take(), kind=take(), cls=take(), size=take(), bits=take(), space=take(), layout=take())
        o["dims"] = [take() for _ in range(take())]
        o["path"] = take_bytes()
        o["attrs"] = [take_bytes() for _ in range(take())]
        o["links"] = [(take(), take_bytes()) for _ in range(take())]
        o["targets"] = [take() for _ in range(take())]
        d["tree"].append(o)
    if p[0] != len(l):
        raise RuntimeError("walkj_obs: %d numbers left over" % (len(l) - p[0]))
    return d


def _judge_part(args):
    from props import c06walk
    k, datas = args
    v = [JHEADER, "Open Scope string_scope.\nOpen Scope N_scope.\n"]
    v.append("Definition fs : list (list piece) := [%s].\n" % ";\n".join(c06walk.pieces_literal(d)[0] for d in datas))
    v.append("Definition r := Eval vm_compute in map walkj_pieces fs.\nPrint r.\n")
    out = vlib.coq_eval("".join(v), "c05judge_%d" % k)
    got = parse_nested(out, "r")
    if len(got) != len(datas):
        raise RuntimeError("c05judge: %d results for %d files:\n%s" % (len(got), len(datas), out[-1500:]))
    return got


def coq_judge(datas, workers=8):
    """tolerant Coq walk of complete files (one coqc process per file: a dense group's heap block alone is 512 KiB) -> parsed walkj_obs"""
    if not datas:
        return []
    with cf.ThreadPoolExecutor(workers) as ex:
        res = list(ex.map(_judge_part, [(k, [d]) for k, d in enumerate(datas)]))
    return [parse_judge(r[0]) for r in res]


def py_extents_ok(fs, eof, l):
    s = sorted((a, b) for a, b, _ in l)
    if any(not (a < b <= fs and b <= eof) for a, b in s):
        return False
    return all(x[1] <= y[0] for x, y in zip(s, s[1:]))


def compare(py, cq):
    """-> list of (what, spec_violation) differences"""
    out = []
    if py["accept"] != cq["accept"]:
        out.append(("acceptance: the Python walker %s the file, the Coq walker %s it" % (
            "accepts" if py["accept"] else "rejects", "accepts" if cq["accept"] else "rejects"), True))
        return out
    if not py["accept"]:
        out.append(("rejected: both walkers reject the file; Python: %s" % (py["errors"][0][:300] if py["errors"] else "?"), True))
        return out
    if (py["version"], py["eof"]) != (cq["version"], cq["eof"]):
        out.append(("superblock: version/end-of-file address %s (Python) vs %s (Coq)" % ((py["version"], py["eof"]), (cq["version"], cq["eof"])), False))
    if py["extents"] != cq["extents"]:
        a, b = collections.Counter(py["extents"]), collections.Counter(cq["extents"])
        fmt = lambda c: ", ".join("%s[%d,%d)" % (KINDNAME.get(k, k), s, e) for (s, e, k) in sorted(c.elements())[:4])
        out.append(("extents: only Python visits {%s}; only Coq visits {%s}" % (fmt(a - b), fmt(b - a)), False))
    comparable = {t for t in py["tags"] if t in TAGS and t not in PY_ONLY_TAGS}
    ctags = set(cq["tags"])
    if py["other"]:
        # the clauses that sweep over ALL extents see structures only Python follows (a global heap collection inside the full-capacity
        # region of a node, beyond the end-of-file address): not comparable on such a file
        comparable -= EXTENT_SWEEP_TAGS
        ctags -= {TAGS[t] for t in EXTENT_SWEEP_TAGS}
    pt = {TAGS[t] for t in comparable}
    cq = dict(cq, tags=ctags)
    if pt != cq["tags"]:
        out.append(("deviation tags: only Python %s; only Coq %s" % (sorted(TAGNAME[t] for t in pt - cq["tags"]),
                                                                   sorted(TAGNAME.get(t, t) for t in cq["tags"] - pt)), False))
    if py["tree"] != cq["tree"]:
        a, b = set(py["tree"]), set(cq["tree"])
        out.append(("tree summary (addr, path, kind, dims, datatype class, size, layout, attribute names): only Python %s; only Coq %s" % (
            sorted(a - b)[:2], sorted(b - a)[:2]), False))
    if not py["other"] and cq["strict"] != (not comparable):
        out.append(("strict walk %s although the Python walker reports the deviation tags %s" % (
            "accepts" if cq["strict"] else "rejects", sorted(py["tags"])), False))
    want_ok = py_extents_ok(py["size"], py["eof"], py["extents"])
    if not cq["disjoint"]:
        # the file itself is not well-formed according to the Coq walker (theorem C05_extents_ok_complete: some extent leaves the
        # file or two extents overlap)
        s = sorted(cq["extents"])
        bad = [(a, b) for a, b in zip(s, s[1:]) if b[0] < a[1]][:2] or [x for x in s if not (x[0] < x[1] <= py["size"])][:2]
        out.append(("overlap/bounds: the structures the Coq walker visits are not pairwise disjoint inside the file: %s" % (
            ["%s[%d,%d)" % (KINDNAME.get(x[2], x[2]), x[0], x[1]) for pair in bad for x in (pair if isinstance(pair[0], tuple) else (pair,))],), True))
    if py["extents"] == cq["extents"] and cq["walk_ok"] != want_ok:
        out.append(("walk_ok = %s but the Python sweep over the same extents says %s" % (cq["walk_ok"], want_ok), False))
    return out


class WalkTie:
    def __init__(self, ctx):
        self.ctx = ctx
        self.rng = random.Random((getattr(ctx, "seed", 0) or 0) ^ 0xC05)     # private: the other ties' samples do not move
        q = ctx.tier == "quick"
        self.small = 16000                             # files up to this size: the bulk of the sample
        self.maxsize = 150000 if q else 400000         # bytes per file handed to Coq (dense attribute storage starts at about 70 kB)
        self.budget = 300000 if q else 1500000         # bytes in total, small files   (Coq reads about 10 kB of literals per
        self.budget_large = 250000 if q else 2500000   # bytes in total, files above `small`      second and process: 12 processes)
        self.used_large = 0
        self.per_class = 1 if q else 6
        self.kept, self.classes = [], collections.Counter()
        self.used = 0
        self.offered = self.too_large = self.skipped_kinds = self.over_budget = 0

    def offer(self, case, res):
        if res is None:
            return
        self.offered += 1
        kinds = {e[2] for e in res["extents"]}
        if kinds & SKIP_KINDS:
            self.skipped_kinds += 1
            return
        if res["size"] > self.maxsize:
            self.too_large += 1
            return
        key = (res["sb"].get("version"), frozenset(kinds), frozenset(t for t, _, _ in res["deviations"]), bool(res["errors"]))
        extra = self.classes[key] >= self.per_class
        if extra and self.rng.random() > 0.04:
            return
        large = res["size"] > self.small
        if (self.used_large if large else self.used) + res["size"] > (self.budget_large if large else self.budget):
            self.over_budget += 1
            return
        self.classes[key] += 1
        if large:
            self.used_large += res["size"]
        else:
            self.used += res["size"]
        self.kept.append((case, py_summary(res), bytes(res["data"])))

    def finish(self):
        import time
        t0 = time.time()
        viol = []
        cqs = coq_walk([d for _, _, d in self.kept])
        kinds, tags, notcov, pyonly = collections.Counter(), collections.Counter(), collections.Counter(), collections.Counter()
        nobj = nacc = nstrict = nok = ndis = 0
        seen = set()
        for (case, py, data), cq in zip(self.kept, cqs):
            for _, _, k in py["extents"]:
                kinds[KINDNAME[k]] += 1
            notcov.update(py["other"])
            for t in py["tags"]:
                (tags if t in TAGS and t not in PY_ONLY_TAGS else pyonly)[t] += 1
            nobj += len(py["tree"])
            nacc += bool(cq["accept"]); nstrict += bool(cq["strict"]); nok += bool(cq["walk_ok"]); ndis += bool(cq["disjoint"])
            for what, specv in compare(py, cq):
                key = what.split(":")[0]
                if key in seen or len(viol) >= 6:
                    continue
                seen.add(key)
                inp = {k: case[k] for k in ("sb", "ops", "datasets") if k in case}
                d = dict(what="whole-file walk (Coq walker Spec/Walk.v vs Python walker) of a file written by the library (%d bytes): %s" % (len(data), what),
                         python=dict(accept=py["accept"], extents=len(py["extents"]), tags=sorted(py["tags"])),
                         coq=dict(accept=cq["accept"], extents=len(cq.get("extents", [])), tags=sorted(TAGNAME.get(t, t) for t in cq.get("tags", []))))
                if specv:
                    d["failing_input"] = inp
                else:
                    d.update(case=inp, nofail=True, correspondence=CORR)
                viol.append(d)
        cov = dict(walk_files_offered=self.offered, walk_files_checked=len(self.kept), walk_file_classes=len(self.classes), walk_bytes=self.used + self.used_large,
                   walk_files_too_large=self.too_large, walk_files_over_budget=self.over_budget, walk_files_skipped_unsupported_kinds=self.skipped_kinds,
                   walk_extents_compared=dict(kinds), walk_extents_not_covered=dict(notcov), walk_tags_compared=dict(tags),
                   walk_tags_python_only=dict(pyonly), walk_objects_compared=nobj, walk_tolerant_accept=nacc, walk_strict_accept=nstrict, walk_ok_true=nok, walk_disjoint_true=ndis,
                   walk_sampling="files of at most %d bytes: %d per distinct (superblock version, set of structure kinds, set of deviation tags) class, "
                                 "plus 4%% of the others, up to %d bytes in total for files of at most %d bytes and %d bytes for the larger ones" % (
                                     self.maxsize, self.per_class, self.budget, self.small, self.budget_large),
                   walk_not_followed="global heap collections (variable-length elements), indirect fractal heap blocks, filtered chunk contents",
                   walk_wall_seconds=round(time.time() - t0, 1))
        return viol, cov


def run_walk(ctx, files):
    """files: iterable of (case, res) with res = the Python walker's result dict (c05spec.walk / h5spec.walk) -> (violations, coverage)"""
    t = WalkTie(ctx)
    for case, res in files:
        t.offer(case, res)
    return t.finish()
