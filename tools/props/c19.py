"""C19 - rebalancing options never change content; the automatic selector obeys its constraints.

Part B (selector).  Random observation sequences under a scripted clock (forward, backward, zero
instant, jumps beyond the int64 Duration range) and constraint settings are run through
ConfigSelector.SelectConfig (harness c19sel; built-in strategy and a scripted SelectionStrategy) and
through the whole pipeline SmartRebalancer.Evaluate (harness c19eval: WorkloadDetector feature
extraction + classification + selector on one clock).  Gate: Go decisions == Coq model decisions
(mode, confidence bits, config kind, strategy proposal); the specification predicates of
Model/Selector.v evaluated by Coq on the Go answers; and the same four invariants evaluated by an
independent Python oracle on the Go answers.

Part A (content).  The same random attribute histories on one dataset are written through the public
API under the default configuration and under none / immediate / lazy / incremental / smart / toggled /
run-time-enabled (EnableLazyRebalancing early in the session, directed) configurations (harness c19cfg),
closed, reopened, dumped; part of the histories contain session boundaries (Close + OpenForWrite with the
configuration's WriteOptions + OpenDataset: cached-header attribute paths).  Coq side: Props/C19.v
(record-list model) and Props/C19Compose.v (composed byte-level model, every history x configuration list x wiring).  Gate: per-operation results and dumps are
identical across configurations and equal a Python dict (last write wins, delete removes).  The three
B-tree delete entry points the configuration selects between are compared record by record
(harness c19del) against "remove the first record with an equal hash".

Which selector code is expected: the repaired one (notes/fixes/selector-zero-time-stability.patch),
unless KNOWN_FINDINGS.json lists C19-zero-instant-forgets-stability as open - then the code as found is
expected and the finding is reported as KNOWN-FINDING when re-confirmed.
"""
import math, os, struct
import vlib

TRUSTED = ["C19: float64 comparisons/additions of the selector are modelled with Coq's Floats.SpecFloat (IEEE-754 binary64, "
           "round to nearest even); time.Time as integer nanoseconds with Time.Sub saturating at the int64 range",
           "C19 part A: the Coq theorem is over a record-list model of the three delete entry points (name hash abstract); "
           "the file-level claim is carried by the differential runs through the public API"]
ASSUMPTIONS = ["Go float64 arithmetic is IEEE-754 binary64 on this platform",
               "clock readings supplied to the selector lie within the range time.Unix represents without internal overflow"]

KF_ZERO = "C19-zero-instant-forgets-stability"
ZERO = -62135596800 * 10**9
I64MIN, I64MAX = -(1 << 63), (1 << 63) - 1


def bits(x):
    return struct.unpack("<Q", struct.pack("<d", x))[0]


def flt(b):
    return struct.unpack("<d", struct.pack("<Q", b))[0]


NAN1, NAN2 = 0x7FF8000000000001, 0xFFF8000000000000
ULP = lambda b, k=1: b + k
MINCONF_POOL = [bits(0.0), bits(0.3), bits(0.65), bits(0.75), bits(0.75) + 1, bits(1.0)]
MINCONF_RARE = [bits(0.7), bits(0.7) + 1, NAN1, bits(-0.0), bits(2.0), bits(math.inf), bits(0.5), bits(0.9)]
RATIO_POOL = [bits(v) for v in (0.0, 0.05, 0.6, 0.2, 0.5, 0.7, 1.0, 0.04, 0.61, 0.3, 0.9)] + \
             [bits(0.05) - 1, bits(0.05) + 1, bits(0.6) - 1, bits(0.6) + 1, bits(-0.0), NAN1, bits(math.inf), bits(-1.0)]
CONF_POOL = [bits(v) for v in (0.0, 0.3, 0.65, 0.7, 0.75, 1.0, 0.5, 0.9, 2.0, -0.1, -0.0, math.inf, -math.inf)] + \
            [bits(0.75) + 1, bits(0.75) - 1, bits(1.0) + 1, bits(1.0) - 1, NAN1, NAN2, 1, 0x7FF0000000000001]
SAMPLES_POOL = [-1, 0, 1, 9, 10, 11, 49, 50, 99, 100, 999, 1000, 1001, 5, 500, 1 << 40]
MB = 1024 * 1024
SIZE_POOL = [0, 1, 100 * MB - 1, 100 * MB, 500 * MB - 1, 500 * MB, 500 * MB + 1, 1024 * MB, (1 << 64) - 1, 600000000]
ALLOWED_POOL = [[], [], ["lazy"], ["incremental"], ["none"], ["lazy", "incremental"], ["none", "lazy"],
                ["none", "lazy", "incremental"], ["weird"], [""], ["incremental", "incremental"]]
STAB_POOL = [0, 1, 10**9, 30 * 10**9, 30 * 10**9, 5 * 10**9, I64MAX, -1, I64MIN, 3600 * 10**9, 1000]
MODE_POOL = ["none", "lazy", "incremental", "weird", ""]


# ------------------------------------------------------------------ part B generators
def gen_clock(rng, n, stab):
    scale = stab if 0 < stab < 10**15 else rng.choice([10**9, 30 * 10**9, 1000])
    t = rng.choice([0, 1735689600 * 10**9, 10**18, -10**18, 12345, ZERO, ZERO + 5, 10**9 * 10**9])
    out = []
    mono = rng.random() < 0.5
    for _ in range(n):
        r = rng.random()
        d = rng.choice([0, 1, scale - 1, scale, scale + 1, scale // 2, 2 * scale, rng.randrange(0, 2 * scale + 1),
                        rng.randrange(0, max(2, scale // 10))])
        if not mono:
            if r < 0.12:
                d = -d
            elif r < 0.14:
                d = rng.choice([1, -1]) * rng.choice([I64MAX, I64MAX + 1, 1 << 64, I64MAX - 1])
            elif r < 0.17:
                out.append(ZERO)
                continue
        elif r < 0.02:
            d = rng.choice([I64MAX, I64MAX + 1])
        t = max(min(t + d, 1 << 67), -(1 << 67))
        out.append(t)
    return out


def gen_sel_case(rng, nobs):
    c = {}
    script = rng.random() < 0.3
    c["min_conf"] = rng.choice(MINCONF_POOL) if rng.random() < 0.8 else rng.choice(MINCONF_RARE)
    c["min_stab"] = rng.choice(STAB_POOL)
    c["allowed"] = list(rng.choice(ALLOWED_POOL))
    clock = gen_clock(rng, nobs, c["min_stab"])
    obs = []
    if script:
        c["strategy"] = "script"
        c["table"] = [rng.choice(MODE_POOL) for _ in range(rng.randrange(1, 6))]
        # a strategy that keeps its word (all answers in [0,1]) in half of the scripted cases
        honest = rng.random() < 0.5
        for i in range(nobs):
            cb = rng.choice(CONF_POOL) if rng.random() < 0.7 else bits(rng.random())
            if honest and not (0.0 <= flt(cb) <= 1.0):
                cb = bits(rng.random())
            obs.append(dict(**{"del": cb}, write=0, read=0, burst=False, size=rng.randrange(0, 4), samples=1,
                            w=rng.randrange(-1, len(c["table"]) + 1)))
    else:
        c["strategy"] = "rule"
        c["table"] = []
        sticky_w = rng.randrange(0, 6)
        for i in range(nobs):
            if rng.random() < 0.4:
                sticky_w = rng.choice([0, 1, 2, 3, 4, 5, 5, 2, 3, 6, -1, 1 << 31])
            rb = lambda: rng.choice(RATIO_POOL) if rng.random() < 0.6 else bits(rng.random())
            obs.append(dict(**{"del": rb()}, write=rb(), read=rb(), burst=rng.random() < 0.4,
                            size=rng.choice(SIZE_POOL) if rng.random() < 0.8 else rng.randrange(0, 1 << 33),
                            samples=rng.choice(SAMPLES_POOL) if rng.random() < 0.8 else rng.randrange(0, 1200), w=sticky_w))
    for o, t in zip(obs, clock):
        o["sec"], o["nsec"] = t // 10**9, t % 10**9
        o["_now"] = t
    c["obs"] = obs
    return c


def directed_sel_cases():
    """Witnesses of the Coq refutation lemmas and boundary cases; run first on every invocation."""
    f = lambda d, burst, size, samples, w, now: dict(**{"del": d}, write=0, read=0, burst=burst, size=size, samples=samples, w=w,
                                                    sec=now // 10**9, nsec=now % 10**9, _now=now)
    S = 10**9
    base = dict(strategy="rule", table=[], min_conf=bits(0.7), min_stab=30 * S, allowed=[])
    cases = []
    # C19_stability_pairwise_refuted witness
    cases.append(dict(base, obs=[f(bits(0.9), True, 0, 1000, 1, 1000 * S), f(0, False, 600000000, 1000, 2, 1020 * S),
                                 f(0, False, 600000000, 1000, 2, 1031 * S)], _tag="pairwise"))
    # C19_stability_as_found_refuted witness (zero instant)
    cases.append(dict(base, obs=[f(bits(0.9), True, 0, 1000, 1, ZERO), f(0, False, 600000000, 1000, 2, ZERO + S)], _tag="zero"))
    # all readings are the zero instant (a zero-valued mock clock)
    cases.append(dict(base, obs=[f(bits(0.9), True, 0, 1000, 1, ZERO), f(0, False, 600000000, 1000, 2, ZERO),
                                 f(bits(0.9), True, 0, 1000, 1, ZERO)], _tag="zero"))
    # NaN confidence from a custom strategy
    cases.append(dict(base, strategy="script", table=["none", "lazy"],
                      obs=[dict(f(NAN1, False, 1, 1, 1, 5 * S))], _tag="nan"))
    # 0.65 + 0.1 = 0.75 against 0.75 and the next double
    for mc in (bits(0.75), bits(0.75) + 1):
        cases.append(dict(base, min_conf=mc, min_stab=0, obs=[f(0, False, 0, 50, 4, S)], _tag="ulp"))
    # backwards clock, saturating differences
    cases.append(dict(base, obs=[f(bits(0.9), True, 0, 1000, 1, 1000 * S), f(0, False, 600000000, 1000, 2, 900 * S),
                                 f(0, False, 600000000, 1000, 2, 1000 * S + (1 << 64)),
                                 f(bits(0.9), True, 0, 1000, 1, 1000 * S - (1 << 64))], _tag="clock"))
    cases.append(dict(base, min_stab=I64MIN, obs=[f(bits(0.9), True, 0, 1000, 1, 1000 * S), f(0, False, 600000000, 1000, 2, -(1 << 66))],
                      _tag="clock"))
    return cases


def coq_str(s):
    return '"%s"%%string' % s.replace('"', '""')


def coq_sel_case(c, go, patched, zi, mi):
    """zi: value -> pool index, mi: mode -> table index (see Model/SelectorTie.v)."""
    prev, obs = 0, []
    for o in c["obs"]:
        obs.append("(%d,%s,%d,%d,%d,%d)" % (zi(o["del"]), "true" if o["burst"] else "false", zi(o["size"]), zi(o["samples"]), zi(o["w"]),
                                          zi(o["_now"] - prev)))
        prev = o["_now"]
    gos = ";".join("(%d,%d,%d,%d,%d)" % (mi(d["mode"]), zi(d["conf"]), d["cfg"], mi(d["raw_mode"]), zi(d["raw_conf"])) for d in go)
    table = "None" if c["strategy"] == "rule" else "(Some [%s])" % ";".join("%d" % mi(m) for m in c["table"])
    return "(%s,%s,(%d,%d,[%s]),[%s],[%s])" % (
        "true" if patched else "false", table, zi(c["min_conf"]), zi(c["min_stab"]), ";".join("%d" % mi(m) for m in c["allowed"]),
        ";".join(obs), gos)


def pooled_file(header, render_cases, body):
    """render_cases(zi, mi) -> list of Coq case terms.  Numbers and modes are collected in a first pass, indexed by
    decreasing frequency, and rendered in a second pass.  body: text after the definitions of P, M, CS."""
    from collections import Counter
    zc, mc = Counter(), Counter()

    def z1(v):
        zc[v] += 1
        return 0

    def m1(v):
        mc[v] += 1
        return 0
    render_cases(z1, m1)
    zs = [v for v, _ in zc.most_common()]
    ms = [v for v, _ in mc.most_common()]
    zmap = {v: i for i, v in enumerate(zs)}
    mmap = {v: i for i, v in enumerate(ms)}
    terms = render_cases(zmap.__getitem__, mmap.__getitem__)
    return (header + "Definition P : list Z := [%s].\n" % ";".join("(%d)%%Z" % v for v in zs)
            + "Definition M : list string := [%s].\n" % ";".join(coq_str(m) for m in ms)
            + "Definition CS : list tcase := [\n%s].\n" % ";\n".join(terms) + body)


def coq_parallel(jobs, workers=None):
    """jobs: list of (vtext, name).  Runs vlib.coq_eval on each, a few at a time; returns the outputs in order."""
    import concurrent.futures as cf
    workers = workers or max(1, min(8, (os.cpu_count() or 2) // 2))
    with cf.ThreadPoolExecutor(workers) as ex:
        return list(ex.map(lambda j: vlib.coq_eval(j[0], j[1], timeout=2400), jobs))


SEL_HDR = "From HV Require Import Base.Prelude Model.Selector Model.SelectorTie.\nOpen Scope N_scope.\n"


# ------------------------------------------------------------------ part B independent oracle
def sat(d):
    return max(I64MIN, min(I64MAX, d))


def oracle_sel(c, go, strict):
    """Evaluate the four invariants on the Go answers. Returns (list of violation strings, stats dict)."""
    bad = []
    minc, stab, allowed = flt(c["min_conf"]), c["min_stab"], c["allowed"]
    is_allowed = lambda m: (not allowed) or (m in allowed)
    T = None          # clock reading of the latest recorded decision
    pm = None         # mode of the latest gate-passing decision
    C = None          # clock reading of the latest mode change among gate-passing decisions
    nows = [o["_now"] for o in c["obs"]]
    mono = all(a <= b for a, b in zip(nows, nows[1:])) and (strict or ZERO not in nows)
    honest = all(0.0 <= flt(d["raw_conf"]) <= 1.0 for d in go)
    st = dict(passing=0, held=0, changes=0, lowconf=0, notallowed=0, zero_forgets=0, pairwise=0)
    prevT = None      # clock reading of the previous gate-passing decision (recorded or held)
    for i, (o, d) in enumerate(zip(c["obs"], go)):
        now, mode, conf = o["_now"], d["mode"], flt(d["conf"])
        if not (mode == "none" or is_allowed(mode)):
            bad.append("decision %d returns mode %r which is not in AllowedModes %r" % (i, mode, allowed))
        if conf < minc and mode != "none":
            bad.append("decision %d has confidence %r < MinConfidence %r but mode %r" % (i, conf, minc, mode))
        if d["conf"] != d["raw_conf"]:
            bad.append("decision %d reports confidence bits %#x, the strategy answered %#x" % (i, d["conf"], d["raw_conf"]))
        if (c["strategy"] == "rule" or honest) and not (0.0 <= conf <= 1.0):
            bad.append("decision %d reports confidence %r outside [0,1]" % (i, conf))
        rconf, rmode = flt(d["raw_conf"]), d["raw_mode"]
        if rconf < minc:
            st["lowconf"] += 1
        elif not is_allowed(rmode):
            st["notallowed"] += 1
        passes = (not (rconf < minc)) and is_allowed(rmode)
        if not passes:
            continue
        st["passing"] += 1
        if T is not None and sat(now - T) < stab and mode != pm:
            if T == ZERO and not strict:
                st["zero_forgets"] += 1
            elif T == ZERO:
                bad.append("ZERO-INSTANT: decision %d changes mode %r -> %r although now - lastDecisionTime = %d ns < MinStabilityPeriod %d ns "
                           "(the recorded decision was taken while the clock read the zero time.Time)" % (i, pm, mode, sat(now - T), stab))
            else:
                bad.append("decision %d changes mode %r -> %r %d ns after the recorded decision, MinStabilityPeriod is %d ns" % (
                    i, pm, mode, sat(now - T), stab))
        changed = pm is None or pm != mode
        # diagnostic, not a gate: the literal pairwise reading (C19_stability_pairwise_refuted) - the mode changes less
        # than the period after the previous gate-passing decision because that one was held and did not restart the period
        if prevT is not None and pm != mode and sat(now - prevT) < stab:
            st["pairwise"] += 1
        prevT = now
        if changed:
            st["changes"] += 1
            if mono and C is not None and sat(now - C) < stab:
                bad.append("decision %d changes the mode %d ns after the previous change (monotone clock), MinStabilityPeriod is %d ns" % (
                    i, sat(now - C), stab))
            C = now
        if mode == rmode:
            T = now
        else:
            st["held"] += 1
        pm = mode
    return bad, st


def situation(c, o, d, prev_rec):
    """A coarse signature of what a decision exercised (for the distinct_nontrivial measure)."""
    dt = None if prev_rec is None else o["_now"] - prev_rec
    rel = "first" if dt is None else ("sat" if abs(dt) > I64MAX else "neg" if dt < 0 else "lt" if dt < c["min_stab"] else "eq" if dt == c["min_stab"] else "ge")
    return (c["strategy"], d["kind"], d["mode"], d["raw_mode"], len(c["allowed"]), c["min_conf"], d["conf"], rel, o["_now"] == ZERO)


# ------------------------------------------------------------------ part B: SmartRebalancer.Evaluate pipeline
def gen_eval_case(rng, nsteps):
    S = 10**9
    window = rng.choice([S, 10 * S, 300 * S, 60 * S, 5])
    c = dict(min_conf=rng.choice(MINCONF_POOL + [bits(0.7)] * 3), min_stab=rng.choice([0, S, 30 * S, window // 2, 5 * S]),
             allowed=list(rng.choice(ALLOWED_POOL[:8])), window=window, min_samples=rng.choice([1, 2, 5, 10, 10, 50]),
             capacity=rng.choice([1, 3, 16, 64, 200, 2000]))
    t = rng.choice([0, 1735689600 * S, 12345, ZERO + 1])
    steps = []
    phase = rng.choice(["del", "write", "read", "mix", "append"])
    size = rng.choice(SIZE_POOL[:8] + [10 * MB])
    for _ in range(nsteps):
        r = rng.random()
        if r < 0.06:
            phase = rng.choice(["del", "write", "read", "mix", "append"])
        if r < 0.05:
            size = rng.choice(SIZE_POOL[:8] + [10 * MB])
        d = rng.choice([0, 1, window // 1000, window // 100, window // 50, window // 5, window // 5 - 1, window // 5 + 1, window // 2])
        if rng.random() < 0.03:
            d = rng.choice([window, window + 1, 2 * window, -window // 10, -1])
        t += d
        if rng.random() < 0.08:
            steps.append(dict(op=9, size=0, _now=t))
            continue
        w = {"del": [2] * 8 + [1, 0], "write": [1] * 8 + [2, 0], "read": [0] * 8 + [1, 2], "mix": [0, 0, 1, 1, 2], "append": [1] * 9 + [0]}[phase]
        steps.append(dict(op=rng.choice(w) if rng.random() < 0.97 else rng.choice([3, 7, -1]), size=size, _now=t))
    steps.append(dict(op=9, size=0, _now=t + rng.choice([0, 1, window // 3])))
    for s in steps:
        s["sec"], s["nsec"] = s["_now"] // 10**9, s["_now"] % 10**9
    c["steps"] = steps
    return c


def coq_eval_case(c, go, patched):
    steps = ";".join("((%d)%%Z,%d,(%d)%%Z)" % (s["op"], s["size"], s["_now"]) for s in c["steps"])
    gos = ";".join("(%s,%d,%d,((%d)%%Z,%d,%d,%d,%s,%d,(%d)%%Z))" % (
        coq_str(d["mode"]), d["conf"], d["cfg"], d["w"], d["del"], d["write"], d["read"], "true" if d["burst"] else "false", d["size"], d["samples"])
        for d in go)
    return "(%s,(%d,(%d)%%Z,[%s]),((%d)%%Z,(%d)%%Z,(%d)%%Z),[%s],[%s])" % (
        "true" if patched else "false", c["min_conf"], c["min_stab"], ";".join(coq_str(m) for m in c["allowed"]),
        c["window"], c["min_samples"], c["capacity"], steps, gos)


# ------------------------------------------------------------------ part A generators
NAMES = ["a", "b", "c", "d", "e", "f", "g", "h", "i", "j", "k", "l", "attr_long_name_0123456789", "x1", "x2", "units"]


def gen_value(rng):
    t = rng.choice(["i32", "i32", "f64", "str", "i32s", "f64s"])
    if t == "i32":
        return dict(type=t, i=rng.choice([0, 1, -1, 2**31 - 1, -2**31, rng.randrange(-1000, 1000)]))
    if t == "f64":
        return dict(type=t, f=rng.choice([bits(0.0), bits(1.5), bits(-2.25), bits(1e300), bits(rng.random())]))
    if t == "str":
        n = rng.choice([1, 2, 5, 8, 13, 20, 40])
        return dict(type=t, s="".join(rng.choice("abcdefghijklmnopqrstuvwxyz0123456789_") for _ in range(n)))
    if t == "i32s":
        return dict(type=t, **{"is": [rng.randrange(-50, 50) for _ in range(rng.randrange(1, 6))]})
    return dict(type=t, fs=[bits(rng.choice([0.0, 1.0, -1.0, 0.5, rng.random()])) for _ in range(rng.randrange(1, 5))])


def gen_history(rng):
    n = rng.randrange(20, 121)
    live, ops = set(), []
    target = rng.choice([6, 8, 8, 9, 10, 12])
    for _ in range(n):
        r = rng.random()
        if (len(live) < target and r < 0.75) or not live or r < 0.2:
            cand = [x for x in NAMES if x not in live]
            if r < 0.08 and live:     # overwrite an existing attribute
                name = rng.choice(sorted(live))
            elif cand:
                name = rng.choice(cand)
            else:
                name = rng.choice(NAMES)
            ops.append(dict(op="set", name=name, **gen_value(rng)))
            live.add(name)
        elif r < 0.93:
            name = rng.choice(sorted(live))
            ops.append(dict(op="del", name=name))
            live.discard(name)
        else:
            ops.append(dict(op="del", name=rng.choice([x for x in NAMES if x not in live] or ["zz"])))
    return ops


def with_reopens(rng, ops):
    """Session boundaries as part of the history (the same under every configuration): Close + OpenForWrite +
    OpenDataset at 1-3 places; the calls after the first one go through the cached-header attribute paths and the
    WriteOptions of the configuration are given again to OpenForWrite.  Added with Props/C19Compose.v (the model's
    'every call loads both structures from the file' is what makes a session boundary invisible)."""
    ops = list(ops)
    for _ in range(rng.randrange(1, 4)):
        ops.insert(rng.randrange(1, len(ops) + 1), dict(op="reopen"))
    return ops


def gen_big_history(rng):
    """One object with many dense attributes (the name index leaf stays above half full after a delete: the lazy
    delete path then defers its batch), a few deletes / upserts at the end.  Added after seeded change C19-b."""
    target = rng.choice([186, 187, 200, 230, 260, 371, 372])
    names = ["n%03d" % i for i in range(target)]
    ops = [dict(op="set", name=nm, type="i32", i=i) for i, nm in enumerate(names)]
    live = list(names)
    for _ in range(rng.randrange(1, 6)):
        r = rng.random()
        if r < 0.7 and live:
            nm = live.pop(rng.randrange(len(live)))
            ops.append(dict(op="del", name=nm))
        elif r < 0.85:
            ops.append(dict(op="set", name=rng.choice(live), type="i32", i=rng.randrange(-5, 5)))
        else:
            nm = "x%03d" % rng.randrange(1000)
            ops.append(dict(op="set", name=nm, type="i32", i=7))
            live.append(nm)
    return ops


def gen_configs(rng, nops):
    NS, US, MS, S = 1, 10**3, 10**6, 10**9
    lazy = lambda: dict(kind="lazy", threshold=rng.choice([0.01, 0.05, 0.2, 0.5, 1.0, 0.0, -1.0, 5.0]),
                        delay=rng.choice([NS, US, S, 3600 * S, 0, -S]), batch=rng.choice([0, 1, 100, 10**6]))
    incr = lambda: dict(kind="incremental", budget=rng.choice([US, MS, 100 * MS, S, 0]), interval=rng.choice([US, MS, S, 5 * S, 0]))
    smart = lambda: dict(kind="smart", autodetect=rng.random() < 0.5, autoswitch=rng.random() < 0.5,
                         minsize=rng.choice([0, 1, 10 * MB]), allowed=rng.choice([[], ["lazy"], ["none"], ["lazy", "incremental"]]))
    togs = ["disable", "enable", "enable_lazy", "disable_lazy", "enable_incr", "stop_incr", "rebalance_all", "force_batch", "rebalance_attr"]
    toggled = dict(rng.choice([dict(kind="default"), dict(kind="none"), lazy(), incr(), smart()]))
    toggles = [dict(at=rng.randrange(0, nops), action=rng.choice(togs)) for _ in range(rng.randrange(2, 9))]
    # run-time enabling, directed (the random toggles above reach it only now and then): EnableLazyRebalancing early in
    # the session (again after every session boundary would need the boundary's position: the random toggles do that),
    # optionally EnableIncrementalRebalancing on top and the immediate flag switched off
    early = lambda: rng.randrange(0, max(1, nops // 4))
    runtime = [dict(at=early(), action="enable_lazy")]
    if rng.random() < 0.5:
        runtime.append(dict(at=runtime[0]["at"], action="enable_incr"))
    if rng.random() < 0.5:
        runtime.append(dict(at=early(), action="disable"))
    if rng.random() < 0.3:
        runtime.append(dict(at=rng.randrange(nops // 2, nops), action="disable_lazy"))
        runtime.append(dict(at=rng.randrange(nops // 2, nops), action="enable_lazy"))
    # created WITHOUT options; threshold / delay are what the harness passes to EnableLazyRebalancing (0 = DefaultLazyConfig's)
    rt_cfg = dict(kind="default", threshold=rng.choice([0, 0.01, 0.05, 0.5, 1.0]), delay=rng.choice([0, NS, S, 3600 * S]))
    return [(dict(kind="default"), []), (dict(kind="none"), []), (dict(kind="immediate"), []), (lazy(), []), (incr(), []), (smart(), []),
            (toggled, toggles), (rt_cfg, runtime)]


def dict_oracle(ops, impl_res=None):
    """Last successful write wins, delete removes.  A write the library refuses (a limitation that does not depend on
    the configuration, e.g. 'object header full ... continuation blocks not yet supported' - the business of C02/C16)
    must leave the previous value: the oracle takes the ok/err of WRITES from the implementation and predicts
    everything else (ok/err of deletes, the content)."""
    d, res, refused = {}, [], 0
    for i, o in enumerate(ops):
        if o["op"] == "reopen":
            res.append("ok")
            continue
        if o["op"] == "set":
            if impl_res is not None and i < len(impl_res) and impl_res[i] == "err":
                res.append("err")
                refused += 1
                continue
            d[o["name"]] = o
            res.append("ok")
        else:
            res.append("ok" if o["name"] in d else "err")
            d.pop(o["name"], None)
    return d, res, refused


def render(o):
    """(class, size, dims, data hex) the dump must show for a written value."""
    t = o["type"]
    if t == "i32":
        return (0, 4, [1], struct.pack("<i", o["i"]).hex())
    if t == "f64":
        return (1, 8, [1], struct.pack("<Q", o["f"]).hex())
    if t == "str":
        return (3, len(o["s"]) + 1, [1], (o["s"].encode() + b"\0").hex())
    if t == "i32s":
        return (0, 4, [len(o["is"])], b"".join(struct.pack("<i", x) for x in o["is"]).hex())
    return (1, 8, [len(o["fs"])], b"".join(struct.pack("<Q", x) for x in o["fs"]).hex())


# ------------------------------------------------------------------ driver
def run(ctx):
    H, rng = ctx.harness, ctx.rng
    quick = ctx.tier == "quick"
    viol, known, samples = [], [], []
    kf_zero = [k for k in vlib.known_findings("C19") if k["id"] == KF_ZERO]
    patched = not kf_zero          # which selector code the model is instantiated with
    strict = patched
    cov = {}

    # ================================================================ part B: c19sel
    ncases, nobs = (250, 40) if quick else (6500, 150)
    cases = directed_sel_cases() + [gen_sel_case(rng, rng.choice([nobs // 4, nobs, nobs, 2 * nobs])) for _ in range(ncases)]
    strip = lambda c: {k: ([{kk: vv for kk, vv in o.items() if not kk.startswith("_")} for o in v] if k in ("obs", "steps") else v)
                       for k, v in c.items() if not k.startswith("_")}
    res = vlib.run_harness_parallel(H, "c19sel", [strip(c) for c in cases])
    decisions = 0
    situations = set()
    agg = dict(passing=0, held=0, changes=0, lowconf=0, notallowed=0, zero_forgets=0, pairwise=0)
    pybad = {}
    usable = []
    for ci, (c, r) in enumerate(zip(cases, res)):
        if "panic" in r or "harness_error" in r or len(r.get("dec", [])) != len(c["obs"]):
            viol.append(dict(what="SelectConfig panicked or the harness failed on an observation sequence", case=strip(c), impl=r))
            continue
        usable.append(ci)
        go = r["dec"]
        decisions += len(go)
        bad, st = oracle_sel(c, go, strict)
        for k in agg:
            agg[k] += st[k]
        if bad:
            pybad[ci] = bad
        prev = None
        for o, d in zip(c["obs"], go):
            situations.add(situation(c, o, d, prev))
            if d["kind"] == 0 and d["mode"] == d["raw_mode"] and not (flt(d["raw_conf"]) < flt(c["min_conf"])) and \
               ((not c["allowed"]) or d["raw_mode"] in c["allowed"]):
                prev = o["_now"]
    # Coq: model == Go, and the Coq specification predicates on the Go answers
    CH = 25
    jobs, groups = [], []
    for k in range(0, len(usable), CH):
        idx = usable[k:k + CH]
        rcases = lambda zi, mi, idx=idx: [coq_sel_case(cases[i], res[i]["dec"], patched, zi, mi) for i in idx]
        jobs.append((pooled_file(SEL_HDR, rcases, "Definition R := Eval vm_compute in map (case_code P M) (CS : list tcase).\nPrint R.\n"),
                     "c19sel_%d" % k))
        groups.append(idx)
    model_ne, coq_spec_bad = [], {}
    for idx, out in zip(groups, coq_parallel(jobs)):
        codes = vlib.parse_nlist(out, "R")
        if len(codes) != len(idx):
            raise RuntimeError("coqc returned %d codes for %d cases" % (len(codes), len(idx)))
        for ci, code in zip(idx, codes):
            if code & 64:
                model_ne.append(ci)
            if code & 63:
                coq_spec_bad[ci] = code & 63
    # classify
    SPECBITS = {1: "allowed-modes", 2: "min-confidence", 4: "confidence range", 8: "stability", 16: "dwell time", 32: "confidence passthrough"}
    zero_seen = 0
    for ci in sorted(set(pybad) | set(coq_spec_bad)):
        c, go = cases[ci], res[ci]["dec"]
        msgs = pybad.get(ci, [])
        what = msgs[0] if msgs else "Coq specification predicate(s) %s fail on the Go answers" % [v for b, v in SPECBITS.items() if coq_spec_bad[ci] & b]
        viol.append(dict(what="selector: " + what, failing_input=strip(c), impl=[{k: d[k] for k in ("mode", "conf", "kind", "raw_mode", "raw_conf", "reason")} for d in go],
                         python_oracle=msgs[:5], coq_spec_bits=coq_spec_bad.get(ci, 0), tag=c.get("_tag")))
    if agg["zero_forgets"]:
        zero_seen = agg["zero_forgets"]
    spec_bad_cases = set(pybad) | set(coq_spec_bad)
    for ci in model_ne:
        if ci in spec_bad_cases:
            continue
        c = cases[ci]
        # implementation differs from the model but satisfies the specification on this input
        ans = vlib.coq_eval(pooled_file(SEL_HDR, lambda zi, mi: [coq_sel_case(c, res[ci]["dec"], patched, zi, mi)],
                                        "Definition a := Eval vm_compute in map (model_answers P M) (CS : list tcase).\nPrint a.\n"), "c19sel_one")
        viol.append(dict(what="selector: Go decisions differ from the Coq model (the four invariants hold on the Go answers)",
                         case=strip(c), impl=[{k: d[k] for k in ("mode", "conf", "kind", "cfg", "raw_mode", "raw_conf")} for d in res[ci]["dec"]],
                         model=ans[-3000:], nofail=True,
                         correspondence="Model.Selector.select_config (patched=%s) vs ConfigSelector.SelectConfig; theorems C19_allowed, C19_min_confidence, C19_stability" % patched))
        break
    if kf_zero:
        if zero_seen:
            known.append("%s re-confirmed: %d gate-passing decisions changed the mode inside MinStabilityPeriod after a decision recorded at the zero time.Time" % (KF_ZERO, zero_seen))
        else:
            viol.append(dict(what="known finding %s is listed as open but the selector no longer forgets a decision recorded at the zero instant "
                                  "(the model of the code as found no longer applies)" % KF_ZERO, nofail=True,
                             correspondence="KNOWN_FINDINGS.json vs ConfigSelector.SelectConfig"))
    samples.append(dict(part="B/c19sel", case=strip(cases[len(directed_sel_cases())]) | {"obs": strip(cases[len(directed_sel_cases())])["obs"][:3]},
                        go=res[len(directed_sel_cases())].get("dec", [])[:3]))

    # ================================================================ part B: c19eval (detector + selector pipeline)
    necase, nsteps = (60, 120) if quick else (1500, 400)
    ecases = [gen_eval_case(rng, rng.choice([nsteps // 3, nsteps, 2 * nsteps])) for _ in range(necase)]
    eres = vlib.run_harness_parallel(H, "c19eval", [strip(c) for c in ecases])
    evals = 0
    eusable = []
    wtypes = {}
    for ci, (c, r) in enumerate(zip(ecases, eres)):
        nev = sum(1 for s in c["steps"] if s["op"] == 9)
        if "panic" in r or "harness_error" in r or len(r.get("dec") or []) != nev:
            viol.append(dict(what="SmartRebalancer.Evaluate panicked or the harness failed", case=strip(c), impl=r))
            continue
        eusable.append(ci)
        evals += nev
        # independent oracle on the pipeline outputs: the selector invariants with the reported proposal
        go = r["dec"]
        minc, allowed = flt(c["min_conf"]), c["allowed"]
        for i, d in enumerate(go):
            wtypes[d["w"]] = wtypes.get(d["w"], 0) + 1
            conf = flt(d["conf"])
            if not (0.0 <= conf <= 1.0):
                viol.append(dict(what="Evaluate: confidence %r outside [0,1]" % conf, failing_input=strip(c), impl=go))
            if conf < minc and d["mode"] != "none":
                viol.append(dict(what="Evaluate: confidence %r < MinConfidence %r but mode %r" % (conf, minc, d["mode"]), failing_input=strip(c), impl=go))
            if d["mode"] != "none" and allowed and d["mode"] not in allowed:
                viol.append(dict(what="Evaluate: mode %r not in AllowedModes %r" % (d["mode"], allowed), failing_input=strip(c), impl=go))
            tot = d["samples"]
            for k in ("del", "write", "read"):
                if tot > 0 and not (0.0 <= flt(d[k]) <= 1.0):
                    viol.append(dict(what="Evaluate: %s ratio %r outside [0,1]" % (k, flt(d[k])), failing_input=strip(c), impl=go))
    EHDR = "From HV Require Import Base.Prelude Model.Selector Model.Detector.\nOpen Scope N_scope.\n"
    ejobs, egroups = [], []
    for k in range(0, len(eusable), 6):
        idx = eusable[k:k + 6]
        ejobs.append((EHDR + "Definition CS : list ecase := [\n%s].\nDefinition R := Eval vm_compute in mismatches eval_case_ok CS.\nPrint R.\n" % (
            ";\n".join(coq_eval_case(ecases[i], eres[i]["dec"], patched) for i in idx)), "c19eval_%d" % k))
        egroups.append(idx)
    for idx, eout in zip(egroups, coq_parallel(ejobs)):
        badl = vlib.parse_nlist(eout, "R")
        if not badl:
            continue
        ci = idx[badl[0]]
        c = ecases[ci]
        ans = vlib.coq_eval(EHDR + "Definition a := Eval vm_compute in eval_answers %s.\nPrint a.\n" % coq_eval_case(c, eres[ci]["dec"], patched), "c19eval_one")
        viol.append(dict(what="Evaluate pipeline: Go decisions/features differ from the Coq model (selector invariants hold on the Go answers)",
                         case=strip(c), impl=eres[ci]["dec"], model=ans[-3000:], nofail=True,
                         correspondence="Model.Detector.evaluate vs WorkloadDetector.ExtractFeatures/DetectWorkloadType + ConfigSelector.SelectConfig"))
        break
    samples.append(dict(part="B/c19eval", case={k: v for k, v in strip(ecases[0]).items() if k != "steps"}, steps=strip(ecases[0])["steps"][:4], go=(eres[0].get("dec") or [])[:2]))

    # ================================================================ part A: c19cfg
    nhist = 24 if quick else 400
    builddir = os.path.join(vlib.BUILD, "c19files")
    os.makedirs(builddir, exist_ok=True)
    cfg_cases, meta = [], []
    nbig = 8 if quick else 60
    nreopen = 10 if quick else 150
    for h in range(nhist + nbig + nreopen):
        if h < nhist:
            ops = gen_history(rng)
        elif h < nhist + nbig:
            ops = gen_big_history(rng)
        else:
            ops = with_reopens(rng, gen_history(rng) if (h - nhist - nbig) % 5 else gen_big_history(rng))
        for k, (cfg, toggles) in enumerate(gen_configs(rng, len(ops))):
            cfg_cases.append(dict(path=os.path.join(builddir, "h%d_%d_%d.h5" % (ctx.seed, h, k)), config=cfg, toggles=toggles, ops=ops))
            meta.append((h, k))
    cres = vlib.run_harness_parallel(H, "c19cfg", cfg_cases)
    attr_ops = 0
    dense_hist = dense_del_hist = 0
    oracle_dis = []
    cross_dis = 0
    refused_sets, refused_msgs = 0, set()
    by_hist = {}
    for (h, k), c, r in zip(meta, cfg_cases, cres):
        by_hist.setdefault(h, []).append((k, c, r))
    rt_runs = sum(1 for r in cres if any(t == "enable_lazy:ok" for t in (r.get("toggles") or [])))
    for h, runs in by_hist.items():
        k0, c0, r0 = runs[0]
        ops = c0["ops"]
        attr_ops += len(ops) * len(runs)
        d, exp_res, nref = dict_oracle(ops, r0.get("ops"))
        refused_sets += nref
        if nref:
            refused_msgs.update(e.split(":", 1)[1][:60] for e in r0.get("errs", []) if ops[int(e.split(":", 1)[0])]["op"] == "set")
        live, mx, dd = set(), 0, False
        for o in ops:
            if o["op"] == "reopen":
                continue
            if o["op"] == "set":
                live.add(o["name"])
            elif o["name"] in live:
                live.discard(o["name"])
                dd = dd or mx > 8
            mx = max(mx, len(live))
        dense_hist += mx > 8
        dense_del_hist += dd
        obs0 = (r0.get("ops"), r0.get("dump"), r0.get("close"), r0.get("open_err"), r0.get("create_err"), r0.get("panic"))
        for k, c, r in runs[1:]:
            obs = (r.get("ops"), r.get("dump"), r.get("close"), r.get("open_err"), r.get("create_err"), r.get("panic"))
            if obs != obs0:
                cross_dis += 1
                first = next((i for i, (a, b) in enumerate(zip(r.get("ops") or [], r0.get("ops") or [])) if a != b), None)
                viol.append(dict(what="content after reopen (or a per-operation result) under configuration %s%s differs from the default configuration"
                                      % (c["config"]["kind"], " + run-time calls " + ",".join(sorted(set(t["action"] for t in c["toggles"]))) if c["toggles"] else ""),
                                 failing_input=dict(config=c["config"], toggles=c["toggles"], ops=ops), impl=r, impl_default=r0, first_differing_op=first))
                break
        # dict oracle on the default run
        if r0.get("panic") or r0.get("create_err") or r0.get("open_err") or r0.get("dump") is None:
            oracle_dis.append(dict(history=h, what="default configuration: " + str(r0.get("panic") or r0.get("create_err") or r0.get("open_err")), ops=ops, impl=r0))
            continue
        got = {e["name"]: (e["class"], e["size"], e["dims"], e["data"]) for e in r0["dump"]}
        want = {n: render(o) for n, o in d.items()}
        if r0["ops"] != exp_res or got != want or len(r0["dump"]) != len(got):
            firstop = next((i for i, (a, b) in enumerate(zip(r0["ops"], exp_res)) if a != b), None)
            oracle_dis.append(dict(history=h, what="default configuration differs from the dict oracle", first_differing_op=firstop,
                                   op=(ops[firstop] if firstop is not None else None), err=[e for e in r0.get("errs", []) if firstop is not None and e.startswith("%d:" % firstop)],
                                   missing=sorted(set(want) - set(got)), extra=sorted(set(got) - set(want)),
                                   wrong=sorted(n for n in set(want) & set(got) if want[n] != got[n]), ops=ops, impl=r0))
    for od in oracle_dis[:1]:
        viol.append(dict(what="attribute history: %s (independent of the rebalancing configuration when no cross-configuration difference is reported)" % od["what"],
                         failing_input=dict(config=dict(kind="default"), ops=od["ops"]), detail={k: v for k, v in od.items() if k not in ("ops",)}))
    samples.append(dict(part="A/c19cfg", config=cfg_cases[3]["config"], ops=cfg_cases[3]["ops"][:4], result_ops=(cres[3].get("ops") or [])[:4],
                        dump=(cres[3].get("dump") or [])[:2]))

    # ================================================================ part A: c19del (the three delete entry points)
    ndel = 150 if quick else 3000
    dcases, dmeta = [], []
    ENTRIES = ["plain", "rebalancing", "lazy", "dense_plain", "dense_rebalancing", "dense_lazy"]
    pool = ["n%d" % i for i in range(60)] + NAMES + ["", "Ω", "a" * 40]
    for g in range(ndel):
        names = rng.sample(pool, rng.randrange(1, 30))
        if rng.random() < 0.2:
            names.append(rng.choice(names))      # the same name twice: two records with one hash
        dels = [rng.choice(names) if rng.random() < 0.85 else rng.choice(pool) for _ in range(rng.randrange(1, 25))]
        allnames = sorted(set(names) | set(dels))
        dcases.append(dict(names=allnames, dels=[], entry="plain", threshold=0))      # the hash of every name involved
        dmeta.append((g, "hash"))
        for e in ENTRIES:
            dcases.append(dict(names=names, dels=dels, entry=e, threshold=rng.choice([0, 0.01, 0.05, 0.2, 1.0, -1.0])))
            dmeta.append((g, e))
    dres = vlib.run_harness_parallel(H, "c19del", dcases)
    del_ops = 0
    for g in range(ndel):
        block = dres[g * 7:(g + 1) * 7]
        blockc = dcases[g * 7:(g + 1) * 7]
        if any("panic" in r or "harness_error" in r for r in block):
            viol.append(dict(what="a B-tree delete entry point panicked", failing_input=blockc[1], impl=block))
            continue
        hashes = {blockc[0]["names"][i - 1]: h for h, i in block[0]["records"]}
        names, dels = blockc[1]["names"], blockc[1]["dels"]
        def build():
            recs, ins = [], []
            for i, n in enumerate(names):       # InsertRecord: an existing key is refused, else insertRecordSorted
                r = (hashes[n], i + 1)
                if any(x[0] == r[0] for x in recs):
                    ins.append("err")
                    continue
                pos = next((j for j, x in enumerate(recs) if x[0] >= r[0]), len(recs))
                recs.insert(pos, r)
                ins.append("ok")
            return recs, ins

        def spec(dense):
            recs, ins = build()
            eo = []
            for n in dels:                      # remove the first record with an equal hash
                # DeleteDenseAttribute rejects the empty name before looking at the tree
                j = None if (dense and n == "") else next((j for j, x in enumerate(recs) if x[0] == hashes[n]), None)
                eo.append("err" if j is None else "ok")
                if j is not None:
                    recs.pop(j)
            return ins, eo, [list(x) for x in recs]
        del_ops += len(dels) * 6
        for c, r in zip(blockc[1:], block[1:]):
            ins, eo, want = spec(c["entry"].startswith("dense"))
            if r["ops"] != eo or r["records"] != want or r["ins"] != ins:
                viol.append(dict(what="delete entry point %r leaves records different from 'remove the first record with an equal hash' "
                                      "(the entry point is what the rebalancing configuration selects)" % c["entry"],
                                 failing_input=c, impl=r, spec=dict(ins=ins, ops=eo, records=want), plain=block[1]))
                break
    samples.append(dict(part="A/c19del", case=dcases[3], result=dres[3]))

    cov.update(dict(
        evaluations=decisions + evals + attr_ops + del_ops,
        distinct_nontrivial=len(situations) + sum(1 for _ in wtypes) + dense_hist + dense_del_hist,
        rule="part B: every SelectConfig / Evaluate call is an evaluation; distinct = number of distinct decision situations "
             "(strategy, gate that fired, returned and proposed mode, allowed-list size, MinConfidence, confidence bits, relation of now-lastDecisionTime "
             "to MinStabilityPeriod incl. negative and saturated, zero-instant reading) observed, plus workload types reached through Evaluate; "
             "part A: every attribute operation under every configuration and every record delete under every entry point is an evaluation; "
             "distinct adds the histories that crossed the compact->dense threshold and those that deleted while dense",
        samples=samples,
        selector=dict(cases=len(cases), decisions=decisions, model_evaluations_in_coq=decisions, expected_code=("repaired" if patched else "as found"),
                      gate_passing=agg["passing"], stability_held=agg["held"], mode_changes=agg["changes"], low_confidence=agg["lowconf"],
                      not_allowed=agg["notallowed"], zero_instant_forgets=agg["zero_forgets"],
                      mode_changes_sooner_than_period_after_a_held_decision=agg["pairwise"], distinct_situations=len(situations),
                      scripted_cases=sum(1 for c in cases if c["strategy"] == "script")),
        evaluate_pipeline=dict(cases=len(ecases), evaluations=evals, workload_types=wtypes),
        content=dict(histories=nhist + nbig + nreopen, large_object_histories=nbig, configurations_per_history=8, histories_with_session_boundaries=nreopen, runtime_enable_lazy_runs=rt_runs, attribute_ops=attr_ops, histories_reaching_dense=dense_hist,
                     histories_deleting_while_dense=dense_del_hist, cross_configuration_differences=cross_dis,
                     dict_oracle_disagreements=len(oracle_dis),
                     writes_refused_by_the_library_in_every_configuration=refused_sets, refusal_messages=sorted(refused_msgs)[:5]),
        delete_entry_points=dict(groups=ndel, deletes=del_ops),
        programs=len(cases) + len(ecases) + len(cfg_cases) + len(dcases),
        disagreements_checked=decisions + evals + len(cfg_cases) + len(dcases),
    ))
    return dict(violations=viol, known=known, coverage=cov)
