"""C03 byte-level tie `c03wire`: the local heap, the symbol table node and the group B-tree node of
internal/structures (localheap.go, symboltable_node.go, btree_group.go; writers AND readers) against the
Coq model Model/GroupWire.v (predicates in Model/GroupWireTie.v), harness subcommand `c03wire`.

run_unit(ctx) -> dict(violations=[...], known=[], evaluations=int, distinct=int, samples=[...], ...)

Two harness batches:
  write cases  heap  (NewLocalHeap/AddString/WriteTo, then LoadLocalHeap/GetString on the written file),
               snod  (NewSymbolTableNode/AddEntry/WriteAt, then ParseSymbolTableNode),
               btree (NewBTreeNodeV1/AddKey/WriteAt); some B-tree nodes point at planned addresses of the
               symbol table nodes of this run so that a whole group can be assembled afterwards;
  read cases   heapread / snodread / btreeread on the images of the first batch (as written, truncated,
               with single byte mutations in signature / version / count / size / address fields, with
               counts beyond the data, sizes and addresses outside the file or overflowing) and on files
               built here from the layout ("TREE", type, level, used, left, right, key/child pairs;
               "SNOD", 1, 0, count, 40-byte entries): repeated children, child 0 / 2^64-1, cached entries.
Gate: Go == Coq model on every case (a disagreement is reported with nofail=True: the model or the code is
wrong, the specification is the round trip) and, independent of Coq, the round trip itself evaluated here
on Go's outputs: what Go's writer wrote, Go's reader returns (reported without nofail).
"""
import os, sys, time, json, struct
sys.path.insert(0, os.path.dirname(os.path.dirname(os.path.abspath(__file__))))
import vlib

U64 = (1 << 64) - 1
U32 = (1 << 32) - 1
CORR = "Model/GroupWire.v"
BIG = [0, 1, U32, 1 << 32, (1 << 63) - 1, 1 << 63, U64 - 1, U64]


def hx(b):
    return bytes(b).hex()


def u64(v):
    return struct.pack("<Q", v & U64)


def canon(case):
    return {k: v for k, v in case.items() if not k.startswith("_")}


# ----------------------------------------------------------------------------- layout (model-agnostic)
def new_heap_size(n):
    n = max(n, 16)
    return n if n % 8 == 0 else (n // 8 + 1) * 8


def py_heap(init, daddr, names, free=1):
    """header + segment as the format document lays them out"""
    dss = new_heap_size(init)
    seg = b""
    for n in names:
        if len(seg) + len(n) + 1 <= dss:
            seg += n + b"\x00"
    return b"HEAP" + bytes(4) + u64(dss) + u64(free) + u64(daddr) + seg.ljust(dss, b"\x00")


def py_snod(count, entries, version=1, sig=b"SNOD"):
    """entries: (name, obj, cache, reserved, scratch bytes)"""
    out = sig + bytes([version, 0]) + struct.pack("<H", count & 0xFFFF)
    for nm, obj, ct, rs, sc in entries:
        out += u64(nm) + u64(obj) + struct.pack("<II", ct & U32, rs & U32) + bytes(sc).ljust(16, b"\x00")[:16]
    return out


def py_tree(used, pairs, last_key=0, ntype=0, level=0, left=U64, right=U64, sig=b"TREE"):
    out = sig + bytes([ntype, level]) + struct.pack("<H", used & 0xFFFF) + u64(left) + u64(right)
    for k, c in pairs:
        out += u64(k) + u64(c)
    return out + u64(last_key)


def place(parts):
    """parts: [(addr, bytes)] -> file (zero filled, later parts overwrite)"""
    buf = bytearray(max([a + len(b) for a, b in parts] + [0]))
    for a, b in parts:
        buf[a:a + len(b)] = b
    return bytes(buf)


# ----------------------------------------------------------------------------- generators: write cases
def rand_name(rng):
    r = rng.random()
    ln = rng.choice([0, 1, 1, 2, 3, 5, 7, 8, 9, 15, 16, 23, 31, 39, 40])
    if r < 0.1:
        return b""
    if r < 0.22:
        n = bytearray(rng.randrange(1, 256) for _ in range(max(1, ln)))
        n[rng.randrange(len(n))] = 0
        if rng.random() < 0.3:
            n.append(0)
        return bytes(n[:40])
    if r < 0.6:
        return bytes(rng.choice(b"abcxyz_019") for _ in range(ln))
    return bytes(rng.randrange(1, 256) for _ in range(ln))


def pick_off(rng, hi):
    r = rng.random()
    if r < 0.7:
        return rng.randint(0, max(hi, 1) + 2)
    if r < 0.85:
        return rng.choice([hi, hi - 1 if hi else 0, hi + 1, 2 * hi + 7])
    return rng.choice(BIG)


def gen_heap(rng):
    init = rng.choice([0, 8, 16, 17, 64, 256])
    dss = new_heap_size(init)
    style = rng.random()
    names = [rand_name(rng) for _ in range(rng.randint(0, 12))]
    if style < 0.3:
        # run into the end of the segment: exactly full / one short / one over
        names, used, tgt = [], 0, dss + rng.choice([-1, 0, 0, 1, 2])
        while used < tgt and len(names) < 12:
            ln = min(tgt - used - 1, rng.choice([0, 1, 3, 7, 15, 39, 40]))
            if len(names) == 11 or rng.random() < 0.2:
                ln = min(tgt - used - 1, 40)
            nm = rand_name(rng)[:ln].ljust(ln, b"q")
            names.append(nm)
            used += ln + 1
        names += [rand_name(rng) for _ in range(min(rng.randint(0, 2), 12 - len(names)))]
    offs, used = [], 0
    for n in names:
        offs.append(used)
        if used + len(n) + 1 <= dss:
            used += len(n) + 1
    gets = sorted(set(offs)) + [pick_off(rng, dss) for _ in range(rng.randint(1, 5))]
    return dict(kind="heap", init=init, names=[hx(n) for n in names], addr=rng.choice([0, 0, 1, 8, 32, 33, 100, rng.randint(0, 199)]),
                gets=gets, _names=names)


def rand_entry(rng):
    name = rng.choice([rng.randint(0, 300), rng.randint(0, 300), rng.choice(BIG), rng.getrandbits(64)])
    obj = rng.choice([rng.randint(0, 1 << 20), rng.choice(BIG), rng.getrandbits(64)])
    cache = rng.choice([0, 0, 0, 1, 1, 2, U32, rng.getrandbits(32)])
    res = rng.choice([0, 0, U32, rng.getrandbits(32)])
    return [name, obj, cache, res]


def gen_snod(rng):
    cap = rng.choice([1, 8, 32, 40])
    n = rng.choice([0, 1, cap - 1, cap, cap + 1, cap + 2, rng.randint(0, cap + 2), rng.randint(0, cap + 2)])
    r = rng.random()
    mx = cap if r < 0.4 else (32 if r < 0.7 else (rng.randint(0, n - 1) if n > 0 else 0))
    return dict(kind="snod", cap=cap, entries=[rand_entry(rng) for _ in range(n)], max=mx, addr=rng.choice([0, 0, 8, 1, 40, rng.randint(0, 199)]))


def btree_size(k):
    return 24 + (2 * k + 1) * 8 + 2 * k * 8


def gen_btree(rng):
    k = rng.choice([1, 4, 16])
    n = rng.choice([0, 1, 1, 2, 2 * k - 1, 2 * k, 2 * k + 1, 2 * k + 2, rng.randint(0, 2 * k + 2)])
    keys = [[rng.choice([rng.randint(0, 300), rng.choice(BIG), rng.getrandbits(64)]),
             rng.choice([rng.randint(0, 4000), rng.choice(BIG), rng.getrandbits(64)])] for _ in range(n)]
    return dict(kind="btree", k=k, keys=keys, addr=rng.choice([0, 0, 8, 3, rng.randint(0, 199)]))


def gen_group(rng, snods):
    """a B-tree node whose children are the planned addresses of some symbol table nodes of this run"""
    k = rng.choice([1, 4, 16])
    addr = rng.choice([0, 0, 8, rng.randint(0, 199)])
    m = rng.randint(1, min(2 * k, 4))
    picks = [rng.randrange(len(snods)) for _ in range(m)]
    pos, plan = addr + btree_size(k), []
    for j in picks:
        pos += rng.choice([0, 0, 8, rng.randint(0, 16)])
        plan.append((j, pos))
        pos += 8 + snods[j]["max"] * 40
    order = list(plan)
    if rng.random() < 0.4:
        rng.shuffle(order)
    keys = [[rng.randint(0, 300), a] for _, a in order]
    if rng.random() < 0.25 and len(keys) < 2 * k:
        keys.insert(rng.randint(0, len(keys)), [rng.randint(0, 9), rng.choice([0, U64])])      # skipped by the reader
    return dict(kind="btree", k=k, keys=keys, addr=addr, _plan=plan)


# ----------------------------------------------------------------------------- generators: read cases
def mutate(rng, b, hot):
    """single byte mutation, preferably in the header fields (hot = offsets)"""
    if not b:
        return b
    b = bytearray(b)
    i = rng.choice(hot) if (hot and rng.random() < 0.75) else rng.randrange(len(b))
    i = min(i, len(b) - 1)
    b[i] = rng.choice([b[i] ^ (1 << rng.randrange(8)), 0, 1, 2, 0xFF, 0x80, rng.randrange(256)]) & 0xFF
    return bytes(b)


def truncate(rng, b):
    return b[:rng.randint(0, len(b))] if b else b


def patch(b, off, val):
    b = bytearray(b)
    b[off:off + len(val)] = val
    return bytes(b)


def heapreads(rng, file, addr, n, gets):
    """variants of one valid heap file (header at addr)"""
    out = []
    L = len(file)
    for _ in range(n):
        r = rng.random()
        a, f = addr, file
        if r < 0.12:
            pass
        elif r < 0.3:
            f = truncate(rng, file)
        elif r < 0.5:
            f = mutate(rng, file, [addr + i for i in list(range(0, 5)) + list(range(8, 32))])
        elif r < 0.65:   # data segment size
            f = patch(file, addr + 8, u64(rng.choice([0, 1, L - addr - 32, L - addr - 31, L, L + 1, 1 << 31, (1 << 63) - 1, 1 << 63, U64 - 31, U64])))
        elif r < 0.8:    # data segment address
            f = patch(file, addr + 24, u64(rng.choice([0, addr, addr + 31, addr + 33, L - 1, L, L + 1, (1 << 63) - 1, 1 << 63, (1 << 63) - 8, U64 - 7, U64])))
        elif r < 0.9:    # both
            f = patch(patch(file, addr + 8, u64(rng.choice([1, 8, 1 << 63, U64, U64 - rng.randint(0, 64)]))),
                      addr + 24, u64(rng.choice([1, 8, 1 << 63, U64, rng.randint(0, L + 8)])))
        else:
            a = rng.choice([addr + 1, max(addr - 1, 0), L - 32, L - 31, L, (1 << 63) - 1, 1 << 63, U64, rng.randint(0, L + 4)])
            a = max(a, 0)
        out.append(dict(kind="heapread", file=hx(f), addr=a, gets=[pick_off(rng, 40) for _ in range(rng.randint(0, 4))] + gets[:3]))
    return out


def snodreads(rng, file, addr, n):
    out = []
    L = len(file)
    for _ in range(n):
        r = rng.random()
        a, f = addr, file
        if r < 0.12:
            pass
        elif r < 0.35:
            f = truncate(rng, file)
        elif r < 0.6:
            f = mutate(rng, file, [addr + i for i in range(0, 8)] + [addr + 8 + 16 + i for i in range(0, 8)])
        elif r < 0.75:   # count larger than the data / other counts
            slots = max((L - addr - 8) // 40, 0)
            f = patch(file, addr + 6, struct.pack("<H", rng.choice([0, 1, slots, slots + 1, slots + 2, 32, 33, 255, 256, 65535]) & 0xFFFF))
        elif r < 0.9 and L >= addr + 48:    # cache type 1 with a scratch pad
            slot = rng.randrange(max((L - addr - 8) // 40, 1))
            p = addr + 8 + slot * 40
            f = patch(file, p + 16, struct.pack("<I", rng.choice([1, 1, 2, 0x101])))
            f = patch(f, p + 24, u64(rng.choice(BIG + [rng.getrandbits(64)])) + u64(rng.choice(BIG + [rng.getrandbits(64)])))[:L]
        else:
            a = max(rng.choice([addr + 1, addr - 1, L - 8, L - 7, L, (1 << 63) - 1, 1 << 63, U64, U64 - 7]), 0)
        out.append(dict(kind="snodread", file=hx(f), addr=a))
    return out


def py_group(rng):
    """a group assembled here from the layout: returns (file, addr)"""
    nn = rng.randint(1, 4)
    nodes, pos = [], 0
    used = rng.choice([1, 1, 2, 3, 4, 6])
    taddr = rng.choice([0, 0, 8, rng.randint(0, 60)])
    pos = taddr + 24 + used * 16 + 8
    for _ in range(nn):
        cnt = rng.choice([0, 1, 1, 2, 3, 5])
        ents = []
        for _ in range(cnt):
            ct = rng.choice([0, 0, 1, 1, 2])
            ents.append((rng.randint(0, 200), rng.choice([rng.randint(1, 1 << 20), U64, 0]), ct, rng.choice([0, 7, U32]),
                         u64(rng.choice([1, 0x1234, U64])) + u64(rng.choice([2, 0x5678, 1 << 63])) if rng.random() < 0.7 else b""))
        claimed = cnt if rng.random() < 0.85 else rng.choice([cnt + 1, 0, 40, max(cnt - 1, 0)])
        pos += rng.choice([0, 0, 8, rng.randint(0, 9)])
        nodes.append((pos, py_snod(claimed, ents, version=1 if rng.random() < 0.93 else rng.choice([0, 2]),
                                   sig=b"SNOD" if rng.random() < 0.95 else b"SNOX")))
        pos += 8 + cnt * 40
    style = rng.random()
    kids = []
    for i in range(used):
        if style < 0.3:
            kids.append(nodes[0][0] if rng.random() < 0.7 else rng.choice(nodes)[0])     # repeated child: entry budget
        elif style < 0.5 and rng.random() < 0.4:
            kids.append(rng.choice([0, U64]))                                             # skipped
        elif style < 0.6 and rng.random() < 0.3:
            kids.append(rng.choice([pos, pos + 8, 1 << 63, U64 - 8, nodes[0][0] + 8, nodes[0][0] + 40]))   # not a node / overlapping
        else:
            kids.append(nodes[i % nn][0])
    tree = py_tree(used if rng.random() < 0.9 else rng.choice([0, used + 1, used - 1, 200, 65535]),
                   [(rng.randint(0, 99), c) for c in kids],
                   ntype=0 if rng.random() < 0.93 else rng.choice([1, 255]), level=0 if rng.random() < 0.93 else rng.choice([1, 2]),
                   sig=b"TREE" if rng.random() < 0.95 else rng.choice([b"TREF", b"SNOD", b"tree"]))
    return place([(taddr, tree)] + nodes), taddr


def btreereads(rng, file, addr, n, k=None):
    out = []
    L = len(file)
    for _ in range(n):
        r = rng.random()
        a, f = addr, file
        if r < 0.15:
            pass
        elif r < 0.35:
            f = truncate(rng, file)
        elif r < 0.6:
            hot = [addr + i for i in range(0, 8)] + [addr + 24 + 8 + i for i in range(0, 8)] + [addr + 24 + 24 + i for i in range(0, 8)]
            f = mutate(rng, file, hot)
        elif r < 0.7:    # entries used
            f = patch(file, addr + 6, struct.pack("<H", rng.choice([0, 1, 2, 3, 8, 33, 255, 65535])))
        elif r < 0.9 and L >= addr + 48:    # a child pointer: repeated / skipped / elsewhere
            used = struct.unpack("<H", file[addr + 6:addr + 8])[0]
            slot = rng.randrange(max(min(used, (L - addr - 24) // 16), 1))
            first = file[addr + 32:addr + 40]
            f = patch(file, addr + 24 + 16 * slot + 8, rng.choice([first, first, u64(0), u64(U64), u64(rng.randint(0, L)), u64(1 << 63), u64(U64 - 8)]))[:L]
        else:
            a = max(rng.choice([addr + 1, addr - 1, L - 24, L - 23, L, (1 << 63) - 1, 1 << 63, U64]), 0)
        out.append(dict(kind="btreeread", file=hx(f), addr=a))
    return out


# ----------------------------------------------------------------------------- round trip (independent of Coq)
def heap_roundtrip(c, r):
    """what AddString accepted is what LoadLocalHeap + GetString return"""
    out = []
    names, dss = c["_names"], new_heap_size(c["init"])
    if r["wc"] != 0 or r["lc"] != 0:
        return ["WriteTo class %d (%s), LoadLocalHeap of the written heap class %d (%s)" % (r["wc"], r["werr"], r["lc"], r["lerr"])]
    data = bytes.fromhex(r["data"])
    img = bytes.fromhex(r["image"])
    if r["size"] != 32 + dss or len(img) != 32 + dss or r["filelen"] != c["addr"] + 32 + dss:
        out.append("heap of segment size %d: Size() = %d, image %d bytes, file %d bytes" % (dss, r["size"], len(img), r["filelen"]))
    if len(data) != dss:
        out.append("segment size %d but %d bytes loaded" % (dss, len(data)))
    used = 0
    for i, (n, (ok, off)) in enumerate(zip(names, r["adds"])):
        fits = used + len(n) + 1 <= dss
        if bool(ok) != fits:
            out.append("name #%d (%d bytes) %s with %d of %d bytes used" % (i, len(n), "accepted" if ok else "refused", used, dss))
            break
        if not ok:
            continue
        if off != used:
            out.append("name #%d got offset %d, %d bytes were used" % (i, off, used))
        used += len(n) + 1
        if data[off:off + len(n) + 1] != n + b"\x00":
            out.append("name #%d %r is not in the loaded segment at its offset %d" % (i, n, off))
    if data[used:].strip(b"\x00"):
        out.append("bytes after the last name are not zero")
    for off, (gc, gh) in zip(c["gets"], r["gets"]):
        j = data.find(b"\x00", off) if off < len(data) else -1
        exp = (0, data[off:j]) if j >= 0 else (1, b"")
        if (gc, bytes.fromhex(gh)) != exp:
            out.append("GetString(%d) = class %d %r, the segment says %r" % (off, gc, bytes.fromhex(gh), exp))
    return out


def snod_roundtrip(c, r):
    out = []
    ents = c["entries"]
    exp_adds = [1 if i < c["cap"] else 0 for i in range(len(ents))]
    if r["adds"] != exp_adds:
        return ["capacity %d: AddEntry answers %r" % (c["cap"], r["adds"])]
    acc = [e + [0, 0] for e, ok in zip(ents, r["adds"]) if ok]
    if r["wc"] != 0:
        return ["WriteAt class %d (%s)" % (r["wc"], r["werr"])]
    img = bytes.fromhex(r["image"])
    if len(img) != 8 + c["max"] * 40 or r["filelen"] != c["addr"] + len(img):
        out.append("node of %d slots: image %d bytes, file %d bytes" % (c["max"], len(img), r["filelen"]))
    if len(acc) > c["max"]:
        # the header counts more entries than slots were written: the file ends before the last entry
        if r["pc"] == 0:
            out.append("%d entries in %d slots parsed without error" % (len(acc), c["max"]))
        return out
    if r["pc"] != 0:
        return out + ["the written node does not parse: class %d (%s)" % (r["pc"], r["perr"])]
    if (r["version"], r["num"], r["cap"]) != (1, len(acc), max(32, len(acc))) or r["entries"] != acc:
        out.append("wrote %d entries %r.., parsed version %d num %d cap %d entries %r.." % (len(acc), acc[:2], r["version"], r["num"], r["cap"], r["entries"][:2]))
    if img[8 + len(acc) * 40:].strip(b"\x00"):
        out.append("unused slots are not zero")
    return out


def btree_roundtrip(c, r):
    """decode the image by the layout: the keys / children that were accepted"""
    k, keys = c["k"], c["keys"]
    exp_adds = [1 if i < 2 * k + 1 else 0 for i in range(len(keys))]
    if r["adds"] != exp_adds:
        return ["k=%d: AddKey answers %r" % (k, r["adds"])]
    if r["wc"] != 0:
        return ["WriteAt class %d (%s)" % (r["wc"], r["werr"])]
    img = bytes.fromhex(r["image"])
    if len(img) != btree_size(k) or r["filelen"] != c["addr"] + len(img):
        return ["k=%d: image %d bytes, file %d bytes" % (k, len(img), r["filelen"])]
    acc = keys[:2 * k + 1]
    words = struct.unpack("<%dQ" % (4 * k + 1), img[24:])
    exp = []
    for i in range(2 * k + 1):
        exp.append(acc[i][0] if i < len(acc) else 0)
        if i < 2 * k:
            exp.append(acc[i][1] if i < len(acc) else 0)
    if img[:6] != b"TREE\x00\x00" or struct.unpack("<H", img[6:8])[0] != len(acc) or img[8:24] != b"\xff" * 16 or list(words) != exp:
        return ["the image does not hold the %d accepted keys/children" % len(acc)]
    return []


# ----------------------------------------------------------------------------- Coq side
def c_upk(b):
    """Model/GroupWireTie.v upk: length and 7-byte little-endian groups as primitive integer literals"""
    return "upk %d [%s]%%uint63" % (len(b), ";".join("0x%x" % int.from_bytes(b[i:i + 7], "little") for i in range(0, len(b), 7)))


def c_bytes(b):
    """byte string -> upk .. ++ zeros n ++ ... (zero runs of 24+ bytes are not spelled out)"""
    b = bytes(b)
    parts, i, n = [], 0, len(b)
    while i < n:
        j = b.find(bytes(24), i)
        if j < 0:
            parts.append(c_upk(b[i:]))
            break
        if j > i:
            parts.append(c_upk(b[i:j]))
        e = j
        while e < n and b[e] == 0:
            e += 1
        parts.append("zeros %d" % (e - j))
        i = e
    if not parts:
        return "[]"
    return "(" + " ++ ".join(parts) + ")"


def c_vlist(rows):
    return "VL [%s]" % ";".join("vlistN [%s]" % ";".join("%d" % x for x in row) for row in rows)


def c_parse(r):
    if r.get("pc") != 0:
        return "%d (VL [])" % r.get("pc", 2)
    return "0 (VL [VN %d; VN %d; VN %d; %s])" % (r["version"], r["num"], r["cap"], c_vlist(r["entries"]))


def c_gets(r):
    return "[%s]" % ";".join('(%d, unhex "%s")' % (g[0], g[1]) for g in r["gets"])


def c_term(c, r):
    k = c["kind"]
    if k == "heap":
        return "heap_ok %d [%s] %d [%s] %s %d %d %s [%s] %s" % (
            c["init"], ";".join('unhex "%s"' % n for n in c["names"]), c["addr"],
            ";".join("(%s,%d)" % (vlib.cbool(a[0]), a[1]) for a in r["adds"]), c_bytes(bytes.fromhex(r["image"])), r["size"],
            r["lc"], c_bytes(bytes.fromhex(r["data"])), ";".join("%d" % g for g in c["gets"]), c_gets(r))
    if k == "heapread":
        return "heapread_ok %s %d %d %s [%s] %s" % (c_bytes(bytes.fromhex(c["file"])), c["addr"], r["lc"], c_bytes(bytes.fromhex(r["data"])),
                                                    ";".join("%d" % g for g in c["gets"]), c_gets(r))
    if k == "snod":
        return "snod_ok %d [%s] %d %d [%s] %d %s %s" % (
            c["cap"], ";".join("(%d,%d,%d,%d)" % tuple(e) for e in c["entries"]), c["max"], c["addr"],
            ";".join(vlib.cbool(a) for a in r["adds"]), r["wc"], c_bytes(bytes.fromhex(r["image"])), c_parse(r))
    if k == "snodread":
        return "snodread_ok %s %d %s" % (c_bytes(bytes.fromhex(c["file"])), c["addr"], c_parse(r))
    if k == "btree":
        return "btree_ok %d [%s] [%s] %s" % (c["k"], ";".join("(%d,%d)" % tuple(x) for x in c["keys"]),
                                             ";".join(vlib.cbool(a) for a in r["adds"]), c_bytes(bytes.fromhex(r["image"])))
    if k == "btreeread":
        return "btreeread_ok %s %d %d (%s)" % (c_bytes(bytes.fromhex(c["file"])), c["addr"], r["c"], c_vlist(r["entries"]))
    raise ValueError(k)


def coq_mismatches(terms, name, chunk=None, workers=16):
    """indices of the terms (closed bool expressions) that evaluate to false in Coq; one coqc per chunk, in parallel"""
    if not terms:
        return []
    import concurrent.futures as cf
    chunk = chunk or min(150, max(40, (len(terms) + workers - 1) // workers))
    def one(k):
        lab = "bad_%s_%d" % (name, k)
        text = ("From Coq Require Import Uint63.\nFrom HV Require Import Base.Prelude Base.Outcome Base.Bytes Model.GroupWire Model.GroupWireTie.\n"
                "Definition %s := Eval vm_compute in mismatches (fun b : bool => b) [%s].\nPrint %s.\n" % (
                    lab, ";\n".join(terms[k:k + chunk]), lab))
        out = vlib.coq_eval(text, "c03wire_%s_%d" % (name, k))
        return [k + i for i in vlib.parse_nlist(out, lab)]
    with cf.ThreadPoolExecutor(workers) as ex:
        parts = list(ex.map(one, range(0, len(terms), chunk)))
    return [i for p in parts for i in p]


def harness(H, cases):
    cs = [canon(c) for c in cases]
    return vlib.run_harness_parallel(H, "c03wire", cs) if len(cs) > 256 else vlib.run_harness(H, "c03wire", cs)


def brief(c, r):
    c = canon(c)
    if "file" in c and len(c["file"]) > 160:
        c = dict(c, file=c["file"][:160] + "...(%d bytes)" % (len(c["file"]) // 2))
    r = dict(r)
    for k in ("image", "data"):
        if isinstance(r.get(k), str) and len(r[k]) > 160:
            r[k] = r[k][:160] + "...(%d bytes)" % (len(r[k]) // 2)
    r.pop("stack", None)
    return c, r


# ----------------------------------------------------------------------------- entry point
def run_unit(ctx, scale=None):
    H, rng = ctx.harness, ctx.rng
    thorough = ctx.tier == "thorough"
    S = scale or (13.4 if thorough else 1.0)
    N = lambda x: max(1, int(x * S))
    t0 = time.time()
    viol, samples = [], []

    # ---- batch 1: write cases
    fixed_heap = [dict(kind="heap", init=i, names=[hx(n) for n in nm], addr=a, gets=g, _names=nm) for i, nm, a, g in (
        (256, [b"a"], 0, [0, 1, 2, 255, 256]), (0, [], 0, [0, 15, 16]), (16, [b"x" * 15], 8, [0, 15, 16]), (16, [b"x" * 16], 8, [0]),
        (17, [b"", b"", b"a\x00b", b"\x00"], 3, [0, 1, 2, 3, 4, 5, 6, 7, U64]), (8, [b"abcdefg", b"hijklmn", b"o", b""], 199, [0, 8, 15, 16, 1 << 63]))]
    fixed_snod = [dict(kind="snod", cap=c, entries=e, max=m, addr=a) for c, e, m, a in (
        (32, [], 32, 0), (32, [[8, 96, 0, 0]], 32, 0), (1, [[0, 0, 0, 0], [1, 1, 1, 1]], 1, 5), (8, [[U64, U64, U32, U32]] * 3, 2, 0),
        (40, [[i, U64 - i, 1, i] for i in range(42)], 40, 1), (40, [[i, i, 0, 0] for i in range(40)], 32, 0), (8, [[1, 2, 1, 3]], 0, 0))]
    fixed_btree = [dict(kind="btree", k=k, keys=ks, addr=a) for k, ks, a in (
        (16, [[0, 1000]], 0), (1, [], 0), (1, [[1, 2], [3, 4], [5, 6], [7, 8]], 3), (4, [[U64, U64], [0, 0], [1 << 63, U32]], 9))]
    heaps = fixed_heap + [gen_heap(rng) for _ in range(N(240))]
    snods = fixed_snod + [gen_snod(rng) for _ in range(N(240))]
    btrees = fixed_btree + [gen_btree(rng) for _ in range(N(70))]
    groups = [gen_group(rng, snods) for _ in range(N(80))]
    wcases = heaps + snods + btrees + groups
    wres = harness(H, wcases)
    t_h = time.time() - t0
    snod_res = wres[len(heaps):len(heaps) + len(snods)]

    # ---- batch 2: read cases from the images (and from files laid out here)
    rcases = []
    per = 1 if not thorough else 1
    for c, r in zip(heaps, wres[:len(heaps)]):
        if r.get("wc") == 0 and "image" in r:
            file = bytes(c["addr"]) + bytes.fromhex(r["image"])
            rcases += heapreads(rng, file, c["addr"], per + (rng.random() < 0.25), c["gets"])
    for c, r in zip(snods, snod_res):
        if r.get("wc") == 0 and "image" in r:
            file = bytes(c["addr"]) + bytes.fromhex(r["image"])
            rcases += snodreads(rng, file, c["addr"], per + (rng.random() < 0.25))
    # heap files laid out here (data segment anywhere in the file)
    for _ in range(N(40)):
        names = [rand_name(rng) for _ in range(rng.randint(0, 5))]
        haddr, gap = rng.randint(0, 64), rng.choice([0, 0, 8, 40])
        before = rng.random() < 0.3
        init = rng.choice([0, 16, 24, 64])
        seglen = new_heap_size(init)
        daddr = 0 if before else haddr + 32 + gap
        if before:
            haddr = seglen + gap
        img = py_heap(init, daddr, names, free=rng.choice([1, 0, U64]))
        file = place([(haddr, img[:32]), (daddr, img[32:])])
        rcases.append(dict(kind="heapread", file=hx(file), addr=haddr, gets=[pick_off(rng, seglen) for _ in range(4)]))
    # groups: Go's B-tree node + Go's symbol table nodes at the planned addresses
    rt_index = {}
    goff = len(heaps) + len(snods) + len(btrees)
    for gi, c in enumerate(groups):
        r = wres[goff + gi]
        if r.get("wc") != 0 or any(snod_res[j].get("wc") != 0 for j, _ in c["_plan"]):
            continue
        file = place([(c["addr"], bytes.fromhex(r["image"]))] + [(a, bytes.fromhex(snod_res[j]["image"])) for j, a in c["_plan"]])
        rt_index[len(rcases)] = gi
        rcases.append(dict(kind="btreeread", file=hx(file), addr=c["addr"]))
        rcases += btreereads(rng, file, c["addr"], 1, c["k"])
    for _ in range(N(90)):
        file, taddr = py_group(rng)
        rcases.append(dict(kind="btreeread", file=hx(file), addr=taddr))
        if rng.random() < 0.6:
            rcases += btreereads(rng, file, taddr, 1)
        if rng.random() < 0.3:
            rcases += snodreads(rng, file, taddr + rng.choice([24 + 16 + 8, 24 + 32 + 8]), 1)
    # the boundary of the entry budget: one node listed m times
    for m in (1, 2, 3):
        for cnt in (1, 2, 4):
            node = py_snod(cnt, [(i, 100 + i, 0, 0, b"") for i in range(cnt)])
            for a in (24 + m * 16 + 8, 40 * cnt * (m - 1) + 64, 40 * cnt * m + 64):
                rcases.append(dict(kind="btreeread", file=hx(place([(0, py_tree(m, [(0, a)] * m)), (a, node)])), addr=0))
    t1 = time.time()
    rres = harness(H, rcases)
    t_h += time.time() - t1

    # ---- harness failures, panics of the whole case
    cases, results = wcases + rcases, wres + rres
    terms, idx, distinct, kinds = [], [], set(), {}
    for i, (c, r) in enumerate(zip(cases, results)):
        kinds[c["kind"]] = kinds.get(c["kind"], 0) + 1
        distinct.add(json.dumps(canon(c), sort_keys=True))
        if "panic" in r or "harness_error" in r:
            cc, rr = brief(c, r)
            viol.append(dict(what="c03wire/%s: the harness case failed: %s" % (c["kind"], r.get("panic") or r.get("harness_error")), failing_input=canon(c), impl=rr))
            continue
        terms.append(c_term(c, r))
        idx.append(i)
    t1 = time.time()
    bad = set(idx[j] for j in coq_mismatches(terms, "w"))
    t_c = time.time() - t1

    # ---- round trip on Go's own outputs (independent of Coq)
    nrt, classes = 0, {}
    for i, (c, r) in enumerate(zip(cases, results)):
        if "panic" in r or "harness_error" in r:
            continue
        k = c["kind"]
        rt = []
        if i < len(wcases):
            rt = heap_roundtrip(c, r) if k == "heap" else (snod_roundtrip(c, r) if k == "snod" else btree_roundtrip(c, r))
            nrt += 1
        elif (i - len(wcases)) in rt_index:
            g = groups[rt_index[i - len(wcases)]]
            nrt += 1
            per_node = {}
            okall = True
            for j, a in g["_plan"]:
                sc, sr = snods[j], snod_res[j]
                acc = [e for e, ok in zip(sc["entries"], sr["adds"]) if ok]
                if len(acc) > sc["max"]:
                    okall = False
                per_node[a] = [[e[0], e[1], e[2], 0, 0] for e in acc]
            full = len(g["keys"]) > 2 * g["k"]
            if okall and not full:
                exp = [e for kk, a in g["keys"] if a not in (0, U64) for e in per_node[a]]
                if r["c"] != 0 or r["entries"] != exp:
                    rt = ["the group written by BTreeNodeV1.WriteAt + SymbolTableNode.WriteAt reads back as class %d (%s) with %d entries, %d were written" % (
                        r["c"], r.get("err"), len(r["entries"]), len(exp))]
            # (a node that counts more entries than it has slots reads on into whatever follows it in the
            #  assembled file: compared with the model only)
        cls = {"heap": "lc", "heapread": "lc", "snod": "pc", "snodread": "pc", "btree": "wc", "btreeread": "c"}[k]
        key = "%s:%s" % (k, {0: "ok", 1: "err", 2: "panic"}.get(r.get(cls), "none"))
        classes[key] = classes.get(key, 0) + 1
        cc, rr = brief(c, r)
        if rt:
            viol.append(dict(what="c03wire/%s round trip: %s" % (k, rt[0]), failing_input=canon(c), impl=rr, model_agrees=i not in bad, round_trip=rt[:6]))
        elif i in bad:
            viol.append(dict(what="c03wire/%s: internal/structures and the Coq model disagree" % k, case=canon(c), impl=rr, coq_term=c_term(c, r)[:4000],
                             nofail=True, correspondence=CORR))
        elif any(r.get(f) == 2 for f in ("wc", "lc", "pc", "c")) or any(g[0] == 2 for g in r.get("gets", [])):
            # a panic the model predicts as well is still a panic of the reader / writer on these bytes
            viol.append(dict(what="c03wire/%s: panic (the model agrees): %s" % (k, r.get("werr") or r.get("lerr") or r.get("perr") or r.get("err")),
                             failing_input=canon(c), impl=rr))
        if len(samples) < 12 and (i % max(len(cases) // 12, 1) == 0):
            samples.append(dict(case=cc, impl=rr))
    return dict(violations=viol, known=[], evaluations=len(cases), distinct=len(distinct), samples=samples,
                kinds=kinds, outcome_classes=classes, write_cases=len(wcases), read_cases=len(rcases), round_trips_checked=nrt,
                groups_assembled=len(rt_index), model_disagreements=len(bad), wall_s=round(time.time() - t0, 1), harness_s=round(t_h, 1), coq_s=round(t_c, 1),
                rule="a case is distinct by its JSON text; every case is run by Go (harness c03wire), evaluated by the Coq model "
                     "(Model/GroupWireTie.v, vm_compute) and, for the write cases and the assembled groups, by the Python round-trip oracle")


if __name__ == "__main__":
    class Ctx:
        pass
    ctx = Ctx()
    ctx.tier = os.environ.get("VERIF_TIER", "quick")
    ctx.seed, ctx.rng = vlib.seed_for("C03")
    ctx.harness = os.environ.get("VERIF_HARNESS") or vlib.build_harness()
    try:
        res = run_unit(ctx)
    finally:
        vlib.cleanup()
    for v in res["violations"][:10]:
        print("VIOLATION", v["what"])
        print("   ", json.dumps(v.get("failing_input") or v.get("case"))[:700])
        print("   ", json.dumps(v.get("impl"))[:700])
        if v.get("coq_term"):
            print("   ", v["coq_term"][:1500])
    print({k: res[k] for k in res if k not in ("violations", "samples", "rule")}, "violations=%d" % len(res["violations"]))
    sys.exit(1 if res["violations"] else 0)
