"""C17 - truncated files and failing I/O produce errors, never different answers.

Theorems (Props/C17.v): every reader program of the strict fragment (Model/IOProg.v) returns, on every file, at every
truncation length and under every pattern of failing / short I/O calls, the intact answer or an error, and never
panics unless the intact run does; the transcribed entry points of the reader (Model/IOProgReader.v) are in the fragment.

Tie / search (this module):
  T  truncation: every public read-API call (Open, Walk, Children, Attributes, ReadValue, Info, raw bytes, ReadSlice,
     ReadHyperslab, ChunkIterator + Chunk, Read, ReadStrings, ReadCompound) on every truncated copy of library-written and reference files (harness `c17trunc`:
     one scratch copy, os.Truncate from the largest length downwards), compared call by call with the intact file.
  S  syscall-level fault injection with strace: the K-th pread64 of `c17dump <file>` fails with EIO, or returns 0
     (end of file), one process per K; the K-th pwrite64 / fsync / ftruncate / close of a write history (`c17whist`).
  F  in-process: internal entry points (ReadSuperblock, ReadObjectHeader + attributes + ReadValue, dataset readers,
     local heap / group B-tree / symbol table nodes) over an io.ReaderAt that fails at call k, for every k, four kinds.
  P  parser level: the Coq programs of Model/IOProgReader.v and the Go parsers on the same images, cuts and faults
     (class and value), evaluated by coqc.
  P2 slices: the Coq programs of Model/IOProgSlice.v and Dataset.ReadSlice / ReadHyperslab / ChunkIterator (+ Chunk) through
     *os.File (`c17slice`, Dataset handle built without Open): same image, same cut (truncated copies) or same failing
     pread64 (strace): class, the sequence of (offset, length) of the I/O calls, value.
Gate per (file, cut / fault): no panic; every call of the intact file is present and its result is equal or an error;
a call that errs on the intact file errs.  Anything else is a VIOLATION (or a KNOWN-FINDING when listed).
"""
import collections, concurrent.futures as cf, hashlib, json, os, re, shutil, struct, subprocess, sys, time

sys.path.insert(0, os.path.dirname(os.path.dirname(os.path.abspath(__file__))))
import vlib

TRUSTED = ["C17: the transcription of the reader's I/O skeleton (Model/IOProgReader.v) is by hand; it is tied to the Go parsers "
           "at parser level (same image, same cut, same failing call: class and value) and to the public API by the "
           "truncation / fault sweeps",
           "C17: strace's syscall tampering (inject=pread64/pwrite64/fsync/ftruncate/close) is the fault model of the public API; "
           "the in-process ReaderAt wrapper is the fault model of the internal entry points",
           "C17: hdf5.VerifDatasetAt (harness overlay) builds a Dataset handle from (file, superblock, address) as loadObject does; the "
           "slice tie uses it so that the pread64 calls of the process on the file are exactly those of the method under test",
           "C17: ReadAt on a range inside the file returns the file's bytes (os.File / pread64 semantics); zero-length reads do not occur"]
ASSUMPTIONS = ["a torn tail after a crash is a prefix of the intact file (truncation), not arbitrary garbage",
               "a failing ReadAt returns a non-nil error, or fewer bytes than requested together with io.EOF"]

WORKERS = 14
import itertools
_ctr = itertools.count()
MEM_KB = 8 * 1024 * 1024


def hx(s):
    return s.encode().hex() if isinstance(s, str) else bytes(s).hex()


def i32(*v):
    return struct.pack("<%di" % len(v), *v).hex()


def f64(*v):
    return struct.pack("<%dd" % len(v), *v).hex()


def attr(path, name, kind, val):
    return {"op": "setattr", "path": path, "name": hx(name), "kind": kind, "val": val}


# ----------------------------------------------------------------------------- library-written files (fixed histories)

def lib_histories():
    H = []
    # 1-3: every superblock version, group + contiguous dataset + compact attributes
    for sb in (0, 2, 3):
        H.append(("sb%d-basic" % sb, dict(sb=sb, ops=[
            {"op": "mkgroup", "path": "/g"},
            {"op": "mkds", "path": "/g/d", "dtype": "int32", "dims": [6]},
            {"op": "write", "path": "/g/d", "val": i32(1, -2, 3, 2**31 - 1, -2**31, 0)},
            attr("/g/d", "units", "str", hx("metres")), attr("/g/d", "scale", "f64", f64(0.5)),
            {"op": "mkds", "path": "/top", "dtype": "float64", "dims": [2, 3]},
            {"op": "write", "path": "/top", "val": f64(1.5, 2.5, -3.5, 4.0, 5.0, 6.25)},
            attr("/g", "note", "i32", i32(7))])))
    # 4: chunked, no filter
    H.append(("sb2-chunked", dict(sb=2, ops=[
        {"op": "mkds", "path": "/c", "dtype": "int32", "dims": [7, 5], "chunk": [3, 2]},
        {"op": "write", "path": "/c", "val": i32(*range(35))},
        attr("/c", "a", "i64", struct.pack("<q", -5).hex())])))
    # 5: chunked + filters
    H.append(("sb2-filtered", dict(sb=2, ops=[
        {"op": "mkds", "path": "/z", "dtype": "float64", "dims": [40], "chunk": [16], "filters": ["shuffle", "gzip:6", "fletcher32"]},
        {"op": "write", "path": "/z", "val": f64(*[i * 0.25 for i in range(40)])},
        {"op": "mkds", "path": "/zi", "dtype": "int32", "dims": [4, 4], "chunk": [2, 4], "filters": ["gzip:1"]},
        {"op": "write", "path": "/zi", "val": i32(*range(100, 116))}])))
    # 6: dense attribute storage on a dataset and on a group
    ops = [{"op": "mkds", "path": "/many", "dtype": "int32", "dims": [3]}, {"op": "write", "path": "/many", "val": i32(4, 5, 6)}]
    for i in range(12):
        ops.append(attr("/many", "attr_%02d" % i, "i32", i32(i * 11)))
    ops.append({"op": "mkgroup", "path": "/gd"})
    for i in range(10):
        ops.append(attr("/gd", "g%d" % i, "f64", f64(i / 8)))
    H.append(("sb2-dense-attrs", dict(sb=2, ops=ops)))
    # 7: nested groups
    H.append(("sb2-nested", dict(sb=2, ops=[
        {"op": "mkgroup", "path": "/a"}, {"op": "mkgroup", "path": "/a/b"}, {"op": "mkgroup", "path": "/a/b/c"},
        {"op": "mkds", "path": "/a/b/c/leaf", "dtype": "uint8", "dims": [5]},
        {"op": "write", "path": "/a/b/c/leaf", "val": bytes([1, 2, 3, 254, 255]).hex()},
        {"op": "mkds", "path": "/a/x", "dtype": "float32", "dims": [2]},
        {"op": "write", "path": "/a/x", "val": struct.pack("<2f", 1.5, -2.25).hex()},
        {"op": "mkgroup", "path": "/e"}])))
    # 8: links
    H.append(("sb2-links", dict(sb=2, ops=[
        {"op": "mkgroup", "path": "/g"},
        {"op": "mkds", "path": "/g/d", "dtype": "int32", "dims": [2]}, {"op": "write", "path": "/g/d", "val": i32(8, 9)},
        {"op": "hardlink", "path": "/alias", "target": "/g/d"},
        {"op": "softlink", "path": "/soft", "target": "/g/d"},
        {"op": "extlink", "path": "/ext", "file": "other.h5", "target": "/x"}])))
    # 9: version 0 superblock, nested groups + chunked
    H.append(("sb0-nested-chunked", dict(sb=0, ops=[
        {"op": "mkgroup", "path": "/p"}, {"op": "mkgroup", "path": "/p/q"},
        {"op": "mkds", "path": "/p/q/c", "dtype": "int32", "dims": [10], "chunk": [4]},
        {"op": "write", "path": "/p/q/c", "val": i32(*range(10))},
        attr("/p/q/c", "k", "str", hx("v"))])))
    # 10: fixed strings
    H.append(("sb2-strings", dict(sb=2, ops=[
        {"op": "mkds", "path": "/s", "dtype": "string", "dims": [3], "strsize": 6},
        {"op": "write", "path": "/s", "val": (b"ab\x00cdefgh\x00\x00").hex()},
        attr("/s", "label", "str", hx("names"))])))
    # 11: many members in one group (dense link storage when the library switches)
    ops = [{"op": "mkgroup", "path": "/big"}]
    for i in range(20):
        ops.append({"op": "mkds", "path": "/big/d%02d" % i, "dtype": "int32", "dims": [1]})
        ops.append({"op": "write", "path": "/big/d%02d" % i, "val": i32(i)})
    H.append(("sb2-many-members", dict(sb=2, ops=ops)))
    # 12: two sessions: resize of a chunked dataset, attribute added after reopen
    H.append(("sb2-sessions", dict(sb=2, ops=[
        {"op": "mkds", "path": "/r", "dtype": "int32", "dims": [4], "chunk": [2], "maxdims": [16]},
        {"op": "write", "path": "/r", "val": i32(1, 2, 3, 4)},
        {"op": "resize", "path": "/r", "dims": [6]},
        {"op": "mkds", "path": "/k", "dtype": "float64", "dims": [2]},
        {"op": "write", "path": "/k", "val": f64(0.5, -0.5)},
        {"op": "close"}, {"op": "reopen"},
        attr("/k", "later", "i32", i32(1)),
        {"op": "write", "path": "/k", "val": f64(1.5, 2.5)}])))
    return H


WRITE_HISTORIES = ["sb2-basic", "sb0-basic", "sb2-chunked", "sb2-filtered", "sb2-dense-attrs", "sb2-links", "sb2-sessions"]


def make_lib_files(H, workdir):
    """run the fixed histories through `hist` (keep=true); returns [(tag, path, case)] of those that closed without error"""
    hs = lib_histories()
    cases = [dict(c, dir=workdir, keep=True) for _, c in hs]
    res = vlib.run_harness(H, "hist", cases)
    out, notes = [], []
    for (tag, c), r in zip(hs, res):
        p = r.get("file")
        bad = [i for i, x in enumerate(r.get("results", [])) if not x.get("ok")]
        if not p or not os.path.exists(p) or r.get("final", {}).get("openerr") or r.get("final", {}).get("panic"):
            notes.append("%s: not usable (%s)" % (tag, str(r.get("final", {}).get("openerr") or r.get("final", {}).get("panic") or r)[:120]))
            continue
        if bad:
            notes.append("%s: ops %s refused by the library (%s)" % (tag, bad[:4], r["results"][bad[0]].get("err", "")[:80]))
        out.append((tag, p, c))
    # 13: variable-length data through the global heap (written by the c12 harness through the public API)
    vcase = vlen_case(workdir)
    try:
        r = vlib.run_harness(H, "c12", [vcase])[0]
        if r.get("path") and os.path.exists(r["path"]) and not r.get("write_errs") and not r.get("close_err"):
            out.append(("sb2-vlen", r["path"], dict(c12=vcase)))
        else:
            notes.append("sb2-vlen: not usable (%s)" % str({k: r.get(k) for k in ("create_err", "write_errs", "close_err")})[:160])
    except Exception as e:
        notes.append("sb2-vlen: c12 harness failed (%s)" % str(e)[:120])
    return out, notes


def vlen_case(workdir):
    return dict(dir=workdir, sbver=2, keep=True, dump_gcol=False, datasets=[
        dict(name="vs", base="string", chunk=0, elems=[hx("alpha"), hx(""), hx("a longer string value"), hx("z")]),
        dict(name="vi", base="int32", chunk=2, elems=[i32(1, 2, 3), i32(), i32(-7), i32(4, 5), i32(6)])])


# ----------------------------------------------------------------------------- reference files

QUICK_REF = ["v0.h5", "v2.h5", "v3.h5", "with_groups.h5", "with_attributes.h5", "vlen_strings.h5", "compound_test.h5",
             "test_3d_chunked.h5", "string_test.h5", "various_types.h5", "mathcad_document.h5", "gzip_test.h5"]
EXCLUDE = {"tbigdims.h5", "h5diff_hyper1.h5", "h5diff_hyper2.h5"}   # reader exhausts memory on the intact file (C07's business)


def corpus():
    td = os.path.join(vlib.REPO, "testdata")
    out = []
    for root, _, fs in os.walk(td):
        for f in fs:
            if f.endswith((".h5", ".hdf5")) and f not in EXCLUDE:
                out.append(os.path.join(root, f))
    return sorted(out)


def pick_reference(tier):
    allf = corpus()
    td = os.path.join(vlib.REPO, "testdata")
    if tier == "thorough":
        return [p for p in allf if os.path.getsize(p) > 0]
    sel = [os.path.join(td, n) for n in QUICK_REF if os.path.exists(os.path.join(td, n))]
    off = sorted(p for p in allf if "/hdf5_official/" in p and 0 < os.path.getsize(p) <= 8192)
    # deterministic spread over the official corpus: every len/6-th small file
    if off:
        step = max(1, len(off) // 6)
        sel += off[::step][:6]
    return sel


def crafted_files():
    """hand-made witnesses (corpus/C17): shapes no library-written or reference file has"""
    d = os.path.join(vlib.VERIF, "corpus", "C17")
    return sorted(os.path.join(d, f) for f in os.listdir(d) if f.endswith(".h5")) if os.path.isdir(d) else []


def read_signature_variant():
    """which readSignature the tree under test has (a syntactic fact read from the source, DESIGN 4.4):
    True = repaired (returns the read error), False = returns "" on a failed read"""
    src = open(os.path.join(vlib.REPO, "file.go")).read()
    m = re.search(r"func readSignature\(r io\.ReaderAt, address uint64\) (\(string, error\)|string) \{", src)
    if not m:
        raise RuntimeError("file.go: readSignature not found (the model's switch IOProgOpen.repaired cannot be set)")
    return m.group(1) != "string"


# ----------------------------------------------------------------------------- cuts

def boundaries(path):
    """structure boundaries of the file from the independent decoder tools/h5spec.py (extent map)"""
    try:
        import h5spec
        r = h5spec.walk(path)
        b = set()
        for e in r["extents"]:
            b.add(e[0]); b.add(e[1])
        return sorted(b)
    except BaseException:
        return []


def cuts_for(path, tier):
    size = os.path.getsize(path)
    full = 8192 if tier == "quick" else 65536
    if size <= full:
        return list(range(size)), "all"
    s = set([0, 1, 7, 8, 47, 48, 95, 96, 127, 128, size - 1, size - 2, size - 8])
    for b in boundaries(path):
        for d in (-1, 0, 1):
            if 0 <= b + d < size:
                s.add(b + d)
    stride = max(1, size // (400 if tier == "quick" else 4000))
    s.update(range(0, size, stride))
    s.update(range(0, min(size, 4096)))          # the metadata-dense head of the file
    return sorted(x for x in s if 0 <= x < size), "boundaries+stride"


# ----------------------------------------------------------------------------- gate (independent of the Go-side comparer)

def gate(base, got):
    """base/got: hashed dumps {open, res:{id: 'E' | 'P:..' | 'V:hash'}}; returns (class, [problems])"""
    if str(got.get("open", "")).startswith("P:"):
        return "violation", [dict(id="open", kind="panic", got=got["open"][:300])]
    if got.get("open") == "E":
        if base.get("open") == "E":
            return "equal", []
        return "error", []
    if base.get("open") != "ok":
        return "violation", [dict(id="open", kind="ok-where-intact-errs", intact=base.get("open"), got="ok")]
    probs, nerr = [], 0
    for k, bv in base["res"].items():
        gv = got["res"].get(k)
        if gv is None and k.startswith("attrval:") and got["res"].get("attrs:" + k.split(":")[1]) == "E":
            nerr += 1      # value call of an attribute whose list call (Attributes) reported the error
        elif gv is None:
            probs.append(dict(id=k, kind="missing", intact=bv))
        elif gv.startswith("P:"):
            probs.append(dict(id=k, kind="panic", got=gv[:300]))
        elif gv == bv:
            pass
        elif gv == "E":
            nerr += 1
        elif bv == "E":
            probs.append(dict(id=k, kind="ok-where-intact-errs", intact=bv, got=gv))
        else:
            probs.append(dict(id=k, kind="different", intact=bv, got=gv))
    for k in got["res"]:
        if k not in base["res"]:
            probs.append(dict(id=k, kind="extra", got=got["res"][k]))
    if probs:
        return "violation", probs
    return ("error" if nerr else "equal"), []


def best_problem(probs):
    """the most telling problem first: a panic, then a different listing, a different value, ..., a missing call"""
    rank = {"panic": 0, "different": 2, "ok-where-intact-errs": 3, "extra": 4, "missing": 5}
    def key(p):
        r = rank.get(p.get("kind"), 6)
        if p.get("kind") == "different" and p.get("id", "").split(":")[0] in ("walk", "children"):
            r = 1
        return r
    return sorted(probs, key=key)


def unhex_id(i):
    """call id 'kind:<hexpath>[...]' -> readable"""
    parts = i.split(":")
    try:
        parts[1] = bytes.fromhex(parts[1].split("#")[0]).decode("utf-8", "replace")
    except Exception:
        pass
    return ":".join(parts)


# ----------------------------------------------------------------------------- T: truncation sweep

def run_trunc(H, path, cuts, workdir, limit=8, secs=900):
    p = subprocess.run(["/bin/sh", "-c", 'ulimit -v %d; exec "$0" c17trunc "$1" "$2" %d %d' % (MEM_KB, limit, secs), H, path, workdir],
                       input=json.dumps(cuts), capture_output=True, text=True, timeout=secs + 60)
    rows = []
    for l in p.stdout.splitlines():
        if l.strip():
            try:
                rows.append(json.loads(l))
            except ValueError:
                rows.append({"garbled": l[:200]})
    return p.returncode, p.stderr[-800:], rows


def trunc_sweep(ctx, files, workdir, viol, cov):
    H = ctx.harness
    jobs = []
    per_file = {}
    for tag, path, origin in files:
        cuts, mode = cuts_for(path, ctx.tier)
        per_file[tag] = dict(size=os.path.getsize(path), cuts=len(cuts), mode=mode, hist=collections.Counter(), origin=origin)
        nsplit = max(1, min(WORKERS, len(cuts) // 1500))
        for i in range(nsplit):
            jobs.append((tag, path, cuts[i::nsplit]))
    def one(j):
        tag, path, cuts = j
        try:
            return j, run_trunc(H, path, cuts, workdir)
        except subprocess.TimeoutExpired:
            return j, (-9, "timeout", [])
    baselines = {}
    with cf.ThreadPoolExecutor(WORKERS) as ex:
        for (tag, path, cuts), (rc, err, rows) in ex.map(one, jobs):
            pf = per_file[tag]
            if rc != 0 or not rows or not rows[0].get("baseline"):
                pf["hist"]["harness-failed"] += 1
                viol.append(dict(what="c17trunc crashed on %s (rc=%s): %s" % (tag, rc, err[-300:]),
                                 failing_input=dict(file=path, cuts=[cuts[0], cuts[-1]], rc=rc), impl=err[-800:],
                                 nofail=("out of memory" in err or "cannot allocate" in err)))
                continue
            b = rows[0]
            baselines[tag] = b["hashed"]
            pf["calls"] = b["calls"]; pf["open"] = b["open"]
            if b.get("panics"):
                pf["hist"]["intact-panics"] += 1
            seen = 0
            for r in rows[1:]:
                if "cut" not in r or r.get("deadline"):
                    pf["hist"]["deadline"] += 1
                    continue
                seen += 1
                if r.get("diffs"):
                    r["diffs"] = best_problem(r["diffs"])
                    pf["hist"]["VIOLATION:" + r["diffs"][0]["kind"]] += 1
                    d = r["diffs"][0]
                    viol.append(dict(what="%s cut to %d of %d bytes: %s -> %s (%s)" % (tag, r["cut"], pf["size"], unhex_id(d["id"]), d["kind"], d.get("got", "")[:80]),
                                     failing_input=dict(kind="trunc", file=path, origin=pf["origin"], cut=r["cut"]),
                                     call=unhex_id(d["id"]), intact=d.get("intact"), observed=d.get("got"), diffs=r["diffs"][:4]))
                elif r["open"] == "E":
                    pf["hist"]["open-error" if b["open"] == "ok" else "equal"] += 1
                elif r["err"]:
                    pf["hist"]["some-calls-error"] += 1
                else:
                    pf["hist"]["equal"] += 1
            if seen != len([c for c in cuts if c < pf["size"]]):
                pf["hist"]["missing-results"] += abs(seen - len(cuts))
    cov["truncation"] = {t: dict(v, hist=dict(v["hist"])) for t, v in per_file.items()}
    return baselines


def recheck_sample(ctx, files, baselines, workdir, viol, cov, per_file=6):
    """the gate re-evaluated in Python on hashed dumps of truncated copies made by Python (checks the Go-side comparer)"""
    H = ctx.harness
    n = 0
    hist = collections.Counter()
    jobs = []
    for tag, path, origin in files:
        if tag not in baselines:
            continue
        size = os.path.getsize(path)
        data = open(path, "rb").read()
        for cut in sorted(set([size - 1, size // 2, size * 3 // 4, size * 7 // 8] + [ctx.rng.randrange(size) for _ in range(per_file)])):
            jobs.append((tag, path, origin, cut, data[:cut]))
    def one(j):
        tag, path, origin, cut, blob = j
        fn = os.path.join(workdir, "rs-%s-%d.h5" % (hashlib.sha1(tag.encode()).hexdigest()[:8], cut))
        open(fn, "wb").write(blob)
        try:
            p = subprocess.run([H, "c17dump", fn, "8", "hashed"], capture_output=True, text=True, timeout=120)
            return j, json.loads(p.stdout)
        except Exception as e:
            return j, {"open": "P:harness " + str(e)[:200], "res": {}}
        finally:
            os.remove(fn)
    with cf.ThreadPoolExecutor(WORKERS) as ex:
        for (tag, path, origin, cut, _), got in ex.map(one, jobs):
            cls, probs = gate(baselines[tag], got)
            hist[cls] += 1
            n += 1
            if cls == "violation":
                viol.append(dict(what="%s cut to %d bytes (python-side gate): %s %s" % (tag, cut, unhex_id(probs[0]["id"]), probs[0]["kind"]),
                                 failing_input=dict(kind="trunc", file=path, origin=origin, cut=cut), problems=probs[:4]))
    cov["python_gate_recheck"] = dict(points=n, hist=dict(hist))
    return n


# ----------------------------------------------------------------------------- S: strace

def strace_ok():
    return shutil.which("strace") is not None


def strace_count(argv, syscall, stdin=None, pathfilter=None, timeout=120):
    log = os.path.join(vlib.scratch(), "st.log")
    cmd = ["strace", "-f", "-qq", "-o", log, "-e", "trace=" + syscall]
    if pathfilter:
        cmd += ["-P", pathfilter]
    p = subprocess.run(cmd + argv, input=stdin, capture_output=True, text=True, timeout=timeout)
    n = 0
    if os.path.exists(log):
        for l in open(log, errors="replace"):
            if re.search(r"\b(%s)\(" % syscall.replace(",", "|"), l) and "resumed" not in l:
                n += 1
    return n, p


def strace_inject(argv, syscall, spec, when, stdin=None, pathfilter=None, timeout=120):
    """runs argv with the when-th <syscall> tampered; .injected tells whether strace reports the injection
    (its counter is per thread: the harness pins the library calls to one OS thread)"""
    d = vlib.scratch()
    log = os.path.join(d, "inj-%d-%d.log" % (os.getpid(), next(_ctr)))
    cmd = ["strace", "-f", "-qq", "-o", log, "-e", "trace=" + syscall,
           "-e", "inject=%s:%s:when=%d" % (syscall, spec, when)]
    if pathfilter:
        cmd += ["-P", pathfilter]
    p = subprocess.run(cmd + argv, input=stdin, capture_output=True, text=True, timeout=timeout)
    try:
        p.injected = "(INJECTED)" in open(log, errors="replace").read()
        os.remove(log)
    except OSError:
        p.injected = False
    return p


def pick_ks(n, budget, rng):
    if n <= budget:
        return list(range(1, n + 1))
    ks = set(range(1, min(n, budget // 3) + 1)) | {n, n - 1}
    while len(ks) < budget:
        ks.add(rng.randrange(1, n + 1))
    return sorted(ks)


def strace_read_sweep(ctx, files, baselines, viol, cov, budget_total):
    H = ctx.harness
    per_file = {}
    jobs = []
    usable = [(t, p, o) for t, p, o in files if t in baselines and baselines[t]["open"] == "ok"]
    if not usable:
        cov["strace_read"] = "no usable file"
        return 0
    budget = max(10, budget_total // (2 * len(usable)))
    for tag, path, origin in usable:
        n, p = strace_count([H, "c17dump", path, "8", "hashed"], "pread64")
        per_file[tag] = dict(pread64_calls=n, hist=collections.Counter())
        for k in pick_ks(n, (n if tag.startswith("crafted:") else budget), ctx.rng):
            for kind, spec in (("EIO", "error=EIO"), ("eof", "retval=0")):
                jobs.append((tag, path, origin, k, kind, spec))
    def one(j):
        tag, path, origin, k, kind, spec = j
        try:
            p = strace_inject([H, "c17dump", path, "8", "hashed"], "pread64", spec, k)
            if not p.injected:
                return j, None
            if p.returncode != 0 or not p.stdout.strip():
                return j, {"open": "P:process died rc=%d %s" % (p.returncode, p.stderr[-300:]), "res": {}}
            return j, json.loads(p.stdout)
        except subprocess.TimeoutExpired:
            return j, {"open": "P:timeout", "res": {}}
    with cf.ThreadPoolExecutor(WORKERS) as ex:
        for (tag, path, origin, k, kind, spec), got in ex.map(one, jobs):
            if got is None:
                per_file[tag]["hist"][kind + ":not-injected"] += 1
                continue
            cls, probs = gate(baselines[tag], got)
            per_file[tag]["hist"][kind + ":" + cls] += 1
            if cls == "violation":
                probs = best_problem(probs)
                d = probs[0]
                viol.append(dict(what="%s: pread64 #%d fails (%s): Open succeeds, %s -> %s (intact %s, observed %s)" % (
                                     tag, k, kind, unhex_id(d["id"]), d["kind"], str(d.get("intact"))[:40], str(d.get("got"))[:40]),
                                 failing_input=dict(kind="strace-read", file=path, origin=origin, syscall="pread64", inject=spec, when=k),
                                 call=unhex_id(d["id"]), intact=d.get("intact"), observed=d.get("got"), problems=probs[:4]))
    cov["strace_read"] = {t: dict(v, hist=dict(v["hist"])) for t, v in per_file.items()}
    return len(jobs)


def write_sweep(ctx, lib, workdir, viol, cov, budget_total):
    """K-th pwrite64 / fsync / ftruncate / close on the target file fails while a write history runs"""
    H = ctx.harness
    cases = {tag: c for tag, _, c in lib if "c12" not in c}
    per = {}
    jobs = []
    tags = [t for t in WRITE_HISTORIES if t in cases]
    for tag in tags:
        case = dict(cases[tag]); case.pop("dir", None); case.pop("keep", None)
        stdin = json.dumps(case)
        target = os.path.join(workdir, "w-%s.h5" % tag)
        base = subprocess.run([H, "c17whist", target], input=stdin, capture_output=True, text=True, timeout=120)
        if base.returncode != 0:
            viol.append(dict(what="c17whist failed on %s: %s" % (tag, base.stderr[-200:]), failing_input=dict(history=case), nofail=True,
                             correspondence="harness/c17whist"))
            continue
        bres = json.loads(base.stdout)
        per[tag] = dict(hist=collections.Counter(), calls={})
        for sc in ("pwrite64", "fsync", "ftruncate", "close"):
            n, _ = strace_count([H, "c17whist", target], sc, stdin=stdin, pathfilter=target)
            per[tag]["calls"][sc] = n
            b = max(4, budget_total // (len(tags) * 2)) if sc == "pwrite64" else 6
            for k in pick_ks(n, b, ctx.rng):
                jobs.append((tag, stdin, sc, k, bres, case))
    def flat(r):
        return [("create", r["create"])] + [("op%d" % i, x) for i, x in enumerate(r["results"])] + [("final_close", r["final_close"])]
    def one(j):
        tag, stdin, sc, k, bres, case = j
        target = os.path.join(workdir, "w-%s-%s-%d.h5" % (tag, sc, k))
        try:
            p = strace_inject([H, "c17whist", target], sc, "error=EIO", k, stdin=stdin, pathfilter=target)
            if not p.injected:
                return j, {"notinjected": True}, {"open": "E", "res": {}}
            out = json.loads(p.stdout) if p.returncode == 0 and p.stdout.strip() else {"died": p.stderr[-400:], "rc": p.returncode}
            # the damaged file must not make the reader panic either
            rd = subprocess.run([H, "c17dump", target, "4", "hashed"], capture_output=True, text=True, timeout=60)
            rdj = json.loads(rd.stdout) if rd.returncode == 0 and rd.stdout.strip() else {"open": "P:died " + rd.stderr[-200:], "res": {}}
            return j, out, rdj
        except subprocess.TimeoutExpired:
            return j, {"died": "timeout"}, {"open": "E", "res": {}}
        finally:
            if os.path.exists(target):
                os.remove(target)
    with cf.ThreadPoolExecutor(WORKERS) as ex:
        for (tag, stdin, sc, k, bres, case), out, rdj in ex.map(one, jobs):
            h = per[tag]["hist"]
            fi = dict(kind="strace-write", history=case, tag=tag, syscall=sc, inject="error=EIO", when=k)
            if out.get("notinjected"):
                h["not-injected"] += 1
                continue
            if "died" in out:
                h["VIOLATION:process-died"] += 1
                viol.append(dict(what="%s: %s #%d fails: the process died (%s)" % (tag, sc, k, out["died"][-120:]), failing_input=fi, observed=out))
                continue
            fb, fo = flat(bres), flat(out)
            pan = [(n, x) for n, x in fo if x.get("panic")]
            if pan:
                h["VIOLATION:panic"] += 1
                viol.append(dict(what="%s: %s #%d fails: %s panics: %s" % (tag, sc, k, pan[0][0], pan[0][1]["panic"][:120]), failing_input=fi,
                                 call=pan[0][0], observed=pan[0][1]))
                continue
            first = next((i for i, (a, b) in enumerate(zip(fb, fo)) if bool(a[1].get("ok")) != bool(b[1].get("ok"))), None)
            if first is None:
                h["VIOLATION:error-dropped"] += 1
                viol.append(dict(what="%s: %s #%d on the file fails with EIO and every API call still reports success" % (tag, sc, k),
                                 failing_input=fi, intact=[n for n, _ in fb], observed="all calls ok=%s" % [bool(x.get("ok")) for _, x in fo]))
            elif fb[first][1].get("ok") and not fo[first][1].get("ok"):
                h["call-returned-error"] += 1
            else:
                h["VIOLATION:ok-where-faultfree-errs"] += 1
                viol.append(dict(what="%s: %s #%d fails: call %s succeeds although it fails without the fault" % (tag, sc, k, fo[first][0]), failing_input=fi))
            if str(rdj.get("open", "")).startswith("P:") or any(v.startswith("P:") for v in rdj.get("res", {}).values()):
                h["VIOLATION:reader-panics-on-torn-file"] += 1
                viol.append(dict(what="%s: %s #%d fails: reading the torn file panics" % (tag, sc, k), failing_input=fi, observed=str(rdj)[:400]))
            else:
                h["torn-file-read:" + ("open-error" if rdj.get("open") == "E" else "opens")] += 1
    cov["strace_write"] = {t: dict(calls=v["calls"], hist=dict(v["hist"])) for t, v in per.items()}
    return len(jobs)


# ----------------------------------------------------------------------------- W: writer shape tie + source audit

WRITE_FAMILY = r"(WriteAt|WriteAtAddress|WriteTo|WriteAtWithAllocation|Flush|Sync|Truncate|Close|UpdateEndOfFile)"


def source_audit(viol, cov):
    """the writer model has no dropped error (wstrict): every call of the write family in the non-test sources is either
    checked or sits on a path that already returns an error.  Regenerated from the source on every run (DESIGN 4.4)."""
    bad, allowed, nfiles = [], [], 0
    for root, dirs, fs in os.walk(vlib.REPO):
        rel = os.path.relpath(root, vlib.REPO)
        if rel.split(os.sep)[0] in ("cmd", "examples", "tmp", "scripts", "docs", "testdata", ".git", "internal" + os.sep + "testing"):
            continue
        for f in fs:
            if not f.endswith(".go") or f.endswith("_test.go"):
                continue
            nfiles += 1
            path = os.path.join(root, f)
            lines = open(path, errors="replace").read().split("\n")
            for i, l in enumerate(lines):
                st = l.strip()
                if st.startswith("//"):
                    continue
                blank = re.search(r"_\s*(,\s*_)?\s*:?=\s*[A-Za-z_][A-Za-z0-9_.()]*\." + WRITE_FAMILY + r"\(", st)
                bare = re.match(r"(defer\s+)?[A-Za-z_][A-Za-z0-9_.()]*\." + WRITE_FAMILY + r"\(", st)
                if not (blank or bare):
                    continue
                where = "%s:%d" % (os.path.relpath(path, vlib.REPO), i + 1)
                ctx_after = "\n".join(lines[i + 1:i + 4])
                ctx_before = "\n".join(lines[max(0, i - 3):i])
                ok = (re.search(r"return\s+(nil,\s*|0,\s*|\"\",\s*)*(err|fmt\.Errorf|errors\.New|utils\.WrapError)", ctx_after) is not None
                      or "cleanupOnError" in ctx_before
                      or re.search(r"(reader|r|w)\.Close\(\)", st) and ("filter" in f))   # in-memory zlib reader / writer
                (allowed if ok else bad).append(where + "  " + st[:80])
    for b in bad:
        viol.append(dict(what="write/close error dropped at %s" % b, nofail=True,
                         correspondence="Model.IOProgWriter (no WSwallow) vs the call site; theorem C17_write_fault_err assumes wstrict",
                         case=dict(call_site=b)))
    cov["source_audit"] = dict(files=nfiles, dropped_on_error_paths=allowed, dropped_elsewhere=bad)


def whist_trace(H, case, target):
    """the pwrite64 / fsync / ftruncate / close calls on the target file, grouped by API call (markers on stderr)"""
    log = os.path.join(vlib.scratch(), "wt-%d.log" % next(_ctr))
    env = dict(os.environ, C17_MARK="1")
    subprocess.run(["strace", "-f", "-qq", "-xx", "-s", "48", "-o", log, "-e", "trace=pwrite64,write,fsync,ftruncate,close",
                    H, "c17whist", target], input=json.dumps(case), capture_output=True, text=True, env=env, timeout=120)
    groups, cur = [("create", [])], None
    fdn = None
    for l in open(log, errors="replace"):
        m = re.search(r'pwrite64\((\d+), "((?:\\x[0-9a-f]{2})*)"(?:\.\.\.)?, (\d+), (\d+)(?:\)| <unfinished)', l)
        if m:
            fdn = m.group(1)
            sig = bytes.fromhex(m.group(2).replace("\\x", ""))[:4]
            groups[-1][1].append((0, int(m.group(4)), int(m.group(3)), sig))
            continue
        m = re.search(r'write\(2, "((?:\\x[0-9a-f]{2})*)"', l)
        if m:
            t = bytes.fromhex(m.group(1).replace("\\x", "")).decode(errors="replace").strip()
            if t.startswith("MARK"):
                groups.append((t[5:], []))
            continue
        m = re.search(r'fsync\((\d+)', l)
        if m and (fdn is None or m.group(1) == fdn):
            groups[-1][1].append((1, 0, 0, b""))
            continue
        m = re.search(r'ftruncate\((\d+), (\d+)', l)
        if m and (fdn is None or m.group(1) == fdn):
            groups[-1][1].append((2, int(m.group(2)), 0, b""))
            continue
        m = re.search(r'close\((\d+)', l)
        if m and fdn is not None and m.group(1) == fdn:
            groups[-1][1].append((3, 0, 0, b""))
    if os.path.exists(target):
        os.remove(target)
    return groups


def writer_shape_tie(ctx, lib, workdir, viol, cov):
    """the calls each API operation makes (strace) against the transcribed patterns of Model/IOProgWriter.v"""
    if not os.path.exists(os.path.join(vlib.COQ, "theories", "Model", "IOProgWriter.v")):
        cov["writer_shape"] = "Model/IOProgWriter.v not present"
        return 0
    H = ctx.harness
    cases = {tag: c for tag, _, c in lib if "c12" not in c}
    rows, skipped = [], collections.Counter()
    for tag in [t for t in WRITE_HISTORIES if t in cases]:
        case = {k: v for k, v in cases[tag].items() if k not in ("dir", "keep")}
        base = subprocess.run([H, "c17whist", os.path.join(workdir, "ws-%s.h5" % tag)], input=json.dumps(case), capture_output=True, text=True, timeout=120)
        okflags = [bool(x.get("ok")) for x in json.loads(base.stdout)["results"]] if base.returncode == 0 else []
        groups = whist_trace(H, case, os.path.join(workdir, "ws-%s.h5" % tag))
        chunked = set(o["path"] for o in case["ops"] if o["op"] == "mkds" and o.get("chunk"))
        for name, calls in groups:
            if name == "create":
                code = 1 if case["sb"] == 0 else 0
            elif name.startswith("final_close"):
                code = 7
            else:
                m = re.match(r"op(\d+) (\S+)\s*(\S*)", name)
                i, opn, path = int(m.group(1)), m.group(2), m.group(3)
                if i < len(okflags) and not okflags[i]:
                    skipped["refused:" + opn] += 1
                    continue
                code = {"mkgroup": 2, "mkds": 3, "hardlink": 3, "softlink": 3, "extlink": 3, "setattr": 6, "close": 7,
                        "write": (5 if path in chunked else 4)}.get(opn)
                if code is None:
                    skipped[opn] += 1
                    continue
            rows.append((tag, name, code, calls))
    if not rows:
        cov["writer_shape"] = "no operation traced"
        return 0
    v = ["From HV Require Import Base.Prelude Base.Outcome Base.Bytes Model.IOProg Model.IOProgWriter.\n"]
    v.append("Definition ops : list (N * list obs) := [%s].\n" % ";\n ".join(
        "(%d, [%s])" % (code, "; ".join('(%d, unhex "%s", %d)' % (k, sig.hex(), n) for k, a, n, sig in calls)) for _, _, code, calls in rows))
    v.append("Definition bad_ops := Eval vm_compute in mismatches shape_ok ops.\nPrint bad_ops.\n")
    out = vlib.coq_eval("".join(v), "c17wshape")
    bad = vlib.parse_nlist(out, "bad_ops")
    for i in bad[:3]:
        tag, name, code, calls = rows[i]
        viol.append(dict(what="%s: the calls of `%s` do not match the transcribed pattern %d of Model/IOProgWriter.v: %s" % (
                             tag, name, code, [(k, sig.decode("latin1"), n) for k, a, n, sig in calls][:12]),
                         case=dict(history=cases[tag], op=name, calls=[(k, a, n, sig.hex()) for k, a, n, sig in calls]), nofail=True,
                         correspondence="Model.IOProgWriter.op_patterns vs the write call sites; theorems C17_write_*"))
    mix = collections.Counter("%d" % r[2] for r in rows)
    cov["writer_shape"] = dict(operations=len(rows), by_pattern=dict(mix), skipped=dict(skipped), mismatches=len(bad),
                               sample=[(r[0], r[1], [(k, sig.decode("latin1"), n) for k, a, n, sig in r[3]]) for r in rows[1:3]])
    return len(rows)


# ----------------------------------------------------------------------------- F: in-process fault injection

def fault_sweep(ctx, files, viol, cov, maxk):
    H = ctx.harness
    per = {}
    def one(f):
        tag, path, origin = f
        try:
            p = subprocess.run(["/bin/sh", "-c", 'ulimit -v %d; exec "$0" c17fault "$1" 8 %d' % (MEM_KB, maxk), H, path],
                               capture_output=True, text=True, timeout=600)
            return f, p.returncode, p.stderr[-300:], [json.loads(l) for l in p.stdout.splitlines() if l.strip()]
        except subprocess.TimeoutExpired:
            return f, -9, "timeout", []
    total = 0
    with cf.ThreadPoolExecutor(WORKERS) as ex:
        for (tag, path, origin), rc, err, rows in ex.map(one, files):
            h = collections.Counter()
            pts = 0
            if rc != 0:
                h["harness-failed"] += 1
                viol.append(dict(what="c17fault crashed on %s: %s" % (tag, err), failing_input=dict(file=path), nofail=True, correspondence="harness/c17fault"))
            for r in rows:
                if r.get("timeout"):
                    h["timeout"] += 1
                    continue
                pts += r.get("points", 0)
                for k, v in r.get("hist", {}).items():
                    h[k] += v
                if r.get("diffs"):
                    d = r["diffs"][0]
                    viol.append(dict(what="%s: in-process fault %s -> %s (%s)" % (tag, d["id"], d["kind"], (d.get("got") or "")[:80]),
                                     failing_input=dict(kind="inproc-fault", file=path, origin=origin, op=r["op"], fault=d["id"]),
                                     call=d["id"], intact=d.get("intact"), observed=d.get("got"), diffs=r["diffs"][:4]))
            per[tag] = dict(points=pts, ops=len(rows), hist=dict(h))
            total += pts
    cov["inprocess_fault"] = per
    return total


# ----------------------------------------------------------------------------- P: parser level, Go vs Coq programs

def coq_val(v):
    if isinstance(v, bool):
        return "VN %d" % int(v)
    if isinstance(v, int):
        return "VN %d" % v
    if isinstance(v, str):
        return 'VB (unhex "%s")' % v
    return "VL [%s]" % "; ".join(coq_val(x) for x in v)


def parser_tie(ctx, lib, viol, cov, repaired=True, workdir=None, crafted=()):
    """model programs (Model/IOProgReader.v) vs Go parsers: same image, same cut, same failing call:
    class, number of I/O calls made, value"""
    mpath = os.path.join(vlib.COQ, "theories", "Model", "IOProgTie.v")
    if not os.path.exists(mpath):
        cov["parser_tie"] = "Model/IOProgTie.v not present"
        return 0
    H = ctx.harness
    rng = ctx.rng
    small = [(t, p, c) for t, p, c in lib if os.path.getsize(p) <= 6000]
    if ctx.tier == "quick":     # five of them + the one with a string dataset (ReadStrings)
        small = small[:5] + [x for x in small[5:] if x[0] == "sb2-strings"]
    small = small[:12]
    td = os.path.join(vlib.REPO, "testdata")
    for n in (TIE_REF if ctx.tier == "quick" else TIE_REF + TIE_REF_MORE):
        if os.path.exists(os.path.join(td, n)):
            small.append(("ref:" + n, os.path.join(td, n), None))
    vparts = ["From HV Require Import Base.Prelude Base.Outcome Base.Bytes Model.IOProg Model.IOProgReader Model.IOProgOpen Model.IOProgTie.\n"]
    if os.path.exists(os.path.join(vlib.COQ, "theories", "Model", "IOProgSliceTie.v")):
        vparts.append("From HV Require Import Model.IOProgSlice Model.IOProgSliceTie.\n")
    labels, total = [], 0
    stats = collections.Counter()
    KINDS = [("eio", 0, 0), ("eof0", 0, 1), ("shortn", 4, 5), ("shortn", 20, 21), ("shortn", 60, 61)]
    for fi, (tag, path, _) in enumerate(small):
        img = open(path, "rb").read()
        size = len(img)
        targets = parser_targets(H, path)
        if ctx.tier == "quick" and len(targets) > 10:
            av = [t for t in targets if t[0] in ("attrval", "strings", "compound")][:3]
            targets = targets[:1] + [targets[i] for i in sorted(rng.sample(range(1, len(targets)), 9)) if targets[i] not in av] + av
        vparts.append('Definition img%d : bytes := unhex "%s".\n' % (fi, img.hex()))
        for ti, (op, addr, args) in enumerate(targets):
            ncuts = 12 if ctx.tier == "quick" else 120
            cuts = sorted(set([0, 47, 48, 95, 96, size - 1] + [rng.randrange(size) for _ in range(ncuts)]
                              + [min(size - 1, max(0, addr + d)) for d in (-1, 0, 1, 7, 8, 15, 16, 17, 40)]))
            intact = vlib.run_harness(H, "c17parse", [dict(img=img.hex(), op=op, addr=addr, args=args, cuts=[-1], fault=[-1])])[0]["res"][0]
            ncalls = intact["calls"]
            maxk = 12 if ctx.tier == "quick" else 60
            ks = list(range(ncalls)) if ncalls <= maxk else sorted(set(list(range(maxk // 2)) + [rng.randrange(ncalls) for _ in range(maxk // 2)]))
            res = []
            r = vlib.run_harness(H, "c17parse", [dict(img=img.hex(), op=op, addr=addr, args=args, kind="eio", cuts=cuts, fault=[-1] * len(cuts))])[0]["res"]
            res += [((c, -1, 0), x) for c, x in zip(cuts, r)]
            for kind, shortn, code in KINDS:
                extra = [(rng.randrange(size), rng.randrange(max(1, ncalls))) for _ in range(2)]
                cs = [-1] * len(ks) + [e[0] for e in extra]
                fs = ks + [e[1] for e in extra]
                r = vlib.run_harness(H, "c17parse", [dict(img=img.hex(), op=op, addr=addr, args=args, kind=kind, shortn=shortn, cuts=cs, fault=fs)])[0]["res"]
                res += [((c, k, code), x) for c, k, x in zip(cs, fs, r)]
            # specification on the implementation's outputs: equal to the intact answer or an error, never a panic
            for (cut, k, code), r in res:
                stats["%s:%s" % (op, ("ok", "err", "panic")[r["class"]])] += 1
                if r["class"] == 2 or (r["class"] == 0 and (intact["class"] != 0 or r.get("v") != intact.get("v"))):
                    viol.append(dict(what="%s: parser %s@%d cut=%d fault=%d/kind%d returns %s" % (tag, op, addr, cut, k, code, ("a different value", "", "a panic")[r["class"]]),
                                     failing_input=dict(kind="parser", file=path, origin=((dict(c12=_["c12"]) if "c12" in _ else dict(history=_)) if _ else dict(reference=os.path.relpath(path, vlib.REPO))), op=op, addr=addr, cut=cut, fault=k, fault_code=code),
                                     intact=intact, observed=r))
            name = "cs_%d_%d" % (fi, ti)
            vparts.append("Definition v_%s : val := %s.\n" % (name, coq_val(intact.get("v")) if intact["class"] == 0 else "VL []"))
            vparts.append("Definition %s : list (Z * Z * N * N * N) := [%s].\n" % (
                name, ";".join("((%d)%%Z, (%d)%%Z, %d, %d, %d)" % (cut, k, code, r["class"], r["calls"]) for (cut, k, code), r in res)))
            if op == "attrval":     # Model/IOProgSlice.v api_read_attribute with the variable-length string walk
                vparts.append("Definition bad_%s := Eval vm_compute in mismatches (attrval_tie_ok img%d %d %d %d v_%s) %s.\n" % (
                    name, fi, addr, args[0], args[1], name, name))
            elif op in ("strings", "compound"):     # Model/IOProgSlice.v api_read_strings / api_read_compound
                vparts.append("Definition bad_%s := Eval vm_compute in mismatches (read2_tie_ok %s img%d %d v_%s) %s.\n" % (
                    name, op_code(op), fi, addr, name, name))
            else:
                vparts.append("Definition bad_%s := Eval vm_compute in mismatches (tie_ok %s img%d %d v_%s) %s.\n" % (
                    name, op_code(op), fi, addr, name, name))
            labels.append(("bad_" + name, tag, op, addr, res, path))
            total += len(res)
    # hdf5.Open as a whole (Model/IOProgOpen.v p_open) on truncated copies: class and tree
    opens = [(t, p) for t, p, _ in small[:3]] + [(t, p) for t, p, _ in small if t.startswith("ref:")] + [(t, p) for t, p, _ in crafted]
    for oi, (tag, path) in enumerate(opens):
        img = open(path, "rb").read()
        size = len(img)
        cuts = [-1] + sorted(set([0, 8, 48, 96, size - 1, size - 9] + [rng.randrange(size) for _ in range(10 if ctx.tier == "quick" else 80)]
                                 + [b + d for b in boundaries(path) for d in (-1, 0) if 0 <= b + d < size]))
        r = vlib.run_harness(H, "c17parse", [dict(img=img.hex(), op="open", dir=workdir, cuts=cuts, fault=[-1] * len(cuts))])[0]["res"]
        intact = r[0]
        for c, x in zip(cuts, r):
            stats["open:%s" % ("ok", "err", "panic")[x["class"]]] += 1
            if x["class"] == 2 or (x["class"] == 0 and (intact["class"] != 0 or x.get("v") != intact.get("v"))):
                viol.append(dict(what="%s: Open on the file cut to %d bytes returns %s" % (tag, c, "a panic" if x["class"] == 2 else "a different tree"),
                                 failing_input=dict(kind="parser", file=path, op="open", addr=0, cut=c, fault=-1), intact=intact, observed=x))
        name = "open_%d" % oi
        vparts.append('Definition img_%s : bytes := unhex "%s".\n' % (name, img.hex()))
        vparts.append("Definition v_%s : val := %s.\n" % (name, coq_val(intact.get("v")) if intact["class"] == 0 else "VL []"))
        vparts.append("Definition %s : list (Z * Z * N * N * N) := [%s].\n" % (
            name, ";".join("((%d)%%Z, (-1)%%Z, 0, %d, 0)" % (c, x["class"]) for c, x in zip(cuts, r))))
        vparts.append("Definition bad_%s := Eval vm_compute in mismatches (open_ok %s img_%s v_%s) %s.\n" % (
            name, "true" if repaired else "false", name, name, name))
        labels.append(("bad_" + name, tag, "open", 0, [((c, -1, 0), x) for c, x in zip(cuts, r)], path))
        total += len(cuts)
    vparts.append("Definition ALLBAD := Eval vm_compute in [%s].\nPrint ALLBAD.\n" % ";".join("N.of_nat (List.length %s)" % l[0] for l in labels))
    for l in labels:
        vparts.append("Print %s.\n" % l[0])
    if not labels:
        cov["parser_tie"] = "no small library-written file available"
        return 0
    out = vlib.coq_eval("".join(vparts), "c17cases")
    counts = vlib.parse_nlist(out, "ALLBAD")
    nbad = 0
    for (lab, tag, op, addr, res, path), n in zip(labels, counts):
        if n == 0:
            continue
        nbad += n
        bad = vlib.parse_nlist(out, lab)
        (cut, k, code), r = res[bad[0]]
        viol.append(dict(what="%s: Coq program %s@%d and the Go parser disagree at cut=%d fault=%d/kind%d (Go class %d, %d calls); %d of %d cases" % (
                             tag, op, addr, cut, k, code, r["class"], r["calls"], n, len(res)),
                         case=dict(kind="parser", file=path, op=op, addr=addr, cut=cut, fault=k, fault_code=code), impl=r, nofail=True,
                         correspondence="Model.IOProgReader (%s) vs Go; theorems C17_*_%s" % (op, op)))
    cov["parser_tie"] = dict(cases=total, files=[t for t, _, _ in small], programs=sorted(set(l[2] for l in labels)),
                             outcomes=dict(stats), model_disagreements=nbad)
    return total


# ----------------------------------------------------------------------------- P2: ReadSlice / ReadHyperslab / ChunkIterator vs Coq programs

SLICE_OPS = {"slice": 0, "hyperslab": 1, "chunkiter": 2, "chunks": 3}
_PREAD = re.compile(r", (\d+), (\d+)\)\s+= (-?\d+)")


def strace_pread_trace(argv, stdin, inject=None, timeout=120, pathfilter=None):
    """argv under strace: the (offset, length) of every pread64 (on pathfilter) in order; inject = (spec, when) tampers
    with one of them.  The Go runtime itself preads cgroup files at start-up: hence the path filter."""
    d = vlib.scratch()
    log = os.path.join(d, "tr-%d-%d.log" % (os.getpid(), next(_ctr)))
    cmd = ["strace", "-f", "-qq", "-o", log, "-e", "trace=pread64"]
    if pathfilter:
        cmd += ["-P", pathfilter]
    if inject:
        cmd += ["-e", "inject=pread64:%s:when=%d" % inject]
    p = subprocess.run(cmd + argv, input=stdin, capture_output=True, text=True, timeout=timeout)
    trace, injected = [], False
    try:
        for l in open(log, errors="replace"):
            if "pread64" not in l or "unfinished" in l:
                continue
            m = _PREAD.search(l)
            if m:
                trace.append((int(m.group(2)), int(m.group(1))))
            if "(INJECTED)" in l:
                injected = True
        os.remove(log)
    except OSError:
        pass
    return p, trace, injected


def slice_selections(t, rng, quick):
    """(op, start, count, stride, block) for one dataset: valid ones of every path, an empty one, one out of bounds"""
    dims = t["dims"]
    n = len(dims)
    sels = []
    full = ([0] * n, list(dims))
    sels.append(("slice",) + full + (None, None))
    st = [rng.randrange(d) for d in dims]
    cn = [rng.randrange(1, d - s + 1) for d, s in zip(dims, st)]
    sels.append(("slice", st, cn, None, None))
    if n >= 2:                                   # one row: a contiguous run of a multi-dimensional dataset
        r = [rng.randrange(d) for d in dims[:-1]] + [0]
        sels.append(("slice", r, [1] * (n - 1) + [dims[-1]], None, None))
    # strided / blocked
    stride = [2] * n
    cnt = [max(1, (d + 1) // 2) for d in dims]
    sels.append(("hyperslab", [0] * n, cnt, stride, None))
    if all(d >= 5 for d in dims):
        sels.append(("hyperslab", [1] * n, [max(1, (d - 1) // 3) for d in dims], [3] * n, [2] * n))
    sels.append(("hyperslab", st, cn, None, None))
    sels.append(("slice", [0] * n, [0] * n, None, None))                        # empty selection
    sels.append(("slice", [0] * n, [d + 1 for d in dims], None, None))          # out of bounds: refused before any data I/O
    sels.append(("hyperslab", [0] * n, list(dims), [1] * n, [2] * n))           # last block out of bounds
    if t.get("layout") == 2:
        sels.append(("chunkiter", [], [], None, None))
        sels.append(("chunks", [], [], None, None))
    if quick and len(sels) > 6:
        keep = [sels[0], sels[1], sels[3]] + [x for x in sels if x[0] in ("chunkiter", "chunks")]
        rest = [x for x in sels if x not in keep]
        keep += rng.sample(rest, min(len(rest), 2))
        sels = keep
    return sels


def coq_nlist(l):
    return "[" + "; ".join(str(x) for x in l) + "]"


def coq_sel(st, cn, sd, bk):
    o = lambda x: "None" if x is None else "(Some %s)" % coq_nlist(x)
    return "{| s_start := %s; s_count := %s; s_stride := %s; s_block := %s |}" % (coq_nlist(st), coq_nlist(cn), o(sd), o(bk))


def slice_tie(ctx, lib, viol, cov, workdir):
    """Model/IOProgSlice.v vs Dataset.ReadSlice / ReadHyperslab / ChunkIterator (through *os.File): same image, same cut
    (in process, truncated copies) or same failing pread64 (strace): class, the sequence of (offset, length) of the I/O
    calls made, and the value"""
    mpath = os.path.join(vlib.COQ, "theories", "Model", "IOProgSliceTie.v")
    if not os.path.exists(mpath) or not strace_ok():
        cov["slice_tie"] = "Model/IOProgSliceTie.v or strace not present"
        return 0
    H, rng, quick = ctx.harness, ctx.rng, ctx.tier == "quick"
    files = [(t, p) for t, p, _ in lib if os.path.getsize(p) <= 20000]
    if quick:       # every image is a string literal coqc has to elaborate (about 0.15 s per KiB)
        files = [f for f in files if f[0] in ("sb2-basic", "sb0-basic", "sb2-chunked", "sb2-filtered", "sb0-nested-chunked", "sb2-sessions")]
    td = os.path.join(vlib.REPO, "testdata")
    for n in ([] if quick else ["test_3d_chunked.h5", "gzip_test.h5", "v0.h5", "v2.h5", "v3.h5"]):
        if os.path.exists(os.path.join(td, n)) and os.path.getsize(os.path.join(td, n)) <= 60000:
            files.append(("ref:" + n, os.path.join(td, n)))
    combos = []
    for tag, path in files:
        try:
            p = subprocess.run([H, "c17slicetargets", path], capture_output=True, text=True, timeout=60)
            tg = json.loads(p.stdout)
        except Exception:
            continue
        tg = [t for t in tg if all(0 < d <= 64 for d in t["dims"]) and len(t["dims"]) <= 3]
        if quick and len(tg) > 2:
            tg = rng.sample(tg, 2)
        for t in tg:
            for sel in slice_selections(t, rng, quick):
                combos.append((tag, path, t, sel))
    if quick and len(combos) > 26:
        fixed = [c for c in combos if c[3][0] in ("chunkiter", "chunks")][:4]
        combos = fixed + rng.sample([c for c in combos if c not in fixed], 26 - len(fixed))
    maxk = 6 if quick else 40
    ncuts = 8 if quick else 60

    def case_json(t, sel, **kw):
        op, st, cn, sd, bk = sel
        return json.dumps(dict(addr=t["addr"], op=op, start=st, count=cn, stride=sd, block=bk, **kw))

    def intact_one(c):
        tag, path, t, sel = c
        p, tr, _ = strace_pread_trace([H, "c17slice", path], case_json(t, sel), pathfilter=path)
        return c, (json.loads(p.stdout) if p.returncode == 0 and p.stdout.strip() else None), tr
    jobs, recs = [], {}
    with cf.ThreadPoolExecutor(WORKERS) as ex:
        for ci, (c, r, tr) in enumerate(ex.map(intact_one, combos)):
            if r is None:
                continue
            tag, path, t, sel = c
            size = os.path.getsize(path)
            recs[ci] = dict(c=c, intact=r, trace=tr, rows=[((-1, -1, 0), r, tr)])
            n = len(tr)
            ks = list(range(1, n + 1)) if n <= maxk else sorted(set([1, 2, n, n - 1] + [rng.randrange(1, n + 1) for _ in range(maxk - 4)]))
            for k in ks:
                for code, spec in ((0, "error=EIO"), (1, "retval=0")):
                    jobs.append((ci, k, code, spec))
            cuts = set([0, 48, size - 1] + [rng.randrange(size) for _ in range(ncuts // 2)])
            for off, ln in tr[-(ncuts // 2):] + tr[:2]:
                cuts.update([off, off + ln - 1, off + ln])
            cuts = sorted(x for x in cuts if 0 <= x < size)
            recs[ci]["cuts"] = cuts if len(cuts) <= ncuts else sorted(rng.sample(cuts, ncuts))

    def fault_one(j):
        ci, k, code, spec = j
        tag, path, t, sel = recs[ci]["c"]
        p, tr, inj = strace_pread_trace([H, "c17slice", path], case_json(t, sel), inject=(spec, k), pathfilter=path)
        if not inj:
            return j, None, tr
        if p.returncode != 0 or not p.stdout.strip():
            return j, dict(**{"class": 2}, err="process died rc=%d %s" % (p.returncode, p.stderr[-200:])), tr
        return j, json.loads(p.stdout), tr

    def cuts_one(ci):
        tag, path, t, sel = recs[ci]["c"]
        p = subprocess.run([H, "c17slice", path], input=case_json(t, sel, cuts=recs[ci]["cuts"], dir=workdir), capture_output=True, text=True, timeout=300)
        return ci, (json.loads(p.stdout)["res"] if p.returncode == 0 and p.stdout.strip() else None)
    stats = collections.Counter()
    with cf.ThreadPoolExecutor(WORKERS) as ex:
        for (ci, k, code, spec), r, tr in ex.map(fault_one, jobs):
            if r is None:
                stats["not-injected"] += 1
                continue
            recs[ci]["rows"].append(((-1, k - 1, code), r, tr))
        for ci, res in ex.map(cuts_one, list(recs)):
            if res is None:
                stats["cuts-run-failed"] += 1
                continue
            for cut, r in zip(recs[ci]["cuts"], res):
                recs[ci]["rows"].append(((cut, -1, 0), r, None))
    # specification on the implementation's outputs + the cases for coqc
    imgs, vparts, labels, total = {}, ["From HV Require Import Base.Prelude Base.Outcome Base.Bytes Model.IOProg Model.IOProgSlice Model.IOProgSliceTie.\n"], [], 0
    for ci, rec in sorted(recs.items()):
        tag, path, t, sel = rec["c"]
        op = sel[0]
        intact = rec["intact"]
        desc = "%s %s@%d %s" % (tag, op, t["addr"], json.dumps(sel[1:]))
        for (cut, k, code), r, tr in rec["rows"]:
            stats["%s:%s" % (op, ("ok", "err", "panic")[r["class"]])] += 1
            if r["class"] == 2 or (r["class"] == 0 and (intact["class"] != 0 or r.get("v") != intact.get("v"))):
                viol.append(dict(what="%s: cut=%d failing pread64 #%d kind%d returns %s" % (desc, cut, k + 1, code, "a panic" if r["class"] == 2 else "a different value"),
                                 failing_input=dict(kind="slice", file=path, tag=tag, target=t, sel=list(sel), cut=cut, fault=k, fault_code=code),
                                 intact=intact, observed=r))
        if path not in imgs:
            imgs[path] = "simg%d" % len(imgs)
            vparts.append('Definition %s : bytes := unhex "%s".\n' % (imgs[path], open(path, "rb").read().hex()))
        name = "sl_%d" % ci

        def cv(r):
            if r["class"] != 0 or "v" not in r or op == "chunks":
                return "None"
            return "(Some (%s))" % coq_val(r["v"])

        def ctr(tr):
            if tr is None:
                return "None"
            acc = 7
            for o, l in tr:
                acc = (acc * 1000003 + o * 4099 + l + 1) % (1 << 64)
            return "(Some (%d, %d))" % (len(tr), acc)
        vparts.append("Definition %s : list (Z * Z * N * N * option (N * N) * option val) := [%s].\n" % (
            name, ";\n ".join("((%d)%%Z, (%d)%%Z, %d, %d, %s, %s)" % (cut, k, code, r["class"], ctr(tr), cv(r)) for (cut, k, code), r, tr in rec["rows"])))
        vparts.append("Definition bad_%s := Eval vm_compute in mismatches (slice_tie_ok %d %s %d %s) %s.\n" % (
            name, SLICE_OPS[op], imgs[path], t["addr"], coq_sel(sel[1], sel[2], sel[3], sel[4]), name))
        labels.append(("bad_" + name, rec, desc))
        total += len(rec["rows"])
    if not labels:
        cov["slice_tie"] = "no usable dataset"
        return 0
    vparts.append("Definition ALLBADS := Eval vm_compute in [%s].\nPrint ALLBADS.\n" % ";".join("N.of_nat (List.length %s)" % l[0] for l in labels))
    for l in labels:
        vparts.append("Print %s.\n" % l[0])
    out = vlib.coq_eval("".join(vparts), "c17slices")
    counts = vlib.parse_nlist(out, "ALLBADS")
    nbad = 0
    for (lab, rec, desc), n in zip(labels, counts):
        if n == 0:
            continue
        nbad += n
        bad = vlib.parse_nlist(out, lab)
        (cut, k, code), r, tr = rec["rows"][bad[0]]
        tag, path, t, sel = rec["c"]
        viol.append(dict(what="%s: Coq program and the Go call disagree at cut=%d failing pread64 #%d kind%d (Go class %d, %s I/O calls); %d of %d cases" % (
                             desc, cut, k + 1, code, r["class"], "?" if tr is None else len(tr), n, len(rec["rows"])),
                         case=dict(kind="slice", file=path, tag=tag, target=t, sel=list(sel), cut=cut, fault=k, fault_code=code, go_trace=tr), impl=r, nofail=True,
                         correspondence="Model.IOProgSlice vs Go; theorems C17_read_slice_damage / C17_read_hyperslab_damage / C17_chunk_iterator_damage"))
    cov["slice_tie"] = dict(cases=total, combos=len(labels), files=sorted(set(r["c"][0] for r in recs.values())),
                            ops=dict(collections.Counter(r["c"][3][0] for r in recs.values())),
                            layouts=dict(collections.Counter(str(r["c"][2].get("layout")) for r in recs.values())),
                            outcomes=dict(stats), model_disagreements=nbad,
                            sample=[dict(file=r["c"][0], sel=list(r["c"][3]), io_calls=len(r["trace"])) for r in list(recs.values())[:3]])
    return total


TIE_REF = ["v0.h5", "vlen_strings.h5"]
TIE_REF_MORE = ["with_attributes.h5", "compound_test.h5", "test_3d_chunked.h5", "string_test.h5", "mathcad_document.h5", "with_groups.h5",
                "test_attr_int32.h5", "reference_traverse.h5"]
OPCODES = {"superblock": 0, "ohdr": 1, "attrs": 2, "lheap": 3, "snod": 4, "gbtree": 5, "gheap": 6, "read": 7, "attrval": 8, "strings": 9, "compound": 10}


def op_code(op):
    return str(OPCODES[op])


def parser_targets(H, path):
    """(op, addr, args) for the file: superblock, every object header, symbol-table structures, dataset reads,
    and every symbol table node / global heap collection found by its signature"""
    t = [("superblock", 0, [])]
    try:
        p = subprocess.run([H, "c17targets", path], capture_output=True, text=True, timeout=60)
        for x in json.loads(p.stdout):
            if x["op"] in OPCODES:
                t.append((x["op"], x["addr"], x.get("args") or []))
    except Exception:
        pass
    data = open(path, "rb").read()
    for sig, op in ((b"SNOD", "snod"), (b"GCOL", "gheap")):
        for m in list(re.finditer(re.escape(sig), data))[:6]:
            t.append((op, m.start(), []))
    return t


# ----------------------------------------------------------------------------- run / replay

def run(ctx):
    H = ctx.harness
    t0 = time.time()
    viol, known, cov = [], [], {}
    workdir = os.path.join(vlib.scratch(), "c17")
    os.makedirs(workdir, exist_ok=True)
    lib, notes = make_lib_files(H, workdir)
    files = [(tag, p, (dict(c12=c["c12"]) if "c12" in c else dict(history=c))) for tag, p, c in lib]
    refs = pick_reference(ctx.tier)
    td = os.path.join(vlib.REPO, "testdata")
    for p in refs:
        files.append(("ref:" + os.path.relpath(p, td), p, dict(reference=os.path.relpath(p, vlib.REPO))))
    crafted = [("crafted:" + os.path.basename(p), p, dict(crafted=os.path.relpath(p, vlib.VERIF))) for p in crafted_files()]
    files += crafted
    repaired = read_signature_variant()
    cov["files"] = dict(library_written=[t for t, _, _ in lib], reference=len(refs), crafted=[t for t, _, _ in crafted], notes=notes,
                        read_signature_returns_error=repaired)
    timings = {}
    # T
    t = time.time()
    baselines = trunc_sweep(ctx, files, workdir, viol, cov)
    ntr = sum(v["cuts"] for v in cov["truncation"].values())
    nrs = recheck_sample(ctx, files if ctx.tier == "quick" else files[:60], baselines, workdir, viol, cov)
    timings["truncation_s"] = round(time.time() - t, 1)
    # F
    t = time.time()
    small = [f for f in files if os.path.getsize(f[1]) <= (64 << 10)]
    nf = fault_sweep(ctx, small if ctx.tier == "thorough" else small[:40], viol, cov, maxk=(60 if ctx.tier == "quick" else 400))
    timings["inprocess_fault_s"] = round(time.time() - t, 1)
    # S
    ns = nw = 0
    if strace_ok():
        t = time.time()
        sfiles = [f for f in files if os.path.getsize(f[1]) <= 16384]
        sfiles = sfiles[:(14 if ctx.tier == "quick" else 60)] + [f for f in crafted if f not in sfiles[:14]]
        ns = strace_read_sweep(ctx, sfiles, baselines, viol, cov, budget_total=(1600 if ctx.tier == "quick" else 20000))
        timings["strace_read_s"] = round(time.time() - t, 1)
        t = time.time()
        nw = write_sweep(ctx, lib, workdir, viol, cov, budget_total=(500 if ctx.tier == "quick" else 6000))
        nw += writer_shape_tie(ctx, lib, workdir, viol, cov)
        timings["strace_write_s"] = round(time.time() - t, 1)
    else:
        viol.append(dict(what="strace is not installed: the syscall-level fault injection cannot run", nofail=True, correspondence="tools/strace"))
    source_audit(viol, cov)
    # P
    t = time.time()
    npar = parser_tie(ctx, lib, viol, cov, repaired, workdir, crafted)
    timings["parser_tie_s"] = round(time.time() - t, 1)
    t = time.time()
    npar += slice_tie(ctx, lib, viol, cov, workdir)
    timings["slice_tie_s"] = round(time.time() - t, 1)
    # known findings
    listed = {k["id"]: k for k in vlib.known_findings("C17")}
    keep = []
    for v in viol:
        kid = classify_known(v)
        if kid and kid in listed:
            known.append("%s: %s" % (kid, v["what"][:160]))
        else:
            keep.append(v)
    seen_known = set(k.split(":")[0] for k in known)
    for kid in listed:
        if kid not in seen_known:
            known.append("%s: listed finding did NOT reproduce in this run" % kid)
    # one line per class in the known list
    known = sorted(set(known))[:12]
    outcome = collections.Counter()
    for v in cov["truncation"].values():
        for k, n in v["hist"].items():
            outcome["trunc:" + k] += n
    for v in cov.get("inprocess_fault", {}).values():
        for k, n in v["hist"].items():
            outcome["inproc:" + k] += n
    for sect in ("strace_read", "strace_write"):
        if isinstance(cov.get(sect), dict):
            for v in cov[sect].values():
                for k, n in v["hist"].items():
                    outcome[sect + ":" + k] += n
    nontriv = sum(n for k, n in outcome.items() if ("some-calls-error" in k or "equal" in k or "call-returned-error" in k or k.endswith(":error")))
    cov.update(dict(
        evaluations=ntr + nrs + nf + ns + nw + npar,
        distinct_nontrivial=nontriv,
        rule="one evaluation = one (file, truncation length) or one (file / history, failing call index, fault kind), each a full sweep of the "
             "read API (or one parser / one write history); non-trivial = the damaged run got past Open / past the first call "
             "(some or all calls still answered) so the comparison with the intact answers is exercised, not only 'Open failed'",
        samples=[dict(file=f[0], size=os.path.getsize(f[1]), origin=(f[2] if "history" not in f[2] else "history of %d ops" % len(f[2]["history"]["ops"]))) for f in files[:4]],
        outcome_histogram=dict(outcome), counts=dict(truncations=ntr, python_gate_recheck=nrs, inprocess_fault_points=nf,
                                                      strace_read_points=ns, strace_write_points=nw, parser_cases=npar),
        timings=timings, programs=len(files), disagreements_checked=npar, exhaustive=False))
    return dict(violations=keep, known=known, coverage=cov)


def classify_known(v):
    """map a violation to the id of a known-finding class (ids proposed in notes/c17-known-findings-proposed.json)"""
    fi = v.get("failing_input") or {}
    w = v.get("what", "")
    if fi.get("kind") == "strace-read" and "crafted" in (fi.get("origin") or {}) and "unnamed-snod-container" in fi.get("file", ""):
        return "C17-read-signature-error-dropped"
    if fi.get("kind") == "strace-write" and "every API call still reports success" in w:
        if fi.get("syscall") in ("fsync", "close"):
            return "C17-close-sync-error-dropped"
        return "C17-write-error-dropped"
    return None


def replay(ctx, path):
    rp = json.load(open(path))
    d = rp["detail"]
    fi = d.get("failing_input") or d.get("case") or {}
    H = ctx.harness
    work = os.path.join(vlib.scratch(), "c17replay")
    os.makedirs(work, exist_ok=True)
    fpath = fi.get("file")
    origin = fi.get("origin") or {}
    if origin.get("c12"):
        fpath = vlib.run_harness(H, "c12", [dict(origin["c12"], dir=work)])[0].get("path")
    elif origin.get("history") or (fpath and not os.path.exists(fpath) and fi.get("history")):
        case = dict(origin.get("history") or fi.get("history"), dir=work, keep=True)
        fpath = vlib.run_harness(H, "hist", [case])[0].get("file")
    elif origin.get("reference"):
        fpath = os.path.join(vlib.REPO, origin["reference"])
    elif origin.get("crafted"):
        fpath = os.path.join(vlib.VERIF, origin["crafted"])
    bad = []
    k = fi.get("kind")
    if k == "trunc":
        rc, err, rows = run_trunc(H, fpath, [fi["cut"]], work)
        print(json.dumps(rows[1:] or rows, indent=1)[:4000])
        bad = [r for r in rows[1:] if r.get("diffs")]
    elif k == "strace-read":
        base = json.loads(subprocess.run([H, "c17dump", fpath, "8", "hashed"], capture_output=True, text=True).stdout)
        p = strace_inject([H, "c17dump", fpath, "8", "hashed"], fi["syscall"], fi["inject"], fi["when"])
        got = json.loads(p.stdout) if p.stdout.strip() else {"open": "P:died " + p.stderr[-300:], "res": {}}
        cls, probs = gate(base, got)
        print(cls, json.dumps(probs, indent=1)[:3000])
        bad = probs
    elif k == "strace-write":
        target = os.path.join(work, "w.h5")
        stdin = json.dumps(fi["history"])
        b = subprocess.run([H, "c17whist", target], input=stdin, capture_output=True, text=True)
        p = strace_inject([H, "c17whist", target], fi["syscall"], fi["inject"], fi["when"], stdin=stdin, pathfilter=target)
        print("fault-free:", b.stdout[:1500]); print("with fault:", p.stdout[:1500], p.stderr[-500:])
        bad = [1] if (p.stdout.strip() == b.stdout.strip() or p.returncode != 0 or '"panic"' in p.stdout) else []
    elif k == "inproc-fault":
        p = subprocess.run([H, "c17fault", fpath, "8"], capture_output=True, text=True)
        rows = [json.loads(l) for l in p.stdout.splitlines() if l.strip()]
        bad = [r for r in rows if r.get("diffs")]
        print(json.dumps(bad[:3], indent=1)[:4000])
    elif k == "slice":
        fpath = fi["file"]
        if not os.path.exists(fpath):       # library-written files are rebuilt from the fixed histories
            lib, _ = make_lib_files(H, work)
            tagged = {t: p for t, p, _ in lib}
            fpath = tagged.get(fi.get("tag"), fpath)
        op, st, cn, sd, bk = fi["sel"]
        case = dict(addr=fi["target"]["addr"], op=op, start=st, count=cn, stride=sd, block=bk)
        base = json.loads(subprocess.run([H, "c17slice", fpath], input=json.dumps(case), capture_output=True, text=True).stdout)
        if fi["cut"] >= 0:
            got = json.loads(subprocess.run([H, "c17slice", fpath], input=json.dumps(dict(case, cuts=[fi["cut"]], dir=work)),
                                            capture_output=True, text=True).stdout)["res"][0]
        else:
            p, tr, inj = strace_pread_trace([H, "c17slice", fpath], json.dumps(case),
                                            inject=(("error=EIO" if fi["fault_code"] == 0 else "retval=0"), fi["fault"] + 1), pathfilter=fpath)
            got = json.loads(p.stdout) if p.stdout.strip() else {"class": 2, "err": p.stderr[-300:]}
            print("injected:", inj, "trace:", tr)
        print("intact:", json.dumps(base)[:600]); print("damaged:", json.dumps(got)[:600])
        bad = [1] if (got["class"] == 2 or (got["class"] == 0 and (base["class"] != 0 or got.get("v") != base.get("v")))) else []
    elif k == "parser":
        img = open(fpath, "rb").read().hex()
        r = vlib.run_harness(H, "c17parse", [dict(img=img, op=fi["op"], addr=fi["addr"], args=fi.get("args", []), kind=fi.get("fault_kind", "eio"),
                                                  cuts=[-1, fi["cut"]], fault=[-1, fi["fault"]])])[0]["res"]
        print(json.dumps(r, indent=1)[:3000])
        bad = [1] if (r[1]["class"] == 2 or (r[1]["class"] == 0 and r[1] != r[0])) else []
    else:
        print("replay file carries no failing input:", json.dumps(d)[:1500])
        bad = [1]
    return bad
