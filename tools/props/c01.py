"""C01 - dataset write / close / reopen / read returns exactly what was written.
History-level tie: one dataset per file over all element types x ranks 1..4 x extents x chunk shapes x
superblock versions, data with extreme values; plus mixed multi-dataset files.  The mechanism models
(chunk tiling, element codecs: Model/Chunk.v, Model/Elem.v) are tied at unit level by c01unit."""
import histcheck, histgen
from histlib import ESZ, prod

TRUSTED = ["C01: tools/histlib.py logical oracle (what Read/ReadStrings must return) and the hist harness glue"]
ASSUMPTIONS = ["reads through hdf5.Open after FileWriter.Close on a local file system"]


def cases_for(rng, tier):
    n = 3000 if tier == "quick" else 60000
    cases = []
    for i in range(n):
        dt = rng.choice(list(ESZ) + ["string"])
        dims = histgen.rand_shape(rng)
        op = {"op": "mkds", "path": "/d%d" % (i % 3), "dtype": dt, "dims": dims}
        if dt == "string":
            op["strsize"] = rng.choice([1, 4, 8, 17])
        if rng.random() < 0.65:
            ch = histgen.rand_chunk(rng, dims)
            op["chunk"] = [min(c, d) for c, d in zip(ch, dims)] if rng.random() < 0.85 else ch
            if rng.random() < 0.35:
                fl = [f for f in ("shuffle", "gzip:%d" % rng.randint(1, 9), "fletcher32") if rng.random() < 0.5]
                if fl:
                    op["filters"] = fl
        data = histgen.rand_data(rng, dt, prod(dims), op.get("strsize", 0))
        ops = [op, {"op": "write", "path": op["path"], "val": data.hex()}]
        if rng.random() < 0.2:      # second full write replaces the first
            ops.append({"op": "write", "path": op["path"], "val": histgen.rand_data(rng, dt, prod(dims), op.get("strsize", 0)).hex()})
        cases.append({"sb": rng.choice([0, 2, 3]), "ops": ops})
    # many chunks along one (also a non-leading) dimension: more index entries than any small-extent case has
    # (added after seeded change C01-c, which confused chunks [0,31] and [1,0] in the reader's chunk collection)
    for i in range(160 if tier == "quick" else 3000):
        rank = rng.choice([1, 2, 2, 2, 3])
        big = rng.choice([31, 32, 33, 40, 63, 64, 65, 70, 100])
        pos = rng.randrange(rank)
        dims = [big if k == pos else rng.choice([1, 2, 3]) for k in range(rank)]
        ch = [rng.choice([1, 1, 2]) if k == pos else rng.choice([1, 1, 2]) for k in range(rank)]
        dt = rng.choice(["int32", "uint8", "float64", "int64"])
        op = {"op": "mkds", "path": "/m", "dtype": dt, "dims": dims, "chunk": [min(c, d) for c, d in zip(ch, dims)]}
        if rng.random() < 0.2:
            op["filters"] = ["gzip:1"]
        cases.append({"sb": rng.choice([0, 2, 3]),
                      "ops": [op, {"op": "write", "path": "/m", "val": histgen.rand_data(rng, dt, prod(dims)).hex()}]})
    # the remaining dataset kinds of the public write API: compound (CreateCompoundDataset, packed and padded members, v1/v3
    # encodings), array, enum, opaque with tags, object / region references, variable-length; contiguous and chunked
    for i in range(500 if tier == "quick" else 14000):
        dims = histgen.rand_shape(rng, maxrank=3, maxelems=120)
        if rng.random() < 0.4:
            comp = histgen.rand_compound(rng)
            op = dict({"op": "mkcompound", "path": "/c%d" % (i % 3), "dims": dims}, **comp)
            d = dict(dtype="compound", dims=dims, comp=comp, csize=comp["csize"])
        else:
            f = histgen.rand_ext_kind(rng)
            op = dict({"op": "mkds", "path": "/x%d" % (i % 3), "dims": dims}, **f)
            d = dict(f, dims=dims)
            if rng.random() < 0.5:
                ch = histgen.rand_chunk(rng, dims)
                op["chunk"] = [min(c, x) for c, x in zip(ch, dims)]
                if rng.random() < 0.3 and not f["dtype"].startswith("vlen:"):
                    op["filters"] = [x for x in ("shuffle", "gzip:%d" % rng.randint(1, 9), "fletcher32") if rng.random() < 0.5] or ["gzip:1"]
        ops = [op, histgen.write_op(rng, op["path"], d)]
        if rng.random() < 0.2:
            ops.append(histgen.write_op(rng, op["path"], d))
        if rng.random() < 0.3:
            ops.append({"op": "hardlink", "path": "/alias", "target": op["path"]})
        cases.append({"sb": rng.choice([0, 2, 3]), "ops": ops})
    for i in range(300 if tier == "quick" else 5000):   # several datasets, groups and attributes around them
        cases.append({"sb": rng.choice([0, 2, 3]), "ops": histgen.gen_mixed(rng, nops=rng.choice([15, 40]), fail_rate=0.05, resize=False)})
    return cases


KNOWN = [
    dict(id="C01-compound-unsigned-as-signed", match="ReadCompound of /c returns different values",
         case={"sb": 2, "ops": [{"op": "mkcompound", "path": "/c", "dims": [1], "csize": 4, "enc": "fields", "members": [{"name": "u", "type": "uint32", "off": 0}]},
                                {"op": "write", "path": "/c", "raw": True, "val": "ffffffff"}]}),
    dict(id="C01-compound-string-member-not-last", match="member table of compound dataset /c cannot be read",
         case={"sb": 2, "ops": [{"op": "mkcompound", "path": "/c", "dims": [1], "csize": 8, "enc": "fields",
                                 "members": [{"name": "s", "type": "string", "size": 4, "off": 0}, {"name": "i", "type": "int32", "off": 4}]},
                                {"op": "write", "path": "/c", "raw": True, "val": "6162630001000000"}]}),
]


def run(ctx):
    out = _run(ctx)
    try:       # the chunk index part of the unit tie reports its own counts (histcheck keeps only evaluations/distinct/samples)
        import props.c01unit as c01unit
        out["coverage"]["index_tie"] = dict(c01unit.LAST_INDEX_COVERAGE)
    except Exception as e:  # coverage only
        out["coverage"]["index_tie"] = "unavailable: %s" % e
    return out


def _run(ctx):
    return histcheck.run(ctx, cases_for(ctx.rng, ctx.tier), "C01", tags={"data", "create", "tree"}, unit_modules=["c01unit", "c01file", "c01filev0"], known=KNOWN,
                         rule_extra="C01 cases: one fully written dataset per file over all element types, ranks 1-4, extents incl. 1/primes/"
                                    "non-multiples of the chunk extent, chunk shapes, superblock 0/2/3, data with extremes and NaN payloads; plus datasets with 31-100 chunks along one dimension (any position) of rank 1-3; "
                                    "plus one dataset per file of the extended kinds (compound with 1-5 numeric/string members at packed and padded offsets in v1/v3 encodings, array, enum, "
                                    "opaque, object/region reference, variable-length; contiguous and chunked/filtered): type description (datatype message decoded independently, compound member table), "
                                    "shape, raw bytes, ReadCompound values; Read/ReadStrings/ReadCompound must fail or return the written values. Excluded from gating and re-confirmed: "
                                    "uint32/uint64 compound members above the signed range, string members that are not the last member.")
