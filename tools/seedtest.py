#!/usr/bin/env python3
"""Run checks against a seeded change: tools/seedtest.py <patch.diff> <Cxx> [<Cyy> ...]
Applies the patch to a scratch worktree of /repo HEAD (never to /repo itself), runs the quick checks
with VERIF_REPO pointing at it, removes the worktree. Prints per check: caught / missed."""
import os, subprocess, sys, tempfile, shutil
V = os.path.dirname(os.path.dirname(os.path.abspath(__file__)))
def main():
    patch = os.path.abspath(sys.argv[1]); pids = sys.argv[2:]
    wt = tempfile.mkdtemp(prefix="seedwt-", dir="/tmp")
    os.rmdir(wt)
    subprocess.check_call(["git", "-C", "/repo", "worktree", "add", "-q", "--detach", wt, "HEAD"])
    try:
        if subprocess.call(["git", "-C", wt, "apply", patch]) != 0:
            subprocess.check_call(["git", "-C", wt, "apply", "--3way", patch])
        env = dict(os.environ, VERIF_REPO=wt)
        for pid in pids:
            p = subprocess.run([sys.executable, os.path.join(V, "tools", "check.py"), pid], cwd=V, env=env, capture_output=True, text=True)
            lines = [l for l in p.stdout.splitlines() if l.startswith("VIOLATION") or l.startswith("  ")]
            print("%s: %s rc=%d %s" % (pid, "CAUGHT" if p.returncode == 1 and any(l.startswith("VIOLATION") for l in lines) else "missed", p.returncode, " | ".join(lines[:2])[:300]))
    finally:
        subprocess.call(["git", "-C", "/repo", "worktree", "remove", "--force", wt])
        shutil.rmtree(wt, ignore_errors=True)
if __name__ == "__main__":
    main()
