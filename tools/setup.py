#!/usr/bin/env python3
"""MANIFEST.setup_cmd: build everything from files on disk (offline)."""
import os, re, subprocess, sys, glob
sys.path.insert(0, os.path.dirname(os.path.abspath(__file__)))
import vlib

def main():
    # 1. forbidden vernacular anywhere in the development
    bad = []
    for f in glob.glob(os.path.join(vlib.COQ, "theories", "**", "*.v"), recursive=True):
        txt = re.sub(r"\(\*.*?\*\)", "", open(f).read(), flags=re.S)
        for m in re.finditer(r"\b(Admitted|admit|Axiom|Axioms|Parameter|Parameters|Conjecture|Admit Obligations|Unset Guard Checking|Unset Positivity Checking|Unset Universe Checking|bypass_check|type-in-type|impredicative-set)\b", txt):
            bad.append((f, m.group(0)))
    if bad:
        print("forbidden vernacular:", bad); sys.exit(1)
    # 2. full .vo build
    ok, log = vlib.coq_make()
    print(log[-3000:])
    if not ok:
        print("Coq build failed"); sys.exit(1)
    # 3. harness builds against the current tree
    try:
        b = vlib.build_harness()
        print("harness ok:", b)
    finally:
        vlib.cleanup()
    print("setup ok")

if __name__ == "__main__":
    main()
