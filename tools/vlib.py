"""Shared machinery for the /verif checks (see DESIGN.md sections 1, 2, 4).

Engines:  E1 Coq development under /verif/coq (make + coqc on Props/<id>.v every run)
          E3 verifharness, built from the CURRENT /repo tree with -tags verif -overlay
          model evaluation: generated cases .v files evaluated by coqc (vm_compute)
"""
import fcntl, hashlib, json, os, random, re, shutil, subprocess, sys, tempfile, time

VERIF = os.path.dirname(os.path.dirname(os.path.abspath(__file__)))
REPO = os.environ.get("VERIF_REPO", "/repo")
COQ = os.path.join(VERIF, "coq")
OVERLAY = os.path.join(VERIF, "harness", "overlay")
BUILD = os.path.join(VERIF, "build")          # untracked build output (harness binary, scratch)
GOENV = dict(os.environ, GOFLAGS="-mod=mod", GOPROXY="off")
GOENV.pop("GOTOOLCHAIN", None)   # the module needs the cached go1.25 toolchain (auto switch)
GOENV.pop("GOSUMDB", None)

ALLOWED_AXIOMS = set()  # names of standard-library axioms a property theorem may depend on


class Violation(Exception):
    def __init__(self, what, replay, nofail=False):
        self.what, self.replay, self.nofail = what, replay, nofail


def sh(cmd, cwd=None, env=None, timeout=None, input=None, check=False):
    p = subprocess.run(cmd, cwd=cwd, env=env, timeout=timeout, input=input,
                       capture_output=True, text=True, shell=isinstance(cmd, str))
    if check and p.returncode != 0:
        raise RuntimeError(f"command failed ({p.returncode}): {cmd}\n{p.stdout[-4000:]}\n{p.stderr[-4000:]}")
    return p


# ----------------------------------------------------------------------------- Coq

class _Lock:
    def __init__(self, name):
        os.makedirs(BUILD, exist_ok=True)
        self.path = os.path.join(BUILD, name + ".lock")
    def __enter__(self):
        self.f = open(self.path, "w")
        fcntl.flock(self.f, fcntl.LOCK_EX)
    def __exit__(self, *a):
        fcntl.flock(self.f, fcntl.LOCK_UN)
        self.f.close()


def coq_make(jobs=16, timeout=3000):
    """Full .vo build of the development (no-op when current). Returns (ok, log)."""
    with _Lock("coq"):
        if not os.path.exists(os.path.join(COQ, "Makefile")) or \
           os.path.getmtime(os.path.join(COQ, "Makefile")) < os.path.getmtime(os.path.join(COQ, "_CoqProject")):
            sh(["coq_makefile", "-f", "_CoqProject", "-o", "Makefile"], cwd=COQ, check=True)
        p = sh(["make", f"-j{jobs}"], cwd=COQ, timeout=timeout)
        return p.returncode == 0, (p.stdout + p.stderr)


def coq_args():
    return ["-Q", os.path.join(COQ, "theories"), "HV", "-w", "-notation-overridden,-deprecated-hint-without-locality,-deprecated-syntactic-definition"]


def check_props(pid, timeout=900):
    """Re-check Props/<pid>.v with coqc and parse every Print Assumptions block.

    Returns dict(theorems=[names], assumptions={name: [axioms]}, ok, log, cmd)."""
    import glob
    srcs = sorted(glob.glob(os.path.join(COQ, "theories", "Props", pid + "*.v")))   # Cxx.v, CxxStore.v, ...
    if len(srcs) > 1:
        # the property files of one property are independent of each other: re-check them concurrently (each coqc writes only its own .vo)
        import concurrent.futures as cf
        with _Lock("coq"):
            with cf.ThreadPoolExecutor(min(8, len(srcs))) as ex:
                parts = list(ex.map(lambda s: _check_props_file(s, timeout, lock=False), srcs))
        return dict(theorems=[t for p in parts for t in p["theorems"]],
                    assumptions={k: v for p in parts for k, v in p["assumptions"].items()},
                    ok=all(p["ok"] for p in parts), forbidden=[f for p in parts for f in p["forbidden"]],
                    log="\n".join(p["log"][-2000:] for p in parts), cmd=" && ".join(p["cmd"] for p in parts),
                    rc=max(p["rc"] for p in parts))
    return _check_props_file(srcs[0] if srcs else os.path.join(COQ, "theories", "Props", pid + ".v"), timeout)


def _check_props_file(src, timeout=900, lock=True):
    text = open(src).read()
    theorems = re.findall(r"^\s*(?:Theorem|Corollary)\s+([A-Za-z0-9_']+)", text, re.M)
    printed = re.findall(r"^\s*Print Assumptions\s+([A-Za-z0-9_']+)\s*\.", text, re.M)
    forbidden = re.findall(r"\b(Admitted|admit|Axiom|Parameter|Conjecture|Abort)\b", re.sub(r"\(\*.*?\*\)", "", text, flags=re.S))
    cmd = ["coqc"] + coq_args() + [src]
    if lock:
        with _Lock("coq"):
            p = sh(cmd, cwd=COQ, timeout=timeout)
    else:
        p = sh(cmd, cwd=COQ, timeout=timeout)
    out = p.stdout
    # split output into blocks, one per Print Assumptions, in order
    blocks = re.split(r"(?=^Closed under the global context|^Axioms:)", out, flags=re.M)
    blocks = [b for b in blocks if b.startswith("Closed under") or b.startswith("Axioms:")]
    assumptions = {}
    for name, b in zip(printed, blocks):
        if b.startswith("Closed under"):
            assumptions[name] = []
        else:
            assumptions[name] = re.findall(r"^([A-Za-z0-9_.']+)\s*:", b, re.M)
    ok = (p.returncode == 0 and not forbidden and set(theorems) <= set(printed)
          and len(blocks) == len(printed)
          and all(set(a) <= ALLOWED_AXIOMS for a in assumptions.values()))
    return dict(theorems=theorems, assumptions=assumptions, ok=ok, forbidden=forbidden,
                log=(out + p.stderr)[-6000:], cmd=" ".join(cmd), rc=p.returncode)


def coqchk_props(pid, timeout=3000):
    """Thorough tier: re-check the compiled Props/<pid>*.vo and everything they depend on with the independent
    checker coqchk, and report the axioms it lists (`-o`).  The verdict is cached under build/ keyed by the
    hash of every .vo of the development, so one tree is checked once per property.
    Returns dict(ok, axioms=[...], modules=[...], log, cached, cmd, wall_s)."""
    import glob
    mods = ["HV.Props." + os.path.basename(f)[:-2]
            for f in sorted(glob.glob(os.path.join(COQ, "theories", "Props", pid + "*.v")))]
    h = hashlib.sha256()
    for f in sorted(glob.glob(os.path.join(COQ, "theories", "**", "*.vo"), recursive=True)):
        h.update(f.encode()); h.update(open(f, "rb").read())
    key = h.hexdigest()[:20]
    cache = os.path.join(BUILD, "coqchk-%s-%s.json" % (pid, key))
    if os.path.exists(cache):
        r = json.load(open(cache)); r["cached"] = True
        return r
    cmd = ["coqchk", "-silent", "-o", "-Q", "theories", "HV"] + mods
    t0 = time.time()
    with _Lock("coqchk-" + pid):      # reads .vo only; does not block coqc/make of other checks
        p = sh(cmd, cwd=COQ, timeout=timeout)
    out = p.stdout + p.stderr
    m = re.search(r"\* Axioms:(.*?)\n\s*\n\* Constants/Inductives relying on type-in-type:(.*?)\n\s*\n\* Constants/Inductives relying on unsafe \(co\)fixpoints:(.*?)\n\s*\n\* Inductives whose positivity is assumed:(.*?)\n", out, re.S)
    fields = [x.strip() for x in m.groups()] if m else None
    axioms = [] if (fields and fields[0] == "<none>") else ([l.strip() for l in fields[0].splitlines() if l.strip()] if fields else ["<unparsed>"])
    ok = (p.returncode == 0 and fields is not None and fields[1:] == ["<none>"] * 3
          and all(a in ALLOWED_AXIOMS for a in axioms))
    r = dict(ok=ok, axioms=axioms, modules=mods, log=out[-3000:], cached=False, cmd=" ".join(cmd),
             wall_s=round(time.time() - t0, 1))
    if ok:
        json.dump(r, open(cache, "w"))
    return r


def coq_eval(vtext, name, timeout=1800):
    """Compile a generated .v file (in a scratch dir) and return coqc's stdout."""
    d = scratch()
    path = os.path.join(d, name + ".v")
    with open(path, "w") as f:
        f.write(vtext)
    p = sh(["coqc"] + coq_args() + [path], cwd=d, timeout=timeout)
    if p.returncode != 0:
        raise RuntimeError("coqc failed on generated cases %s:\n%s\n%s" % (path, p.stdout[-3000:], p.stderr[-3000:]))
    return p.stdout


def parse_nlist(out, label):
    """Parse `label = [a; b; c]` / `label = []` printed by `Print label.` -> list of ints."""
    m = re.search(re.escape(label) + r"\s*=\s*(\[[^\]]*\])", out, re.S)
    if not m:
        raise RuntimeError("cannot find %s in coqc output:\n%s" % (label, out[-2000:]))
    body = m.group(1).strip()[1:-1]
    return [int(re.sub(r"%[A-Za-z]+", "", x).strip()) for x in body.split(";") if x.strip()]


# ----------------------------------------------------------------------------- Go harness

_scratch_dirs = []

def scratch():
    base = os.path.join(BUILD, "scratch")
    os.makedirs(base, exist_ok=True)
    d = tempfile.mkdtemp(prefix="run-", dir=base)
    _scratch_dirs.append(d)
    return d


def cleanup():
    for d in _scratch_dirs:
        shutil.rmtree(d, ignore_errors=True)
    _scratch_dirs.clear()


def overlay_json(dest):
    repl = {}
    for root, _, files in os.walk(OVERLAY):
        for fn in files:
            src = os.path.join(root, fn)
            rel = os.path.relpath(src, OVERLAY)
            repl[os.path.join(REPO, rel)] = src
    with open(dest, "w") as f:
        json.dump({"Replace": repl}, f)
    return repl


def build_harness(race=False):
    """Build verifharness from the current /repo working tree. Returns binary path."""
    d = scratch()
    ov = os.path.join(d, "overlay.json")
    repl = overlay_json(ov)
    for dst in repl:
        if os.path.exists(dst):
            raise RuntimeError("overlay target exists in /repo (overlay must be add-only): " + dst)
    binp = os.path.join(d, "verifharness")
    cmd = ["go", "build", "-tags", "verif", "-overlay", ov, "-o", binp]
    if race:
        cmd.append("-race")
    cmd.append("./cmd/verifharness")
    p = sh(cmd, cwd=REPO, env=GOENV, timeout=1200)
    if p.returncode != 0:
        raise HarnessBuildError(p.stdout + p.stderr)
    return binp


class HarnessBuildError(Exception):
    pass


def run_harness(binp, sub, cases, timeout=1800, extra_env=None):
    """cases: list of JSON-able objects; returns list of results (same length)."""
    data = "\n".join(json.dumps(c, separators=(",", ":")) for c in cases) + "\n"
    env = dict(os.environ)
    if extra_env:
        env.update(extra_env)
    p = subprocess.run([binp, sub], input=data, capture_output=True, text=True, timeout=timeout, env=env)
    if p.returncode != 0:
        raise RuntimeError("harness %s exited %d: %s" % (sub, p.returncode, p.stderr[-3000:]))
    res = [json.loads(l) for l in p.stdout.splitlines() if l.strip()]
    if len(res) != len(cases):
        raise RuntimeError("harness %s returned %d results for %d cases" % (sub, len(res), len(cases)))
    return res


def run_harness_parallel(binp, sub, cases, workers=16, timeout=3000):
    import concurrent.futures as cf
    if len(cases) < 2 * workers:
        return run_harness(binp, sub, cases, timeout)
    n = (len(cases) + workers - 1) // workers
    chunks = [cases[i:i + n] for i in range(0, len(cases), n)]
    with cf.ThreadPoolExecutor(workers) as ex:
        parts = list(ex.map(lambda c: run_harness(binp, sub, c, timeout), chunks))
    return [r for p in parts for r in p]


# ----------------------------------------------------------------------------- Coq term printers

def cN(n):
    return "%d" % n

def cNlist(xs):
    return "[" + ";".join("%d" % x for x in xs) + "]"

def chex(b):
    return '"' + bytes(b).hex() + '"'

def cstr(s):
    # Coq string literal; only used for ASCII identifiers/names without quotes
    return '"' + s.replace('"', '""') + '"'

def cbool(b):
    return "true" if b else "false"

def copt(x, f=cN):
    return "None" if x is None else "(Some %s)" % f(x)


# ----------------------------------------------------------------------------- known findings / evidence

def known_findings(pid):
    p = os.path.join(VERIF, "KNOWN_FINDINGS.json")
    if not os.path.exists(p):
        return []
    return [e for e in json.load(open(p))["findings"] if e["property"] == pid and e.get("status") == "open"]


def seed_for(pid):
    base = int(os.environ.get("VERIF_SEED", "1"))
    return base, random.Random((base << 16) ^ int(hashlib.sha256(pid.encode()).hexdigest()[:8], 16))


def write_replay(pid, seed, payload):
    rdir = os.path.join(VERIF, "replay") if os.path.realpath(REPO) == "/repo" else os.path.join(BUILD, "replay-scratch")
    os.makedirs(rdir, exist_ok=True)
    path = os.path.join(rdir, f"{pid}-{seed}.json")
    with open(path, "w") as f:
        json.dump(payload, f, indent=1, default=str)
    return path


def write_evidence(pid, tier, seed, coverage, wall, violations, assumptions=None, level="proof"):
    edir = os.path.join(VERIF, "evidence")
    if os.path.realpath(REPO) != "/repo":      # runs against a scratch copy (seeded changes) never touch the committed evidence
        edir = os.path.join(BUILD, "evidence-scratch")
    os.makedirs(edir, exist_ok=True)
    # keep the evidence schema-valid whatever a property module put into coverage
    if "exhaustive" in coverage and not isinstance(coverage["exhaustive"], bool):
        coverage["exhaustive_scope"] = coverage["exhaustive"]
        coverage["exhaustive"] = False
    for k in ("evaluations", "distinct_nontrivial", "obligations", "discharged", "states", "transitions",
              "traces_validated_against_impl", "programs", "disagreements_checked"):
        if k in coverage and not isinstance(coverage[k], int):
            try:
                coverage[k] = int(coverage[k])
            except Exception:
                coverage[k + "_raw"] = coverage.pop(k)
    if "samples" in coverage and not isinstance(coverage["samples"], list):
        coverage["samples"] = [coverage["samples"]]
    if "trusted_base" in coverage:
        coverage["trusted_base"] = [str(x) for x in coverage["trusted_base"]]
    ev = dict(property_id=pid, tier=tier, seed=seed, level=level, coverage=coverage,
              assumptions=assumptions or [], wall_s=round(wall, 2), violations=violations)
    with open(os.path.join(edir, pid + ".json"), "w") as f:
        json.dump(ev, f, indent=1, default=str)


TRUSTED_BASE = [
    "Coq 8.16.1 kernel + vm_compute (no native_compute); full .vo build via coq_makefile/make",
    "axioms: none declared; Print Assumptions under every property theorem must print 'Closed under the global context' (allow-list empty)",
    "hand-written Gallina model of the anchored Go code; tie = differential run of model (coqc vm_compute on generated cases) vs /repo built with -tags verif -overlay",
    "Go toolchain/runtime, the verifharness glue in /verif/harness/overlay, tools/*.py generators and comparers",
]
