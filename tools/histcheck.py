"""Shared driver for the history-level ties (C01, C02, C03, C04, C10, C13, C16, C19-A).

run(ctx, cases, ...) replays every case through the `hist` harness subcommand (real library, public
API), judges the reopened file with the logical oracle in histlib, shrinks the first failing history
to a minimal operation list and returns the result dict check.py expects.
"""
import collections, importlib, json, os
import vlib, histlib

BUILD_DIR = os.path.join(vlib.BUILD, "hist")


def known_listed(pid):
    """open findings of a property: KNOWN_FINDINGS.json plus (testing hook, as in c05.py) a proposed list named by VERIF_KNOWN_EXTRA"""
    entries = list(vlib.known_findings(pid))
    extra = os.environ.get("VERIF_KNOWN_EXTRA")
    if extra:
        entries += [e for e in json.load(open(extra))["findings"] if e.get("property") == pid and e.get("status", "open") == "open"]
    return entries


def _mk(case):
    c = dict(case)
    os.makedirs(BUILD_DIR, exist_ok=True)
    c["dir"] = BUILD_DIR
    return c


def judge(H, case, skip_data=False):
    r = vlib.run_harness(H, "hist", [_mk(case)])[0]
    return r, histlib.check_case(case, r, skip_data)


def shrink(H, case, pred, budget=400):
    """delta-debugging on the operation list; pred(findings) -> bool says the failure is still there."""
    ops = list(case["ops"])
    tries = 0
    def bad(o):
        nonlocal tries
        tries += 1
        c = dict(case, ops=o)
        try:
            _, fs = judge(H, c)
        except Exception:
            return False
        return pred(fs)
    changed = True
    while changed and tries < budget:
        changed = False
        n = len(ops)
        for size in sorted({max(1, n // 2), max(1, n // 4), max(1, n // 8), 1}, reverse=True):
            i = 0
            while i < len(ops) and tries < budget:
                t = ops[:i] + ops[i + size:]
                if t and bad(t):
                    ops = t
                    changed = True
                else:
                    i += size
    return dict(case, ops=ops)


def short_op(o):
    d = dict(o)
    if "val" in d and len(d["val"]) > 48:
        d["val"] = d["val"][:48] + "..(%d bytes)" % (len(o["val"]) // 2)
    return d


def run(ctx, cases, pid, tags=None, known=(), unit_modules=(), skip_data=False, rule_extra=""):
    """cases: list of dict(sb, ops[, config]); tags: finding tags that count for this property (None = all);
    known: list of dict(id, case, match) - a committed known finding is re-confirmed by replaying `case`
    and checking that some finding's text contains `match`."""
    H = ctx.harness
    histlib.KNOWN_CLASSES = {e["id"] for e in known_listed("C03")} & {histlib.DENSE_LINKS}
    histlib.SKIPPED["dense_groups"] = 0
    results = vlib.run_harness_parallel(H, "hist", [_mk(c) for c in cases])
    viol = []
    opmix, outcome = collections.Counter(), collections.Counter()
    nontrivial = set()
    first_bad = None
    nbad = 0
    for c, r in zip(cases, results):
        if r.get("results") is None and "create" in r:
            r["results"] = []
        if "results" not in r:
            viol.append(dict(what="hist harness failed on a case: %s" % str(r)[:300], case=c, nofail=True,
                             correspondence="harness/hist"))
            continue
        nsucc = 0
        for o, x in zip(c["ops"], r["results"]):
            opmix[o["op"]] += 1
            cls = "ok" if x.get("ok") else ("panic" if x.get("panic") else "err")
            outcome[o["op"] + ":" + cls] += 1
            if cls == "ok" and o["op"] not in ("close", "dump", "reopen"):
                nsucc += 1
        fs = histlib.check_case(c, r, skip_data)
        if tags is not None:
            fs = [f for f in fs if f.tag in tags or f.tag in ("panic", "open")]
        if nsucc >= 2:
            nontrivial.add(json.dumps(c["ops"], sort_keys=True))
        if fs:
            nbad += 1
            if first_bad is None:
                first_bad = (c, fs)
    if first_bad is not None:
        c, fs = first_bad
        key = fs[0].tag
        small = shrink(H, c, lambda g: any(x.tag == key for x in g))
        r2, fs2 = judge(H, small)
        fs2 = [f for f in fs2 if tags is None or f.tag in tags or f.tag in ("panic", "open")] or fs
        viol.append(dict(what="%s (history of %d ops, shrunk to %d; %d of %d histories fail)" % (
                            fs2[0].what, len(c["ops"]), len(small["ops"]), nbad, len(cases)),
                         failing_input=dict(sb=small["sb"], config=small.get("config", ""), ops=small["ops"]),
                         findings=[f.what for f in fs2[:8]],
                         impl_results=r2.get("results"),
                         replay_hint="python3 tools/check.py %s --replay <this file>" % pid))
    # known findings: re-confirm on the implementation
    known_lines = []
    listed = {k["id"]: k for k in known_listed(pid)}
    skipped_dense = histlib.SKIPPED["dense_groups"]
    saved_classes = histlib.KNOWN_CLASSES
    for k in known:
        histlib.KNOWN_CLASSES = set()       # witnesses are judged by the full specification
        _, fs = judge(H, k["case"])
        histlib.KNOWN_CLASSES = saved_classes
        hit = [f for f in fs if k["match"] in f.what]
        if k["id"] in listed:
            if hit:
                known_lines.append("%s: %s" % (k["id"], hit[0].what[:160]))
            else:
                known_lines.append("%s: listed finding did NOT reproduce in this run (fixed upstream?)" % k["id"])
        elif hit:
            viol.append(dict(what=hit[0].what, failing_input=k["case"], note="class %s is not listed in KNOWN_FINDINGS.json" % k["id"]))
    # unit-level model-vs-implementation ties contributed by the mechanism models
    unit_cov = {}
    side, side_ok = 0, 0
    for mname in unit_modules:
        try:
            mod = importlib.import_module("props." + mname)
        except ImportError:
            unit_cov[mname] = "module not present"
            continue
        side += 1
        u = mod.run_unit(ctx)
        for v in u.get("violations", []):
            viol.append(v)
        for kl in u.get("known", []) or []:
            known_lines.append(kl if isinstance(kl, str) else json.dumps(kl)[:200])
        if not u.get("violations"):
            side_ok += 1
        unit_cov[mname] = dict(evaluations=u.get("evaluations"), distinct=u.get("distinct"), samples=(u.get("samples") or [])[:2])
    cov = dict(evaluations=len(cases) + sum((v.get("evaluations") or 0) for v in unit_cov.values() if isinstance(v, dict)),
               distinct_nontrivial=len(nontrivial),
               rule="each case is a history of public write-API calls replayed on the real library (hist harness), the file is closed, "
                    "reopened with hdf5.Open and dumped; the dump is judged by the logical oracle (tools/histlib.py). A history is "
                    "non-trivial when at least two mutating calls succeeded; distinct = distinct operation lists. " + rule_extra,
               samples=[dict(sb=c["sb"], ops=[short_op(o) for o in c["ops"][:12]], nops=len(c["ops"])) for c in cases[:2]],
               op_mix=dict(opmix), outcomes=dict(outcome), histories_failing=nbad,
               known_classes_left_out=sorted(histlib.KNOWN_CLASSES), dense_group_children_not_compared=skipped_dense,
               unit_ties=unit_cov, side_obligations=side, side_discharged=side_ok,
               programs=len(cases), disagreements_checked=len(cases))
    return dict(violations=viol, known=known_lines, coverage=cov)


def replay(ctx, path):
    rp = json.load(open(path))
    case = rp["detail"].get("failing_input") or rp["detail"].get("case")
    histlib.KNOWN_CLASSES = {e["id"] for e in known_listed("C03")} & {histlib.DENSE_LINKS}
    r, fs = judge(ctx.harness, case)
    print(json.dumps(dict(results=r.get("results"), findings=[f.what for f in fs]), indent=1)[:6000])
    return fs
