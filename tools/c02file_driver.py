#!/usr/bin/env python3
"""Stand-alone driver for the whole-file attribute tie of C02 (Model/FileImageAttr.v): python3 tools/c02file_driver.py [quick|thorough]

Builds the harness from VERIF_REPO (default /repo), calls props.c02file.run_unit and prints the result.
Exit 1 when a violation is reported (used to try hand-made mutations:
VERIF_REPO=<clone>/build/mut-1 python3 tools/c02file_driver.py)."""
import json, os, sys, time
sys.path.insert(0, os.path.dirname(os.path.abspath(__file__)))
import vlib
from props import c02file


class Ctx:
    pass


def main():
    ctx = Ctx()
    ctx.pid = "C02"
    ctx.tier = sys.argv[1] if len(sys.argv) > 1 else "quick"
    ctx.seed, ctx.rng = vlib.seed_for("C02")
    # the Coq tree must be built already: this driver does not run make
    ctx.harness = vlib.build_harness()
    t = time.time()
    try:
        r = c02file.run_unit(ctx)
    finally:
        vlib.cleanup()
    v = r.pop("violations")
    print(json.dumps(r, indent=1, default=str)[:4000])
    print("run_unit %.1fs violations=%d (total %d)" % (time.time() - t, len(v), r.get("violations_total", len(v))))
    for x in v[:8]:
        print(" -", x["what"][:400], "| nofail" if x.get("nofail") else "")
        fi = x.get("failing_input") or x.get("case")
        print("    input:", {k: (val if len(str(val)) < 90 else str(val)[:90] + "...") for k, val in fi.items()})
    sys.exit(1 if v else 0)


if __name__ == "__main__":
    main()
