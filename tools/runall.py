#!/usr/bin/env python3
"""Run every registered quick (or thorough) check once, sequentially; print one line per check.  tools/runall.py [tier] [ids...]"""
import json, os, subprocess, sys, time
V = os.path.dirname(os.path.dirname(os.path.abspath(__file__)))
tier = sys.argv[1] if len(sys.argv) > 1 and sys.argv[1] in ("quick", "thorough") else "quick"
ids = [a for a in sys.argv[1:] if a.upper().startswith("C")]
m = json.load(open(os.path.join(V, "MANIFEST.json")))
bad = 0
for c in m["checks"]:
    if ids and c["property_id"] not in [i.upper() for i in ids]:
        continue
    t0 = time.time()
    p = subprocess.run(c["quick_cmd" if tier == "quick" else "thorough_cmd"], shell=True, cwd=V, capture_output=True, text=True)
    v = [l for l in p.stdout.splitlines() if l.startswith("VIOLATION")]
    k = sum(1 for l in p.stdout.splitlines() if l.startswith("KNOWN-FINDING"))
    print("%s rc=%d %.0fs known=%d %s" % (c["property_id"], p.returncode, time.time() - t0, k, v[0] if v else ""), flush=True)
    bad += p.returncode != 0
sys.exit(1 if bad else 0)
