"""Process pool around `verifharness c07worker` (property C07).

run_cases(binp, cases, ...) -> list of result dicts, one per case, in order.  Each result has
  c in {ok, err, panic, fatal, timeout, harness_error}, plus the worker's measurements (ms, hwm_kb, alloc, maxop, ...).

Isolation: every batch of cases runs in its own worker process with a hard RLIMIT_AS (address space) and the worker's own
watchdog (one input taking longer than `timeout_s` makes it print a timeout result and exit 97).  A Go fatal error (stack
overflow, out of memory) kills the worker: the case whose `begin` line has no result line is the culprit; its class is
`fatal`, the runtime's message is attached, and the remaining cases of the batch are re-run in a fresh worker.
"""
import concurrent.futures as cf
import json, os, re, resource, subprocess, tempfile, time

RLIMIT_AS = 4 << 30          # generous: the Go runtime reserves address space up front


def _limits():
    resource.setrlimit(resource.RLIMIT_AS, (RLIMIT_AS, RLIMIT_AS))
    resource.setrlimit(resource.RLIMIT_CORE, (0, 0))


def _fatal_kind(stderr):
    s = stderr or ""
    if "stack overflow" in s or "goroutine stack exceeds" in s:
        return "stack overflow"
    if "out of memory" in s or "cannot allocate" in s:
        return "out of memory"
    if "concurrent map" in s:
        return "concurrent map access"
    if "fatal error" in s:
        return "fatal error"
    return "killed"


def _run_batch(binp, cases, scratch, timeout_s, extra_args):
    """cases: list of (index, case dict).  Returns {index: result}."""
    out = {}
    todo = list(cases)
    while todo:
        data = "".join(json.dumps(dict(c, id=i), separators=(",", ":")) + "\n" for i, c in todo)
        env = dict(os.environ, GOMAXPROCS="2", GOTRACEBACK="single")
        t0 = time.time()
        try:
            p = subprocess.run([binp, "c07worker", scratch, str(timeout_s)] + list(extra_args), input=data, capture_output=True,
                               text=True, preexec_fn=_limits, env=env, timeout=timeout_s * 3 + 2.0 * len(todo) + 60)
            rc, so, se = p.returncode, p.stdout, p.stderr
        except subprocess.TimeoutExpired as e:
            rc, so, se = -9, (e.stdout or b"").decode("utf-8", "replace") if isinstance(e.stdout, bytes) else (e.stdout or ""), "batch wall-clock limit"
        begun, done = [], {}
        for line in so.splitlines():
            try:
                r = json.loads(line)
            except ValueError:
                continue
            if r.get("begin"):
                begun.append(r["id"])
            elif "id" in r:
                done[r["id"]] = r
        for i, r in done.items():
            if "harness_error" in r:
                r["c"] = "harness_error"
            out[i] = r
        if rc == 0:
            for i, _ in todo:
                if i not in out:
                    out[i] = dict(id=i, c="harness_error", e="no result line; stderr: " + se[-500:])
            break
        # the worker died: attribute it to the case that had begun but not finished
        culprit = next((i for i in reversed(begun) if i not in done), None)
        if rc == 97 and culprit is None:
            pass            # timeout result already recorded by the watchdog
        elif culprit is not None:
            out[culprit] = dict(id=culprit, c="fatal", fatal=_fatal_kind(se), rc=rc, stderr=se[:1500], ms=int((time.time() - t0) * 1000))
        else:
            # died before/between cases: do not loop forever
            for i, _ in todo:
                if i not in out:
                    out[i] = dict(id=i, c="harness_error", e="worker exited %d: %s" % (rc, se[-500:]))
            break
        todo = [(i, c) for i, c in todo if i not in out]
    return out


def run_cases(binp, cases, scratch_root, timeout_s=20, workers=None, batch=150, extra_args=()):
    workers = workers or min(16, os.cpu_count() or 4)
    idx = list(enumerate(cases))
    batches = [idx[k:k + batch] for k in range(0, len(idx), batch)]
    results = [None] * len(cases)

    def job(b):
        d = tempfile.mkdtemp(prefix="w-", dir=scratch_root)
        return _run_batch(binp, b, d, timeout_s, extra_args)

    with cf.ThreadPoolExecutor(workers) as ex:
        for part in ex.map(job, batches):
            for i, r in part.items():
                results[i] = r
    for i, r in enumerate(results):
        if r is None:
            results[i] = dict(id=i, c="harness_error", e="lost")
    return results


def panic_site(r):
    """first frame of the library (not the harness, not the runtime) in a recovered panic's stack"""
    st = r.get("stack") or r.get("stderr") or ""
    lines = st.splitlines()
    for k, l in enumerate(lines):
        if l.startswith("github.com/scigolib/hdf5") and "cmd/verifharness" not in (lines[k + 1] if k + 1 < len(lines) else ""):
            fn = re.sub(r"\([^()]*\)$", "", l.strip())
            if "main.c07" in fn:
                continue
            return fn.replace("github.com/scigolib/hdf5", "hdf5")
    return "?"
