package main

// Pooled-buffer discipline (C18, added after seeded change C18-e): the byte-buffer pool of
// internal/utils (GetBuffer / ReleaseBuffer over a process-wide sync.Pool) is library state
// shared by ALL handles. A buffer that is put back twice is handed out to two goroutines at
// once from then on; a buffer that is used (or returned to the caller) after it was put back
// is shared with its next owner. Both make independent handles race.
//
// For every function and function literal of the library a flow-sensitive MAY analysis of
// the local variables that hold a pooled buffer (result of GetBuffer, aliases `w := v`,
// `w := v[a:b]`; parameters and other expressions are tracked from their first release):
//
//	double-release        ReleaseBuffer(v) on a path on which v may already be released
//	release-and-defer     ReleaseBuffer(v) on a path with a pending `defer ReleaseBuffer(v)`
//	                      (or a second defer for v)
//	use-after-release     any other use of v on a path on which v may already be released
//	escape-after-release  `return v` / `return v[a:b]` while v is released or has a pending
//	                      deferred release
//
// Branches are joined by union, loops are iterated to a fixpoint, break/continue/return/panic
// end a path. Not tracked (blind spots): buffers stored in struct fields or passed to a
// callee that releases them, aliases created other than by plain assignment.

import (
	"go/ast"
	"go/token"
	"go/types"
	"sort"
	"strings"

	"golang.org/x/tools/go/packages"
)

type poolFinding struct {
	Kind string `json:"kind"`
	Func string `json:"func"`
	Var  string `json:"var"`
	Pos  string `json:"pos"`
	Note string `json:"note"`
}

type bufState struct {
	released bool   // may have been released on some path reaching here
	live     bool   // may be unreleased on some path reaching here
	deferred bool   // a deferred release may be pending
	relPos   string // position of a release / defer (for the note)
}

type poolState map[*types.Var]bufState

func (s poolState) clone() poolState {
	c := poolState{}
	for k, v := range s {
		c[k] = v
	}
	return c
}

func joinPool(a, b poolState) poolState {
	if a == nil {
		return b
	}
	if b == nil {
		return a
	}
	c := a.clone()
	for k, v := range b {
		if o, ok := c[k]; ok {
			if o.relPos == "" {
				o.relPos = v.relPos
			}
			c[k] = bufState{released: o.released || v.released, live: o.live || v.live, deferred: o.deferred || v.deferred, relPos: o.relPos}
		} else {
			c[k] = v
		}
	}
	return c
}

func equalPool(a, b poolState) bool {
	if len(a) != len(b) {
		return false
	}
	for k, v := range a {
		o, ok := b[k]
		if !ok || o.released != v.released || o.live != v.live || o.deferred != v.deferred {
			return false
		}
	}
	return true
}

type poolCtx struct {
	label  string
	isLoop bool
	breaks poolState
	conts  poolState
}

type poolWalker struct {
	a        *analyzer
	info     *types.Info
	fname    string
	alias    map[*types.Var]*types.Var
	ctxs     []*poolCtx
	findings *[]poolFinding
	seen     map[string]bool
	lits     []*ast.FuncLit
	litSeen  map[*ast.FuncLit]bool
}

// poolFunc classifies a call: "get", "release" or "".
func (w *poolWalker) poolFunc(call *ast.CallExpr) string {
	var id *ast.Ident
	switch f := call.Fun.(type) {
	case *ast.Ident:
		id = f
	case *ast.SelectorExpr:
		id = f.Sel
	}
	if id == nil {
		return ""
	}
	fo, _ := w.info.Uses[id].(*types.Func)
	if fo == nil || fo.Pkg() == nil || !strings.HasSuffix(fo.Pkg().Path(), "/internal/utils") {
		return ""
	}
	switch fo.Name() {
	case "GetBuffer":
		return "get"
	case "ReleaseBuffer":
		return "release"
	}
	return ""
}

// bufVar: the local variable an expression denotes as a buffer: v, (v), v[a:b].
func (w *poolWalker) bufVar(e ast.Expr) *types.Var {
	for {
		switch x := e.(type) {
		case *ast.ParenExpr:
			e = x.X
			continue
		case *ast.SliceExpr:
			e = x.X
			continue
		case *ast.Ident:
			v, _ := w.info.Uses[x].(*types.Var)
			if v == nil {
				v, _ = w.info.Defs[x].(*types.Var)
			}
			if v == nil || v.IsField() {
				return nil
			}
			if r, ok := w.alias[v]; ok {
				return r
			}
			return v
		}
		return nil
	}
}

func (w *poolWalker) report(kind string, v *types.Var, pos token.Pos, note string) {
	p := w.a.pos(pos)
	k := kind + "|" + w.fname + "|" + v.Name() + "|" + p
	if w.seen[k] {
		return
	}
	w.seen[k] = true
	*w.findings = append(*w.findings, poolFinding{Kind: kind, Func: w.fname, Var: v.Name(), Pos: p, Note: note})
}

// uses reports every mention of a possibly released buffer variable inside e.
func (w *poolWalker) uses(e ast.Node, st poolState) {
	if e == nil {
		return
	}
	ast.Inspect(e, func(n ast.Node) bool {
		switch x := n.(type) {
		case *ast.FuncLit:
			if !w.litSeen[x] {
				w.litSeen[x] = true
				w.lits = append(w.lits, x)
			}
			// captured variables: a closure that mentions a released buffer
			ast.Inspect(x.Body, func(m ast.Node) bool {
				if id, ok := m.(*ast.Ident); ok {
					w.useIdent(id, st)
				}
				return true
			})
			return false
		case *ast.Ident:
			w.useIdent(x, st)
		}
		return true
	})
}

func (w *poolWalker) useIdent(id *ast.Ident, st poolState) {
	v, _ := w.info.Uses[id].(*types.Var)
	if v == nil {
		return
	}
	if r, ok := w.alias[v]; ok {
		v = r
	}
	if s, ok := st[v]; ok && s.released {
		w.report("use-after-release", v, id.Pos(), "the buffer may have been released at "+s.relPos)
	}
}

func (w *poolWalker) release(call *ast.CallExpr, st poolState, deferred bool) {
	if len(call.Args) != 1 {
		return
	}
	v := w.bufVar(call.Args[0])
	if v == nil {
		w.uses(call.Args[0], st)
		return
	}
	s := st[v]
	p := w.a.pos(call.Pos())
	if deferred {
		if s.deferred {
			w.report("release-and-defer", v, call.Pos(), "a second deferred release; the first one at "+s.relPos)
		}
		if s.released {
			w.report("double-release", v, call.Pos(), "deferred release of a buffer that may already have been released at "+s.relPos)
		}
		s.deferred = true
		if s.relPos == "" {
			s.relPos = p
		}
		if !s.released {
			s.live = true
		}
		st[v] = s
		return
	}
	if s.released {
		w.report("double-release", v, call.Pos(), "the buffer may already have been released at "+s.relPos)
	}
	if s.deferred {
		w.report("release-and-defer", v, call.Pos(), "explicit release on a path with a pending deferred release ("+s.relPos+"): the buffer is put into the pool twice when the function returns")
	}
	s.released, s.live = true, false
	s.relPos = p
	st[v] = s
}

func (w *poolWalker) assign(lhs []ast.Expr, rhs []ast.Expr, st poolState) {
	for _, r := range rhs {
		w.scanExpr(r, st)
	}
	for i, l := range lhs {
		id, ok := l.(*ast.Ident)
		if !ok {
			w.uses(l, st)
			continue
		}
		v, _ := w.info.Defs[id].(*types.Var)
		if v == nil {
			v, _ = w.info.Uses[id].(*types.Var)
		}
		if v == nil {
			continue
		}
		if len(rhs) == len(lhs) {
			if root := w.bufVar(rhs[i]); root != nil && (root == v || w.alias[v] == root) {
				continue // v = v[a:b]: still the same array
			}
		}
		delete(w.alias, v)
		delete(st, v)
		if len(rhs) != len(lhs) {
			continue
		}
		r := rhs[i]
		if c, ok := r.(*ast.CallExpr); ok && w.poolFunc(c) == "get" {
			st[v] = bufState{live: true}
			continue
		}
		if root := w.bufVar(r); root != nil && root != v {
			if _, tracked := st[root]; tracked {
				w.alias[v] = root
			}
		}
	}
}

// scanExpr handles an expression evaluated at this point: calls of the pool API inside it and uses.
func (w *poolWalker) scanExpr(e ast.Expr, st poolState) {
	if e == nil {
		return
	}
	if c, ok := e.(*ast.CallExpr); ok {
		switch w.poolFunc(c) {
		case "release":
			w.release(c, st, false)
			return
		}
	}
	w.uses(e, st)
}

func isPanicCall(s ast.Stmt) bool {
	es, ok := s.(*ast.ExprStmt)
	if !ok {
		return false
	}
	c, ok := es.X.(*ast.CallExpr)
	if !ok {
		return false
	}
	id, ok := c.Fun.(*ast.Ident)
	return ok && id.Name == "panic"
}

func (w *poolWalker) block(list []ast.Stmt, st poolState) poolState {
	for _, s := range list {
		if st == nil {
			return nil
		}
		st = w.stmt(s, st, "")
	}
	return st
}

func (w *poolWalker) findCtx(label string, needLoop bool) *poolCtx {
	for i := len(w.ctxs) - 1; i >= 0; i-- {
		c := w.ctxs[i]
		if label != "" {
			if c.label == label {
				return c
			}
			continue
		}
		if !needLoop || c.isLoop {
			return c
		}
	}
	return nil
}

// stmt returns the state after s, nil when no path continues behind s.
func (w *poolWalker) stmt(s ast.Stmt, st poolState, label string) poolState {
	switch x := s.(type) {
	case nil:
		return st
	case *ast.BlockStmt:
		return w.block(x.List, st)
	case *ast.LabeledStmt:
		return w.stmt(x.Stmt, st, x.Label.Name)
	case *ast.ExprStmt:
		w.scanExpr(x.X, st)
		if isPanicCall(s) {
			return nil
		}
		return st
	case *ast.AssignStmt:
		if x.Tok == token.ASSIGN || x.Tok == token.DEFINE {
			w.assign(x.Lhs, x.Rhs, st)
		} else {
			for _, e := range x.Rhs {
				w.scanExpr(e, st)
			}
			for _, e := range x.Lhs {
				w.uses(e, st)
			}
		}
		return st
	case *ast.DeclStmt:
		if gd, ok := x.Decl.(*ast.GenDecl); ok {
			for _, sp := range gd.Specs {
				if vs, ok := sp.(*ast.ValueSpec); ok {
					lhs := make([]ast.Expr, len(vs.Names))
					for i, n := range vs.Names {
						lhs[i] = n
					}
					w.assign(lhs, vs.Values, st)
				}
			}
		}
		return st
	case *ast.DeferStmt:
		if w.poolFunc(x.Call) == "release" {
			w.release(x.Call, st, true)
			return st
		}
		if fl, ok := x.Call.Fun.(*ast.FuncLit); ok {
			ast.Inspect(fl.Body, func(n ast.Node) bool {
				if c, ok := n.(*ast.CallExpr); ok && w.poolFunc(c) == "release" {
					w.release(c, st, true)
					return false
				}
				return true
			})
			for _, a := range x.Call.Args {
				w.uses(a, st)
			}
			return st
		}
		w.uses(x.Call, st)
		return st
	case *ast.GoStmt:
		w.uses(x.Call, st)
		return st
	case *ast.ReturnStmt:
		for _, r := range x.Results {
			w.scanExpr(r, st)
			if v := w.bufVar(r); v != nil {
				if s, ok := st[v]; ok && (s.deferred || s.released) {
					w.report("escape-after-release", v, r.Pos(), "the returned slice shares the array of a pooled buffer that is released ("+s.relPos+")")
				}
			}
		}
		return nil
	case *ast.BranchStmt:
		lbl := ""
		if x.Label != nil {
			lbl = x.Label.Name
		}
		switch x.Tok {
		case token.BREAK:
			if c := w.findCtx(lbl, false); c != nil {
				c.breaks = joinPool(c.breaks, st.clone())
			}
		case token.CONTINUE:
			if c := w.findCtx(lbl, true); c != nil {
				c.conts = joinPool(c.conts, st.clone())
			}
		}
		return nil
	case *ast.IfStmt:
		st = w.stmt(x.Init, st, "")
		w.scanExpr(x.Cond, st)
		a := w.block(x.Body.List, st.clone())
		var b poolState
		if x.Else != nil {
			b = w.stmt(x.Else, st.clone(), "")
		} else {
			b = st
		}
		return joinPool(a, b)
	case *ast.ForStmt:
		st = w.stmt(x.Init, st, "")
		return w.loop(label, st, x.Cond == nil, func(in poolState) poolState {
			w.scanExpr(x.Cond, in)
			return w.block(x.Body.List, in)
		}, func(in poolState) poolState { return w.stmt(x.Post, in, "") })
	case *ast.RangeStmt:
		w.scanExpr(x.X, st)
		return w.loop(label, st, false, func(in poolState) poolState {
			var lhs []ast.Expr
			for _, e := range []ast.Expr{x.Key, x.Value} {
				if e != nil {
					lhs = append(lhs, e)
				}
			}
			w.assign(lhs, nil, in)
			return w.block(x.Body.List, in)
		}, nil)
	case *ast.SwitchStmt:
		st = w.stmt(x.Init, st, "")
		w.scanExpr(x.Tag, st)
		return w.clauses(label, x.Body, st)
	case *ast.TypeSwitchStmt:
		st = w.stmt(x.Init, st, "")
		st = w.stmt(x.Assign, st, "")
		return w.clauses(label, x.Body, st)
	case *ast.SelectStmt:
		return w.clauses(label, x.Body, st)
	case *ast.IncDecStmt:
		w.uses(x.X, st)
		return st
	case *ast.SendStmt:
		w.uses(x.Chan, st)
		w.scanExpr(x.Value, st)
		return st
	}
	return st
}

func (w *poolWalker) loop(label string, st poolState, infinite bool, body func(poolState) poolState, post func(poolState) poolState) poolState {
	head := st.clone()
	ctx := &poolCtx{label: label, isLoop: true}
	for iter := 0; iter < 6; iter++ {
		ctx.breaks, ctx.conts = nil, nil
		w.ctxs = append(w.ctxs, ctx)
		end := body(head.clone())
		w.ctxs = w.ctxs[:len(w.ctxs)-1]
		end = joinPool(end, ctx.conts)
		if end != nil && post != nil {
			end = post(end)
		}
		next := joinPool(head.clone(), end)
		if equalPool(next, head) {
			break
		}
		head = next
	}
	if infinite {
		return ctx.breaks
	}
	return joinPool(head, ctx.breaks)
}

func (w *poolWalker) clauses(label string, body *ast.BlockStmt, st poolState) poolState {
	ctx := &poolCtx{label: label}
	w.ctxs = append(w.ctxs, ctx)
	var out poolState
	hasDefault := false
	for _, c := range body.List {
		in := st.clone()
		var list []ast.Stmt
		switch cc := c.(type) {
		case *ast.CaseClause:
			if cc.List == nil {
				hasDefault = true
			}
			for _, e := range cc.List {
				w.scanExpr(e, in)
			}
			list = cc.Body
		case *ast.CommClause:
			if cc.Comm == nil {
				hasDefault = true
			} else {
				in = w.stmt(cc.Comm, in, "")
			}
			list = cc.Body
		}
		// fallthrough is treated as the end of the clause (joined into the exit state)
		out = joinPool(out, w.block(list, in))
	}
	w.ctxs = w.ctxs[:len(w.ctxs)-1]
	out = joinPool(out, ctx.breaks)
	if !hasDefault {
		out = joinPool(out, st)
	}
	return out
}

func (a *analyzer) poolCheck(lib []*packages.Package) map[string]interface{} {
	findings := []poolFinding{}
	sites, bodies, withPool := 0, 0, 0
	api := map[string]bool{}
	for _, p := range lib {
		if strings.HasSuffix(p.PkgPath, "/internal/utils") {
			for _, n := range []string{"GetBuffer", "ReleaseBuffer"} {
				if _, ok := p.Types.Scope().Lookup(n).(*types.Func); ok {
					api[n] = true
				}
			}
		}
		for _, f := range p.Syntax {
			if strings.HasSuffix(a.fset.Position(f.Pos()).Filename, "_test.go") {
				continue
			}
			for _, d := range f.Decls {
				fd, ok := d.(*ast.FuncDecl)
				if !ok || fd.Body == nil {
					continue
				}
				name := shortPkg(p.PkgPath) + "." + fd.Name.Name
				if fd.Recv != nil && len(fd.Recv.List) > 0 {
					if obj, _ := p.TypesInfo.Defs[fd.Name].(*types.Func); obj != nil {
						if k := funcObjKey(obj); k != "" {
							name = k
						}
					}
				}
				queue := []*ast.BlockStmt{fd.Body}
				litSeen := map[*ast.FuncLit]bool{}
				for qi := 0; qi < len(queue); qi++ {
					w := &poolWalker{a: a, info: p.TypesInfo, fname: name, alias: map[*types.Var]*types.Var{},
						findings: &findings, seen: map[string]bool{}, litSeen: litSeen}
					if qi > 0 {
						w.fname = name + " (func literal)"
					}
					w.block(queue[qi].List, poolState{})
					bodies++
					for _, l := range w.lits {
						queue = append(queue, l.Body)
					}
				}
				n := 0
				ast.Inspect(fd.Body, func(m ast.Node) bool {
					if c, ok := m.(*ast.CallExpr); ok {
						w := &poolWalker{info: p.TypesInfo}
						if w.poolFunc(c) != "" {
							n++
						}
					}
					return true
				})
				sites += n
				if n > 0 {
					withPool++
				}
			}
		}
	}
	sort.Slice(findings, func(i, j int) bool {
		if findings[i].Pos != findings[j].Pos {
			return findings[i].Pos < findings[j].Pos
		}
		return findings[i].Kind < findings[j].Kind
	})
	return map[string]interface{}{
		"api_found":           api["GetBuffer"] && api["ReleaseBuffer"],
		"bodies_scanned":      bodies,
		"functions_with_pool": withPool,
		"pool_call_sites":     sites,
		"findings":            findings,
	}
}
