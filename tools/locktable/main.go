// locktable: the "translator" half of the C18 tie.
//
// From the CURRENT source of the library (repository root given as argument) it extracts, for the
// shared structs named in the C18 anchors, every field read/write site together with the function, the
// role of that function (constructor / foreground API / background goroutine) and the mutexes that are
// certainly held at that point; plus a classification of every package-level variable of the library.
// Output: JSON on stdout (tools/props/c18.py renders coq/theories/Gen/LockTable.v from it).
//
// The analysis is syntactic + go/types, flow-sensitive inside a function (Lock ... Unlock regions,
// `defer Unlock`), with an interprocedural "lock held on entry" inference for unexported functions
// (intersection over all call sites, least fixpoint from the empty set).  It is conservative in one
// direction only: a mutex is reported as held only when it is held on every path; accesses it cannot
// see (reflection, unsafe, accesses through an alias of a field's address) are the stated blind spot
// and are what the race-detector half of the check is for.
package main

import (
	"encoding/json"
	"fmt"
	"go/ast"
	"go/token"
	"go/types"
	"os"
	"sort"
	"strings"

	"golang.org/x/tools/go/packages"
)

const modPath = "github.com/scigolib/hdf5"

// structs whose fields are shared between goroutines (C18 anchors). An empty field list = all fields.
var targets = map[string][]string{
	modPath + "/internal/structures.IncrementalRebalancer": nil,
	modPath + "/internal/structures.LazyRebalancingState":  nil,
	modPath + "/internal/structures.WritableBTreeV2":       {"lazyState", "incrementalRebalancer"},
	modPath + "/internal/rebalancing.SmartRebalancer":      nil,
	modPath + "/internal/rebalancing.MetricsCollector":     nil,
	modPath + "/internal/rebalancing.WorkloadDetector":     nil,
	modPath + "/internal/rebalancing.ConfigSelector":       nil,
}

type lock struct {
	Owner string // expression that owns the mutex, e.g. "ir.btree"
	Name  string // type-level name, e.g. "WritableBTreeV2.rebalMu"
	Write bool
}
type lockset map[string]lock // key: Owner + "|" + Name

func (l lockset) clone() lockset {
	c := lockset{}
	for k, v := range l {
		c[k] = v
	}
	return c
}
func intersect(a, b lockset) lockset {
	c := lockset{}
	for k, v := range a {
		if w, ok := b[k]; ok {
			if !w.Write {
				v.Write = false
			}
			c[k] = v
		}
	}
	return c
}
func (l lockset) equal(b lockset) bool {
	if len(l) != len(b) {
		return false
	}
	for k, v := range l {
		if w, ok := b[k]; !ok || w != v {
			return false
		}
	}
	return true
}

type access struct {
	Loc     string   `json:"loc"`  // Struct.field
	Kind    string   `json:"kind"` // R W A
	Func    string   `json:"func"`
	Pos     string   `json:"pos"`
	Owner   string   `json:"owner"`
	Ctor    bool     `json:"ctor"`
	HeldW   []string `json:"held_w"`
	HeldR   []string `json:"held_r"`
	Other   []string `json:"held_unrelated"`
	Roles   []string `json:"roles"`
	Comment string   `json:"comment,omitempty"`
}

type callsite struct {
	callee string
	recv   string // receiver expression at the call ("" for plain functions)
	held   lockset
	isGo   bool
	pos    string
}

type fn struct {
	key         string
	pkg         *packages.Package
	body        *ast.BlockStmt
	recvName    string
	name        string
	exported    bool
	isLit       bool
	parent      string
	ctorLit     bool // option closure: applied by a constructor only
	isNew       bool
	locals      map[types.Object]bool // variables bound to a composite literal / new object in a New* function
	entry       lockset
	accesses    []*access
	calls       []callsite
	usedAsValue bool
}

type pkgvarUse struct {
	Func string `json:"func"`
	Pos  string `json:"pos"`
}
type pkgvar struct {
	Name   string      `json:"name"`
	Pkg    string      `json:"pkg"`
	Type   string      `json:"type"`
	Class  string      `json:"class"` // sync | error-sentinel | data
	Pos    string      `json:"pos"`
	Writes []pkgvarUse `json:"writes_outside_init"`
	Reads  int         `json:"reads"`
}

type analyzer struct {
	fset    *token.FileSet
	fns     map[string]*fn
	order   []string
	pkgvars map[types.Object]*pkgvar
	cur     *fn
	gos     []map[string]string
	litN    map[string]int
	lib     []*packages.Package
}

func main() {
	if len(os.Args) < 2 {
		fmt.Fprintln(os.Stderr, "usage: locktable <repo root>")
		os.Exit(2)
	}
	cfg := &packages.Config{
		Mode: packages.NeedName | packages.NeedFiles | packages.NeedSyntax | packages.NeedTypes |
			packages.NeedTypesInfo | packages.NeedImports | packages.NeedDeps,
		Dir: os.Args[1],
	}
	pkgs, err := packages.Load(cfg, "./...")
	if err != nil {
		fmt.Fprintln(os.Stderr, "load:", err)
		os.Exit(2)
	}
	a := &analyzer{fns: map[string]*fn{}, pkgvars: map[types.Object]*pkgvar{}, litN: map[string]int{}}
	var lib []*packages.Package
	for _, p := range pkgs {
		if strings.Contains(p.PkgPath, "/examples/") || strings.Contains(p.PkgPath, "/cmd/") || strings.HasSuffix(p.PkgPath, "/examples") {
			continue
		}
		if len(p.Errors) > 0 {
			for _, e := range p.Errors {
				fmt.Fprintln(os.Stderr, "package error:", e)
			}
			os.Exit(2)
		}
		lib = append(lib, p)
		a.fset = p.Fset
	}
	sort.Slice(lib, func(i, j int) bool { return lib[i].PkgPath < lib[j].PkgPath })
	// found targets?
	found := map[string]bool{}
	for _, p := range lib {
		for t := range targets {
			i := strings.LastIndex(t, ".")
			if p.PkgPath == t[:i] && p.Types.Scope().Lookup(t[i+1:]) != nil {
				found[t] = true
			}
		}
	}
	for t := range targets {
		if !found[t] {
			fmt.Fprintln(os.Stderr, "anchor struct not found in the source:", t)
			os.Exit(3)
		}
	}
	for _, p := range lib {
		a.collectPkgVars(p)
		a.collectFns(p)
	}
	// least fixpoint of the entry locksets
	for iter := 0; iter < 8; iter++ {
		for _, k := range a.order {
			a.analyze(a.fns[k])
		}
		if !a.updateEntries() {
			break
		}
	}
	a.assignRoles()
	a.lib = lib
	a.emit()
}

func (a *analyzer) pos(p token.Pos) string {
	ps := a.fset.Position(p)
	f := ps.Filename
	if i := strings.Index(f, "/internal/"); i >= 0 {
		f = f[i+1:]
	} else if i := strings.LastIndex(f, "/"); i >= 0 {
		f = f[i+1:]
	}
	return fmt.Sprintf("%s:%d", f, ps.Line)
}

func shortPkg(path string) string {
	if path == modPath {
		return "hdf5"
	}
	return path[strings.LastIndex(path, "/")+1:]
}

func fnKey(pkg *types.Package, recv string, name string) string {
	if recv != "" {
		return shortPkg(pkg.Path()) + ".(" + recv + ")." + name
	}
	return shortPkg(pkg.Path()) + "." + name
}

func funcObjKey(f *types.Func) string {
	if f.Pkg() == nil {
		return ""
	}
	sig := f.Type().(*types.Signature)
	recv := ""
	if sig.Recv() != nil {
		t := sig.Recv().Type()
		if p, ok := t.(*types.Pointer); ok {
			t = p.Elem()
		}
		if n, ok := t.(*types.Named); ok {
			recv = n.Obj().Name()
		} else {
			return ""
		}
	}
	return fnKey(f.Pkg(), recv, f.Name())
}

func (a *analyzer) collectPkgVars(p *packages.Package) {
	for _, f := range p.Syntax {
		if strings.HasSuffix(a.fset.Position(f.Pos()).Filename, "_test.go") {
			continue
		}
		for _, d := range f.Decls {
			gd, ok := d.(*ast.GenDecl)
			if !ok || gd.Tok != token.VAR {
				continue
			}
			for _, s := range gd.Specs {
				vs := s.(*ast.ValueSpec)
				for i, n := range vs.Names {
					if n.Name == "_" {
						continue
					}
					obj := p.TypesInfo.Defs[n]
					if obj == nil {
						continue
					}
					ts := types.TypeString(obj.Type(), func(q *types.Package) string { return q.Name() })
					class := "data"
					if strings.HasPrefix(ts, "sync.") || strings.HasPrefix(ts, "atomic.") {
						class = "sync"
					} else if ts == "error" {
						class = "error-sentinel"
						_ = i
					}
					a.pkgvars[obj] = &pkgvar{Name: n.Name, Pkg: shortPkg(p.PkgPath), Type: ts, Class: class, Pos: a.pos(n.Pos())}
				}
			}
		}
	}
}

func (a *analyzer) collectFns(p *packages.Package) {
	for _, f := range p.Syntax {
		if strings.HasSuffix(a.fset.Position(f.Pos()).Filename, "_test.go") {
			continue
		}
		for _, d := range f.Decls {
			fd, ok := d.(*ast.FuncDecl)
			if !ok || fd.Body == nil {
				continue
			}
			obj, _ := p.TypesInfo.Defs[fd.Name].(*types.Func)
			if obj == nil {
				continue
			}
			key := funcObjKey(obj)
			if key == "" {
				continue
			}
			if fd.Name.Name == "init" {
				key = fmt.Sprintf("%s#%s", key, a.pos(fd.Pos()))
			}
			fnn := &fn{key: key, pkg: p, body: fd.Body, name: fd.Name.Name, exported: fd.Name.IsExported(),
				isNew: strings.HasPrefix(fd.Name.Name, "New") && fd.Recv == nil, locals: map[types.Object]bool{}}
			if fd.Recv != nil && len(fd.Recv.List) > 0 && len(fd.Recv.List[0].Names) > 0 {
				fnn.recvName = fd.Recv.List[0].Names[0].Name
				// an exported method of an unexported type is still reachable through interfaces: keep exported
			}
			a.fns[key] = fnn
			a.order = append(a.order, key)
			// function literals inside
			optionResult := false
			if fd.Type.Results != nil && len(fd.Type.Results.List) == 1 {
				if id, ok := fd.Type.Results.List[0].Type.(*ast.Ident); ok && strings.HasSuffix(id.Name, "Option") && strings.HasPrefix(fd.Name.Name, "With") {
					optionResult = true
				}
			}
			a.collectLits(p, fd.Body, fnn, optionResult)
		}
	}
}

func (a *analyzer) collectLits(p *packages.Package, body ast.Node, parent *fn, option bool) {
	ast.Inspect(body, func(n ast.Node) bool {
		fl, ok := n.(*ast.FuncLit)
		if !ok {
			return true
		}
		a.litN[parent.key]++
		key := fmt.Sprintf("%s$%d", parent.key, a.litN[parent.key])
		l := &fn{key: key, pkg: p, body: fl.Body, name: key, isLit: true, parent: parent.key, ctorLit: option,
			locals: map[types.Object]bool{}}
		a.fns[key] = l
		a.order = append(a.order, key)
		litKeys[fl] = key
		a.collectLits(p, fl.Body, l, false)
		return false
	})
}

var litKeys = map[*ast.FuncLit]string{}

// ------------------------------------------------------------------ type helpers

func deref(t types.Type) types.Type {
	if p, ok := t.Underlying().(*types.Pointer); ok {
		return p.Elem()
	}
	return t
}

func namedOf(t types.Type) *types.Named {
	t = deref(t)
	n, _ := t.(*types.Named)
	return n
}

func isSyncType(t types.Type) (mutex bool, atomic bool, other bool) {
	n := namedOf(t)
	if n == nil || n.Obj().Pkg() == nil {
		return
	}
	switch n.Obj().Pkg().Path() {
	case "sync":
		switch n.Obj().Name() {
		case "Mutex", "RWMutex":
			mutex = true
		default:
			other = true
		}
	case "sync/atomic":
		atomic = true
	}
	return
}

// targetField reports whether sel selects a field of a struct defined in the library; returns
// "Struct.field" for the anchored structs and "pkg.Struct.field" for the others. Accesses to
// non-anchored fields are kept only when a background goroutine touches the field (see emit).
func (a *analyzer) targetField(info *types.Info, sel *ast.SelectorExpr) (string, *types.Var, bool) {
	s, ok := info.Selections[sel]
	if !ok || s.Kind() != types.FieldVal {
		return "", nil, false
	}
	v, ok := s.Obj().(*types.Var)
	if !ok || !v.IsField() {
		return "", nil, false
	}
	n := namedOf(s.Recv())
	if n == nil || n.Obj().Pkg() == nil {
		return "", nil, false
	}
	if _, isStruct := n.Underlying().(*types.Struct); !isStruct {
		return "", nil, false
	}
	pp := n.Obj().Pkg().Path()
	if pp != modPath && !strings.HasPrefix(pp, modPath+"/") {
		return "", nil, false
	}
	full := pp + "." + n.Obj().Name()
	fields, ok := targets[full]
	anch := ok
	if ok && fields != nil {
		anch = false
		for _, f := range fields {
			if f == v.Name() {
				anch = true
			}
		}
	}
	if anch {
		return n.Obj().Name() + "." + v.Name(), v, true
	}
	return shortPkg(pp) + "." + n.Obj().Name() + "." + v.Name(), v, true
}

func isAnchoredLoc(loc string) bool { return strings.Count(loc, ".") == 1 }

// ------------------------------------------------------------------ per-function analysis

type walker struct {
	a        *analyzer
	f        *fn
	info     *types.Info
	breaks   []lockset // locksets at `break` statements of the innermost loop/switch being analysed
	deferred bool      // analysing the call of a defer statement
}

func (a *analyzer) analyze(f *fn) {
	f.accesses = nil
	f.calls = nil
	w := &walker{a: a, f: f, info: f.pkg.TypesInfo}
	ls := lockset{}
	if f.entry != nil {
		ls = f.entry.clone()
	}
	w.block(f.body.List, ls)
}

// sharedPath: can the storage selected through e be reached by another goroutine? False only when the
// path stays inside a local struct VALUE (a copy: `statsCopy.CurrentMode = ...`, a by-value parameter).
func (w *walker) sharedPath(e ast.Expr) bool {
	for {
		tv, ok := w.info.Types[e]
		if ok {
			if _, isPtr := tv.Type.Underlying().(*types.Pointer); isPtr {
				return true
			}
		}
		switch x := e.(type) {
		case *ast.ParenExpr:
			e = x.X
		case *ast.SelectorExpr:
			if id, ok := x.X.(*ast.Ident); ok {
				if _, isPkg := w.info.Uses[id].(*types.PkgName); isPkg {
					return true // package-level variable of another package
				}
			}
			e = x.X
		case *ast.Ident:
			obj := w.info.Uses[x]
			if obj == nil {
				obj = w.info.Defs[x]
			}
			if v, ok := obj.(*types.Var); ok && v.Parent() != nil && v.Parent() == v.Pkg().Scope() {
				return true // package-level variable
			}
			return false
		default:
			return true // index, call result, dereference, ...: be conservative
		}
	}
}

// insideAnchoredValue: e denotes storage that is part of an anchored field holding a struct VALUE
// (`sr.stats` in `sr.stats.ModeChanges`): the access is already recorded against the anchored field.
func (w *walker) insideAnchoredValue(e ast.Expr) bool {
	for {
		switch x := e.(type) {
		case *ast.ParenExpr:
			e = x.X
		case *ast.SelectorExpr:
			if tv, ok := w.info.Types[x]; ok {
				if _, isPtr := tv.Type.Underlying().(*types.Pointer); isPtr {
					return false
				}
			}
			if loc, _, ok := w.a.targetField(w.info, x); ok && isAnchoredLoc(loc) {
				return true
			}
			e = x.X
		default:
			return false
		}
	}
}

func (w *walker) record(loc, kind string, sel *ast.SelectorExpr, ls lockset) {
	if !isAnchoredLoc(loc) && (!w.sharedPath(sel.X) || w.insideAnchoredValue(sel.X)) {
		return
	}
	owner := types.ExprString(sel.X)
	ac := &access{Loc: loc, Kind: kind, Func: w.f.key, Pos: w.a.pos(sel.Pos()), Owner: owner,
		HeldW: []string{}, HeldR: []string{}, Other: []string{}}
	for _, l := range ls {
		if l.Owner == owner || strings.HasPrefix(owner, l.Owner+".") {
			if l.Write {
				ac.HeldW = append(ac.HeldW, l.Name)
			} else {
				ac.HeldR = append(ac.HeldR, l.Name)
			}
		} else {
			ac.Other = append(ac.Other, l.Owner+"."+l.Name)
		}
	}
	sort.Strings(ac.HeldW)
	sort.Strings(ac.HeldR)
	sort.Strings(ac.Other)
	// constructor accesses: option closures, and New* functions acting on the object they just created
	if w.f.ctorLit {
		ac.Ctor = true
	}
	if root := rootIdent(sel.X); root != nil {
		if obj := w.info.Uses[root]; obj != nil && w.f.locals[obj] {
			ac.Ctor = true
		}
	}
	w.f.accesses = append(w.f.accesses, ac)
}

func rootIdent(e ast.Expr) *ast.Ident {
	for {
		switch x := e.(type) {
		case *ast.Ident:
			return x
		case *ast.SelectorExpr:
			e = x.X
		case *ast.ParenExpr:
			e = x.X
		case *ast.StarExpr:
			e = x.X
		case *ast.IndexExpr:
			e = x.X
		default:
			return nil
		}
	}
}

// lockCall recognises X.Lock() / RLock / Unlock / RUnlock on a sync.Mutex / RWMutex.
func (w *walker) lockCall(call *ast.CallExpr) (l lock, op string, ok bool) {
	sel, isSel := call.Fun.(*ast.SelectorExpr)
	if !isSel {
		return
	}
	switch sel.Sel.Name {
	case "Lock", "Unlock", "RLock", "RUnlock":
	default:
		return
	}
	tv, has := w.info.Types[sel.X]
	if !has {
		return
	}
	if m, _, _ := isSyncType(tv.Type); !m {
		return
	}
	op = sel.Sel.Name
	l.Write = op == "Lock" || op == "Unlock"
	if fs, isF := sel.X.(*ast.SelectorExpr); isF {
		l.Owner = types.ExprString(fs.X)
		tn := "?"
		if t, has := w.info.Types[fs.X]; has {
			if n := namedOf(t.Type); n != nil {
				tn = n.Obj().Name()
			}
		}
		l.Name = tn + "." + fs.Sel.Name
	} else {
		l.Owner = types.ExprString(sel.X)
		l.Name = "local." + l.Owner
	}
	ok = true
	return
}

func key(l lock) string { return l.Owner + "|" + l.Name }

func (w *walker) block(list []ast.Stmt, ls lockset) (lockset, bool) {
	for _, s := range list {
		var term bool
		ls, term = w.stmt(s, ls)
		if term {
			return ls, true
		}
	}
	return ls, false
}

func (w *walker) stmt(s ast.Stmt, ls lockset) (lockset, bool) {
	switch x := s.(type) {
	case nil:
		return ls, false
	case *ast.ExprStmt:
		if call, ok := x.X.(*ast.CallExpr); ok {
			if l, op, ok := w.lockCall(call); ok {
				ls = ls.clone()
				switch op {
				case "Lock", "RLock":
					ls[key(l)] = l
				default:
					delete(ls, key(l))
				}
				return ls, false
			}
			if id, ok := call.Fun.(*ast.Ident); ok && id.Name == "panic" {
				w.expr(x.X, ls)
				return ls, true
			}
		}
		w.expr(x.X, ls)
		return ls, false
	case *ast.DeferStmt:
		if _, _, ok := w.lockCall(x.Call); ok {
			return ls, false // defer mu.Unlock(): the mutex stays held until the function returns
		}
		if fl, ok := x.Call.Fun.(*ast.FuncLit); ok {
			_ = fl // body analysed separately with an empty entry lockset
			for _, a := range x.Call.Args {
				w.expr(a, ls)
			}
			return ls, false
		}
		// arguments are evaluated now; the call runs at return with an unknown lockset (be conservative)
		w.deferred = true
		w.call(x.Call, ls, false)
		w.deferred = false
		return ls, false
	case *ast.GoStmt:
		// arguments (and the receiver expression) are evaluated here; the callee starts with nothing held
		w.call(x.Call, ls, true)
		return ls, false
	case *ast.AssignStmt:
		for _, r := range x.Rhs {
			w.expr(r, ls)
		}
		for i, l := range x.Lhs {
			if x.Tok == token.DEFINE {
				// remember objects created here (New* functions): v := &T{...} / v := T{...} / new(T)
				if id, ok := l.(*ast.Ident); ok && w.f.isNew && i < len(x.Rhs) && isFresh(x.Rhs[i]) {
					if obj := w.info.Defs[id]; obj != nil {
						w.f.locals[obj] = true
					}
				}
				continue
			}
			w.lhs(l, ls)
			if x.Tok != token.ASSIGN {
				w.expr(l, ls) // op= reads as well
			}
		}
		return ls, false
	case *ast.IncDecStmt:
		w.lhs(x.X, ls)
		w.expr(x.X, ls)
		return ls, false
	case *ast.SendStmt:
		w.expr(x.Chan, ls)
		w.expr(x.Value, ls)
		return ls, false
	case *ast.ReturnStmt:
		for _, r := range x.Results {
			w.expr(r, ls)
		}
		return ls, true
	case *ast.BranchStmt:
		if x.Tok == token.BREAK || x.Tok == token.CONTINUE {
			w.breaks = append(w.breaks, ls)
		}
		return ls, true
	case *ast.BlockStmt:
		return w.block(x.List, ls)
	case *ast.LabeledStmt:
		return w.stmt(x.Stmt, ls)
	case *ast.DeclStmt:
		if gd, ok := x.Decl.(*ast.GenDecl); ok {
			for _, sp := range gd.Specs {
				if vs, ok := sp.(*ast.ValueSpec); ok {
					for _, v := range vs.Values {
						w.expr(v, ls)
					}
				}
			}
		}
		return ls, false
	case *ast.IfStmt:
		if x.Init != nil {
			ls, _ = w.stmt(x.Init, ls)
		}
		w.expr(x.Cond, ls)
		thenLs, thenT := w.block(x.Body.List, ls)
		var outs []lockset
		if !thenT {
			outs = append(outs, thenLs)
		}
		if x.Else != nil {
			elseLs, elseT := w.stmt(x.Else, ls)
			if !elseT {
				outs = append(outs, elseLs)
			}
		} else {
			outs = append(outs, ls)
		}
		if len(outs) == 0 {
			return ls, true
		}
		out := outs[0]
		for _, o := range outs[1:] {
			out = intersect(out, o)
		}
		return out, false
	case *ast.ForStmt:
		if x.Init != nil {
			ls, _ = w.stmt(x.Init, ls)
		}
		return w.loop(func(in lockset) (lockset, bool) {
			if x.Cond != nil {
				w.expr(x.Cond, in)
			}
			out, t := w.block(x.Body.List, in)
			if x.Post != nil && !t {
				out, _ = w.stmt(x.Post, out)
			}
			return out, t
		}, ls, x.Cond == nil), false
	case *ast.RangeStmt:
		w.expr(x.X, ls)
		return w.loop(func(in lockset) (lockset, bool) {
			if x.Tok == token.ASSIGN {
				if x.Key != nil {
					w.lhs(x.Key, in)
				}
				if x.Value != nil {
					w.lhs(x.Value, in)
				}
			}
			return w.block(x.Body.List, in)
		}, ls, false), false
	case *ast.SwitchStmt:
		if x.Init != nil {
			ls, _ = w.stmt(x.Init, ls)
		}
		if x.Tag != nil {
			w.expr(x.Tag, ls)
		}
		return w.cases(x.Body, ls)
	case *ast.TypeSwitchStmt:
		if x.Init != nil {
			ls, _ = w.stmt(x.Init, ls)
		}
		ls, _ = w.stmt(x.Assign, ls)
		return w.cases(x.Body, ls)
	case *ast.SelectStmt:
		return w.cases(x.Body, ls)
	default:
		return ls, false
	}
}

func isFresh(e ast.Expr) bool {
	switch x := e.(type) {
	case *ast.CompositeLit:
		return true
	case *ast.UnaryExpr:
		if x.Op == token.AND {
			_, ok := x.X.(*ast.CompositeLit)
			return ok
		}
	case *ast.CallExpr:
		if id, ok := x.Fun.(*ast.Ident); ok && id.Name == "new" {
			return true
		}
	}
	return false
}

// loop analyses a loop body until the entry lockset is stable (it can only shrink) and returns the
// lockset after the loop.
func (w *walker) loop(body func(lockset) (lockset, bool), ls lockset, infinite bool) lockset {
	entry := ls
	var after lockset
	for i := 0; i < 4; i++ {
		saved := w.breaks
		w.breaks = nil
		// keep only the accesses of the final iteration
		nAcc, nCalls := len(w.f.accesses), len(w.f.calls)
		out, term := body(entry)
		jumps := w.breaks
		w.breaks = saved
		next := entry
		if !term {
			next = intersect(next, out)
		}
		after = nil
		for _, j := range jumps {
			next = intersect(next, j) // continue points flow back to the head (break points: harmless over-approximation)
			if after == nil {
				after = j
			} else {
				after = intersect(after, j)
			}
		}
		if !infinite {
			if after == nil {
				after = next
			} else {
				after = intersect(after, next)
			}
		}
		if after == nil {
			after = next
		}
		if next.equal(entry) {
			break
		}
		entry = next
		w.f.accesses = w.f.accesses[:nAcc]
		w.f.calls = w.f.calls[:nCalls]
	}
	return after
}

func (w *walker) cases(body *ast.BlockStmt, ls lockset) (lockset, bool) {
	saved := w.breaks
	w.breaks = nil
	var outs []lockset
	hasDefault := false
	for _, c := range body.List {
		switch cc := c.(type) {
		case *ast.CaseClause:
			if cc.List == nil {
				hasDefault = true
			}
			for _, e := range cc.List {
				w.expr(e, ls)
			}
			out, t := w.block(cc.Body, ls)
			if !t {
				outs = append(outs, out)
			}
		case *ast.CommClause:
			in := ls
			if cc.Comm == nil {
				hasDefault = true
			} else {
				in, _ = w.stmt(cc.Comm, ls)
			}
			out, t := w.block(cc.Body, in)
			if !t {
				outs = append(outs, out)
			}
		}
	}
	jumps := w.breaks
	w.breaks = saved
	// a `break` inside a switch/select leaves the switch; a `continue` belongs to the enclosing loop: we
	// cannot tell them apart cheaply, so both are merged into the result AND passed outwards.
	w.breaks = append(w.breaks, jumps...)
	outs = append(outs, jumps...)
	_, isSelect := interface{}(body).(*ast.BlockStmt)
	_ = isSelect
	if !hasDefault {
		outs = append(outs, ls)
	}
	if len(outs) == 0 {
		return ls, true
	}
	out := outs[0]
	for _, o := range outs[1:] {
		out = intersect(out, o)
	}
	return out, false
}

// lhs handles an assignment target.
func (w *walker) lhs(e ast.Expr, ls lockset) {
	switch x := e.(type) {
	case *ast.ParenExpr:
		w.lhs(x.X, ls)
	case *ast.Ident:
		w.pkgVarUse(x, true)
	case *ast.StarExpr:
		w.expr(x.X, ls)
	case *ast.IndexExpr:
		w.expr(x.Index, ls)
		w.lhs(x.X, ls) // element write = write to the container
	case *ast.SelectorExpr:
		if loc, v, ok := w.a.targetField(w.info, x); ok {
			if m, at, other := isSyncType(v.Type()); !(m || at || other) {
				w.record(loc, "W", x, ls)
			}
			w.expr(x.X, ls)
			return
		}
		// a field of a struct VALUE stored inside something: the write goes into the enclosing storage
		if tv, ok := w.info.Types[x.X]; ok {
			if _, isPtr := tv.Type.Underlying().(*types.Pointer); !isPtr {
				if _, isStruct := tv.Type.Underlying().(*types.Struct); isStruct {
					w.lhs(x.X, ls)
					return
				}
			}
		}
		if id, ok := x.X.(*ast.Ident); ok {
			if _, isPkg := w.info.Uses[id].(*types.PkgName); isPkg {
				w.pkgVarUse(x.Sel, true)
				return
			}
		}
		w.expr(x.X, ls)
	default:
		w.expr(e, ls)
	}
}

func (w *walker) pkgVarUse(id *ast.Ident, write bool) {
	obj := w.info.Uses[id]
	if obj == nil {
		return
	}
	pv, ok := w.a.pkgvars[obj]
	if !ok {
		return
	}
	if write {
		if w.f.name == "init" && !w.f.isLit {
			return
		}
		pv.Writes = append(pv.Writes, pkgvarUse{Func: w.f.key, Pos: w.a.pos(id.Pos())})
	} else {
		pv.Reads++
	}
}

// expr scans an expression evaluated for its value.
func (w *walker) expr(e ast.Expr, ls lockset) {
	switch x := e.(type) {
	case nil:
	case *ast.Ident:
		w.pkgVarUse(x, false)
	case *ast.ParenExpr:
		w.expr(x.X, ls)
	case *ast.FuncLit:
		// analysed as its own function; referencing it here makes it a value (entry lockset empty)
	case *ast.SelectorExpr:
		if loc, v, ok := w.a.targetField(w.info, x); ok {
			if m, at, other := isSyncType(v.Type()); !(m || at || other) {
				w.record(loc, "R", x, ls)
			}
			w.expr(x.X, ls)
			return
		}
		if id, ok := x.X.(*ast.Ident); ok {
			if _, isPkg := w.info.Uses[id].(*types.PkgName); isPkg {
				w.pkgVarUse(x.Sel, false)
				return
			}
		}
		// method value / function used as a value
		if s, ok := w.info.Selections[x]; ok && s.Kind() == types.MethodVal {
			if f, ok := s.Obj().(*types.Func); ok {
				if t := w.a.fns[funcObjKey(f)]; t != nil {
					t.usedAsValue = true
				}
			}
		}
		w.expr(x.X, ls)
	case *ast.StarExpr:
		w.expr(x.X, ls)
	case *ast.UnaryExpr:
		if x.Op == token.AND {
			// &x.f : the address escapes; count as a write (and a read) of the storage
			if _, isLit := x.X.(*ast.CompositeLit); !isLit {
				w.lhs(x.X, ls)
			}
		}
		w.expr(x.X, ls)
	case *ast.BinaryExpr:
		w.expr(x.X, ls)
		w.expr(x.Y, ls)
	case *ast.IndexExpr:
		w.expr(x.X, ls)
		w.expr(x.Index, ls)
	case *ast.SliceExpr:
		w.expr(x.X, ls)
		w.expr(x.Low, ls)
		w.expr(x.High, ls)
		w.expr(x.Max, ls)
	case *ast.TypeAssertExpr:
		w.expr(x.X, ls)
	case *ast.KeyValueExpr:
		w.expr(x.Value, ls)
	case *ast.CompositeLit:
		for _, el := range x.Elts {
			w.expr(el, ls)
		}
	case *ast.CallExpr:
		w.call(x, ls, false)
	}
}

func (w *walker) call(c *ast.CallExpr, ls lockset, isGo bool) {
	// builtins that write through their first argument
	if id, ok := c.Fun.(*ast.Ident); ok {
		if _, isB := w.info.Uses[id].(*types.Builtin); isB {
			switch id.Name {
			case "delete", "copy", "clear":
				if len(c.Args) > 0 {
					w.lhs(c.Args[0], ls)
					w.expr(c.Args[0], ls)
					for _, a := range c.Args[1:] {
						w.expr(a, ls)
					}
					return
				}
			}
			for _, a := range c.Args {
				w.expr(a, ls)
			}
			return
		}
	}
	for _, a := range c.Args {
		w.expr(a, ls)
	}
	switch f := c.Fun.(type) {
	case *ast.SelectorExpr:
		// method call on a field of an anchored struct whose type is sync/atomic: atomic access
		if fs, ok := f.X.(*ast.SelectorExpr); ok {
			if loc, v, ok := w.a.targetField(w.info, fs); ok {
				m, at, other := isSyncType(v.Type())
				if at {
					w.record(loc, "A", fs, ls)
					w.expr(fs.X, ls)
					return
				}
				if m || other {
					w.expr(fs.X, ls)
					return
				}
			}
		}
		if s, ok := w.info.Selections[f]; ok && s.Kind() == types.MethodVal {
			if fo, ok := s.Obj().(*types.Func); ok {
				w.f.calls = append(w.f.calls, callsite{callee: funcObjKey(fo), recv: types.ExprString(f.X), held: w.heldForCallee(ls, isGo), isGo: isGo, pos: w.a.pos(c.Pos())})
			}
			w.expr(f.X, ls)
			return
		}
		if fo, ok := w.info.Uses[f.Sel].(*types.Func); ok { // pkg.Func
			w.f.calls = append(w.f.calls, callsite{callee: funcObjKey(fo), held: w.heldForCallee(ls, isGo), isGo: isGo, pos: w.a.pos(c.Pos())})
			return
		}
		w.expr(f, ls) // call through a func-typed field: a read of the field
	case *ast.Ident:
		if fo, ok := w.info.Uses[f].(*types.Func); ok {
			w.f.calls = append(w.f.calls, callsite{callee: funcObjKey(fo), held: w.heldForCallee(ls, isGo), isGo: isGo, pos: w.a.pos(c.Pos())})
		}
	case *ast.FuncLit:
		if k, ok := litKeys[f]; ok {
			w.f.calls = append(w.f.calls, callsite{callee: k, held: lockset{}, isGo: isGo, pos: w.a.pos(c.Pos())})
		}
	default:
		w.expr(c.Fun, ls)
	}
}

func (w *walker) heldForCallee(ls lockset, isGo bool) lockset {
	if isGo || w.deferred {
		return lockset{}
	}
	return ls.clone()
}

// ------------------------------------------------------------------ interprocedural part

// updateEntries recomputes "locks held on entry" for unexported functions from their call sites.
func (a *analyzer) updateEntries() bool {
	sites := map[string][]lockset{}
	for _, k := range a.order {
		f := a.fns[k]
		for _, c := range f.calls {
			callee := a.fns[c.callee]
			if callee == nil {
				continue
			}
			if c.isGo {
				sites[c.callee] = append(sites[c.callee], lockset{})
				continue
			}
			tr := lockset{}
			for _, l := range c.held {
				if c.recv == "" || callee.recvName == "" {
					continue
				}
				if l.Owner == c.recv {
					nl := lock{Owner: callee.recvName, Name: l.Name, Write: l.Write}
					tr[key(nl)] = nl
				} else if strings.HasPrefix(l.Owner, c.recv+".") {
					nl := lock{Owner: callee.recvName + l.Owner[len(c.recv):], Name: l.Name, Write: l.Write}
					tr[key(nl)] = nl
				}
			}
			sites[c.callee] = append(sites[c.callee], tr)
		}
	}
	changed := false
	for _, k := range a.order {
		f := a.fns[k]
		if f.exported || f.isLit || f.usedAsValue || len(sites[k]) == 0 {
			continue
		}
		e := sites[k][0]
		for _, s := range sites[k][1:] {
			e = intersect(e, s)
		}
		if f.entry == nil || !f.entry.equal(e) {
			if !(f.entry == nil && len(e) == 0) {
				changed = true
			}
			f.entry = e
		}
	}
	return changed
}

func (a *analyzer) assignRoles() {
	// background roots: targets of go statements
	bgRoots := map[string]string{} // fn key -> role name
	for _, k := range a.order {
		for _, c := range a.fns[k].calls {
			if c.isGo && a.fns[c.callee] != nil {
				bgRoots[c.callee] = "bg:" + c.callee
				a.gos = append(a.gos, map[string]string{"in": k, "target": c.callee, "pos": c.pos})
			}
		}
	}
	reach := func(roots []string) map[string]bool {
		seen := map[string]bool{}
		var st []string
		st = append(st, roots...)
		for len(st) > 0 {
			k := st[len(st)-1]
			st = st[:len(st)-1]
			if seen[k] || a.fns[k] == nil {
				continue
			}
			seen[k] = true
			for _, c := range a.fns[k].calls {
				if !c.isGo {
					st = append(st, c.callee)
				}
			}
		}
		return seen
	}
	roles := map[string]map[string]bool{}
	add := func(k, r string) {
		if roles[k] == nil {
			roles[k] = map[string]bool{}
		}
		roles[k][r] = true
	}
	var rootKeys []string
	for k := range bgRoots {
		rootKeys = append(rootKeys, k)
	}
	sort.Strings(rootKeys)
	for _, k := range rootKeys {
		for f := range reach([]string{k}) {
			add(f, bgRoots[k])
		}
	}
	var fgRoots []string
	for _, k := range a.order {
		f := a.fns[k]
		if f.exported || f.usedAsValue || (f.isLit && !f.ctorLit) {
			fgRoots = append(fgRoots, k)
		}
	}
	for f := range reach(fgRoots) {
		if _, isBgRoot := bgRoots[f]; isBgRoot && !a.fns[f].exported {
			continue
		}
		add(f, "fg")
	}
	for _, k := range a.order {
		f := a.fns[k]
		if len(roles[k]) == 0 {
			add(k, "fg")
		}
		var rs []string
		for r := range roles[k] {
			rs = append(rs, r)
		}
		sort.Strings(rs)
		for _, ac := range f.accesses {
			ac.Roles = rs
		}
	}
}

func (a *analyzer) emit() {
	// keep: fields of the anchored structs, and any other library struct field that a background
	// goroutine touches after construction (shared state the anchors do not name yet)
	bgTouched := map[string]bool{}
	for _, k := range a.order {
		for _, ac := range a.fns[k].accesses {
			if ac.Ctor || isAnchoredLoc(ac.Loc) {
				continue
			}
			for _, r := range ac.Roles {
				if strings.HasPrefix(r, "bg:") {
					bgTouched[ac.Loc] = true
				}
			}
		}
	}
	acc := []*access{}
	for _, k := range a.order {
		for _, ac := range a.fns[k].accesses {
			if isAnchoredLoc(ac.Loc) || bgTouched[ac.Loc] {
				acc = append(acc, ac)
			}
		}
	}
	extra := []string{}
	for l := range bgTouched {
		extra = append(extra, l)
	}
	sort.Strings(extra)
	var pvs []*pkgvar
	for _, v := range a.pkgvars {
		if v.Writes == nil {
			v.Writes = []pkgvarUse{}
		}
		pvs = append(pvs, v)
	}
	sort.Slice(pvs, func(i, j int) bool { return pvs[i].Pkg+pvs[i].Name < pvs[j].Pkg+pvs[j].Name })
	entries := map[string][]string{}
	for _, k := range a.order {
		if e := a.fns[k].entry; len(e) > 0 {
			var s []string
			for _, l := range e {
				m := "R"
				if l.Write {
					m = "W"
				}
				s = append(s, l.Owner+"."+l.Name+":"+m)
			}
			sort.Strings(s)
			entries[k] = s
		}
	}
	var tnames []string
	for t := range targets {
		tnames = append(tnames, t)
	}
	sort.Strings(tnames)
	out := map[string]interface{}{
		"targets":                      tnames,
		"unanchored_background_fields": extra,
		"accesses":                     acc,
		"pkgvars":                      pvs,
		"goroutines":                   a.gos,
		"entry_locks":                  entries,
		"functions":                    len(a.order),
		"protocols":                    a.protocols(),
		"pool":                         a.poolCheck(a.lib),
	}
	enc := json.NewEncoder(os.Stdout)
	enc.SetIndent("", " ")
	if err := enc.Encode(out); err != nil {
		fmt.Fprintln(os.Stderr, err)
		os.Exit(2)
	}
}
