module locktable

go 1.25

require golang.org/x/tools v0.29.0

require (
	golang.org/x/mod v0.22.0 // indirect
	golang.org/x/sync v0.10.0 // indirect
)
