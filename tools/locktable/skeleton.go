package main

// Protocol skeletons: for the Start/Stop/loop functions of the two background workers, the sequence
// of synchronisation-relevant operations in source order with the control structure around them.
// tools/props/c18.py compares them with the golden skeletons of tools/c18_protocol_shape.json to decide
// which transcription of Model/Lifecycle.v (fixed = false / true) describes the current source - or
// that none does (the model has to be re-transcribed).

import (
	"go/ast"
	"go/token"
	"go/types"
	"regexp"
	"strings"
)

var protocolFns = []string{
	"structures.(IncrementalRebalancer).Start",
	"structures.(IncrementalRebalancer).Stop",
	"structures.(IncrementalRebalancer).rebalancingLoop",
	"rebalancing.(SmartRebalancer).Start",
	"rebalancing.(SmartRebalancer).Stop",
	"rebalancing.(SmartRebalancer).monitorLoop",
}

type skel struct {
	a    *analyzer
	f    *fn
	info *types.Info
	out  []string
	re   *regexp.Regexp
}

func (a *analyzer) skeleton(f *fn) []string {
	s := &skel{a: a, f: f, info: f.pkg.TypesInfo}
	if f.recvName != "" {
		s.re = regexp.MustCompile(`\b` + regexp.QuoteMeta(f.recvName) + `\b`)
	}
	s.block(f.body.List)
	return s.out
}

func (s *skel) norm(e ast.Expr) string {
	str := types.ExprString(e)
	if s.re != nil {
		str = s.re.ReplaceAllString(str, "$")
	}
	return str
}

func (s *skel) emit(t string) { s.out = append(s.out, t) }

func (s *skel) block(list []ast.Stmt) {
	for _, st := range list {
		s.stmt(st)
	}
}

// callToken describes a call that matters for the protocol ("" = none).
func (s *skel) callToken(c *ast.CallExpr) string {
	w := &walker{a: s.a, f: s.f, info: s.info}
	if l, op, ok := w.lockCall(c); ok {
		return strings.ToLower(op) + ":" + l.Name
	}
	if id, ok := c.Fun.(*ast.Ident); ok {
		if _, isB := s.info.Uses[id].(*types.Builtin); isB {
			if id.Name == "close" && len(c.Args) == 1 {
				return "close:" + s.norm(c.Args[0])
			}
			if id.Name == "panic" {
				return "panic"
			}
			return ""
		}
	}
	if sel, ok := c.Fun.(*ast.SelectorExpr); ok {
		if tv, has := s.info.Types[sel.X]; has {
			if n := namedOf(tv.Type); n != nil && n.Obj().Pkg() != nil && n.Obj().Pkg().Path() == "sync" && n.Obj().Name() == "WaitGroup" {
				return "wg." + sel.Sel.Name + ":" + s.norm(sel.X)
			}
		}
		if sl, ok := s.info.Selections[sel]; ok {
			if sl.Kind() == types.MethodVal {
				if fo, ok := sl.Obj().(*types.Func); ok && fo.Pkg() != nil && strings.HasPrefix(fo.Pkg().Path(), modPath) {
					return "call:" + funcObjKey(fo)
				}
				if fo, ok := sl.Obj().(*types.Func); ok && fo.Name() == "Done" {
					return "ctxdone:" + s.norm(sel.X)
				}
			}
			if sl.Kind() == types.FieldVal { // call through a func-typed field (cancel, callbacks)
				return "callfield:" + s.norm(sel)
			}
		}
		if id, ok := sel.X.(*ast.Ident); ok {
			if pn, isPkg := s.info.Uses[id].(*types.PkgName); isPkg && pn.Imported().Path() == "context" {
				return "context." + sel.Sel.Name
			}
		}
	}
	return ""
}

// exprTokens: protocol-relevant operations inside an expression, in evaluation order (approximately).
func (s *skel) exprTokens(e ast.Expr) {
	if e == nil {
		return
	}
	ast.Inspect(e, func(n ast.Node) bool {
		switch x := n.(type) {
		case *ast.FuncLit:
			return false
		case *ast.UnaryExpr:
			if x.Op == token.ARROW {
				s.emit("recv:" + s.norm(x.X))
			}
		case *ast.CallExpr:
			if t := s.callToken(x); t != "" {
				s.emit(t)
			}
		}
		return true
	})
}

func (s *skel) anchoredWrite(e ast.Expr) {
	if sel, ok := e.(*ast.SelectorExpr); ok {
		if loc, v, ok := s.a.targetField(s.info, sel); ok && isAnchoredLoc(loc) {
			if m, at, other := isSyncType(v.Type()); !(m || at || other) {
				s.emit("write:" + loc)
				return
			}
		}
		s.anchoredWrite(sel.X)
	}
}

func (s *skel) stmt(st ast.Stmt) {
	switch x := st.(type) {
	case nil:
	case *ast.ExprStmt:
		s.exprTokens(x.X)
	case *ast.AssignStmt:
		for _, r := range x.Rhs {
			s.exprTokens(r)
		}
		for _, l := range x.Lhs {
			s.anchoredWrite(l)
		}
	case *ast.IncDecStmt:
		s.anchoredWrite(x.X)
	case *ast.DeferStmt:
		if fl, ok := x.Call.Fun.(*ast.FuncLit); ok {
			s.emit("defer-func{")
			s.block(fl.Body.List)
			s.emit("}")
			return
		}
		if t := s.callToken(x.Call); t != "" {
			s.emit("defer " + t)
		}
	case *ast.GoStmt:
		t := s.callToken(x.Call)
		args := []string{}
		for _, a := range x.Call.Args {
			args = append(args, s.norm(a))
		}
		s.emit("go " + t + "(" + strings.Join(args, ",") + ")")
	case *ast.ReturnStmt:
		for _, r := range x.Results {
			s.exprTokens(r)
		}
		s.emit("return")
	case *ast.BranchStmt:
		s.emit(x.Tok.String())
	case *ast.BlockStmt:
		s.block(x.List)
	case *ast.LabeledStmt:
		s.stmt(x.Stmt)
	case *ast.IfStmt:
		if x.Init != nil {
			s.stmt(x.Init)
		}
		s.emit("if[" + s.norm(x.Cond) + "]{")
		s.block(x.Body.List)
		if x.Else != nil {
			s.emit("}else{")
			s.stmt(x.Else)
		}
		s.emit("}")
	case *ast.ForStmt:
		s.emit("for{")
		s.block(x.Body.List)
		s.emit("}")
	case *ast.RangeStmt:
		s.emit("for{")
		s.block(x.Body.List)
		s.emit("}")
	case *ast.SelectStmt:
		s.emit("select{")
		for _, c := range x.Body.List {
			cc := c.(*ast.CommClause)
			if cc.Comm == nil {
				s.emit("default{")
			} else {
				before := len(s.out)
				s.stmt(cc.Comm)
				comm := strings.Join(s.out[before:], ";")
				s.out = s.out[:before]
				s.emit("case[" + comm + "]{")
			}
			s.block(cc.Body)
			s.emit("}")
		}
		s.emit("}")
	case *ast.SwitchStmt:
		s.emit("switch{")
		for _, c := range x.Body.List {
			s.emit("case{")
			s.block(c.(*ast.CaseClause).Body)
			s.emit("}")
		}
		s.emit("}")
	case *ast.DeclStmt:
		if gd, ok := x.Decl.(*ast.GenDecl); ok {
			for _, sp := range gd.Specs {
				if vs, ok := sp.(*ast.ValueSpec); ok {
					for _, v := range vs.Values {
						s.exprTokens(v)
					}
				}
			}
		}
	}
}

func (a *analyzer) protocols() map[string][]string {
	out := map[string][]string{}
	for _, k := range protocolFns {
		if f := a.fns[k]; f != nil {
			out[k] = a.skeleton(f)
		} else {
			out[k] = nil
		}
	}
	return out
}
