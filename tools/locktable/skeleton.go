package main

// Protocol skeletons: for the Start/Stop/loop functions of the two background workers, the sequence
// of synchronisation-relevant operations in source order with the control structure around them.
// tools/props/c18.py compares them with the golden skeletons of tools/c18_protocol_shape.json to decide
// which transcription of Model/Lifecycle.v (fixed = false / true) describes the current source - or
// that none does (the model has to be re-transcribed).

import (
	"go/ast"
	"go/token"
	"go/types"
	"regexp"
	"strconv"
	"strings"
)

var protocolFns = []string{
	"structures.(IncrementalRebalancer).Start",
	"structures.(IncrementalRebalancer).Stop",
	"structures.(IncrementalRebalancer).rebalancingLoop",
	"rebalancing.(SmartRebalancer).Start",
	"rebalancing.(SmartRebalancer).Stop",
	"rebalancing.(SmartRebalancer).monitorLoop",
	// tree-level wrappers around the IncrementalRebalancer (system (c) of Model/Lifecycle.v)
	"structures.(WritableBTreeV2).EnableIncrementalRebalancing",
	"structures.(WritableBTreeV2).StopIncrementalRebalancing",
	"structures.(WritableBTreeV2).IsIncrementalRebalancingEnabled",
	"structures.(WritableBTreeV2).GetIncrementalRebalancingProgress",
}

// Fields whose READS are part of the protocol as well (the writes of every anchored field already are):
// the pointer the tree-level wrappers hand over between their critical sections.  A local variable
// assigned from such a field becomes an alias "#n" (n = order of definition), so that renaming it does not
// change the skeleton, and a method call whose receiver is the field or an alias carries "@receiver".
var trackedFields = map[string]bool{
	"WritableBTreeV2.incrementalRebalancer": true,
}

// Functions in which an `if` without else whose body contributes nothing to the skeleton and whose condition
// calls nothing is dropped (parameter defaulting and the like): only the tree-level wrappers, the golden
// skeletons of the Start/Stop/loop functions keep their historical form.
var pruneEmptyIfs = map[string]bool{
	"structures.(WritableBTreeV2).EnableIncrementalRebalancing":      true,
	"structures.(WritableBTreeV2).StopIncrementalRebalancing":        true,
	"structures.(WritableBTreeV2).IsIncrementalRebalancingEnabled":   true,
	"structures.(WritableBTreeV2).GetIncrementalRebalancingProgress": true,
}

type skel struct {
	a    *analyzer
	f    *fn
	info *types.Info
	out  []string
	re   *regexp.Regexp
	// aliases of tracked fields: local variable -> "#n"
	alias   map[types.Object]string
	aliasRe []*regexp.Regexp
	aliasTo []string
	prune   bool
}

func (a *analyzer) skeleton(f *fn) []string {
	s := &skel{a: a, f: f, info: f.pkg.TypesInfo, alias: map[types.Object]string{}, prune: pruneEmptyIfs[f.key]}
	if f.recvName != "" {
		s.re = regexp.MustCompile(`\b` + regexp.QuoteMeta(f.recvName) + `\b`)
	}
	s.block(f.body.List)
	return s.out
}

func (s *skel) norm(e ast.Expr) string {
	str := types.ExprString(e)
	if s.re != nil {
		str = s.re.ReplaceAllString(str, "$")
	}
	for i, re := range s.aliasRe {
		str = re.ReplaceAllString(str, s.aliasTo[i])
	}
	return str
}

// trackedLoc: e is a selector of a tracked field -> its location name.
func (s *skel) trackedLoc(e ast.Expr) (string, bool) {
	if p, ok := e.(*ast.ParenExpr); ok {
		return s.trackedLoc(p.X)
	}
	sel, ok := e.(*ast.SelectorExpr)
	if !ok {
		return "", false
	}
	if loc, _, ok := s.a.targetField(s.info, sel); ok && trackedFields[loc] {
		return loc, true
	}
	return "", false
}

func (s *skel) objOf(id *ast.Ident) types.Object {
	if o := s.info.Defs[id]; o != nil {
		return o
	}
	return s.info.Uses[id]
}

// isTrackedRef: e is a tracked field or a local alias of one.
func (s *skel) isTrackedRef(e ast.Expr) bool {
	if _, ok := s.trackedLoc(e); ok {
		return true
	}
	if id, ok := e.(*ast.Ident); ok {
		if o := s.objOf(id); o != nil {
			_, is := s.alias[o]
			return is
		}
	}
	return false
}

func (s *skel) addAlias(id *ast.Ident) string {
	o := s.objOf(id)
	if o == nil || id.Name == "_" {
		return ""
	}
	if n, ok := s.alias[o]; ok {
		return n
	}
	n := "#" + strconv.Itoa(len(s.alias)+1)
	s.alias[o] = n
	s.aliasRe = append(s.aliasRe, regexp.MustCompile(`\b`+regexp.QuoteMeta(id.Name)+`\b`))
	s.aliasTo = append(s.aliasTo, n)
	return n
}

func (s *skel) emit(t string) { s.out = append(s.out, t) }

func (s *skel) block(list []ast.Stmt) {
	for _, st := range list {
		s.stmt(st)
	}
}

// callToken describes a call that matters for the protocol ("" = none).
func (s *skel) callToken(c *ast.CallExpr) string {
	w := &walker{a: s.a, f: s.f, info: s.info}
	if l, op, ok := w.lockCall(c); ok {
		return strings.ToLower(op) + ":" + l.Name
	}
	if id, ok := c.Fun.(*ast.Ident); ok {
		if _, isB := s.info.Uses[id].(*types.Builtin); isB {
			if id.Name == "close" && len(c.Args) == 1 {
				return "close:" + s.norm(c.Args[0])
			}
			if id.Name == "panic" {
				return "panic"
			}
			return ""
		}
	}
	if sel, ok := c.Fun.(*ast.SelectorExpr); ok {
		if tv, has := s.info.Types[sel.X]; has {
			if n := namedOf(tv.Type); n != nil && n.Obj().Pkg() != nil && n.Obj().Pkg().Path() == "sync" && n.Obj().Name() == "WaitGroup" {
				return "wg." + sel.Sel.Name + ":" + s.norm(sel.X)
			}
		}
		if sl, ok := s.info.Selections[sel]; ok {
			if sl.Kind() == types.MethodVal {
				if fo, ok := sl.Obj().(*types.Func); ok && fo.Pkg() != nil && strings.HasPrefix(fo.Pkg().Path(), modPath) {
					if s.isTrackedRef(sel.X) {
						return "call:" + funcObjKey(fo) + "@" + s.norm(sel.X)
					}
					return "call:" + funcObjKey(fo)
				}
				if fo, ok := sl.Obj().(*types.Func); ok && fo.Name() == "Done" {
					return "ctxdone:" + s.norm(sel.X)
				}
			}
			if sl.Kind() == types.FieldVal { // call through a func-typed field (cancel, callbacks)
				return "callfield:" + s.norm(sel)
			}
		}
		if id, ok := sel.X.(*ast.Ident); ok {
			if pn, isPkg := s.info.Uses[id].(*types.PkgName); isPkg && pn.Imported().Path() == "context" {
				return "context." + sel.Sel.Name
			}
		}
	}
	return ""
}

// exprTokens: protocol-relevant operations inside an expression, in evaluation order (approximately).
func (s *skel) exprTokens(e ast.Expr) {
	if e == nil {
		return
	}
	ast.Inspect(e, func(n ast.Node) bool {
		switch x := n.(type) {
		case *ast.FuncLit:
			return false
		case *ast.UnaryExpr:
			if x.Op == token.ARROW {
				s.emit("recv:" + s.norm(x.X))
			}
		case *ast.CallExpr:
			if t := s.callToken(x); t != "" {
				s.emit(t)
			}
		case *ast.SelectorExpr:
			if loc, ok := s.trackedLoc(x); ok {
				s.emit("read:" + loc)
			}
		}
		return true
	})
}

func (s *skel) anchoredWrite(e ast.Expr) {
	if sel, ok := e.(*ast.SelectorExpr); ok {
		if loc, v, ok := s.a.targetField(s.info, sel); ok && isAnchoredLoc(loc) {
			if m, at, other := isSyncType(v.Type()); !(m || at || other) {
				s.emit("write:" + loc)
				return
			}
		}
		s.anchoredWrite(sel.X)
	}
}

func (s *skel) stmt(st ast.Stmt) {
	switch x := st.(type) {
	case nil:
	case *ast.ExprStmt:
		s.exprTokens(x.X)
	case *ast.AssignStmt:
		for i, r := range x.Rhs {
			if loc, ok := s.trackedLoc(r); ok && len(x.Lhs) == len(x.Rhs) {
				if id, isId := x.Lhs[i].(*ast.Ident); isId {
					if n := s.addAlias(id); n != "" {
						s.emit("read:" + loc + "->" + n)
						continue
					}
				}
			}
			s.exprTokens(r)
		}
		for i, l := range x.Lhs {
			if loc, ok := s.trackedLoc(l); ok && len(x.Lhs) == len(x.Rhs) {
				s.emit("write:" + loc + "=" + s.valueClass(x.Rhs[i]))
				continue
			}
			s.anchoredWrite(l)
		}
	case *ast.IncDecStmt:
		s.anchoredWrite(x.X)
	case *ast.DeferStmt:
		if fl, ok := x.Call.Fun.(*ast.FuncLit); ok {
			s.emit("defer-func{")
			s.block(fl.Body.List)
			s.emit("}")
			return
		}
		if t := s.callToken(x.Call); t != "" {
			s.emit("defer " + t)
		}
	case *ast.GoStmt:
		t := s.callToken(x.Call)
		args := []string{}
		for _, a := range x.Call.Args {
			args = append(args, s.norm(a))
		}
		s.emit("go " + t + "(" + strings.Join(args, ",") + ")")
	case *ast.ReturnStmt:
		for _, r := range x.Results {
			s.exprTokens(r)
		}
		s.emit("return")
	case *ast.BranchStmt:
		s.emit(x.Tok.String())
	case *ast.BlockStmt:
		s.block(x.List)
	case *ast.LabeledStmt:
		s.stmt(x.Stmt)
	case *ast.IfStmt:
		before := len(s.out)
		if x.Init != nil {
			s.stmt(x.Init)
		}
		s.emit("if[" + s.norm(x.Cond) + "]{")
		inner := len(s.out)
		s.block(x.Body.List)
		if s.prune && x.Else == nil && len(s.out) == inner && inner == before+1 && !hasCall(x.Cond) {
			s.out = s.out[:before]
			return
		}
		if x.Else != nil {
			s.emit("}else{")
			s.stmt(x.Else)
		}
		s.emit("}")
	case *ast.ForStmt:
		s.emit("for{")
		s.block(x.Body.List)
		s.emit("}")
	case *ast.RangeStmt:
		s.emit("for{")
		s.block(x.Body.List)
		s.emit("}")
	case *ast.SelectStmt:
		s.emit("select{")
		for _, c := range x.Body.List {
			cc := c.(*ast.CommClause)
			if cc.Comm == nil {
				s.emit("default{")
			} else {
				before := len(s.out)
				s.stmt(cc.Comm)
				comm := strings.Join(s.out[before:], ";")
				s.out = s.out[:before]
				s.emit("case[" + comm + "]{")
			}
			s.block(cc.Body)
			s.emit("}")
		}
		s.emit("}")
	case *ast.SwitchStmt:
		s.emit("switch{")
		for _, c := range x.Body.List {
			s.emit("case{")
			s.block(c.(*ast.CaseClause).Body)
			s.emit("}")
		}
		s.emit("}")
	case *ast.DeclStmt:
		if gd, ok := x.Decl.(*ast.GenDecl); ok {
			for _, sp := range gd.Specs {
				if vs, ok := sp.(*ast.ValueSpec); ok {
					for _, v := range vs.Values {
						s.exprTokens(v)
					}
				}
			}
		}
	}
}

// valueClass: what is stored into a tracked field: nil, a new object, a tracked reference, or "?".
func (s *skel) valueClass(e ast.Expr) string {
	switch x := e.(type) {
	case *ast.ParenExpr:
		return s.valueClass(x.X)
	case *ast.Ident:
		if x.Name == "nil" {
			if _, isNil := s.info.Uses[x].(*types.Nil); isNil {
				return "nil"
			}
		}
	case *ast.UnaryExpr:
		if _, ok := x.X.(*ast.CompositeLit); ok && x.Op == token.AND {
			return "new"
		}
	case *ast.CompositeLit:
		return "new"
	}
	if s.isTrackedRef(e) {
		return s.norm(e)
	}
	return "?"
}

// hasCall: the expression calls something other than the builtins len / cap.
func hasCall(e ast.Expr) bool {
	found := false
	ast.Inspect(e, func(n ast.Node) bool {
		if c, ok := n.(*ast.CallExpr); ok {
			if id, isId := c.Fun.(*ast.Ident); isId && (id.Name == "len" || id.Name == "cap") {
				return true
			}
			found = true
		}
		return !found
	})
	return found
}

func (a *analyzer) protocols() map[string][]string {
	out := map[string][]string{}
	for _, k := range protocolFns {
		if f := a.fns[k]; f != nil {
			out[k] = a.skeleton(f)
		} else {
			out[k] = nil
		}
	}
	return out
}
