#!/usr/bin/env python3
"""Run the repository's pinned suite with the verif guard OFF and compare with BASELINE.json."""
import json, os, subprocess, sys
env = dict(os.environ, GOFLAGS="-mod=mod", GOPROXY="off")
repo = sys.argv[1] if len(sys.argv) > 1 else "/repo"
p = subprocess.run(["go", "test", "-json", "-vet=off", "-count=1", "-timeout", "25m", "./..."],
                   cwd=repo, env=env, capture_output=True, text=True)
passed, failed = set(), set()
for line in p.stdout.splitlines():
    try: e = json.loads(line)
    except Exception: continue
    if e.get("Test") and e.get("Action") in ("pass", "fail"):
        (passed if e["Action"] == "pass" else failed).add(e["Package"] + "::" + e["Test"])
# wall-clock assertions (e.g. TestMetricsCollector_Performance) flake when the machine is loaded: re-run failing packages
for attempt in range(3):
    if not failed:
        break
    pkgs = sorted({t.split("::")[0] for t in failed})
    p2 = subprocess.run(["go", "test", "-json", "-vet=off", "-count=1", "-timeout", "25m"] + pkgs,
                        cwd=repo, env=env, capture_output=True, text=True)
    again_pass, again_fail = set(), set()
    for line in p2.stdout.splitlines():
        try: e = json.loads(line)
        except Exception: continue
        if e.get("Test") and e.get("Action") in ("pass", "fail"):
            (again_pass if e["Action"] == "pass" else again_fail).add(e["Package"] + "::" + e["Test"])
    print("re-run of %s: %d failed before, %d fail now" % (pkgs, len(failed), len(again_fail)))
    passed |= (failed - again_fail) & again_pass
    failed = again_fail
base = set(json.load(open("/root/.vp/BASELINE.json"))["stable_pass"])
missing = sorted(base - passed)
print(f"baseline={len(base)} passed={len(passed)} failed={len(failed)} missing_from_baseline={len(missing)}")
for t in missing[:40]: print("  MISSING", t)
for t in sorted(failed)[:40]: print("  FAILED", t)
sys.exit(1 if missing or failed else 0)
