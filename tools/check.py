#!/usr/bin/env python3
"""Driver: python3 tools/check.py <Cxx> [--tier quick|thorough] [--replay path]

Exit 0: property held on everything explored (KNOWN-FINDING lines for listed findings).
Exit 1: prints `VIOLATION property=<id> replay=<path>[ no-failing-input-found]`.
"""
import argparse, importlib, json, os, sys, time, traceback

sys.path.insert(0, os.path.dirname(os.path.abspath(__file__)))
import vlib
from vlib import Violation


class Ctx:
    pass


def main():
    ap = argparse.ArgumentParser()
    ap.add_argument("pid")
    ap.add_argument("--tier", default=os.environ.get("VERIF_TIER", "quick"))
    ap.add_argument("--replay")
    a = ap.parse_args()
    pid = a.pid.upper()
    tier = a.tier if a.tier in ("quick", "thorough") else "quick"
    mod = importlib.import_module("props." + pid.lower())
    seed, rng = vlib.seed_for(pid)
    t0 = time.time()
    ctx = Ctx()
    ctx.pid, ctx.tier, ctx.seed, ctx.rng, ctx.replay = pid, tier, seed, rng, a.replay
    violations = []      # list of (what, replay_payload, nofail)
    coverage = {}
    coverage_extra = {}
    known_lines = []
    rc = 0
    try:
        # E1: the development must build and the property theorems must re-check
        ok, log = vlib.coq_make()
        proofs = None
        if not ok:
            violations.append(("Coq development no longer builds", {"make_log": log[-6000:]}, True))
        else:
            proofs = vlib.check_props(pid)
            if not proofs["ok"]:
                violations.append(("property theorems in Props/%s.v no longer check or depend on unlisted axioms" % pid,
                                   {"coqc": proofs["cmd"], "log": proofs["log"], "assumptions": proofs["assumptions"],
                                    "forbidden": proofs["forbidden"]}, True))
            if tier == "thorough" and proofs["ok"] and not a.replay:
                chk = vlib.coqchk_props(pid)
                coverage_extra["coqchk"] = {k: chk[k] for k in ("ok", "axioms", "modules", "cached", "cmd", "wall_s")}
                if not chk["ok"]:
                    violations.append(("coqchk rejects Props/%s*.vo or reports axioms / disabled checks" % pid,
                                       {"cmd": chk["cmd"], "log": chk["log"], "axioms": chk["axioms"]}, True))
        # E3: harness from the current tree
        try:
            ctx.harness = vlib.build_harness()
        except vlib.HarnessBuildError as e:
            ctx.harness = None
            violations.append(("verifharness no longer builds against /repo (the correspondence cannot be run)",
                               {"go_build_log": str(e)[-6000:]}, True))
        res = None
        if a.replay and ctx.harness:
            rep = getattr(mod, "replay", None)
            if rep is None:
                import histcheck
                rep = histcheck.replay
            fs = rep(ctx, a.replay)
            vlib.cleanup()
            sys.exit(1 if fs else 0)
        if ctx.harness and ok:
            res = mod.run(ctx)
            for v in res.get("violations", []):
                violations.append((v["what"], v, bool(v.get("nofail"))))
            known_lines = res.get("known", [])
            coverage = res.get("coverage", {})
        coverage.update(coverage_extra)
        nthm = len(proofs["theorems"]) if proofs else 0
        side = coverage.pop("side_obligations", 0)
        side_ok = coverage.pop("side_discharged", 0)
        coverage.update(dict(
            obligations=max(1, nthm + side),
            discharged=(nthm if (proofs and proofs["ok"]) else 0) + side_ok,
            checker_cmd=("make -C /verif/coq -j16 && " + (proofs["cmd"] if proofs else "coqc Props/%s.v" % pid)),
            trusted_base=vlib.TRUSTED_BASE + getattr(mod, "TRUSTED", []),
            theorems=(proofs["theorems"] if proofs else []),
            print_assumptions=(proofs["assumptions"] if proofs else {}),
        ))
    except Exception as e:  # machinery failure: never silently pass
        traceback.print_exc()
        violations.append(("check machinery failed: %r" % (e,), {"traceback": traceback.format_exc()[-6000:]}, True))
    finally:
        vlib.cleanup()
    for k in known_lines:
        print("KNOWN-FINDING: property=%s %s" % (pid, k))
    if violations:
        rc = 1
        # one replay file; a violation with a concrete failing input takes precedence
        violations.sort(key=lambda v: v[2])
        what, payload, nofail = violations[0]
        path = vlib.write_replay(pid, seed, dict(property=pid, tier=tier, seed=seed, what=what, nofail=nofail,
                                                 detail=payload, others=[v[0] for v in violations[1:]]))
        print("VIOLATION property=%s replay=%s%s" % (pid, path, " no-failing-input-found" if nofail else ""))
        print("  " + what)
    if "evaluations" not in coverage:
        coverage.setdefault("evaluations", 0)
    vlib.write_evidence(pid, tier, seed, coverage, time.time() - t0, len(violations),
                        assumptions=getattr(mod, "ASSUMPTIONS", []))
    print("%s tier=%s seed=%d wall=%.1fs evaluations=%s violations=%d known=%d" % (
        pid, tier, seed, time.time() - t0, coverage.get("evaluations"), len(violations), len(known_lines)))
    sys.exit(rc)


if __name__ == "__main__":
    main()
