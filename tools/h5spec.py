"""Independent HDF5 decoder, written from the HDF5 File Format Specification (version 3.0).

walk(path) -> dict(tree=..., extents=[(start,end,kind,owner)], deviations=[(tag,where,detail)], errors=[...])

* every structure visited is recorded as a half-open extent [start,end);
* signatures, versions, size fields, reserved fields and checksums are checked against the specification;
  an inconsistency is an *error* (the file is not well-formed);
* where a file departs from the specification in a way this decoder can still interpret unambiguously,
  the departure is recorded as a *deviation* with a stable tag and decoding continues in tolerant mode;
* anything this decoder does not implement raises Unsupported (recorded as an error, never guessed).

Nothing here is derived from the Go reader of scigolib/hdf5.
"""
import itertools, struct, zlib

UNDEF8 = 0xFFFFFFFFFFFFFFFF
SIG = b"\x89HDF\r\n\x1a\n"


class SpecError(Exception):
    pass


class Unsupported(Exception):
    pass


# ----------------------------------------------------------------------------- checksums

def _rot(x, k):
    return ((x << k) | (x >> (32 - k))) & 0xFFFFFFFF


def lookup3(data, init=0):
    """Bob Jenkins' lookup3 hashlittle(); HDF5 metadata checksum = lookup3(bytes, 0)."""
    M = 0xFFFFFFFF
    n = len(data)
    a = b = c = (0xDEADBEEF + n + init) & M
    i = 0
    while n - i > 12:
        a = (a + int.from_bytes(data[i:i + 4], "little")) & M
        b = (b + int.from_bytes(data[i + 4:i + 8], "little")) & M
        c = (c + int.from_bytes(data[i + 8:i + 12], "little")) & M
        a = (a - c) & M; a ^= _rot(c, 4); c = (c + b) & M
        b = (b - a) & M; b ^= _rot(a, 6); a = (a + c) & M
        c = (c - b) & M; c ^= _rot(b, 8); b = (b + a) & M
        a = (a - c) & M; a ^= _rot(c, 16); c = (c + b) & M
        b = (b - a) & M; b ^= _rot(a, 19); a = (a + c) & M
        c = (c - b) & M; c ^= _rot(b, 4); b = (b + a) & M
        i += 12
    k = data[i:]
    if len(k) == 0:
        return c
    k = bytes(k) + b"\x00" * (12 - len(k))
    a = (a + int.from_bytes(k[0:4], "little")) & M
    b = (b + int.from_bytes(k[4:8], "little")) & M
    c = (c + int.from_bytes(k[8:12], "little")) & M
    c ^= b; c = (c - _rot(b, 14)) & M
    a ^= c; a = (a - _rot(c, 11)) & M
    b ^= a; b = (b - _rot(a, 25)) & M
    c ^= b; c = (c - _rot(b, 16)) & M
    a ^= c; a = (a - _rot(c, 4)) & M
    b ^= a; b = (b - _rot(a, 14)) & M
    c ^= b; c = (c - _rot(b, 24)) & M
    return c


def crc32(data):
    return zlib.crc32(bytes(data)) & 0xFFFFFFFF


def fletcher32(data):
    """H5_checksum_fletcher32: big-endian 16-bit words, one's complement sums, odd byte is a high byte."""
    s1 = s2 = 0
    n = len(data) // 2
    for i in range(n):
        s1 += (data[2 * i] << 8) | data[2 * i + 1]
        s2 += s1
        if i % 360 == 359:
            s1 = (s1 & 0xFFFF) + (s1 >> 16)
            s2 = (s2 & 0xFFFF) + (s2 >> 16)
    s1 = (s1 & 0xFFFF) + (s1 >> 16)
    s2 = (s2 & 0xFFFF) + (s2 >> 16)
    if len(data) % 2:
        s1 += data[-1] << 8
        s2 += s1
        s1 = (s1 & 0xFFFF) + (s1 >> 16)
        s2 = (s2 & 0xFFFF) + (s2 >> 16)
    s1 = (s1 & 0xFFFF) + (s1 >> 16)
    s2 = (s2 & 0xFFFF) + (s2 >> 16)
    return ((s2 << 16) | s1) & 0xFFFFFFFF


def prod(xs):
    p = 1
    for x in xs:
        p *= x
    return p


def nbytes_for(v):
    """minimum number of bytes needed to encode the value v"""
    n = 1
    while v >= (1 << (8 * n)):
        n += 1
    return n


# ----------------------------------------------------------------------------- the walker

class Walker:
    def __init__(self, data):
        self.b = data
        self.n = len(data)
        self.extents = []
        self.soft = []          # (start,end,kind,owner,tag): full-capacity regions the spec gives a node
        self.dev = []
        self.errors = []
        self.objects = {}       # header address -> node
        self.linkcount = {}     # header address -> number of hard links found
        self.O = self.L = 8
        self.sb = {}
        self.checks = []        # (kind, addr, algo, covered_start, covered_end, stored) checksum facts for the tie
        self.lenient_nested_float = False   # histlib: only class/size of a floating-point member matter, not its property bytes

    # -- primitives
    def rd(self, off, n, what):
        if off < 0 or n < 0 or off + n > self.n:
            raise SpecError("%s: bytes [%d,%d) lie outside the file (size %d)" % (what, off, off + n, self.n))
        return self.b[off:off + n]

    def u(self, off, n, what="field"):
        return int.from_bytes(self.rd(off, n, what), "little")

    def undef(self, v, n=None):
        n = n or self.O
        return v == (1 << (8 * n)) - 1

    def ext(self, s, e, kind, owner):
        if e <= s:
            raise SpecError("%s of %s: empty or negative extent [%d,%d)" % (kind, owner, s, e))
        if e > self.n:
            raise SpecError("%s of %s: extent [%d,%d) ends beyond the file (size %d)" % (kind, owner, s, e, self.n))
        self.extents.append((s, e, kind, owner))

    def deviate(self, tag, where, detail=""):
        self.dev.append((tag, where, detail))

    def checksum(self, kind, where, start, end, tag_crc):
        """stored u32 at `end` must be lookup3(b[start:end]); CRC-32 instead is a tagged deviation."""
        stored = self.u(end, 4, kind + " checksum")
        body = self.b[start:end]
        if stored == lookup3(body):
            self.checks.append((kind, start, "lookup3", start, end, stored))
            return
        if stored == crc32(body):
            self.deviate(tag_crc, where, "stored 0x%08x is CRC-32/IEEE of the covered bytes; the specification's checksum (lookup3) is 0x%08x" % (stored, lookup3(body)))
            self.checks.append((kind, start, "crc32", start, end, stored))
            return
        raise SpecError("%s at %d: stored checksum 0x%08x matches neither lookup3 (0x%08x) nor CRC-32 (0x%08x) of the bytes it covers" % (
            kind, start, stored, lookup3(body), crc32(body)))

    # -- superblock
    def superblock(self):
        if self.rd(0, 8, "superblock signature") != SIG:
            raise SpecError("no HDF5 signature at offset 0")
        v = self.b[8]
        sb = self.sb
        sb["version"] = v
        if v in (0, 1):
            if self.b[9] != 0 or self.b[10] != 0 or self.b[11] != 0 or self.b[12] != 0 or self.b[15] != 0:
                raise SpecError("superblock v%d: free-space/root-entry/shared-header versions and reserved bytes must be 0" % v)
            self.O, self.L = self.b[13], self.b[14]
            if self.O not in (2, 4, 8) or self.L not in (2, 4, 8):
                raise SpecError("superblock: size of offsets/lengths %d/%d" % (self.O, self.L))
            sb["leafK"], sb["intK"] = self.u(16, 2), self.u(18, 2)
            sb["flags"] = self.u(20, 4)
            p = 24
            sb["istoreK"] = 32
            if v == 1:
                sb["istoreK"] = self.u(24, 2)
                p = 28
            O = self.O
            sb["base"], fsinfo, sb["eof"], driver = (self.u(p + i * O, O) for i in range(4))
            if not self.undef(fsinfo):
                raise SpecError("superblock: free-space info address must be the undefined address")
            if not self.undef(driver):
                raise Unsupported("driver information block")
            ste = p + 4 * O
            size = ste + 2 * O + 24
            self.ext(0, size, "superblock", "/")
            e = self.sym_entry(ste)
            sb["root"] = e["obj"]
            sb["root_entry"] = e
            if sb["leafK"] == 0 or sb["intK"] == 0:
                raise SpecError("superblock: group K values must be positive")
        elif v in (2, 3):
            self.O, self.L = self.b[9], self.b[10]
            if self.O not in (2, 4, 8) or self.L not in (2, 4, 8):
                raise SpecError("superblock: size of offsets/lengths %d/%d" % (self.O, self.L))
            O = self.O
            sb["flags"] = self.b[11]
            sb["base"], sbext, sb["eof"], sb["root"] = (self.u(12 + i * O, O) for i in range(4))
            size = 12 + 4 * O + 4
            self.ext(0, size, "superblock", "/")
            self.checksum("superblock", "superblock", 0, 12 + 4 * O, "sb-crc32")
            if not self.undef(sbext):
                raise Unsupported("superblock extension")
            sb["leafK"], sb["intK"], sb["istoreK"] = 4, 16, 32      # defaults without a B-tree 'K' values message
            if v == 2 and sb["flags"] != 0:
                pass
        else:
            raise Unsupported("superblock version %d" % v)
        if sb["base"] != 0:
            raise Unsupported("non-zero base address")
        return sb

    def sym_entry(self, p):
        O = self.O
        e = dict(name_off=self.u(p, O), obj=self.u(p + O, O), cache=self.u(p + 2 * O, 4), reserved=self.u(p + 2 * O + 4, 4))
        sp = p + 2 * O + 8
        if e["reserved"] != 0:
            raise SpecError("symbol table entry at %d: reserved field is not 0" % p)
        if e["cache"] == 1:
            e["btree"], e["heap"] = self.u(sp, O), self.u(sp + O, O)
        elif e["cache"] == 2:
            e["link_off"] = self.u(sp, 4)
        elif e["cache"] != 0:
            raise SpecError("symbol table entry at %d: cache type %d" % (p, e["cache"]))
        return e

    # -- object headers
    def ohdr(self, addr, owner):
        """-> dict(version, refcount, msgs=[(type, flags, bytes, file_offset)])"""
        if self.rd(addr, 4, "object header of " + owner) == b"OHDR":
            return self.ohdr2(addr, owner)
        if self.b[addr] == 1:
            return self.ohdr1(addr, owner)
        raise SpecError("object header of %s at %d: neither 'OHDR' nor version 1" % (owner, addr))

    def ohdr1(self, addr, owner):
        if self.b[addr + 1] != 0:
            raise SpecError("object header v1 at %d: reserved byte is not 0" % addr)
        nmsgs, refc, hsize = self.u(addr + 2, 2), self.u(addr + 4, 4), self.u(addr + 8, 4)
        self.ext(addr, addr + 16 + hsize, "ohdr1", owner)
        chunks = [(addr + 16, addr + 16 + hsize)]
        msgs = []
        total = 0
        while chunks:
            p, end = chunks.pop(0)
            while end - p >= 8 and total < nmsgs:
                t, sz, fl = self.u(p, 2), self.u(p + 2, 2), self.b[p + 4]
                if p + 8 + sz > end:
                    raise SpecError("object header v1 of %s: message type %#x (%d bytes) at %d runs past its chunk end %d" % (owner, t, sz, p, end))
                if sz % 8:
                    raise SpecError("object header v1 of %s: message size %d is not a multiple of 8" % (owner, sz))
                body = self.b[p + 8:p + 8 + sz]
                total += 1
                if t == 0x10:
                    ca, cl = int.from_bytes(body[:self.O], "little"), int.from_bytes(body[self.O:self.O + self.L], "little")
                    self.ext(ca, ca + cl, "ohdr1-cont", owner)
                    chunks.append((ca, ca + cl))
                else:
                    msgs.append((t, fl, bytes(body), p + 8))
                p += 8 + sz
        if total != nmsgs:
            raise SpecError("object header v1 of %s: header says %d messages, the chunks (header size field %d) hold %d" % (owner, nmsgs, hsize, total))
        return dict(version=1, refcount=refc, msgs=msgs, v1pad=True)

    def ohdr2(self, addr, owner):
        if self.b[addr + 4] != 2:
            raise SpecError("object header of %s: 'OHDR' with version %d" % (owner, self.b[addr + 4]))
        fl = self.b[addr + 5]
        if fl & 0xC0:
            raise SpecError("object header v2 of %s: reserved flag bits set (%#x)" % (owner, fl))
        p = addr + 6
        if fl & 0x20:
            p += 16
        if fl & 0x10:
            p += 4
        w = 1 << (fl & 3)
        csz = self.u(p, w, "chunk 0 size")
        p += w
        msgs = []
        regions = [(addr, p, p + csz, "ohdr2")]
        while regions:
            start, p, end, kind = regions.pop(0)
            self.rd(start, end - start, "object header chunk of " + owner)
            mh = 4 + (2 if fl & 4 else 0)
            while end - p >= mh:
                t, sz, mf = self.b[p], self.u(p + 1, 2), self.b[p + 3]
                if p + mh + sz > end:
                    raise SpecError("object header v2 of %s: message type %#x (%d bytes) at %d runs past the chunk end %d (chunk size field inconsistent)" % (owner, t, sz, p, end))
                body = bytes(self.b[p + mh:p + mh + sz])
                if mf & 0x02:
                    raise Unsupported("shared header message")
                if t == 0x10:
                    ca, cl = int.from_bytes(body[:self.O], "little"), int.from_bytes(body[self.O:self.O + self.L], "little")
                    if self.rd(ca, 4, "continuation block") != b"OCHK":
                        raise SpecError("object header v2 of %s: continuation block at %d lacks 'OCHK'" % (owner, ca))
                    regions.append((ca, ca + 4, ca + cl - 4, "ohdr2-cont"))
                elif t != 0:
                    msgs.append((t, mf, body, p + mh))
                p += mh + sz
            if any(self.b[p:end]):
                raise SpecError("object header v2 of %s: non-zero bytes in the gap at the end of a chunk" % owner)
            # checksum over the whole chunk (prefix + messages) follows the messages
            ok = False
            if end + 4 <= self.n:
                stored = self.u(end, 4)
                if stored == lookup3(self.b[start:end]):
                    ok = True
                    self.checks.append((kind, start, "lookup3", start, end, stored))
            if ok:
                self.ext(start, end + 4, kind, owner)
            else:
                self.deviate("ohdr-no-checksum", "%s@%d" % (owner, addr),
                             "the 4 bytes after the last message do not hold the lookup3 checksum of the header chunk")
                self.ext(start, end, kind, owner)
        return dict(version=2, refcount=None, msgs=msgs, v1pad=False)

    # -- local heap, v1 B-tree, symbol table nodes
    def local_heap(self, addr, owner):
        O, L = self.O, self.L
        if self.rd(addr, 4, "local heap of " + owner) != b"HEAP":
            raise SpecError("local heap of %s at %d: signature" % (owner, addr))
        if self.b[addr + 4] != 0 or any(self.b[addr + 5:addr + 8]):
            raise SpecError("local heap of %s: version/reserved bytes" % owner)
        dsize, free, daddr = self.u(addr + 8, L), self.u(addr + 8 + L, L), self.u(addr + 8 + 2 * L, O)
        self.ext(addr, addr + 8 + 2 * L + O, "lheap-hdr", owner)
        self.ext(daddr, daddr + dsize, "lheap-data", owner)
        seg = self.b[daddr:daddr + dsize]
        # free list: undefined address = none; the reference implementation writes 1 for "no free block",
        # which the specification only documents for the *next* pointer of the last block; both accepted.
        seen = set()
        while not self.undef(free, L) and free != 1:
            if free in seen or free + 2 * L > dsize:
                raise SpecError("local heap of %s: free list offset %d outside the %d-byte data segment / cyclic" % (owner, free, dsize))
            seen.add(free)
            nxt, fsz = int.from_bytes(seg[free:free + L], "little"), int.from_bytes(seg[free + L:free + 2 * L], "little")
            if fsz < 2 * L or free + fsz > dsize:
                raise SpecError("local heap of %s: free block at %d has size %d" % (owner, free, fsz))
            free = nxt
        return dict(addr=addr, seg=seg, size=dsize)

    def heap_str(self, heap, off, owner):
        seg = heap["seg"]
        if off >= len(seg):
            raise SpecError("%s: name offset %d outside the %d-byte local heap data segment" % (owner, off, len(seg)))
        end = seg.find(b"\x00", off)
        if end < 0:
            raise SpecError("%s: name at heap offset %d is not NUL-terminated inside the data segment" % (owner, off))
        return bytes(seg[off:end])

    def btree1_node(self, addr, ntype, keysize, K, owner, kind):
        O = self.O
        if self.rd(addr, 4, "v1 B-tree node of " + owner) != b"TREE":
            raise SpecError("v1 B-tree node of %s at %d: signature %r" % (owner, addr, bytes(self.b[addr:addr + 4])))
        if self.b[addr + 4] != ntype:
            raise SpecError("v1 B-tree node of %s at %d: node type %d, expected %d" % (owner, addr, self.b[addr + 4], ntype))
        level, n = self.b[addr + 5], self.u(addr + 6, 2)
        left, right = self.u(addr + 8, O), self.u(addr + 8 + O, O)
        used = 8 + 2 * O + n * (keysize + O) + keysize
        full = 8 + 2 * O + 2 * K * (keysize + O) + keysize
        self.ext(addr, addr + used, kind, owner)
        if n > 2 * K:
            self.deviate("btree1-node-over-capacity", "%s@%d" % (owner, addr), "%d entries in a node whose capacity is 2K = %d" % (n, 2 * K))
        else:
            self.soft.append((addr, addr + full, kind, owner, "btree1-node-truncated"))
        p = addr + 8 + 2 * O
        keys, kids = [], []
        for i in range(n):
            keys.append(bytes(self.b[p:p + keysize])); p += keysize
            kids.append(self.u(p, O)); p += O
        keys.append(bytes(self.b[p:p + keysize]))
        return dict(level=level, n=n, left=left, right=right, keys=keys, kids=kids)

    def group_btree(self, addr, heap, owner, top=True, level=None):
        """-> list of symbol table entries (in index order)"""
        nd = self.btree1_node(addr, 0, self.L, self.sb["intK"], owner, "btree1-group")
        if top and not (self.undef(nd["left"]) and self.undef(nd["right"])):
            raise SpecError("group B-tree root of %s: sibling pointers must be undefined" % owner)
        if level is not None and nd["level"] != level:
            raise SpecError("group B-tree of %s: node level %d, expected %d" % (owner, nd["level"], level))
        keyname = [self.heap_str(heap, int.from_bytes(k, "little"), owner) for k in nd["keys"]]
        out = []
        bad_keys = None
        for i, c in enumerate(nd["kids"]):
            ents = self.group_btree(c, heap, owner, False, nd["level"] - 1) if nd["level"] > 0 else self.snod(c, heap, owner)
            names = [e["name"] for e in ents]
            if names and not (keyname[i] < min(names) and max(names) <= keyname[i + 1]) and bad_keys is None:
                bad_keys = "child %d holds names %r..%r but is bounded by keys %r (exclusive) and %r (inclusive)" % (
                    i, min(names)[:20], max(names)[:20], keyname[i][:20], keyname[i + 1][:20])
            out += ents
        if bad_keys:
            self.deviate("btree1-group-keys", "%s@%d" % (owner, addr), bad_keys)
        return out

    def snod(self, addr, heap, owner):
        O = self.O
        if self.rd(addr, 4, "symbol table node of " + owner) != b"SNOD":
            raise SpecError("symbol table node of %s at %d: signature" % (owner, addr))
        if self.b[addr + 4] != 1 or self.b[addr + 5] != 0:
            raise SpecError("symbol table node of %s: version %d / reserved %d" % (owner, self.b[addr + 4], self.b[addr + 5]))
        n = self.u(addr + 6, 2)
        esz = 2 * O + 24
        cap = 2 * self.sb["leafK"]
        self.ext(addr, addr + 8 + max(n, 0) * esz, "snod", owner) if n else self.ext(addr, addr + 8, "snod", owner)
        if n > cap:
            self.deviate("snod-over-capacity", "%s@%d" % (owner, addr), "%d symbols in a node whose capacity is 2 x leaf K = %d" % (n, cap))
        else:
            self.soft.append((addr, addr + 8 + cap * esz, "snod", owner, "snod-node-truncated"))
        ents = []
        for i in range(n):
            e = self.sym_entry(addr + 8 + i * esz)
            e["name"] = self.heap_str(heap, e["name_off"], owner)
            if e["name_off"] == 0:
                self.deviate("heap-name-offset-0", "%s@%d" % (owner, addr), "link name %r stored at local heap offset 0" % e["name"][:30])
            ents.append(e)
        names = [e["name"] for e in ents]
        if any(a >= b for a, b in zip(names, names[1:])):
            self.deviate("snod-unsorted", "%s@%d" % (owner, addr), "entries are not in increasing name order: %r" % [x[:12] for x in names[:6]])
        return ents

    # -- messages: datatype, dataspace, layout, pipeline
    def datatype(self, d, where, pad_ok=False):
        """a complete datatype message (or the base type description that ends a variable-length type)"""
        t, p = self._dtype(d, where, pad_ok, top=True)
        cls = t["cls"]
        rest = d[p:]
        if len(rest) and not (pad_ok and len(rest) < 8 and not any(rest)):
            tag = "string-extra-prop-byte" if cls == 3 else "datatype-trailing-bytes"
            self.deviate(tag, where, "%d byte(s) %s follow the datatype description (class %d has %d property bytes)" % (len(rest), bytes(rest[:8]).hex(), cls, p - 8))
        return t

    def _cstr(self, d, p, where, what, pad8):
        """NUL-terminated name at d[p:]; pad8: the name field (name + NUL) is zero-padded to a multiple of 8 bytes"""
        e = p
        while e < len(d) and d[e] != 0:
            e += 1
        if e >= len(d):
            raise SpecError("%s: %s is not NUL-terminated" % (where, what))
        if e == p:
            raise SpecError("%s: empty %s" % (where, what))
        nm = bytes(d[p:e])
        q = e + 1
        if pad8:
            q2 = p + (((q - p) + 7) // 8) * 8
            if q2 > len(d) or any(d[q:q2]):
                raise SpecError("%s: %s %r is not zero-padded to a multiple of 8 bytes" % (where, what, nm))
            q = q2
        return nm, q

    def _dtype(self, d, where, pad_ok=False, top=False):
        """one datatype description at the start of d -> (description, number of bytes it occupies).
        IV.A.2.d: class+version (1) | class bit field (3) | size (4) | properties (per class)."""
        if len(d) < 8:
            raise SpecError("%s: datatype message of %d bytes" % (where, len(d)))
        cls, ver = d[0] & 0x0F, d[0] >> 4
        bits = d[1] | (d[2] << 8) | (d[3] << 16)
        size = int.from_bytes(d[4:8], "little")
        if ver not in (1, 2, 3):
            raise SpecError("%s: datatype version %d" % (where, ver))
        if size == 0:
            raise SpecError("%s: datatype size 0" % where)
        t = dict(cls=cls, size=size, bits=bits, version=ver)
        p = 8
        if cls == 0:
            if bits & ~0x0F:
                raise SpecError("%s: fixed-point class bits %#x use reserved bits" % (where, bits))
            t["signed"] = bool(bits & 8)
            t["order"] = "BE" if bits & 1 else "LE"
            if len(d) < 12:
                raise SpecError("%s: fixed-point properties truncated" % where)
            off, prec = int.from_bytes(d[8:10], "little"), int.from_bytes(d[10:12], "little")
            p = 12
            if prec == 0 or off + prec > 8 * size:
                self.deviate("fixed-props-malformed", where, "bit offset %d, precision %d for a %d-byte integer (specification: u16 offset, u16 precision; expected 0 and %d)" % (off, prec, size, 8 * size))
                t["malformed"] = True
            t["precision"] = prec
        elif cls == 1:
            if bits & 0xFF0080 & ~0xFF00:
                raise SpecError("%s: floating-point class bits %#x use reserved bits" % (where, bits))
            t["order"] = "BE" if bits & 1 else "LE"
            if len(d) < 20:
                raise SpecError("%s: floating-point properties truncated" % where)
            off, prec = int.from_bytes(d[8:10], "little"), int.from_bytes(d[10:12], "little")
            eloc, esz, mloc, msz = d[12], d[13], d[14], d[15]
            bias = int.from_bytes(d[16:20], "little")
            sign = (bits >> 8) & 0xFF
            norm = (bits >> 4) & 3
            p = 20
            ieee = {4: (0, 32, 23, 8, 0, 23, 127, 31, 2), 8: (0, 64, 52, 11, 0, 52, 1023, 63, 2)}.get(size)
            got = (off, prec, eloc, esz, mloc, msz, bias, sign, norm)
            if ieee is None or got != ieee:
                if not top and not self.lenient_nested_float:
                    # inside another datatype only the two private layouts this writer is known to use are interpreted;
                    # anything else has no reading as a floating-point description
                    priv = {4: bytes([bits & 1, 32, 0, 8, 23, 127, 0, 0, 0, 0, 0, 0]), 8: bytes([bits & 1, 64, 0, 11, 52, 127, 0, 0, 0, 0, 0, 0])}.get(size)
                    fields_ok = norm < 3 and prec > 0 and off + prec <= 8 * size and esz > 0 and msz > 0 and eloc + esz <= prec and \
                        mloc + msz <= prec and sign < prec and (mloc + msz <= eloc or eloc + esz <= mloc) and \
                        not (eloc <= sign < eloc + esz) and not (mloc <= sign < mloc + msz)
                    if not fields_ok and (bits > 1 or bytes(d[8:20]) != priv):
                        raise SpecError("%s: floating-point member description (size %d, class bits %#x, properties %s) is neither a consistent "
                                        "bit-field layout nor one of the writer's listed private layouts" % (where, size, bits, bytes(d[8:20]).hex()))
                    if fields_ok:
                        t["order"] = "BE" if bits & 1 else "LE"
                        return t, p
                self.deviate("float-props-malformed", where, "size %d: (bit offset, precision, exp location, exp size, mantissa location, mantissa size, bias, sign location, normalisation) = %s, IEEE little-endian requires %s" % (size, got, ieee))
                # the private layout this writer uses: [order, bits, 0, exp bits, mantissa bits, bias]
                if size == 8 and d[9] == 64 and d[11] == 11 and d[12] == 52 and d[13] == 127:
                    self.deviate("float64-bias-127", where, "exponent bias byte is 127 for a 64-bit float (IEEE: 1023)")
        elif cls == 3:
            pad, cset = bits & 0xF, (bits >> 4) & 0xF
            if pad > 2 or cset > 1 or bits >> 8:
                raise SpecError("%s: string class bits %#x" % (where, bits))
            t["pad"], t["cset"] = pad, cset
            if not top and self.lenient_nested_float and bytes(d[8:9]) == b"\x00":
                p = 9       # histlib: the writer's extra string property byte, wherever the member stands
            elif not top and not pad_ok and bytes(d[8:]) == b"\x00":
                # the last description inside another datatype, followed by exactly one zero byte that ends the message
                self.deviate("string-extra-prop-byte", where, "1 byte 00 follows the string description that ends the datatype (class 3 has no property bytes)")
                p = 9
        elif cls == 5:
            tl = bits & 0xFF
            if tl % 8 or len(d) < 8 + tl or bits >> 8:
                raise SpecError("%s: opaque tag length %d" % (where, tl))
            t["tag"] = bytes(d[8:8 + tl]).rstrip(b"\x00")
            t["tagraw"] = bytes(d[8:8 + tl])
            p = 8 + tl
        elif cls == 6:
            p = self._compound(d, t, where, pad_ok)
        elif cls == 7:
            if bits > 1 and not ((bits & 0xF) < 5 and bits < 256):     # 2-4: the revised references of library 1.12 (bits 4-7: their version)
                raise SpecError("%s: reference type %d" % (where, bits & 0xF))
        elif cls == 8:
            p = self._enum(d, t, where, pad_ok, top)
        elif cls == 9:
            vt, vpad, vcs = bits & 0xF, (bits >> 4) & 0xF, (bits >> 8) & 0xF
            if vt > 1 or vpad > 2 or vcs > 1 or bits >> 12:
                raise SpecError("%s: variable-length class bits %#x" % (where, bits))
            if size != 4 + self.O + 4:
                raise SpecError("%s: variable-length element size %d (length + global heap ID = %d)" % (where, size, 8 + self.O))
            t["vlen"] = "string" if vt == 1 else "sequence"
            if top:
                t["base"] = self.datatype(d[8:], where + " base type", pad_ok)
                p = len(d)
            else:
                t["base"], n = self._dtype(d[8:], where + " base type", pad_ok)
                p = 8 + n
            if vt == 1 and (t["base"]["cls"], t["base"]["size"]) != (3, 1):
                raise SpecError("%s: variable-length string whose base type is class %d size %d" % (where, t["base"]["cls"], t["base"]["size"]))
        elif cls == 10:
            # v2: dimensionality (1) | reserved (3) | dimension sizes (4 each) | permutation indices (4 each) | base type
            # v3: dimensionality (1) | dimension sizes (4 each) | base type           (no arrays in version 1)
            if bits or ver < 2:
                raise SpecError("%s: array datatype with class bits %#x, version %d" % (where, bits, ver))
            if len(d) < 9:
                raise SpecError("%s: array properties truncated" % where)
            nd = d[8]
            p = 9
            if not 0 < nd <= 32:
                raise SpecError("%s: array dimensionality %d" % (where, nd))
            if ver == 2:
                if len(d) < p + 3 or any(d[p:p + 3]):
                    raise SpecError("%s: array v2 reserved bytes" % where)
                p += 3
            if len(d) < p + 4 * nd * (2 if ver == 2 else 1):
                raise SpecError("%s: array dimensions truncated" % where)
            t["adims"] = [int.from_bytes(d[p + 4 * i:p + 4 * i + 4], "little") for i in range(nd)]
            p += 4 * nd * (2 if ver == 2 else 1)
            t["base"], n = self._dtype(d[p:], where + " array base type", pad_ok)
            p += n
            if prod(t["adims"]) * t["base"]["size"] != size:
                raise SpecError("%s: array of %s elements of %d bytes declares size %d" % (where, t["adims"], t["base"]["size"], size))
        else:
            raise Unsupported("%s: datatype class %d" % (where, cls))
        return t, p

    def _compound(self, d, t, where, pad_ok):
        """class 6.  class bits 0-15: number of members.  member: name (NUL-terminated; versions 1, 2: padded to a multiple of 8) |
        byte offset (versions 1, 2: 4 bytes; version 3: the minimum number of bytes the datatype size needs) |
        [version 1: dimensionality (1), reserved (3), dimension permutation (4), reserved (4), 4 dimension sizes (4 each)] | member type"""
        ver, bits, size = t["version"], t["bits"], t["size"]
        if bits >> 16:
            raise SpecError("%s: compound class bits %#x use reserved bits" % (where, bits))
        p = 8
        n, ow = bits, (nbytes_for(size) if ver == 3 else 4)
        if ver == 3 and bits == 0:
            # tolerated departure: no member count in the class bits; a 4-byte count leads the member list and member
            # offsets take 4 bytes whatever the datatype size
            if len(d) < 12:
                raise SpecError("%s: compound with 0 members" % where)
            n = int.from_bytes(d[8:12], "little")
            if not 0 < n < 65536:
                raise SpecError("%s: compound with 0 members in the class bits and leading count %d" % (where, n))
            self.deviate("compound-v3-layout", where, "version 3 compound with class bits 0 (number of members), a 4-byte member count %d in front of the "
                         "member list and 4-byte member offsets (specification: count in class bits 0-15, %d-byte offsets for size %d)" % (n, nbytes_for(size), size))
            p, ow = 12, 4
        elif n == 0:
            raise SpecError("%s: compound with 0 members" % where)
        ms = []
        for i in range(n):
            nm, p = self._cstr(d, p, where, "name of compound member %d" % i, ver < 3)
            if len(d) < p + ow:
                raise SpecError("%s: compound member %r: offset truncated" % (where, nm))
            off = int.from_bytes(d[p:p + ow], "little")
            p += ow
            if ver == 1:
                if len(d) < p + 28:
                    raise SpecError("%s: compound member %r: version 1 array fields truncated" % (where, nm))
                if d[p] > 4 or any(d[p + 1:p + 4]) or any(d[p + 8:p + 12]):
                    raise SpecError("%s: compound member %r: dimensionality %d / reserved bytes" % (where, nm, d[p]))
                p += 28
            mt, k = self._dtype(d[p:], "%s member %r" % (where, nm), pad_ok)
            p += k
            if off + mt["size"] > size:
                raise SpecError("%s: compound member %r at offset %d with size %d lies outside the %d-byte compound" % (where, nm, off, mt["size"], size))
            ms.append(dict(name=nm, off=off, dt=mt))
        t["members"] = ms
        return p

    def _enum_pairs(self, d, p, n, size):
        try:
            ms = []
            for i in range(n):
                nm, p = self._cstr(d, p, "", "name", True)
                if len(d) < p + size:
                    return None
                ms.append((nm, bytes(d[p:p + size])))
                p += size
            return ms, p
        except SpecError:
            return None

    def _enum(self, d, t, where, pad_ok, top=False):
        """class 8.  class bits 0-15: number of members.  properties: base type | all names (NUL-terminated; versions 1, 2: each padded to a
        multiple of 8 bytes; version 3: not padded) | all values (size of the base type each)"""
        ver, n, size = t["version"], t["bits"], t["size"]
        if n >> 16:
            raise SpecError("%s: enumeration class bits %#x use reserved bits" % (where, n))
        base, k = self._dtype(d[8:], where + " enumeration base type", pad_ok)
        if base["size"] != size:
            raise SpecError("%s: enumeration of size %d over a base type of size %d" % (where, size, base["size"]))
        t["base"] = base
        p0 = 8 + k
        try:
            p, names = p0, []
            for i in range(n):
                nm, p = self._cstr(d, p, where, "name of enumeration member %d" % i, ver < 3)
                names.append(nm)
            if len(d) < p + n * size:
                raise SpecError("%s: enumeration values truncated" % where)
            pe = p + n * size
            rest = d[pe:]
            if not (top and ver == 3 and len(rest) and not (pad_ok and len(rest) < 8 and not any(rest))):
                t["emembers"] = [(nm, bytes(d[p + i * size:p + (i + 1) * size])) for i, nm in enumerate(names)]
                if top and ver == 3:
                    alt = self._enum_pairs(d, p0, n, size)
                    if alt is not None and alt[1] == pe and alt[0] != t["emembers"]:
                        t["emembers_alt"] = alt[0]      # the same bytes also read as (padded name, value) pairs: ambiguous message
                return pe
            # a complete message whose specification reading leaves bytes over: if the (padded name, value) pair reading
            # accounts for every byte, that is what the message holds
        except SpecError:
            if ver != 3:
                raise
        # tolerated departure: version 3 members stored as (name zero-padded to a multiple of 8 bytes, value) pairs
        p, ms = p0, []
        for i in range(n):
            nm, p = self._cstr(d, p, where, "name of enumeration member %d" % i, True)
            if len(d) < p + size:
                raise SpecError("%s: enumeration member %r: value truncated" % (where, nm))
            ms.append((nm, bytes(d[p:p + size])))
            p += size
        if top and len(d) != p and not (pad_ok and len(d) - p < 8 and not any(d[p:])):
            raise SpecError("%s: enumeration members account for %d of the %d bytes of the message in neither layout" % (where, p, len(d)))
        self.deviate("enum-v3-layout", where, "version 3 enumeration stored as %d (name padded to a multiple of 8 bytes, value) pairs; the specification stores all "
                     "names (not padded) followed by all values" % n)
        t["emembers"] = ms
        return p

    def dataspace(self, d, where, pad_ok=False):
        L = self.L
        if len(d) < 4:
            raise SpecError("%s: dataspace message of %d bytes" % (where, len(d)))
        ver, rank, fl = d[0], d[1], d[2]
        if ver == 1:
            if d[3] != 0 or any(d[4:8]):
                raise SpecError("%s: dataspace v1 reserved bytes" % where)
            p = 8
            kind = 1
        elif ver == 2:
            kind = d[3]
            p = 4
            if kind > 2:
                raise SpecError("%s: dataspace type %d" % (where, kind))
        else:
            raise SpecError("%s: dataspace version %d" % (where, ver))
        if fl & ~1:
            raise Unsupported("%s: dataspace flags %#x" % (where, fl))
        need = p + rank * L * (2 if fl & 1 else 1)
        if len(d) < need:
            raise SpecError("%s: dataspace message of %d bytes cannot hold rank %d" % (where, len(d), rank))
        dims = [int.from_bytes(d[p + i * L:p + (i + 1) * L], "little") for i in range(rank)]
        p += rank * L
        maxd = None
        if fl & 1:
            maxd = [int.from_bytes(d[p + i * L:p + (i + 1) * L], "little") for i in range(rank)]
            p += rank * L
            if any(m < x for m, x in zip(maxd, dims)):
                raise SpecError("%s: maximum dimension smaller than current dimension" % where)
        if len(d) != p and not (pad_ok and len(d) - p < 8 and not any(d[p:])):
            raise SpecError("%s: dataspace message has %d bytes, its fields need %d" % (where, len(d), p))
        return dict(dims=dims, maxdims=maxd, kind=kind, nelem=(0 if kind == 2 else prod(dims)))

    def layout(self, d, where):
        O, L = self.O, self.L
        if len(d) < 2:
            raise SpecError("%s: layout message of %d bytes" % (where, len(d)))
        if d[0] != 3:
            raise Unsupported("%s: data layout version %d" % (where, d[0]))
        c = d[1]
        if c == 0:
            sz = int.from_bytes(d[2:4], "little")
            if len(d) != 4 + sz:
                raise SpecError("%s: compact layout size field %d vs message %d" % (where, sz, len(d)))
            return dict(cls="compact", data=bytes(d[4:4 + sz]))
        if c == 1:
            if len(d) != 2 + O + L:
                raise SpecError("%s: contiguous layout message has %d bytes, needs %d" % (where, len(d), 2 + O + L))
            return dict(cls="contiguous", addr=int.from_bytes(d[2:2 + O], "little"), size=int.from_bytes(d[2 + O:2 + O + L], "little"))
        if c == 2:
            nd = d[2]
            if len(d) == 3 + O + 4 * nd + 4:
                nd += 1         # literal reading of the field list: <dimensionality> sizes followed by the element size
            if len(d) != 3 + O + 4 * nd:
                raise SpecError("%s: chunked layout message has %d bytes, dimensionality %d needs %d" % (where, len(d), nd, 3 + O + 4 * nd))
            return dict(cls="chunked", nd=nd, addr=int.from_bytes(d[3:3 + O], "little"),
                        dims=[int.from_bytes(d[3 + O + 4 * i:7 + O + 4 * i], "little") for i in range(nd)])
        raise Unsupported("%s: layout class %d" % (where, c))

    def _pipeline_try(self, d, mode):
        """mode 'v1' | 'v2' | 'hybrid' -> list of (id, flags, cd) or None when the bytes do not fit that layout exactly"""
        n = d[1]
        p = 8 if mode in ("v1", "hybrid") else 2
        out = []
        for _ in range(n):
            if p + 6 > len(d):
                return None
            fid = int.from_bytes(d[p:p + 2], "little"); p += 2
            nl = 0
            if mode != "v2" or fid >= 256:
                nl = int.from_bytes(d[p:p + 2], "little"); p += 2
            if p + 4 > len(d):
                return None
            fl = int.from_bytes(d[p:p + 2], "little"); ncd = int.from_bytes(d[p + 2:p + 4], "little"); p += 4
            if mode != "v2":
                if mode == "v1" and nl % 8:
                    return None
                nl = (nl + 7) // 8 * 8
            p += nl
            if p + 4 * ncd > len(d):
                return None
            cd = [int.from_bytes(d[p + 4 * i:p + 4 * i + 4], "little") for i in range(ncd)]
            p += 4 * ncd
            if mode == "v1" and ncd % 2:
                p += 4
            if fl & ~1:
                return None
            out.append((fid, fl, cd))
        if p != len(d):
            return None
        if any(f[0] not in (1, 2, 3) for f in out):
            return None if mode != "v1" else out
        return out

    def pipeline(self, d, where):
        if len(d) < 2:
            raise SpecError("%s: filter pipeline message of %d bytes" % (where, len(d)))
        ver, n = d[0], d[1]
        if n == 0 or n > 32:
            raise SpecError("%s: filter pipeline with %d filters" % (where, n))
        if ver == 1:
            if any(d[2:8]):
                raise SpecError("%s: filter pipeline v1 reserved bytes" % where)
            r = self._pipeline_try(d, "v1")
            if r is None:
                raise SpecError("%s: filter pipeline v1 does not parse" % where)
        elif ver == 2:
            r = self._pipeline_try(d, "v2")
            if r is None:
                r = self._pipeline_try(d, "hybrid")
                if r is None:
                    raise SpecError("%s: filter pipeline v2 does not parse (%s)" % (where, bytes(d[:24]).hex()))
                self.deviate("pipeline-v2-with-v1-layout", where, "version byte 2 followed by 6 reserved bytes and version-1 style filter descriptions (name length and 8-byte padded name for predefined filters)")
        else:
            raise SpecError("%s: filter pipeline version %d" % (where, ver))
        for fid, fl, cd in r:
            if fid not in (1, 2, 3):
                raise Unsupported("%s: filter id %d" % (where, fid))
        return r

    def unfilter(self, raw, pipe, mask, where):
        for i in range(len(pipe) - 1, -1, -1):
            if mask & (1 << i):
                continue
            fid, fl, cd = pipe[i]
            if fid == 1:
                try:
                    raw = zlib.decompress(raw)
                except zlib.error as e:
                    raise SpecError("%s: deflate data is not a zlib stream (%s)" % (where, e))
            elif fid == 2:
                es = cd[0] if cd else 0
                if es > 1 and len(raw) >= es:
                    n = len(raw) // es
                    out = bytearray(len(raw))
                    for j in range(es):
                        out[j:n * es:es] = raw[j * n:(j + 1) * n]
                    out[n * es:] = raw[n * es:]
                    raw = bytes(out)
            elif fid == 3:
                if len(raw) < 4:
                    raise SpecError("%s: fletcher32 chunk shorter than its checksum" % where)
                body, st = raw[:-4], int.from_bytes(raw[-4:], "little")
                if st != fletcher32(body):
                    raise SpecError("%s: fletcher32 stored %08x, computed %08x" % (where, st, fletcher32(body)))
                raw = body
        return raw

    # -- raw data
    def chunk_btree(self, addr, nd, owner, top=True, level=None):
        """-> list of (nbytes, mask, offsets, chunk address)"""
        keysize = 8 + 8 * nd
        n = self.btree1_node(addr, 1, keysize, self.sb["istoreK"], owner, "btree1-chunk")
        if top and not (self.undef(n["left"]) and self.undef(n["right"])):
            raise SpecError("chunk B-tree root of %s: sibling pointers must be undefined" % owner)
        if level is not None and n["level"] != level:
            raise SpecError("chunk B-tree of %s: node level %d, expected %d" % (owner, n["level"], level))
        def key(k):
            return (int.from_bytes(k[0:4], "little"), int.from_bytes(k[4:8], "little"),
                    [int.from_bytes(k[8 + 8 * i:16 + 8 * i], "little") for i in range(nd)])
        keys = [key(k) for k in n["keys"]]
        for a, b in zip(keys, keys[1:]):
            if not a[2] < b[2]:
                raise SpecError("chunk B-tree of %s at %d: keys are not strictly increasing (%s, %s)" % (owner, addr, a[2], b[2]))
        out = []
        for i, c in enumerate(n["kids"]):
            if n["level"] > 0:
                out += self.chunk_btree(c, nd, owner, False, n["level"] - 1)
            else:
                out.append((keys[i][0], keys[i][1], keys[i][2], c))
        return out

    def dataset_data(self, lay, dt, ds, pipe, owner):
        esz = dt["size"]
        total = ds["nelem"] * esz
        if lay["cls"] == "compact":
            if len(lay["data"]) != total:
                raise SpecError("%s: compact data of %d bytes for %d elements of %d bytes" % (owner, len(lay["data"]), ds["nelem"], esz))
            return lay["data"], {}
        if lay["cls"] == "contiguous":
            if pipe:
                raise SpecError("%s: filter pipeline on a contiguous dataset" % owner)
            if self.undef(lay["addr"]):
                return bytes(total), {}
            if lay["size"] != total:
                raise SpecError("%s: contiguous layout size field %d, dataspace x datatype = %d bytes" % (owner, lay["size"], total))
            if total:
                self.ext(lay["addr"], lay["addr"] + total, "contiguous-data", owner)
            return bytes(self.b[lay["addr"]:lay["addr"] + total]), {}
        rank = len(ds["dims"])
        nd = lay["nd"]
        if nd == rank + 1:
            cdims = lay["dims"][:-1]
            if lay["dims"][-1] != esz:
                raise SpecError("%s: chunk element-size dimension %d, datatype size %d" % (owner, lay["dims"][-1], esz))
        elif nd == rank:
            self.deviate("chunk-dims-no-elem-dim", owner, "chunked layout message holds %d dimension sizes for a rank-%d dataset and no dataset element size field (the specification stores rank+1 values, the last being the element size); B-tree keys then also lack the trailing 0 offset" % (nd, rank))
            cdims = lay["dims"]
        else:
            raise SpecError("%s: chunked layout dimensionality %d for a rank-%d dataset" % (owner, nd, rank))
        if any(c == 0 for c in cdims):
            raise SpecError("%s: zero chunk dimension" % owner)
        info = dict(chunk=list(cdims), nchunks=0)
        out = bytearray(total)
        if self.undef(lay["addr"]):
            return bytes(out), info
        if lay["addr"] == 0:
            self.deviate("chunk-btree-addr-0", owner, "chunk index address 0 for a dataset without allocated chunks (specification: the undefined address)")
            return bytes(out), info
        chunks = self.chunk_btree(lay["addr"], nd, owner)
        info["nchunks"] = len(chunks)
        csize = prod(cdims) * esz
        dims = ds["dims"]
        cstr = [prod(cdims[i + 1:]) for i in range(rank)]
        dstr = [prod(dims[i + 1:]) for i in range(rank)]
        for nbytes, mask, offs, caddr in chunks:
            if nd == rank + 1 and offs[-1] != 0:
                raise SpecError("%s: chunk key element offset %d" % (owner, offs[-1]))
            offs = offs[:rank]
            if any(o % c for o, c in zip(offs, cdims)):
                raise SpecError("%s: chunk offset %s is not a multiple of the chunk dimensions %s" % (owner, offs, cdims))
            if nbytes == 0:
                raise SpecError("%s: chunk %s has size 0" % (owner, offs))
            self.ext(caddr, caddr + nbytes, "chunk", owner)
            raw = bytes(self.b[caddr:caddr + nbytes])
            if pipe:
                raw = self.unfilter(raw, pipe, mask, "%s chunk %s" % (owner, offs))
            elif mask:
                raise SpecError("%s: filter mask %#x without a pipeline" % (owner, mask))
            if len(raw) != csize:
                raise SpecError("%s: chunk %s holds %d bytes (size field %d), a full chunk %s x %d bytes is %d" % (owner, offs, len(raw), nbytes, cdims, esz, csize))
            if any(o >= d for o, d in zip(offs, dims)):
                info["outside"] = info.get("outside", 0) + 1
                continue
            last = rank - 1
            nlast = min(cdims[last], dims[last] - offs[last])
            ranges = [range(min(cdims[d], dims[d] - offs[d])) for d in range(last)]
            for idx in itertools.product(*ranges):
                src = sum(i * s for i, s in zip(idx, cstr))
                dst = sum((o + i) * s for o, i, s in zip(offs, idx, dstr)) + offs[last]
                out[dst * esz:(dst + nlast) * esz] = raw[src * esz:(src + nlast) * esz]
        return bytes(out), info

    def link_msg(self, d, where):
        if len(d) < 3 or d[0] != 1:
            raise SpecError("%s: link message version" % where)
        fl = d[1]
        if fl & ~0x1F:
            raise SpecError("%s: link message flags %#x" % (where, fl))
        p = 2
        ltype = 0
        if fl & 8:
            ltype = d[p]; p += 1
        if fl & 4:
            p += 8
        if fl & 16:
            if d[p] > 1:
                raise SpecError("%s: link name character set %d" % (where, d[p]))
            p += 1
        w = 1 << (fl & 3)
        nl = int.from_bytes(d[p:p + w], "little"); p += w
        name = bytes(d[p:p + nl]); p += nl
        if len(name) != nl or nl == 0:
            raise SpecError("%s: link name length %d exceeds the message" % (where, nl))
        if ltype == 0:
            val = int.from_bytes(d[p:p + self.O], "little"); p += self.O
            kind = "hard"
        elif ltype == 1:
            vl = int.from_bytes(d[p:p + 2], "little"); p += 2
            val = bytes(d[p:p + vl]); p += vl
            if len(val) != vl:
                raise SpecError("%s: soft link value length %d exceeds the message" % (where, vl))
            kind = "soft"
        elif ltype == 64:
            vl = int.from_bytes(d[p:p + 2], "little")
            raw = bytes(d[p + 2:p + 2 + vl])
            kind = "external"
            if len(raw) == vl and p + 2 + vl == len(d) and vl >= 3 and raw[0] == 0 and raw[-1] == 0 and raw.count(b"\x00") == 3:
                fn, op = raw[1:-1].split(b"\x00")
                val = (fn, op)
                p += 2 + vl
            else:
                # tolerated private layout: u16 length + file name, u16 length + object path
                q = p + 2 + vl
                pl = int.from_bytes(d[q:q + 2], "little")
                if len(raw) != vl or q + 2 + pl != len(d):
                    raise SpecError("%s: external link value %r is not (length, version/flags 0, file name NUL, object path NUL)" % (where, bytes(d[p:p + 40])))
                self.deviate("extlink-value-layout", where, "external link information is (u16 length, file name, u16 length, object path); the specification stores a 2-byte total length, a version/flags byte and two NUL-terminated strings")
                val = (raw, bytes(d[q + 2:q + 2 + pl]))
                p = q + 2 + pl
        else:
            raise Unsupported("%s: link type %d" % (where, ltype))
        if p != len(d):
            raise SpecError("%s: link message has %d bytes, its fields need %d" % (where, len(d), p))
        return dict(name=name, kind=kind, value=val)

    # -- global heap, variable-length elements
    def gcol(self, addr, owner):
        if not hasattr(self, "gcols"):
            self.gcols = {}
        if addr in self.gcols:
            return self.gcols[addr]
        L = self.L
        if self.rd(addr, 4, "global heap collection of " + owner) != b"GCOL":
            raise SpecError("global heap collection of %s at %d: signature %r" % (owner, addr, bytes(self.b[addr:addr + 4])))
        if self.b[addr + 4] != 1 or any(self.b[addr + 5:addr + 8]):
            raise SpecError("global heap collection at %d: version/reserved bytes" % addr)
        size = self.u(addr + 8, L)
        if size < 4096:
            raise SpecError("global heap collection at %d: size %d below the 4096-byte minimum" % (addr, size))
        self.ext(addr, addr + size, "gcol", "global heap")
        end = addr + size
        p = addr + 8 + L
        objs = {}
        while end - p >= 8 + L:
            idx, ref = self.u(p, 2), self.u(p + 2, 2)
            if any(self.b[p + 4:p + 8]):
                raise SpecError("global heap collection at %d: reserved bytes of object header at %d" % (addr, p))
            osz = self.u(p + 8, L)
            if idx == 0:
                if osz == end - p:
                    pass
                elif osz == end - p - (8 + L):
                    self.deviate("gcol-free-size", "gcol@%d" % addr, "free-space object (index 0) records %d bytes, the remaining space including its own header is %d (the specification's size of object 0 includes the object header)" % (osz, end - p))
                elif osz == 0 and ref == 0 and not any(self.b[p:end]):
                    pass        # zero fill: no object 0 written; the free space is implicit
                else:
                    raise SpecError("global heap collection at %d: free-space object at %d has size %d, %d bytes remain" % (addr, p, osz, end - p))
                break
            if idx in objs:
                raise SpecError("global heap collection at %d: object index %d appears twice" % (addr, idx))
            if p + 8 + L + osz > end:
                raise SpecError("global heap collection at %d: object %d (%d bytes) runs past the collection end" % (addr, idx, osz))
            objs[idx] = bytes(self.b[p + 8 + L:p + 8 + L + osz])
            p += 8 + L + (osz + 7) // 8 * 8
        self.gcols[addr] = objs
        return objs

    def vlen_elements(self, raw, dt, owner):
        O = self.O
        es = dt["size"]
        bsz = dt["base"]["size"]
        def dec(mode):
            out = []
            for i in range(0, len(raw), es):
                e = raw[i:i + es]
                if mode == "spec":
                    ln, addr, idx = int.from_bytes(e[0:4], "little"), int.from_bytes(e[4:4 + O], "little"), int.from_bytes(e[4 + O:8 + O], "little")
                else:
                    addr, idx, ln = int.from_bytes(e[0:O], "little"), int.from_bytes(e[O:O + 4], "little"), None
                    if any(e[O + 4:]):
                        return None
                if (addr == 0 or self.undef(addr)) and idx == 0:
                    if ln:
                        return None
                    out.append(b"")
                    continue
                if addr + 16 > self.n or self.b[addr:addr + 4] != b"GCOL":
                    return None
                objs = self.gcol(addr, owner)
                if idx not in objs:
                    return None
                o = objs[idx]
                if ln is not None and ln * bsz != len(o):
                    return None
                if len(o) % bsz:
                    return None
                out.append(o)
            return out
        r = dec("spec")
        if r is None:
            r = dec("lib")
            if r is None:
                raise SpecError("%s: variable-length elements do not reference global heap objects" % owner)
            self.deviate("vlen-elem-no-length", owner, "variable-length elements are stored as (collection address, object index, 0); the specification stores (sequence length, collection address, object index)")
        return r

    # -- attributes
    def attribute(self, d, where, v1pad=False):
        if len(d) < 6:
            raise SpecError("%s: attribute message of %d bytes" % (where, len(d)))
        ver = d[0]
        if ver == 1:
            if d[1] != 0:
                raise SpecError("%s: attribute v1 reserved byte" % where)
            ns, ts, ss = (int.from_bytes(d[2 + 2 * i:4 + 2 * i], "little") for i in range(3))
            p = 8
            r8 = lambda x: (x + 7) // 8 * 8
        elif ver in (2, 3):
            if d[1] & 3:
                raise Unsupported("%s: shared datatype/dataspace in attribute" % where)
            if d[1] & ~3:
                raise SpecError("%s: attribute flags %#x" % (where, d[1]))
            ns, ts, ss = (int.from_bytes(d[2 + 2 * i:4 + 2 * i], "little") for i in range(3))
            p = 8
            if ver == 3:
                if d[8] > 1:
                    raise SpecError("%s: attribute name character set %d" % (where, d[8]))
                p = 9
            r8 = lambda x: x
        else:
            raise SpecError("%s: attribute version %d" % (where, ver))
        if ns == 0 or p + r8(ns) + r8(ts) + r8(ss) > len(d):
            raise SpecError("%s: attribute size fields (name %d, datatype %d, dataspace %d) exceed the %d-byte message" % (where, ns, ts, ss, len(d)))
        nameb = bytes(d[p:p + ns])
        if nameb[-1] != 0 or 0 in nameb[:-1]:
            raise SpecError("%s: attribute name is not a NUL-terminated string of the stated size" % where)
        name = nameb[:-1]
        p += r8(ns)
        w = "%s attribute %r" % (where, name[:24])
        dt = self.datatype(d[p:p + ts], w + " datatype", pad_ok=(ver == 1)); p += r8(ts)
        sp = self.dataspace(d[p:p + ss], w + " dataspace", pad_ok=(ver == 1)); p += r8(ss)
        need = sp["nelem"] * dt["size"]
        data = bytes(d[p:p + need])
        if len(d) - p != need and not (v1pad and 0 <= len(d) - p - need < 8):
            raise SpecError("%s: %d data bytes for %d elements of %d bytes" % (w, len(d) - p, sp["nelem"], dt["size"]))
        return dict(name=name, dt=dt, dims=sp["dims"], nelem=sp["nelem"], data=data)

    # -- fractal heap
    def fractal_heap(self, addr, owner):
        O, L = self.O, self.L
        if self.rd(addr, 4, "fractal heap of " + owner) != b"FRHP":
            raise SpecError("fractal heap header of %s at %d: signature" % (owner, addr))
        if self.b[addr + 4] != 0:
            raise SpecError("fractal heap header of %s: version %d" % (owner, self.b[addr + 4]))
        p = addr + 5
        h = {}
        h["idlen"], h["filtlen"] = self.u(p, 2), self.u(p + 2, 2); p += 4
        h["flags"] = self.b[p]; p += 1
        h["maxobj"] = self.u(p, 4); p += 4
        for nm, w in (("nexthuge", L), ("hugebt", O), ("free", L), ("fsaddr", O), ("mansize", L), ("manalloc", L), ("iter", L),
                      ("nman", L), ("hugesize", L), ("nhuge", L), ("tinysize", L), ("ntiny", L)):
            h[nm] = self.u(p, w); p += w
        h["width"] = self.u(p, 2); p += 2
        h["start"] = self.u(p, L); p += L
        h["maxdirect"] = self.u(p, L); p += L
        h["maxheap"], h["startrows"] = self.u(p, 2), self.u(p + 2, 2); p += 4
        h["root"] = self.u(p, O); p += O
        h["currows"] = self.u(p, 2); p += 2
        if h["filtlen"]:
            raise Unsupported("filtered fractal heap")
        self.ext(addr, p + 4, "fheap-hdr", owner)
        self.checksum("fheap-hdr", "%s@%d" % (owner, addr), addr, p, "fheap-hdr-crc32")
        if h["flags"] & ~3:
            raise SpecError("fractal heap of %s: reserved flag bits %#x" % (owner, h["flags"]))
        for nm in ("hugebt", "fsaddr"):
            if h[nm] == 0:
                self.deviate("fheap-addr-0-not-undef", "%s@%d" % (owner, addr), "%s address field is 0 although the structure does not exist (specification: undefined address)" %
                             {"hugebt": "huge-object B-tree", "fsaddr": "free-space manager"}[nm])
            elif not self.undef(h[nm]):
                raise Unsupported("fractal heap huge objects / free-space manager")
        if h["width"] == 0 or h["width"] & (h["width"] - 1) or h["start"] & (h["start"] - 1) or h["maxdirect"] & (h["maxdirect"] - 1):
            raise SpecError("fractal heap of %s: table width / block sizes must be powers of two" % owner)
        if h["maxheap"] > 64 or h["maxdirect"] > (1 << h["maxheap"]) or h["start"] > h["maxdirect"]:
            raise SpecError("fractal heap of %s: start %d, max direct %d, heap address bits %d" % (owner, h["start"], h["maxdirect"], h["maxheap"]))
        h["offsz"] = (h["maxheap"] + 7) // 8
        h["lensz"] = nbytes_for(min(h["maxdirect"], h["maxobj"]))
        if 1 + h["offsz"] + h["lensz"] > h["idlen"]:
            raise SpecError("fractal heap of %s: heap ID length %d cannot hold offset (%d) and length (%d)" % (owner, h["idlen"], h["offsz"], h["lensz"]))
        h["addr"] = addr
        h["blocks"] = []      # (heap offset, size, file address, prefix size)
        if self.undef(h["root"]):
            if h["nman"]:
                raise SpecError("fractal heap of %s: %d managed objects but no root block" % (owner, h["nman"]))
        elif h["currows"] == 0:
            self.direct_block(h, h["root"], 0, h["start"], owner)
        else:
            self.indirect_block(h, h["root"], 0, h["currows"], owner)
        if h["manalloc"] != sum(b[1] for b in h["blocks"]):
            raise SpecError("fractal heap of %s: allocated managed space field %d, direct blocks found %d bytes" % (owner, h["manalloc"], sum(b[1] for b in h["blocks"])))
        return h

    def direct_block(self, h, addr, hoff, size, owner):
        O = self.O
        if self.rd(addr, 4, "fractal heap direct block of " + owner) != b"FHDB":
            raise SpecError("fractal heap direct block of %s at %d: signature %r" % (owner, addr, bytes(self.b[addr:addr + 4])))
        if self.b[addr + 4] != 0:
            raise SpecError("fractal heap direct block of %s: version" % owner)
        if self.u(addr + 5, O) != h["addr"]:
            raise SpecError("fractal heap direct block of %s: heap header address field %d, header is at %d" % (owner, self.u(addr + 5, O), h["addr"]))
        if self.u(addr + 5 + O, h["offsz"]) != hoff:
            raise SpecError("fractal heap direct block of %s: block offset field %d, expected %d" % (owner, self.u(addr + 5 + O, h["offsz"]), hoff))
        pre = 5 + O + h["offsz"]
        self.ext(addr, addr + size, "fheap-dblock", owner)
        blk = self.b[addr:addr + size]
        if h["flags"] & 2:
            st = int.from_bytes(blk[pre:pre + 4], "little")
            z = bytes(blk[:pre]) + b"\0\0\0\0" + bytes(blk[pre + 4:])
            if st != lookup3(z):
                raise SpecError("fractal heap direct block of %s: checksum" % owner)
            pre += 4
        else:
            tail = int.from_bytes(blk[-4:], "little")
            if tail:
                if tail == crc32(blk[:-4]):
                    self.deviate("fhdb-trailing-crc32", "%s@%d" % (owner, addr), "the last 4 bytes of the direct block hold a CRC-32 of the block although the heap's flags say direct blocks are not checksummed (the specification's checksum follows the block offset field and is lookup3)")
                    self.checks.append(("fheap-dblock", addr, "crc32", addr, addr + size - 4, tail))
                else:
                    raise SpecError("fractal heap direct block of %s at %d: trailing checksum word 0x%08x is not the CRC-32 (0x%08x) of the block" % (owner, addr, tail, crc32(blk[:-4])))
        h["blocks"].append((hoff, size, addr, pre))

    def indirect_block(self, h, addr, hoff, nrows, owner):
        O = self.O
        if self.rd(addr, 4, "fractal heap indirect block of " + owner) != b"FHIB":
            raise SpecError("fractal heap of %s: header says the root is an indirect block (%d rows) but %d holds %r" % (owner, nrows, addr, bytes(self.b[addr:addr + 4])))
        if self.b[addr + 4] != 0 or self.u(addr + 5, O) != h["addr"] or self.u(addr + 5 + O, h["offsz"]) != hoff:
            raise SpecError("fractal heap indirect block of %s: version / header address / block offset" % owner)
        maxdrows = (h["maxdirect"] // h["start"]).bit_length() + 1
        p = addr + 5 + O + h["offsz"]
        off = hoff
        for r in range(nrows):
            bs = h["start"] * (1 if r < 2 else 1 << (r - 1))
            for _ in range(h["width"]):
                a = self.u(p, O); p += O
                if r >= maxdrows:
                    raise Unsupported("fractal heap with nested indirect blocks")
                if not self.undef(a):
                    self.direct_block(h, a, off, bs, owner)
                off += bs
        self.ext(addr, p + 4, "fheap-iblock", owner)
        self.checksum("fheap-iblock", "%s@%d" % (owner, addr), addr, p, "fheap-iblock-crc32")

    def heap_object(self, h, hid, mode, owner):
        if hid[0] >> 6:
            raise SpecError("%s: heap ID version %d" % (owner, hid[0] >> 6))
        typ = (hid[0] >> 4) & 3
        if typ != 0:
            raise Unsupported("%s: heap ID type %d (huge/tiny object)" % (owner, typ))
        off = int.from_bytes(hid[1:1 + h["offsz"]], "little")
        ln = int.from_bytes(hid[1 + h["offsz"]:1 + h["offsz"] + h["lensz"]], "little")
        if any(hid[1 + h["offsz"] + h["lensz"]:]):
            raise SpecError("%s: unused heap ID bytes are not zero" % owner)
        for hoff, size, faddr, pre in h["blocks"]:
            lo = hoff if mode == "spec" else hoff - pre        # spec: heap offsets include the block prefix
            if hoff <= off < hoff + size:
                start = faddr + (off - hoff) + (0 if mode == "spec" else pre)
                if mode == "spec" and off - hoff < pre:
                    return None
                if start + ln > faddr + size or ln == 0:
                    return None
                return bytes(self.b[start:start + ln])
        return None

    # -- v2 B-tree (name index)
    def btree2(self, addr, owner):
        O, L = self.O, self.L
        if self.rd(addr, 4, "v2 B-tree header of " + owner) != b"BTHD":
            raise SpecError("v2 B-tree header of %s at %d: signature" % (owner, addr))
        if self.b[addr + 4] != 0:
            raise SpecError("v2 B-tree header of %s: version" % owner)
        t = self.b[addr + 5]
        nodesize, recsize, depth = self.u(addr + 6, 4), self.u(addr + 10, 2), self.u(addr + 12, 2)
        split, merge = self.b[addr + 14], self.b[addr + 15]
        root = self.u(addr + 16, O)
        nroot, total = self.u(addr + 16 + O, 2), self.u(addr + 18 + O, L)
        end = addr + 18 + O + L
        self.ext(addr, end + 4, "btree2-hdr", owner)
        self.checksum("btree2-hdr", "%s@%d" % (owner, addr), addr, end, "btree2-crc32")
        if split > 100 or merge > 100 or split == 0:
            raise SpecError("v2 B-tree of %s: split/merge percent %d/%d" % (owner, split, merge))
        if depth != 0:
            raise Unsupported("v2 B-tree of depth %d" % depth)
        if total != nroot:
            raise SpecError("v2 B-tree of %s: depth 0 but total records %d != root records %d" % (owner, total, nroot))
        if 10 + nroot * recsize > nodesize:
            raise SpecError("v2 B-tree of %s: %d records of %d bytes do not fit a %d-byte node" % (owner, nroot, recsize, nodesize))
        recs = []
        if nroot == 0:
            if not self.undef(root) and root != 0:
                pass
            return dict(type=t, recsize=recsize, recs=[])
        if self.rd(root, 4, "v2 B-tree leaf of " + owner) != b"BTLF":
            raise SpecError("v2 B-tree leaf of %s at %d: signature" % (owner, root))
        if self.b[root + 4] != 0 or self.b[root + 5] != t:
            raise SpecError("v2 B-tree leaf of %s: version/type" % owner)
        self.ext(root, root + nodesize, "btree2-leaf", owner)
        p = root + 6
        for i in range(nroot):
            recs.append(bytes(self.b[p:p + recsize])); p += recsize
        self.checksum("btree2-leaf", "%s@%d" % (owner, root), root, p, "btree2-crc32")
        return dict(type=t, recsize=recsize, recs=recs)

    def dense_attrs(self, d, owner, msgtype):
        O = self.O
        if len(d) < 2 or d[0] != 0:
            raise SpecError("%s: attribute info message version" % owner)
        fl = d[1]
        if fl & ~3:
            raise SpecError("%s: attribute info flags %#x" % (owner, fl))
        p = 2 + (2 if fl & 1 else 0)
        need = p + 2 * O + (O if fl & 2 else 0)
        if len(d) != need:
            raise SpecError("%s: attribute info message has %d bytes, its fields need %d" % (owner, len(d), need))
        heap_a, bt_a = int.from_bytes(d[p:p + O], "little"), int.from_bytes(d[p + O:p + 2 * O], "little")
        if fl & 2:
            raise Unsupported("creation-order index for attributes")
        if self.undef(heap_a) and self.undef(bt_a):
            return []
        h = self.fractal_heap(heap_a, owner)
        bt = self.btree2(bt_a, owner)
        if bt["type"] == 8:
            if bt["recsize"] != h["idlen"] + 9:
                raise SpecError("%s: type-8 record size %d with %d-byte heap IDs" % (owner, bt["recsize"], h["idlen"]))
            recs = [(int.from_bytes(r[-4:], "little"), r[:h["idlen"]]) for r in bt["recs"]]
        elif bt["type"] == 5:
            self.deviate("btree2-attr-type-5", "%s@%d" % (owner, bt_a), "attribute name index uses B-tree type 5 (link name index, records = hash + 7-byte heap ID); the specification indexes attribute names with type 8 (heap ID, message flags, creation order, hash)")
            if bt["recsize"] != 11:
                raise SpecError("%s: type-5 record size %d" % (owner, bt["recsize"]))
            recs = [(int.from_bytes(r[:4], "little"), r[4:11]) for r in bt["recs"]]
        else:
            raise SpecError("%s: attribute name index of B-tree type %d" % (owner, bt["type"]))
        if len(recs) != h["nman"]:
            raise SpecError("%s: %d name-index records but the heap header counts %d managed objects" % (owner, len(recs), h["nman"]))
        hashes = [r[0] for r in recs]
        if hashes != sorted(hashes):
            raise SpecError("%s: name-index records are not sorted by hash" % owner)
        def decode(mode):
            out = []
            for hv, hid in recs:
                obj = self.heap_object(h, hid, mode, owner)
                if obj is None:
                    return None
                saved = len(self.dev)
                try:
                    a = self.attribute(obj, owner)
                except (SpecError, Unsupported, IndexError):
                    del self.dev[saved:]
                    return None
                if lookup3(a["name"]) != hv:
                    del self.dev[saved:]
                    return None
                out.append(a)
            return out
        saved = len(self.dev)
        attrs = decode("spec")
        lib_mode = False
        if attrs is None:
            del self.dev[saved:]
            attrs = decode("lib")
            lib_mode = True
            if attrs is None:
                # report the precise reason in tolerant mode
                for hv, hid in recs:
                    obj = self.heap_object(h, hid, "lib", owner)
                    if obj is None:
                        raise SpecError("%s: heap ID %s does not address an object inside a direct block" % (owner, bytes(hid).hex()))
                    a = self.attribute(obj, owner)
                    if lookup3(a["name"]) != hv:
                        raise SpecError("%s: name-index hash 0x%08x but lookup3(%r) = 0x%08x" % (owner, hv, a["name"][:30], lookup3(a["name"])))
                raise SpecError("%s: dense attributes do not decode" % owner)
            self.deviate("fheap-offset-excludes-block-prefix", "%s@%d" % (owner, heap_a), "heap ID offsets count from the start of the object data of a direct block; the specification's heap address space includes the block's prefix (signature, version, header address, block offset)")
        for (hv, hid), a in zip(recs, attrs):
            self.checks.append(("btree2-name-hash", bt_a, "lookup3", a["name"], None, hv))
        return attrs

    # -- objects
    def obj(self, addr, path):
        if addr in self.objects:
            return self.objects[addr]
        node = dict(addr=addr, kind="?", attrs={}, path=path)
        self.objects[addr] = node
        try:
            self._obj(addr, path, node)
        except (SpecError, Unsupported) as e:
            node["error"] = str(e)
            self.errors.append(("unsupported: " if isinstance(e, Unsupported) else "") + "%s: %s" % (path, e))
        except (IndexError, struct.error, ValueError) as e:
            node["error"] = repr(e)
            self.errors.append("%s: malformed (%r)" % (path, e))
        return node

    def _obj(self, addr, path, node):
        owner = path
        hd = self.ohdr(addr, owner)
        pad = hd["v1pad"]
        by = {}
        for t, fl, body, off in hd["msgs"]:
            by.setdefault(t, []).append(body)
        known = {0x01, 0x02, 0x03, 0x04, 0x05, 0x06, 0x08, 0x0A, 0x0B, 0x0C, 0x0F, 0x11, 0x12, 0x15, 0x16}
        for t in by:
            if t not in known:
                raise Unsupported("header message type %#x" % t)
        for t in (0x01, 0x03, 0x05, 0x08, 0x0B, 0x11, 0x15, 0x0F, 0x16, 0x02):
            if len(by.get(t, [])) > 1:
                raise SpecError("%s: message type %#x appears %d times" % (owner, t, len(by[t])))
        # reference count
        rc = hd["refcount"]
        if 0x16 in by:
            d = by[0x16][0]
            if len(d) == 5 and d[0] == 0:
                rc = int.from_bytes(d[1:5], "little")
            elif len(d) == 4:
                self.deviate("refcount-msg-no-version", "%s@%d" % (owner, addr), "object reference count message is 4 bytes (count only); the specification has a version byte followed by the 4-byte count")
                rc = int.from_bytes(d, "little")
            else:
                raise SpecError("%s: reference count message of %d bytes" % (owner, len(d)))
        node["refcount"] = 1 if rc is None else rc
        # attributes
        for d in by.get(0x0C, []):
            a = self.attribute(d, owner, v1pad=pad)
            if a["name"] in node["attrs"]:
                raise SpecError("%s: attribute %r stored twice" % (owner, a["name"]))
            node["attrs"][a["name"]] = a
        ai = None
        if 0x15 in by:
            ai = by[0x15][0]
        if 0x0F in by:
            self.deviate("attrinfo-type-0x0f", "%s@%d" % (owner, addr), "attribute info stored under header message type 0x000F (the specification's Shared Message Table type); Attribute Info is type 0x0015")
            if ai is not None:
                raise SpecError("%s: both 0x0F and 0x15 messages" % owner)
            ai = by[0x0F][0]
        node["dense"] = ai is not None
        if ai is not None:
            for a in self.dense_attrs(ai, owner, None):
                if a["name"] in node["attrs"]:
                    raise SpecError("%s: attribute %r stored twice (compact and dense)" % (owner, a["name"]))
                node["attrs"][a["name"]] = a
        # kind
        if 0x11 in by:
            node["kind"] = "group"
            d = by[0x11][0]
            if len(d) != 2 * self.O:
                raise SpecError("%s: symbol table message of %d bytes" % (owner, len(d)))
            bt, hp = int.from_bytes(d[:self.O], "little"), int.from_bytes(d[self.O:], "little")
            node["stab"] = (bt, hp)
            heap = self.local_heap(hp, owner)
            ents = self.group_btree(bt, heap, owner)
            node["children"] = {}
            node["entries"] = ents
            for e in ents:
                if e["name"] in node["children"] or e["name"] == b"":
                    raise SpecError("%s: link name %r empty or listed twice" % (owner, e["name"]))
                if e["cache"] == 2:
                    raise Unsupported("symbolic link entry")
                node["children"][e["name"]] = e["obj"]
            for e in ents:
                self.linkcount[e["obj"]] = self.linkcount.get(e["obj"], 0) + 1
                cp = path.rstrip("/") + "/" + e["name"].decode("utf-8", "surrogateescape")
                c = self.obj(e["obj"], cp)
                if e["cache"] == 1 and c.get("stab") != (e["btree"], e["heap"]):
                    raise SpecError("%s: cached B-tree/heap addresses of entry %r differ from the child's symbol table message" % (owner, e["name"]))
        elif 0x02 in by or 0x06 in by:
            node["kind"] = "linkobject" if 0x02 not in by else "group"
            if 0x02 not in by:
                self.deviate("softlink-stored-as-object", "%s@%d" % (owner, addr), "an object header holding only Link message(s) without a Link Info message; soft/external links are link messages of the containing group")
                node["links"] = [self.link_msg(x, owner) for x in by[0x06]]
            else:
                raise Unsupported("new-style group")
        elif 0x08 in by:
            node["kind"] = "dataset"
            for t, nm in ((0x03, "datatype"), (0x01, "dataspace")):
                if t not in by:
                    raise SpecError("%s: dataset without %s message" % (owner, nm))
            dt = self.datatype(by[0x03][0], owner + " datatype", pad_ok=pad)
            ds = self.dataspace(by[0x01][0], owner + " dataspace", pad_ok=pad)
            lay = self.layout(by[0x08][0], owner)
            pipe = self.pipeline(by[0x0B][0], owner) if 0x0B in by else []
            if 0x05 not in by and 0x04 not in by:
                self.deviate("dataset-no-fillvalue-msg", "%s@%d" % (owner, addr), "dataset object header without a Fill Value message (specification: required for dataset objects)")
            elif 0x05 in by:
                fv = by[0x05][0]
                if fv[0] not in (1, 2, 3):
                    raise SpecError("%s: fill value message version %d" % (owner, fv[0]))
                if (fv[0] < 3 and fv[3]) or (fv[0] == 3 and fv[1] & 0x20):
                    raise Unsupported("defined fill value")
            node.update(dt=dt, dims=ds["dims"], maxdims=ds["maxdims"], layout=lay["cls"], filters=[f[0] for f in pipe], pipe=pipe)
            if pipe and lay["cls"] != "chunked":
                raise SpecError("%s: filter pipeline on a %s dataset" % (owner, lay["cls"]))
            data, info = self.dataset_data(lay, dt, ds, pipe, owner)
            node["data"] = data
            node.update(info)
            if dt["cls"] == 9:
                node["vlen"] = self.vlen_elements(data, dt, owner) if node_allocated(lay, self) else [b""] * ds["nelem"]
            node["allocated"] = not (lay["cls"] == "chunked" and (lay["addr"] == 0 or self.undef(lay["addr"])))
        else:
            raise SpecError("%s: object header is neither a group nor a dataset (message types %s)" % (owner, sorted(by)))

    def run(self):
        try:
            sb = self.superblock()
        except (SpecError, Unsupported) as e:
            self.errors.append("superblock: %s" % e)
            return None
        root = self.obj(sb["root"], "/")
        self.linkcount[sb["root"]] = self.linkcount.get(sb["root"], 0) + 1
        if sb["version"] in (0, 1):
            e = sb["root_entry"]
            if e["cache"] == 1 and root.get("stab") != (e["btree"], e["heap"]):
                self.errors.append("superblock: cached root B-tree/heap addresses %s differ from the root group's symbol table message %s" % ((e["btree"], e["heap"]), root.get("stab")))
            if e["cache"] not in (0, 1):        # 0: nothing cached (legal, the reference library reads the header); 2 is for symbolic links
                self.errors.append("superblock: root symbol table entry cache type %d" % e["cache"])
        for a, nd in self.objects.items():
            if "error" in nd:
                continue
            rc, lc = nd.get("refcount", 1), self.linkcount.get(a, 0)
            if rc != lc:
                self.deviate("refcount-too-high" if rc > lc else "refcount-too-low", "%s@%d" % (nd["path"], a),
                             "object reference count %d but %d hard link(s) lead to the object" % (rc, lc))
        # full-capacity regions of fixed-size nodes
        hard = sorted(self.extents)
        for s, e, kind, owner, tag in self.soft:
            if e > self.n:
                self.deviate(tag, "%s@%d" % (owner, s), "the node's full size per the specification is %d bytes, [%d,%d) ends beyond the file (%d)" % (e - s, s, e, self.n))
                continue
            for hs, he, hk, ho in hard:
                if hs >= e:
                    break
                if he > s and not (hs == s and hk == kind):
                    self.deviate(tag, "%s@%d" % (owner, s), "the node's full size per the specification is %d bytes, [%d,%d) overlaps %s of %s at [%d,%d)" % (e - s, s, e, hk, ho, hs, he))
                    break
        eof = sb.get("eof", 0)
        beyond = [x for x in self.extents if x[1] > eof]
        if beyond:
            m = max(beyond, key=lambda x: x[1])
            self.deviate("sb-eof-stale", "superblock", "end-of-file address field %d, but %d structure(s) end beyond it (last: %s of %s at [%d,%d)); file size %d" % (eof, len(beyond), m[2], m[3], m[0], m[1], self.n))
        elif eof > self.n:
            self.errors.append("superblock: end-of-file address %d beyond the physical file size %d" % (eof, self.n))
        return root


def node_allocated(lay, w):
    return not (lay["cls"] == "chunked" and (lay["addr"] == 0 or w.undef(lay["addr"])))


def overlaps(extents):
    """sorted sweep: list of pairs of overlapping extents"""
    out = []
    s = sorted(extents)
    for a, b in zip(s, s[1:]):
        if b[0] < a[1]:
            out.append((a, b))
    return out


def walk(path):
    data = open(path, "rb").read()
    w = Walker(data)
    root = w.run()
    tree = dict(root=(w.sb.get("root")), objects=w.objects)
    return dict(tree=tree, extents=list(w.extents), deviations=list(w.dev), errors=list(w.errors), sb=dict(w.sb, root_entry=None),
                size=len(data), checks=list(w.checks), data=data)


if __name__ == "__main__":
    import sys
    assert lookup3(b"") == 0xDEADBEEF and lookup3(b"", 0xDEADBEEF) == 0xBD5B7DDE
    assert lookup3(b"Four score and seven years ago") == 0x17770551 and lookup3(b"Four score and seven years ago", 1) == 0xCD628161
    for f in sys.argv[1:]:
        r = walk(f)
        print(f, "size", r["size"], "sb", {k: v for k, v in r["sb"].items() if k != "root_entry"})
        for e in sorted(r["extents"]):
            print("  [%7d,%7d) %-16s %s" % e)
        for o in overlaps(r["extents"]):
            print("  OVERLAP", o)
        for a, nd in r["tree"]["objects"].items():
            print("  obj", a, nd["path"], nd["kind"], {k: (v if k != "data" else v[:16].hex()) for k, v in nd.items() if k in ("dims", "maxdims", "layout", "chunk", "filters", "data", "refcount", "error", "vlen")},
                  "attrs", {k: (v["dt"]["cls"], v["dt"]["size"], v["dims"], v["data"][:8].hex()) for k, v in nd["attrs"].items()})
        seen = set()
        for t, wh, de in r["deviations"]:
            if t not in seen:
                seen.add(t)
                print("  DEV", t, wh, "|", de)
        for e in r["errors"]:
            print("  ERROR", e)
