#!/usr/bin/env python3
"""Parser for h5dump DDL output (the reference library's report of a file), used by C06.

    docs = ddl.parse_file(path)        # one Doc per `HDF5 "file.h5" { ... }` section
    doc.file                            # name inside HDF5 "..."
    doc.objects                         # canonical logical tree: path -> Obj
    Obj.kind                            # group | dataset | datatype | softlink | extlink | udlink | hardlink
    Obj.children                        # list of names when the DDL lists the group's members completely, else None
    Obj.attrs                           # name -> Attr (only those the DDL shows); Obj.attrs_listed: bool
    Obj.dtype / Obj.space / Obj.blocks  # datasets: type descriptor, dataspace, list of DATA blocks
    doc.contents                        # FILE_CONTENTS listing (path, kind, target) when present
    ddl.to_json(doc)                    # JSON-able form (bytes -> {"hex": ...})

A DDL produced with options (-d, -g, -a, -H, -A, -s ...) covers only part of a file: the tree holds only what
the DDL contains; a group is *complete* (children is a list) exactly when its GROUP block with a body was
printed (h5dump always lists every member of a group it descends into), and an object's attribute list is
complete (`attrs_listed`) when the block shows at least one ATTRIBUTE (with `-A 0`/-d the absence of
attributes means nothing).

Type descriptors (dict):  class = integer|float|bitfield|string|compound|array|vlen|enum|opaque|reference|
complex|named|other;  integer/bitfield/float: size (bytes), signed, order 'LE'|'BE'|'VAX', precision (bits,
when it differs from 8*size);  string: size (int or 'var'), pad nullterm|nullpad|spacepad, cset;  compound:
members [(name, type)];  array: dims, base;  vlen/complex: base;  enum: base, members [(name, int)];
named: ref (path of the committed datatype; resolve with resolve_named()).

Values (DATA): the parser is type-agnostic; an element is
    ('tok', text)      number / hex / enum symbol / NULL / complex token exactly as printed
    ('str', bytes, raw) quoted string with escapes decoded; raw=True when the literal contained an unescaped
                        line break (h5dump without -e prints control characters verbatim and indents the
                        continuation: such a string can only be compared modulo white space)
    ('cmp', [..]) compound { }   ('arr', [..]) array [ ]   ('vl', [..]) variable-length ( )
interpret(value, type) maps it to Python ints (integers, enums by symbol), float token text, bytes.
A DATA block that cannot be parsed generically (object/region references, h5dump error text) is kept with
values=None and the reason.
"""
import json, os, re, sys


class DDLError(Exception):
    pass


class Attr:
    def __init__(self, name):
        self.name, self.dtype, self.space, self.blocks = name, None, None, []


class Obj:
    def __init__(self, kind, path):
        self.kind, self.path = kind, path
        self.children = None        # list of names when complete
        self.child_kinds = {}
        self.attrs = {}
        self.attrs_listed = False
        self.dtype = self.space = None
        self.blocks = []            # list of Block
        self.target = None          # hardlink / softlink / extlink target
        self.comment = None
        self.has_body = False


class Block:
    """One DATA { } block: values in row-major order of the selection it covers."""
    def __init__(self):
        self.values = None          # list of elements or None when not parsed
        self.why = None
        self.subset = None          # dict(start, stride, count, block) or None
        self.packed = None          # (offset, length) or None
        self.indexed = False        # rows carried (i,j): prefixes


class Doc:
    def __init__(self, file, src):
        self.file, self.src = file, src
        self.objects = {}
        self.contents = None
        self.loose_attrs = []
        self.notes = []
        self.superblock = None
        self.errors_text = 0


_STD = re.compile(r"H5T_STD_([IUB])(\d+)(LE|BE)$")
_IEEE = re.compile(r"H5T_IEEE_F(\d+)(LE|BE)$")
_BF16 = re.compile(r"H5T_FLOAT_BFLOAT16(LE|BE)$")
_CPLX = re.compile(r"H5T_COMPLEX_IEEE_F(\d+)(LE|BE)$")
_NATIVE = {"H5T_NATIVE_LDOUBLE": dict(cls="float", size=16, order="LE")}
_PROSE = re.compile(r"(\d+)-bit (little|big)-endian (unsigned )?(integer|floating-point|bitfield)(?: (\d+)-bit precision)?")


def atomic_type(name):
    m = _STD.match(name)
    if m:
        k, bits, order = m.group(1), int(m.group(2)), m.group(3)
        if k == "B":
            return {"class": "bitfield", "size": bits // 8, "order": order}
        return {"class": "integer", "size": bits // 8, "signed": k == "I", "order": order}
    m = _IEEE.match(name)
    if m:
        return {"class": "float", "size": int(m.group(1)) // 8, "order": m.group(2)}
    m = _BF16.match(name)
    if m:
        return {"class": "float", "size": 2, "order": m.group(1), "format": "bfloat16"}
    m = _CPLX.match(name)
    if m:
        return {"class": "complex", "base": {"class": "float", "size": int(m.group(1)) // 8, "order": m.group(2)}}
    if name == "H5T_VAX_F64":
        return {"class": "float", "size": 8, "order": "VAX"}
    if name == "H5T_VAX_F32":
        return {"class": "float", "size": 4, "order": "VAX"}
    if name.startswith("H5T_STD_REF"):
        return {"class": "reference", "kind": name}
    return None


class P:
    """Recursive-descent parser over the raw text."""
    WS = " \t\r\n"

    def __init__(self, text, src):
        self.t, self.i, self.n, self.src = text, 0, len(text), src

    # ---------------- lexical helpers
    def ws(self):
        t, i, n = self.t, self.i, self.n
        while i < n and t[i] in self.WS:
            i += 1
        self.i = i

    def eof(self):
        self.ws()
        return self.i >= self.n

    def peek(self):
        self.ws()
        return self.t[self.i] if self.i < self.n else ""

    def word(self):
        """Peek the identifier-like word at the cursor (after white space)."""
        self.ws()
        m = re.compile(r"[A-Za-z_#][A-Za-z_0-9\-]*").match(self.t, self.i)
        return m.group(0) if m else ""

    def take(self, s):
        self.ws()
        if not self.t.startswith(s, self.i):
            raise DDLError("%s: expected %r at %d: %r" % (self.src, s, self.i, self.t[self.i:self.i + 40]))
        self.i += len(s)

    def opt(self, s):
        self.ws()
        if self.t.startswith(s, self.i):
            self.i += len(s)
            return True
        return False

    def line_rest(self):
        j = self.t.find("\n", self.i)
        if j < 0:
            j = self.n
        s = self.t[self.i:j]
        self.i = j
        return s

    _NAME_END = re.compile(r'"[ \t]*(?=\{|\r?\n|$|H5T_|;|\d+-bit|HARDLINK )')

    def name(self):
        """Quoted object / member name: ends at the first quote followed by '{', end of line, a type or ';'."""
        self.take('"')
        m = self._NAME_END.search(self.t, self.i)
        if not m:
            raise DDLError("%s: unterminated name at %d" % (self.src, self.i))
        s = self.t[self.i:m.start()]
        self.i = m.start() + 1
        return s

    _STR_END = re.compile(r'[ \t]*(,|\r?\n|\}|\]|\)|;|$)')
    _ESC = {"n": 10, "t": 9, "r": 13, "b": 8, "f": 12, "v": 11, "a": 7, '"': 34, "\\": 92, "'": 39, "?": 63}

    def qstring(self):
        """Quoted DATA string -> (bytes, raw).  Escapes as h5dump prints them (\\ooo octal, \\n ... with -e)."""
        self.take('"')
        t, n = self.t, self.n
        out = bytearray()
        raw = False
        i = self.i
        while True:
            if i >= n:
                raise DDLError("%s: unterminated string" % self.src)
            c = t[i]
            if c == "\\" and i + 1 < n:
                d = t[i + 1]
                m = re.compile(r"[0-7]{3}").match(t, i + 1)
                if m:
                    out.append(int(m.group(0), 8) & 0xFF)
                    i += 4
                    continue
                if d in self._ESC and d not in "'?a":
                    # without -e a backslash is printed verbatim; "\n" etc. only occur with -e.  Both readings
                    # are kept apart by the caller through `raw` only for line breaks; here: decode.
                    out.append(self._ESC[d])
                    i += 2
                    continue
                out.append(92)
                i += 1
                continue
            if c == '"':
                if self._STR_END.match(t, i + 1):
                    self.i = i + 1
                    return bytes(out), raw
                out.append(34)
                raw = True
                i += 1
                continue
            if c == "\n":
                raw = True
            out += c.encode("utf-8", "surrogateescape")
            i += 1

    # ---------------- types
    def dtype(self):
        self.ws()
        if self.peek() == '"':
            return {"class": "named", "ref": self.name()}
        m = _PROSE.match(self.t, self.i)
        if m:
            self.i = m.end()
            bits, end, uns, kind, prec = int(m.group(1)), m.group(2), m.group(3), m.group(4), m.group(5)
            d = {"class": {"integer": "integer", "floating-point": "float", "bitfield": "bitfield"}[kind],
                 "size": bits // 8, "order": "LE" if end == "little" else "BE"}
            if kind == "integer":
                d["signed"] = not uns
            if prec:
                d["precision"] = int(prec)
            return d
        w = self.word()
        if not w:
            raise DDLError("%s: type expected at %d: %r" % (self.src, self.i, self.t[self.i:self.i + 40]))
        self.i += len(w)
        if w == "H5T_STRING":
            self.take("{")
            d = {"class": "string"}
            while not self.opt("}"):
                k = self.word()
                self.i += len(k)
                self.ws()
                m = re.compile(r"[^;]*").match(self.t, self.i)
                v = m.group(0).strip()
                self.i = m.end()
                self.take(";")
                if k == "STRSIZE":
                    d["size"] = "var" if v == "H5T_VARIABLE" else int(v)
                elif k == "STRPAD":
                    d["pad"] = {"H5T_STR_NULLTERM": "nullterm", "H5T_STR_NULLPAD": "nullpad", "H5T_STR_SPACEPAD": "spacepad"}.get(v, v)
                elif k == "CSET":
                    d["cset"] = v
                elif k == "CTYPE":
                    d["ctype"] = v
            return d
        if w == "H5T_COMPOUND":
            self.take("{")
            mem = []
            while not self.opt("}"):
                ty = self.dtype()
                nm = self.name()
                self.ws()
                if self.opt(":"):          # member offsets (h5dump --m / older formats)
                    re_ = re.compile(r"\s*\d+").match(self.t, self.i)
                    self.i = re_.end()
                self.take(";")
                mem.append((nm, ty))
            return {"class": "compound", "members": mem}
        if w == "H5T_ARRAY":
            self.take("{")
            dims = []
            while self.opt("["):
                m = re.compile(r"\s*(\d+)\s*\]").match(self.t, self.i)
                dims.append(int(m.group(1)))
                self.i = m.end()
            base = self.dtype()
            self.take("}")
            return {"class": "array", "dims": dims, "base": base}
        if w == "H5T_VLEN":
            self.take("{")
            base = self.dtype()
            self.take("}")
            return {"class": "vlen", "base": base}
        if w == "H5T_COMPLEX":
            self.take("{")
            base = self.dtype()
            self.take("}")
            return {"class": "complex", "base": base}
        if w == "H5T_ENUM":
            self.take("{")
            base = self.dtype()
            self.take(";")
            mem = []
            while not self.opt("}"):
                nm = self.ename()
                m = re.compile(r"\s*([^;]*);").match(self.t, self.i)
                mem.append((nm, m.group(1).strip()))
                self.i = m.end()
            return {"class": "enum", "base": base, "members": mem}
        if w == "H5T_OPAQUE":
            d = {"class": "opaque"}
            if self.opt("{"):
                while not self.opt("}"):
                    k = self.word()
                    self.i += len(k)
                    if k == "OPAQUE_TAG":
                        d["tag"] = self.name()
                        self.opt(";")
                    else:
                        self.line_rest()
            return d
        if w == "H5T_REFERENCE":
            d = {"class": "reference"}
            if self.opt("{"):
                k = self.word()
                self.i += len(k)
                d["kind"] = k
                self.take("}")
            return d
        a = atomic_type(w)
        if a:
            return a
        if w in _NATIVE:
            x = _NATIVE[w]
            return {"class": x["cls"], "size": x["size"], "order": x["order"]}
        return {"class": "other", "text": w}

    def ename(self):
        """enum member name: quoted, ends at quote followed by blanks and the value."""
        self.take('"')
        m = re.compile(r'"[ \t]+(?=[^;\n]*;)').search(self.t, self.i)
        s = self.t[self.i:m.start()]
        self.i = m.start() + 1
        return s

    def space(self):
        w = self.word()
        self.i += len(w)
        if w == "SCALAR":
            return {"kind": "scalar", "dims": [], "maxdims": []}
        if w == "NULL":
            return {"kind": "null", "dims": None, "maxdims": None}
        if w != "SIMPLE":
            raise DDLError("%s: dataspace %r" % (self.src, w))
        self.take("{")
        dims = self.dimlist()
        maxd = None
        if self.opt("/"):
            maxd = self.dimlist()
        self.take("}")
        return {"kind": "simple", "dims": dims, "maxdims": maxd}

    def dimlist(self):
        self.take("(")
        m = re.compile(r"([^)]*)\)").match(self.t, self.i)
        self.i = m.end()
        out = []
        for x in m.group(1).split(","):
            x = x.strip()
            if x:
                out.append("unlimited" if x == "H5S_UNLIMITED" else int(x))
        return out

    # ---------------- skipping
    _SIMPLE_Q = re.compile(r'"(?:[^"\\\n]|\\.)*"(?=[ \t]*(?:\{|,|\r?\n|\}|\]|\)|;|$))')

    def skip_block(self):
        """Cursor just after '{': skip to after the matching '}' (quoted strings respected)."""
        depth = 1
        t, n = self.t, self.n
        while depth:
            if self.i >= n:
                raise DDLError("%s: unbalanced braces" % self.src)
            c = t[self.i]
            if c == '"':
                m = self._SIMPLE_Q.match(t, self.i)
                if m:                       # ordinary one-line literal (names inside reference output end with `" {`)
                    self.i = m.end()
                    continue
                try:
                    self.qstring()
                except DDLError:
                    self.i += 1
                continue
            if c == "{":
                depth += 1
            elif c == "}":
                depth -= 1
            self.i += 1

    # ---------------- DATA
    _IDX = re.compile(r"\(\s*\d+(\s*,\s*\d+)*\s*\)\s*:")
    _TOK = re.compile(r"[^,\{\}\[\]\(\)\n\"]+")

    def value(self):
        c = self.peek()
        if c == '"':
            b, raw = self.qstring()
            return ("str", b, raw)
        if c in "{[(":
            close = {"{": "}", "[": "]", "(": ")"}[c]
            tag = {"{": "cmp", "[": "arr", "(": "vl"}[c]
            self.i += 1
            items = []
            while True:
                if self.opt(close):
                    break
                items.append(self.value())
                self.opt(",")
            return (tag, items)
        m = self._TOK.match(self.t, self.i)
        if not m or not m.group(0).strip():
            raise DDLError("%s: value expected at %d: %r" % (self.src, self.i, self.t[self.i:self.i + 30]))
        self.i = m.end()
        return ("tok", m.group(0).strip())

    def data_block(self, blk):
        """Cursor after 'DATA {'.  Fills blk.values (or leaves None with blk.why) and consumes the block."""
        start = self.i
        vals = []
        try:
            while True:
                self.ws()
                if self.opt("}"):
                    break
                m = self._IDX.match(self.t, self.i)
                if m:
                    self.i = m.end()
                    blk.indexed = True
                    continue
                w = self.word()
                if w in ("DATASET", "GROUP", "DATATYPE", "ATTRIBUTE", "REGION_TYPE", "UNKNOWN", "h5dump", "NULL") and not vals and w != "NULL":
                    raise DDLError("reference-style DATA")
                vals.append(self.value())
                self.opt(",")
            blk.values = vals
        except (DDLError, AttributeError) as e:
            self.i = start
            self.skip_block()
            blk.values, blk.why = None, str(e)[:120]

    # ---------------- structure
    def attribute(self, holder, doc):
        nm = self.name()
        a = Attr(nm)
        self.take("{")
        packed = None
        while not self.opt("}"):
            w = self.word()
            if w == "DATATYPE":
                self.i += len(w)
                a.dtype = self.dtype()
            elif w == "DATASPACE":
                self.i += len(w)
                a.space = self.space()
            elif w == "DATA":
                self.i += len(w)
                self.take("{")
                b = Block()
                b.packed, packed = packed, None
                self.data_block(b)
                a.blocks.append(b)
            elif w == "PACKED_BITS":
                m = re.compile(r"PACKED_BITS\s+OFFSET=(\d+)\s+LENGTH=(\d+)").match(self.t, self.i)
                packed = (int(m.group(1)), int(m.group(2)))
                self.i = m.end()
            else:
                self.unknown(doc)
        return a

    def unknown(self, doc):
        """Something the tree does not need: a property block `WORD {...}` or a line of text."""
        self.ws()
        j = self.t.find("\n", self.i)
        if j < 0:
            j = self.n
        line = self.t[self.i:j]
        m = re.match(r"[A-Z_]+[^\n{}]*\{\s*$", line)
        if m:
            self.i += line.index("{") + 1
            self.skip_block()
        elif re.match(r"[A-Z_]+[^\n{}]*\{[^{}\n]*\}\s*$", line):
            self.i = j
        else:
            if "error" in line.lower() or "unable" in line.lower():
                doc.errors_text += 1
            doc.notes.append(line.strip()[:100])
            self.i = j

    def obj_items(self, o, doc, prefix):
        """Body of a GROUP / DATASET / named DATATYPE block (cursor after '{')."""
        packed = None
        o.has_body = True
        last_dt = None      # h5dump prints the attributes of a committed datatype after its one-line definition
        while not self.opt("}"):
            w = self.word()
            if w == "ATTRIBUTE":
                self.i += len(w)
                a = self.attribute(o, doc)
                holder = last_dt if last_dt is not None else o
                holder.attrs[a.name] = a
                holder.attrs_listed = True
            elif w == "HARDLINK":
                self.i += len(w)
                o.target = self.name()
                o.hardlink = True
                o.has_body = False
            elif w == "COMMENT":
                self.i += len(w)
                self.ws()
                if self.peek() == '"':
                    o.comment = self.name()
                else:
                    self.line_rest()
            elif w == "DATATYPE" and o.kind == "dataset":
                self.i += len(w)
                o.dtype = self.dtype()
            elif w == "DATASPACE":
                self.i += len(w)
                o.space = self.space()
            elif w == "PACKED_BITS":
                m = re.compile(r"PACKED_BITS\s+OFFSET=(\d+)\s+LENGTH=(\d+)").match(self.t, self.i)
                packed = (int(m.group(1)), int(m.group(2)))
                self.i = m.end()
            elif w == "DATA":
                self.i += len(w)
                self.take("{")
                b = Block()
                b.packed, packed = packed, None
                self.data_block(b)
                o.blocks.append(b)
            elif w == "SUBSET":
                self.i += len(w)
                self.take("{")
                sub = {}
                while not self.opt("}"):
                    k = self.word()
                    if k in ("START", "STRIDE", "COUNT", "BLOCK"):
                        self.i += len(k)
                        sub[k.lower()] = self.dimlist()
                        self.opt(";")
                    elif k == "PACKED_BITS":
                        m = re.compile(r"PACKED_BITS\s+OFFSET=(\d+)\s+LENGTH=(\d+)").match(self.t, self.i)
                        packed = (int(m.group(1)), int(m.group(2)))
                        self.i = m.end()
                    elif k == "DATA":
                        self.i += len(k)
                        self.take("{")
                        b = Block()
                        b.subset = dict(sub)
                        b.packed, packed = packed, None
                        self.data_block(b)
                        o.blocks.append(b)
                    else:
                        self.unknown(doc)
            elif w in ("GROUP", "DATASET", "DATATYPE", "SOFTLINK", "EXTERNAL_LINK", "USERDEFINED_LINK") and o.kind == "group":
                m = self.member(doc, o, prefix)
                last_dt = m if (m.kind == "datatype" and not getattr(m, "hardlink", False)) else None
            else:
                self.unknown(doc)

    def member(self, doc, parent, prefix):
        """One member block; parent None = top level of the HDF5 section (name is then a full path)."""
        w = self.word()
        self.i += len(w)
        nm = self.name()
        if parent is None:
            path = nm if nm.startswith("/") else "/" + nm
            if len(path) > 1 and path.endswith("/"):
                path = path.rstrip("/") or "/"
        else:
            path = (prefix.rstrip("/") + "/" + nm)
        kind = {"GROUP": "group", "DATASET": "dataset", "DATATYPE": "datatype", "SOFTLINK": "softlink",
                "EXTERNAL_LINK": "extlink", "USERDEFINED_LINK": "udlink"}[w]
        o = Obj(kind, path)
        if parent is not None:
            if parent.children is None:
                parent.children = []
            parent.children.append(nm)
            parent.child_kinds[nm] = kind
        if kind == "datatype":
            self.ws()
            if self.peek() == "{":          # DATATYPE "name" { HARDLINK "/x" }
                self.take("{")
                self.obj_items(o, doc, path)
            elif self.word() == "HARDLINK":  # DATATYPE "name" HARDLINK "/x"
                self.i += len("HARDLINK")
                o.target = self.name()
                o.hardlink = True
            else:
                o.dtype = self.dtype()
                self.ws()
                # committed datatypes may carry attributes:  H5T_COMPOUND {...} \n ATTRIBUTE ... handled by caller? no:
                self.opt(";")
                o.has_body = True
        elif kind in ("softlink", "extlink", "udlink"):
            self.take("{")
            tgt = {}
            while not self.opt("}"):
                k = self.word()
                self.i += len(k)
                if k in ("LINKTARGET", "TARGETFILE", "TARGETPATH"):
                    tgt[k] = self.name()
                else:
                    tgt[k] = self.line_rest().strip()
            o.target = tgt
            o.has_body = True
        else:
            self.take("{")
            if kind == "group":
                o.children = []
            self.obj_items(o, doc, path)
            if kind == "group" and not o.has_body:
                o.children = None
            if kind == "group" and parent is None and o.has_body and not o.children and not o.attrs and path != "/":
                # `-g /y` on a group that does not exist prints an empty block too (error text goes to stderr)
                o.ambiguous_empty = True
        # a path may appear several times in one section (e.g. -d given twice): merge blocks
        old = doc.objects.get(path)
        if old is not None and old.kind == o.kind and not getattr(o, "hardlink", False):
            old.blocks += o.blocks
            old.attrs.update(o.attrs)
            old.attrs_listed = old.attrs_listed or o.attrs_listed
            if old.dtype is None:
                old.dtype, old.space = o.dtype, o.space
            if old.children is None:
                old.children, old.child_kinds = o.children, o.child_kinds
        else:
            doc.objects[path] = o
        return o

    def section(self):
        self.take("HDF5")
        fname = self.name()
        doc = Doc(fname, self.src)
        self.take("{")
        while True:
            self.ws()
            if self.i >= self.n:
                doc.notes.append("section not closed")
                break
            if self.t.startswith("}", self.i):
                self.i += 1
                break
            w = self.word()
            if w in ("GROUP", "DATASET", "DATATYPE", "SOFTLINK", "EXTERNAL_LINK", "USERDEFINED_LINK") and \
                    re.compile(r'\s*"').match(self.t, self.i + len(w)):
                self.member(doc, None, "/")
            elif w == "ATTRIBUTE":
                self.i += len(w)
                a = self.attribute(None, doc)
                doc.loose_attrs.append(a)
            elif w == "SUPER_BLOCK":
                self.i += len(w)
                self.take("{")
                s = self.i
                self.skip_block()
                sb = {}
                for k, v in re.findall(r"^\s*([A-Z_]+)\s+(\S+)\s*$", self.t[s:self.i], re.M):
                    sb[k] = v
                doc.superblock = sb
            elif w == "FILE_CONTENTS":
                self.i += len(w)
                self.take("{")
                s = self.i
                j = self.t.find("\n }", s)
                if j < 0:
                    j = self.t.find("}", s)
                body = self.t[s:j]
                self.i = self.t.index("}", j) + 1
                doc.contents = parse_contents(body)
            else:
                self.unknown(doc)
        return doc


_CONTENT_KINDS = [("datatype", "datatype"), ("group", "group"), ("dataset", "dataset"), ("attribute", "attribute"),
                  ("ext link", "extlink"), ("link", "softlink"), ("unknown type of UD link", "udlink")]


def parse_contents(body):
    out = []
    for line in body.splitlines():
        s = line.strip()
        if not s:
            continue
        for pre, kind in _CONTENT_KINDS:
            if s.startswith(pre + " "):
                rest = s[len(pre):].strip()
                tgt = None
                if " -> " in rest:
                    rest, tgt = rest.split(" -> ", 1)
                out.append((rest.strip(), kind, tgt))
                break
    return out


def parse_text(text, src="<text>"):
    """All `HDF5 "name" {` sections of a DDL text.  Text before/between sections (usage, error output) is ignored."""
    docs = []
    p = P(text, src)
    pat = re.compile(r'^HDF5 "', re.M)
    pos = 0
    while True:
        m = pat.search(text, pos)
        if not m:
            break
        p.i = m.start()
        prev = text[max(0, m.start() - 200):m.start()].rstrip().rsplit("\n", 1)[-1]
        try:
            d = p.section()
            if prev.startswith("Using revision"):
                d.onion = prev.strip()      # dump of an onion-VFD revision, not of the file's base content
            docs.append(d)
            pos = max(p.i, m.end())
        except (DDLError, ValueError, AttributeError, IndexError) as e:
            d = Doc(re.compile(r'HDF5 "([^"\n]*)"').match(text, m.start()).group(1), src)
            d.notes.append("PARSE-ERROR: %s" % (str(e)[:200]))
            d.failed = True
            docs.append(d)
            pos = m.end()
    return docs


def parse_file(path):
    with open(path, "rb") as f:
        text = f.read().decode("utf-8", "surrogateescape")
    return parse_text(text, os.path.basename(path))


# ----------------------------------------------------------------------------- interpretation of values

def resolve_named(ty, lookup, depth=0):
    """Replace {'class':'named','ref':p} by lookup(p) (a type descriptor or None) recursively."""
    if ty is None or depth > 16:
        return ty
    c = ty.get("class")
    if c == "named":
        r = lookup(ty["ref"])
        return resolve_named(r, lookup, depth + 1) if r is not None else ty
    if c in ("array", "vlen", "enum", "complex"):
        d = dict(ty)
        d["base"] = resolve_named(ty["base"], lookup, depth + 1)
        return d
    if c == "compound":
        d = dict(ty)
        d["members"] = [(n, resolve_named(t, lookup, depth + 1)) for n, t in ty["members"]]
        return d
    return ty


_INT = re.compile(r"[-+]?\d+$")
_HEX = re.compile(r"0x[0-9a-fA-F]+$")
_BYTES = re.compile(r"[0-9a-fA-F]{2}(:[0-9a-fA-F]{2})*$")


def interpret(v, ty):
    """Element -> canonical Python value for type `ty`:
       integer -> int; float -> token text (str); string -> bytes (('raw', bytes) when only comparable modulo
       white space); bitfield/opaque -> bytes (as printed, i.e. most significant first) or int for 0x..;
       enum -> ('enum', symbol, int or None); compound -> list; array -> flat list; vlen -> list; complex -> token.
       Raises DDLError when the element does not fit the type."""
    c = ty.get("class") if ty else None
    tag = v[0]
    if c == "integer":
        if tag == "tok" and _INT.match(v[1]):
            return int(v[1])
        raise DDLError("integer expected, got %r" % (v,))
    if c == "float":
        if tag == "tok":
            return v[1]
        raise DDLError("float expected, got %r" % (v,))
    if c == "string":
        if tag == "str":
            return ("raw", v[1]) if v[2] else v[1]
        if tag == "tok" and v[1] == "NULL":
            return None
        raise DDLError("string expected, got %r" % (v,))
    if c in ("bitfield", "opaque"):
        if tag == "tok" and _HEX.match(v[1]):
            return int(v[1], 16)
        if tag == "tok" and _BYTES.match(v[1]):
            return bytes(int(x, 16) for x in v[1].split(":"))
        raise DDLError("bitfield/opaque expected, got %r" % (v,))
    if c == "enum":
        if tag == "tok":
            sym = v[1]
            val = None
            for n, x in ty["members"]:
                if n == sym and _INT.match(x):
                    val = int(x)
            if val is None and _INT.match(sym):
                val = int(sym)
            return ("enum", sym, val)
        raise DDLError("enum expected")
    if c == "compound":
        if tag == "cmp" and len(v[1]) == len(ty["members"]):
            return [interpret(x, t) for x, (_, t) in zip(v[1], ty["members"])]
        raise DDLError("compound with %d members expected, got %s/%d" % (len(ty["members"]), tag, len(v[1]) if tag != "tok" else 0))
    if c == "array":
        if tag == "arr":
            return [interpret(x, ty["base"]) for x in v[1]]
        raise DDLError("array expected")
    if c == "vlen":
        if tag == "vl":
            return [interpret(x, ty["base"]) for x in v[1]]
        if tag == "tok" and v[1] == "NULL":
            return None
        raise DDLError("vlen expected")
    if c == "complex":
        if tag == "tok":
            return v[1]
        raise DDLError("complex expected")
    raise DDLError("type class %r not interpretable" % c)


def subset_indices(dims, sub):
    """Flat (row-major) indices selected by START/STRIDE/COUNT/BLOCK over `dims`, in h5dump's print order.

    h5dump (h5tools_dump_simple_subset) walks the dimensions above the last two count step by count step, then
    the second-to-last dimension one index at a time, and prints for each such row the remaining selection
    (the blocks of the higher dimensions x every selected index of the last dimension) in row-major order.
    For rank <= 2, and whenever the higher dimensions have block 1, this is plain row-major order."""
    rank = len(dims)
    start = sub.get("start", [0] * rank)
    stride = sub.get("stride", [1] * rank)
    count = sub.get("count", [1] * rank)
    block = sub.get("block", [1] * rank)

    def positions(d):
        return [start[d] + c * stride[d] + b for c in range(count[d]) for b in range(block[d])]

    def flat(coord):
        o = 0
        for d in range(rank):
            o = o * dims[d] + coord[d]
        return o
    if rank <= 2:
        out = [[]]
        for d in range(rank):
            out = [o + [x] for o in out for x in positions(d)]
        return [flat(c) for c in out]
    high = list(range(rank - 2))
    rowd, last = rank - 2, rank - 1
    steps = [[]]
    for d in high:
        steps = [s + [c] for s in steps for c in range(count[d])]
    res = []
    for st in steps:
        inner = [[]]
        for k, d in enumerate(high):
            inner = [o + [start[d] + st[k] * stride[d] + b] for o in inner for b in range(block[d])]
        for r in positions(rowd):
            for h in inner:
                for l in positions(last):
                    res.append(flat(h + [r, l]))
    return res


# ----------------------------------------------------------------------------- JSON form

def _jv(v):
    if isinstance(v, (bytes, bytearray)):
        return {"hex": bytes(v).hex()}
    if isinstance(v, tuple):
        return [_jv(x) for x in v]
    if isinstance(v, list):
        return [_jv(x) for x in v]
    if isinstance(v, dict):
        return {k: _jv(x) for k, x in v.items()}
    return v


def to_json(doc):
    objs = {}
    for p, o in doc.objects.items():
        d = {"kind": o.kind, "children": o.children, "attrs_listed": o.attrs_listed, "target": _jv(o.target),
             "hardlink": bool(getattr(o, "hardlink", False))}
        if o.dtype is not None:
            d["type"] = _jv(o.dtype)
        if o.space is not None:
            d["space"] = o.space
        if o.blocks:
            d["data"] = [{"subset": b.subset, "packed": b.packed, "n": None if b.values is None else len(b.values),
                          "values": _jv(b.values), "why": b.why} for b in o.blocks]
        d["attrs"] = {n: {"type": _jv(a.dtype), "space": a.space,
                          "data": [{"packed": b.packed, "values": _jv(b.values), "why": b.why} for b in a.blocks]}
                      for n, a in o.attrs.items()}
        objs[p] = d
    return {"file": doc.file, "ddl": doc.src, "objects": objs, "contents": doc.contents, "superblock": doc.superblock,
            "notes": doc.notes, "loose_attrs": [a.name for a in doc.loose_attrs]}


if __name__ == "__main__":
    for path in sys.argv[1:]:
        for d in parse_file(path):
            json.dump(to_json(d), sys.stdout, indent=1)
            print()
