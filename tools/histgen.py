"""History generators for the `hist` harness (all randomness from the rng passed in)."""
import struct
from histlib import ESZ, UNLIMITED, prod, hx

EXT = [1, 2, 3, 5, 7, 8, 13, 16, 17, 31]
INT_EXTREMES = {
    "int8": [0, 1, -1, 127, -128], "uint8": [0, 1, 255, 128],
    "int16": [0, 1, -1, 32767, -32768], "uint16": [0, 1, 65535, 32768],
    "int32": [0, 1, -1, 2**31 - 1, -2**31], "uint32": [0, 1, 2**32 - 1, 2**31, 2**31 + 1],
    "int64": [0, 1, -1, 2**63 - 1, -2**63, 2**53 + 1, -(2**53) - 1], "uint64": [0, 1, 2**64 - 1, 2**63, 2**53 + 1, 2**63 + 1],
}
FMT = {"int8": "b", "uint8": "B", "int16": "h", "uint16": "H", "int32": "i", "uint32": "I", "int64": "q", "uint64": "Q"}
F64_SPECIAL = [0x0, 0x8000000000000000, 0x7FF0000000000000, 0xFFF0000000000000, 0x7FF0000000000001, 0x7FF8000000000000,
               0xFFF8000000000001, 0x0000000000000001, 0x000FFFFFFFFFFFFF, 0x3FF0000000000000, 0x7FEFFFFFFFFFFFFF]
F32_SPECIAL = [0x0, 0x80000000, 0x7F800000, 0xFF800000, 0x7F800001, 0x7FC00000, 0x7FC00001, 0xFFC00001, 0x00000001,
               0x007FFFFF, 0x3F800000, 0x7F7FFFFF]


def rand_data(rng, dtype, n, strsize=0):
    if dtype in FMT:
        lo, hi = (-(2 ** (8 * ESZ[dtype] - 1)), 2 ** (8 * ESZ[dtype] - 1) - 1) if dtype.startswith("int") else (0, 2 ** (8 * ESZ[dtype]) - 1)
        vals = [rng.choice(INT_EXTREMES[dtype]) if rng.random() < 0.3 else rng.randint(lo, hi) for _ in range(n)]
        return struct.pack("<%d%s" % (n, FMT[dtype]), *vals)
    if dtype == "float64":
        return b"".join(struct.pack("<Q", rng.choice(F64_SPECIAL) if rng.random() < 0.3 else rng.getrandbits(64)) for _ in range(n))
    if dtype == "float32":
        return b"".join(struct.pack("<I", rng.choice(F32_SPECIAL) if rng.random() < 0.3 else rng.getrandbits(32)) for _ in range(n))
    if dtype == "string":
        out = []
        for _ in range(n):
            ln = rng.choice([0, 1, strsize - 1, strsize, strsize + 1, rng.randint(0, strsize + 2)])
            ln = max(0, ln)
            out.append(bytes(rng.randint(1, 255) for _ in range(ln)))
        return b"\x00".join(out) + b"\x00"
    raise ValueError(dtype)


def rand_shape(rng, maxrank=4, maxelems=600):
    while True:
        rank = rng.choice([1, 1, 2, 2, 3, 4][:maxrank + 2]) if maxrank >= 4 else rng.randint(1, maxrank)
        dims = [rng.choice(EXT) for _ in range(rank)]
        if prod(dims) <= maxelems:
            return dims


def rand_chunk(rng, dims):
    ch = []
    for d in dims:
        c = rng.choice([1, d, max(1, d // 2), max(1, d - 1), 2, 3, 4, 5, 7, d + 1, d + 3])
        ch.append(max(1, c))
    return ch



# ----------------------------------------------------------------------------- extended dataset kinds

NUM_TYPES = list(ESZ)
ENUM_BASES = ["int8", "int16", "int32", "int64", "uint8", "uint16", "uint32", "uint64"]
VLEN_BASES = ["string", "int32", "int64", "uint32", "uint64", "float32", "float64"]
MEMBER_NAMES = ["id", "value", "x", "y", "t", "flag", "name", "count", "m%d", "long_member_name_%d", "é"]


def rand_compound(rng, spec_safe=False, string_last=True):
    """a compound record type with 1-5 members of numeric / fixed-string types at packed or padded offsets.
    string_last: at most one string member, placed last (a string member followed by another member is the open finding
    C11-compound-member-extent).  spec_safe (C05): floating-point member types are built through EncodeDatatypeMessage (the
    listed private property layout) instead of CreateBasicDatatypeMessage."""
    n = rng.choice([1, 2, 2, 3, 3, 4, 5])
    types = [rng.choice(NUM_TYPES + (["string"] if not string_last else [])) for _ in range(n)]
    if string_last and rng.random() < 0.35:
        types[-1] = "string"
    names, members = set(), []
    padded = rng.random() < 0.45
    off = 0
    for i, t in enumerate(types):
        nm = rng.choice(MEMBER_NAMES)
        nm = nm % i if "%d" in nm else nm
        while nm in names:
            nm += str(i)
        names.add(nm)
        size = rng.choice([1, 3, 8, 9]) if t == "string" else ESZ[t]
        if padded:
            off += rng.choice([0, 0, 1, 3, (-off) % max(1, min(size, 8))])
        m = {"name": nm, "type": t, "off": off}
        if t == "string":
            m["size"] = size
        if spec_safe and t.startswith("float"):
            m["via"] = "encode"
        members.append(m)
        off += size
    csize = off + (rng.choice([0, 0, 1, 4]) if padded else 0)
    enc = rng.choice(["v3", "v3", "v1"]) if padded else rng.choice(["fields", "fields", "v3", "v1"])
    return {"members": members, "csize": csize, "enc": enc}


def rand_compound_data(rng, comp, n, unsigned_high=False):
    """n records; padding bytes are random too (the bytes of a record are preserved as a whole).
    unsigned_high=False: uint32 / uint64 members stay below 2^31 / 2^63 (ReadCompound returns them as int32 / int64: proposed
    KNOWN-FINDING C01-compound-unsigned-as-signed, re-confirmed separately by C01)"""
    out = bytearray(rng.getrandbits(8) for _ in range(n * comp["csize"]))
    for i in range(n):
        for m in comp["members"]:
            if m["type"] == "string":
                ln = rng.choice([0, 1, m["size"] - 1, m["size"]])
                b = bytes(rng.randint(1, 255) for _ in range(max(0, ln))).ljust(m["size"], b"\x00")
            else:
                b = rand_data(rng, m["type"], 1)
                if m["type"] in ("uint32", "uint64") and not unsigned_high:
                    b = b[:-1] + bytes([b[-1] & 0x7F])
            o = i * comp["csize"] + m["off"]
            out[o:o + len(b)] = b
    return bytes(out)


def rand_ext_kind(rng, spec_safe=False, vlen=True):
    """creation fields of one dataset of an extended kind (everything CreateDataset accepts beyond scalars / strings)"""
    k = rng.choice(["array", "array", "enum", "enum", "opaque", "objref", "regref"] + (["vlen"] if vlen else []))
    if k == "array":
        base = rng.choice(NUM_TYPES)
        return {"dtype": "array:" + base, "adims": rng.choice([[1], [2], [3], [2, 2], [3, 2], [2, 1, 2], [5]])}
    if k == "enum":
        base = rng.choice(ENUM_BASES)
        n = rng.choice([1, 2, 3, 5, 8]) if not spec_safe else rng.choice([2, 3, 5, 8])
        pool = ["RED", "GREEN", "BLUE", "A", "B", "OFF", "ON", "state_%d", "a_rather_long_enumeration_member_name_%d", "SEVENCH", "x"]
        names = []
        for i in range(n):
            nm = rng.choice(pool)
            nm = nm % i if "%d" in nm else nm
            while nm in names or (spec_safe and i == 0 and len(nm) % 8 == 7):
                nm += str(i)
            names.append(nm)
        lo, hi = (-(2 ** (8 * ESZ[base] - 1)), 2 ** (8 * ESZ[base] - 1) - 1) if base.startswith("int") else (0, 2 ** (8 * ESZ[base]) - 1)
        hi = min(hi, 2 ** 63 - 1)
        vals = rng.sample(range(max(lo, -100), min(hi, 100) + 1), n) if rng.random() < 0.6 else \
            list({rng.choice([lo, hi, 0, 1, rng.randint(lo, hi)]) for _ in range(n * 3)})[:n]
        while len(vals) < n:
            vals.append(rng.randint(lo, hi))
        rng.shuffle(vals)
        return {"dtype": "enum:" + base, "enames": names, "evals": vals}
    if k == "opaque":
        return {"dtype": "opaque", "strsize": rng.choice([1, 3, 8, 16]), "tag": rng.choice(["verif", "t", "JPEG image", "exactly8", "a tag that is longer than sixteen bytes"])}
    if k == "vlen":
        return {"dtype": "vlen:" + rng.choice(VLEN_BASES)}
    return {"dtype": k}


def elem_size(d):
    from histlib import esize_of
    return esize_of(d["dtype"], d.get("strsize", 0), d.get("adims"), d.get("csize", 0))


def write_op(rng, p, d, n=None):
    """a full write of dataset p (dict from the generators: dtype, dims, strsize, adims, evals, comp) with n elements (default: all)"""
    n = prod(d["dims"]) if n is None else n
    dt = d["dtype"]
    if dt in ESZ or dt == "string":
        return {"op": "write", "path": p, "val": rand_data(rng, dt, n, d.get("strsize", 0)).hex()}
    if dt == "compound":
        return {"op": "write", "path": p, "raw": True, "val": rand_compound_data(rng, d["comp"], n).hex()}
    if dt.startswith("vlen:"):
        b = dt[5:]
        w = 1 if b == "string" else ESZ[b]
        vals = []
        for _ in range(n):
            ln = rng.choice([0, 1, 2, 3, 7, 8, 9, rng.randint(0, 30)])
            vals.append((bytes(rng.randint(1, 255) for _ in range(ln)) if b == "string" else bytes(rng.getrandbits(8) for _ in range(ln * w))).hex())
        return {"op": "write", "path": p, "dtype": dt, "vals": vals}
    if dt.startswith("array:"):
        base = dt[6:]
        raw = rand_data(rng, base, n * prod(d["adims"]))
    elif dt.startswith("enum:"):
        base = dt[5:]
        m = (1 << (8 * ESZ[base])) - 1
        ev = [v & m for v in d["evals"]]
        raw = b"".join((rng.choice(ev) if rng.random() < 0.9 else rng.getrandbits(8 * ESZ[base])).to_bytes(ESZ[base], "little") for _ in range(n))
    else:       # opaque, objref, regref: uninterpreted bytes
        raw = bytes(rng.getrandbits(8) for _ in range(n * elem_size(d)))
    op = {"op": "write", "path": p, "val": raw.hex()}
    if dt in ("regref", "opaque") or rng.random() < 0.4:
        op["raw"] = True        # WriteRaw; the typed Write takes a slice of the base type (arrays, enums, object references)
    if dt == "opaque" and rng.random() < 0.5:
        op.pop("raw")           # Write([]byte) is the typed write of opaque data
    return op


def _mk_kind(rng, ops, dsets, p, kind, spec_safe=False):
    """append the creation (and usually a full write) of one object of the given kind at path p"""
    dims = [rng.choice([1, 2, 3, 4])]
    d = None
    if kind == "plain":
        dt = rng.choice(NUM_TYPES)
        d = dict(dtype=dt, dims=dims)
        ops.append({"op": "mkds", "path": p, "dtype": dt, "dims": dims})
    elif kind == "string":
        d = dict(dtype="string", dims=dims, strsize=4)
        ops.append({"op": "mkds", "path": p, "dtype": "string", "dims": dims, "strsize": 4})
    elif kind == "chunked":
        dt = rng.choice(NUM_TYPES)
        d = dict(dtype=dt, dims=dims, chunk=[1])
        ops.append({"op": "mkds", "path": p, "dtype": dt, "dims": dims, "chunk": [1]})
    elif kind == "compound":
        comp = rand_compound(rng, spec_safe)
        d = dict(dtype="compound", dims=dims, comp=comp, csize=comp["csize"])
        ops.append(dict({"op": "mkcompound", "path": p, "dims": dims}, **comp))
    elif kind in ("array", "enum", "opaque", "objref", "regref", "vlen"):
        while True:
            f = rand_ext_kind(rng, spec_safe)
            if f["dtype"].split(":")[0] == kind:
                break
        d = dict(f, dims=dims)
        ops.append(dict({"op": "mkds", "path": p, "dims": dims}, **f))
    elif kind == "group":
        ops.append({"op": "mkgroup", "path": p})
    elif kind == "dense":
        ops.append({"op": "mkdense", "path": p, "links": {"l%d" % i: q for i, q in enumerate(list(dsets)[:rng.choice([0, 1, 2])])}})
    elif kind == "softlink":
        ops.append({"op": "softlink", "path": p, "target": "/d0"})
    if d is not None:
        dsets[p] = d
        if rng.random() < 0.9:
            ops.append(write_op(rng, p, d))


def gen_grow_with_neighbour(rng, spec_safe=False, dense=True, attrs=True):
    """One object X of each kind in turn (plain / string / chunked / compound / array / enum / opaque / reference / vlen dataset,
    group, dense group, group created with > 8 links, soft-link object) is created, then a NEIGHBOUR Y is allocated right behind
    it (a written dataset, sometimes a group), then X's object header is made to grow in the same session: first hard link to X
    (adds the reference count message) and / or attribute writes on X (up to the dense transition).  Y and every other object
    must be unchanged after reopen and the file must open.  Added after a sweep at another seed found that CreateDenseGroup
    allocated its header at the exact size (/repo 18bfe7a)."""
    ops, dsets = [], {}
    mk = lambda p, kind: _mk_kind(rng, ops, dsets, p, kind, spec_safe)
    mk("/d0", rng.choice(["plain", "chunked"]))
    kinds = ["plain", "string", "chunked", "compound", "array", "enum", "opaque", "objref", "vlen", "group", "glinks"] + (["dense", "dense"] if dense else [])
    kind = rng.choice(kinds)
    if kind == "glinks":
        ops.append({"op": "mkgrouplinks", "path": "/x", "links": {"m%d" % i: "/d0" for i in range(rng.choice([9, 12]))} if dense else {}})
    else:
        mk("/x", kind)
    if rng.random() < 0.3:
        ops.append({"op": "mkgroup", "path": "/yg"})
    mk("/y", rng.choice(["plain", "plain", "string", "chunked"]))
    grow = rng.choice(["link", "link", "attrs", "both"]) if attrs and kind not in ("softlink",) else "link"
    if grow in ("link", "both"):
        ops.append({"op": "hardlink", "path": "/xl", "target": "/x"})
        if rng.random() < 0.3:
            ops.append({"op": "hardlink", "path": "/xl2", "target": "/x"})
    if grow in ("attrs", "both"):
        for j in range(rng.choice([1, 3, 9, 12])):
            k, v = rand_attr_value(rng)
            ops.append({"op": "setattr", "path": "/x", "name": ("a%02d" % j).encode().hex(), "kind": k, "val": v.hex()})
    if rng.random() < 0.5:
        mk("/z", rng.choice(["plain", "group"]))
    return ops


def gen_tail_kind(rng, spec_safe=False, dense=True):
    """Multi-session histories in which the LAST object allocated in the creating session is of each kind in turn (plain /
    chunked / compound / array / enum / opaque / reference / variable-length dataset, group, dense group, soft link), and later
    sessions (a) move ANOTHER dataset to dense attribute storage (the first allocation of that session), (b) grow the header of the
    last object, (c) touch the others.  C10: the allocator of a session is seeded from the file size, so whatever was reserved
    last must still be owned (added after seeded change C10-c was missed)."""
    ops, dsets = [], {}
    mk = lambda p, kind: _mk_kind(rng, ops, dsets, p, kind, spec_safe)
    kinds = ["plain", "string", "chunked", "compound", "compound", "compound", "array", "enum", "opaque", "objref", "regref", "vlen", "group"] + (["dense"] if dense else [])
    for i in range(rng.choice([1, 2, 3])):
        mk("/d%d" % i, rng.choice(["plain", "plain", "chunked", "compound", "array", "enum"]))
        for j in range(rng.choice([0, 0, 2, 6])):
            k, v = rand_attr_value(rng)
            ops.append({"op": "setattr", "path": "/d%d" % i, "name": hx("p%d" % j), "kind": k, "val": v.hex()})
    last_kind = rng.choice(kinds)
    mk("/last", last_kind)
    others = [p for p in dsets if p != "/last"]
    plan = ["dense_other", "attr_last", "attr_other"] if rng.random() < 0.5 else [rng.choice(["dense_other", "attr_last", "attr_other", "write", "dense_last", "noop"]) for _ in range(rng.choice([2, 3, 4]))]
    for act in plan:
        ops += [{"op": "close"}, {"op": "dump"}, {"op": "reopen"}]
        if act == "dense_other" and others:
            p = rng.choice(others)
            for j in range(rng.choice([9, 10, 12])):
                k, v = rand_attr_value(rng)
                ops.append({"op": "setattr", "path": p, "name": hx("a%02d" % j), "kind": k, "val": v.hex()})
        elif act in ("attr_last", "dense_last") and "/last" in dsets:
            for j in range(1 if act == "attr_last" else 10):
                k, v = rand_attr_value(rng)
                ops.append({"op": "setattr", "path": "/last", "name": hx(rng.choice(["note", "n%d" % j, "zz"]) if act == "attr_last" else "L%02d" % j), "kind": k, "val": v.hex()})
        elif act == "attr_other" and others:
            k, v = rand_attr_value(rng)
            ops.append({"op": "setattr", "path": rng.choice(others), "name": hx(rng.choice(["extra", "a00", "p0"])), "kind": k, "val": v.hex()})
        elif act == "write" and dsets:
            p = rng.choice(list(dsets))
            w = write_op(rng, p, dsets[p])
            if "vals" not in w:
                w["raw"] = True         # handles of a later session: WriteRaw works for every contiguous dataset
            ops.append(w)
    ops += [{"op": "close"}, {"op": "dump"}]
    return ops


ATTR_KINDS = ["i8", "i16", "i32", "i64", "u8", "u16", "u32", "u64", "f32", "f64", "str", "[]i32", "[]i64", "[]f32", "[]f64"]
KSZ = {"i8": 1, "i16": 2, "i32": 4, "i64": 8, "u8": 1, "u16": 2, "u32": 4, "u64": 8, "f32": 4, "f64": 8,
       "[]i32": 4, "[]i64": 8, "[]f32": 4, "[]f64": 8}


def rand_attr_value(rng, big=False):
    k = rng.choice(ATTR_KINDS)
    if k == "str":
        ln = rng.choice([0, 1, 3, 8, 20, 60] + ([150, 230] if big else []))
        return k, bytes(rng.randint(1, 255) for _ in range(ln))   # no embedded NUL: Go strings keep them, HDF5 strings end there
    if k.startswith("[]"):
        n = rng.choice([1, 2, 3, 5, 10] + ([25, 40] if big else []))
        return k, bytes(rng.getrandbits(8) for _ in range(n * KSZ[k]))
    return k, bytes(rng.getrandbits(8) for _ in range(KSZ[k]))


def name_pool(rng, n, long_names=False):
    base = ["a", "b", "units", "scale", "x1", "x2", "long_attribute_name_%d", "ünï", "n%d", "attr_%d", "k", "kk", "kkk"]
    out = []
    for i in range(n):
        t = rng.choice(base)
        nm = (t % i) if "%d" in t else t + (str(i) if rng.random() < 0.5 else "")
        if long_names and rng.random() < 0.15:
            nm = nm + "_" * rng.choice([40, 100, 200])
        out.append(nm)
    return sorted(set(out))


def gen_mixed(rng, nops=40, sessions=1, fail_rate=0.15, big_groups=False, resize=True, links=True, attrs=True, group_links=False, soft_links=False, shrink_grow=False, handles=0.0,
              ext=True, dense=True, spec_safe=False):
    """A random multi-object history: groups (nested), datasets (all layouts), writes, attributes, hard/soft links,
    resizes, duplicate / missing-parent / invalid requests, optional close/reopen sessions.
    handles > 0: in reopened sessions a dataset path is opened again with OpenDataset now and then ("opends") and the
    dataset operations pick one of the handles obtained so far ("h"): several live handles on one object.
    ext: about a third of the datasets are of the extended kinds (compound through CreateCompoundDataset; array, enum, opaque with
    random tags, object / region reference, variable-length through CreateDataset); dense: groups are now and then created through
    CreateDenseGroup (links to existing datasets) / CreateGroupWithLinks; spec_safe: see rand_compound / rand_ext_kind (C05)."""
    ops = []
    groups = ["/"]
    dsets = {}      # path -> dict(dtype, dims, maxdims, chunk, strsize)
    names = ["a", "b", "c", "d1", "d2", "grp", "x", "y", "data", "sub", "n%d"]
    sess_ops = max(3, nops // sessions)
    cur_session = 0
    leafgroups = []     # groups made by CreateDenseGroup / CreateGroupWithLinks
    def newpath():
        parent = rng.choice(groups)
        nm = rng.choice(names)
        if "%d" in nm:
            nm = nm % rng.randint(0, 99)
        if big_groups or rng.random() < 0.1:
            nm = nm + "_" * rng.choice([0, 5, 20, 60])
        return (parent.rstrip("/") + "/" + nm), parent
    i = 0
    while i < nops:
        i += 1
        if sessions > 1 and i % sess_ops == 0 and cur_session < sessions - 1:
            ops.append({"op": "close"})
            ops.append({"op": "dump"})
            ops.append({"op": "reopen"})
            cur_session += 1
            continue
        if handles and cur_session > 0 and dsets and rng.random() < handles:
            ops.append({"op": "opends", "path": rng.choice(list(dsets))})
            continue
        r = rng.random()
        if r < fail_rate:
            # an operation chosen to fail
            k = rng.choice(["dup", "noparent", "badpath", "delabsent", "badsize", "badresize", "zerodim", "linknotarget"] + (["badtype", "badgroup"] if ext else []))
            if k == "dup" and (len(groups) > 1 or dsets):
                p = rng.choice([g for g in groups if g != "/"] + list(dsets))
                ops.append(rng.choice([{"op": "mkgroup", "path": p}, {"op": "mkds", "path": p, "dtype": "int32", "dims": [2]},
                                       {"op": "hardlink", "path": p, "target": p}]))
            elif k == "noparent":
                ops.append(rng.choice([{"op": "mkgroup", "path": "/nope%d/g" % rng.randint(0, 9)},
                                       {"op": "mkds", "path": "/nope%d/d" % rng.randint(0, 9), "dtype": "float64", "dims": [3]},
                                       {"op": "hardlink", "path": "/nope/l", "target": rng.choice(list(dsets) or ["/"])}]))
            elif k == "badpath":
                ops.append(rng.choice([{"op": "mkgroup", "path": ""}, {"op": "mkgroup", "path": "rel"}, {"op": "mkds", "path": "", "dtype": "int32", "dims": [1]},
                                       {"op": "mkds", "path": "nodash", "dtype": "int32", "dims": [1]}, {"op": "mkgroup", "path": "/"}]))
            elif k == "delabsent" and dsets:
                ops.append({"op": "delattr", "path": rng.choice(list(dsets)), "name": hx("never_written")})
            elif k == "badsize" and dsets:
                p = rng.choice(list(dsets)); d = dsets[p]
                if d["dtype"] != "string":
                    n = prod(d["dims"]) + rng.choice([-1, 1, 3])
                    ops.append(write_op(rng, p, d, max(0, n)))
            elif k == "badtype":
                p, _ = newpath()
                comp = rand_compound(rng, spec_safe)
                ops.append(rng.choice([
                    {"op": "mkcompound", "path": p + "q", "dims": [2], "members": [], "csize": 4, "enc": "v3"},
                    dict({"op": "mkcompound", "path": p + "q", "dims": [0]}, **comp),
                    dict({"op": "mkcompound", "path": "/nope/c", "dims": [2]}, **comp),
                    dict({"op": "mkcompound", "path": p + "q", "dims": [4], "chunk": [2]}, **comp),      # chunked compound: the API refuses
                    {"op": "mkds", "path": p + "q", "dtype": "array:int32", "dims": [2]},
                    {"op": "mkds", "path": p + "q", "dtype": "enum:int8", "dims": [2], "enames": ["A", "B"], "evals": [1]},
                    {"op": "mkds", "path": p + "q", "dtype": "enum:uint16", "dims": [2]},
                    {"op": "mkds", "path": p + "q", "dtype": "opaque", "dims": [2], "strsize": 0, "tag": "t"}]))
                if ops[-1].get("chunk") and ops[-1]["op"] == "mkcompound":
                    pass        # if the library ever accepts it the oracle follows; the generator does not use the path again
            elif k == "badgroup":
                p, _ = newpath()
                tgt = rng.choice(list(dsets)) if dsets else "/"
                ops.append(rng.choice([
                    {"op": "mkdense", "path": p + "g", "links": {"a": "/does/not/exist"}},
                    {"op": "mkdense", "path": "/nope%d/g" % rng.randint(0, 9), "links": {}},
                    {"op": "mkdense", "path": rng.choice([g for g in groups if g != "/"] + list(dsets) + ["relative"]), "links": {}},
                    {"op": "mkgrouplinks", "path": p + "g", "links": {"l%d" % i: tgt for i in range(rng.choice([1, 2, 8]))}},   # refused for 1..8 links: must leave nothing behind
                    {"op": "mkgrouplinks", "path": p + "g", "links": {"l%d" % i: "/missing" for i in range(9)}}]))
            elif k == "badresize" and dsets:
                p = rng.choice(list(dsets)); d = dsets[p]
                if d["maxdims"] is None:
                    ops.append({"op": "resize", "path": p, "dims": d["dims"]})
                elif rng.random() < 0.35:       # a zero extent in one dimension: must be refused and change nothing
                    nd = list(d["dims"]); z = rng.randrange(len(nd)); nd[z] = 0
                    if rng.random() < 0.6:          # ... while the OTHER dimensions ask for another chunk grid (within the maximum): a refusal
                        for i in range(len(nd)):    # that has already touched the handle's chunk bookkeeping shows in the next Write (seeded C16-e)
                            if i != z:
                                m = d["maxdims"][i]
                                nd[i] = rng.choice([1, max(1, d["dims"][i] // 2), d["dims"][i] * 2, d["dims"][i] + 7])
                                if m != UNLIMITED:
                                    nd[i] = max(1, min(nd[i], m))
                    ops.append({"op": "resize", "path": p, "dims": nd})
                    if rng.random() < 0.7:
                        ops.append(write_op(rng, p, d))
                else:
                    nd = [(m + 1 if m != UNLIMITED else 5) for m in d["maxdims"]]
                    if any(m != UNLIMITED for m in d["maxdims"]):
                        ops.append({"op": "resize", "path": p, "dims": nd})
                    else:
                        ops.append({"op": "resize", "path": p, "dims": d["dims"] + [1]})
            elif k == "zerodim":
                p, _ = newpath()
                ops.append({"op": "mkds", "path": p + "z", "dtype": "int32", "dims": rng.choice([[0], [], [2, 0]])})
            elif k == "linknotarget":
                ops.append({"op": "hardlink", "path": "/l%d" % rng.randint(0, 99), "target": "/does/not/exist"})
            continue
        if r < 0.25 and cur_session == 0:
            p, parent = newpath()
            if dense and rng.random() < 0.06 and p not in groups and p not in dsets:
                # a group created together with its links; nothing can be created inside it afterwards (not registered as a parent)
                tg = list(dsets)
                nl = rng.choice([0, 1, 2, 3]) if rng.random() < 0.8 else rng.choice([9, 12])
                lk = {"k%d" % i: rng.choice(tg) for i in range(nl)} if tg else {}
                ops.append({"op": "mkdense" if (lk and len(lk) <= 8) or rng.random() < 0.5 else "mkgrouplinks", "path": p, "links": lk})
                leafgroups.append(p)
                continue
            ops.append({"op": "mkgroup", "path": p})
            if p not in groups and p not in dsets and p not in leafgroups:
                groups.append(p)
        elif r < 0.45 and cur_session == 0:
            p, parent = newpath()
            if ext and rng.random() < 0.35 and p not in leafgroups:
                dims = rand_shape(rng, maxrank=2, maxelems=40)
                if rng.random() < 0.45:
                    comp = rand_compound(rng, spec_safe)
                    op = dict({"op": "mkcompound", "path": p, "dims": dims}, **comp)
                    d = dict(dtype="compound", dims=list(dims), maxdims=None, chunk=None, strsize=0, comp=comp, csize=comp["csize"])
                else:
                    f = rand_ext_kind(rng, spec_safe)
                    op = dict({"op": "mkds", "path": p, "dims": dims}, **f)
                    if rng.random() < 0.3:
                        op["chunk"] = [max(1, min(x, rng.choice([1, 2, 3, x]))) for x in dims]
                        if resize and rng.random() < 0.4 and not f["dtype"].startswith("vlen:"):
                            op["maxdims"] = [rng.choice([UNLIMITED, x, x + rng.choice([1, 4])]) for x in dims]
                    d = dict(f, dims=list(dims), maxdims=op.get("maxdims"), chunk=op.get("chunk"))
                    d.setdefault("strsize", 0)
                ops.append(op)
                if p not in dsets and p not in groups:
                    dsets[p] = d
                    if rng.random() < 0.8:
                        ops.append(write_op(rng, p, d))
                continue
            dt = rng.choice(list(ESZ) + ["string"])
            dims = rand_shape(rng, maxrank=3, maxelems=200)
            op = {"op": "mkds", "path": p, "dtype": dt, "dims": dims}
            if dt == "string":
                op["strsize"] = rng.choice([1, 4, 9])
            rs = resize and rng.random() < 0.4 and dt != "string"
            if rs or rng.random() < 0.4:
                op["chunk"] = [max(1, min(d, rng.choice([1, 2, 3, 4, d]))) for d in dims]
            if rs:
                op["maxdims"] = [rng.choice([UNLIMITED, d, d + rng.choice([1, 4, 9])]) for d in dims]
            ops.append(op)
            if p not in dsets and p not in groups and p not in leafgroups:
                dsets[p] = dict(dtype=dt, dims=list(dims), maxdims=op.get("maxdims"), chunk=op.get("chunk"), strsize=op.get("strsize", 0))
                if rng.random() < 0.8:
                    ops.append({"op": "write", "path": p, "val": rand_data(rng, dt, prod(dims), op.get("strsize", 0)).hex()})
        elif r < 0.55 and dsets:
            p = rng.choice(list(dsets)); d = dsets[p]
            ops.append(write_op(rng, p, d))
            d["low"] = [False] * len(d["dims"])
        elif r < 0.80 and attrs and (dsets or len(groups) > 1):
            cands = list(dsets) + ([g for g in groups if g != "/"] if cur_session == 0 else [])
            if not cands:
                continue
            p = rng.choice(cands)
            nm = rng.choice(["u", "v", "w", "name_%d" % rng.randint(0, 12), "scale", "k" * rng.choice([1, 30, 90])])
            if ext and rng.random() < 0.04:     # explicit rebalancing calls (file level and per dataset): no logical effect
                ops.append(rng.choice([{"op": "rebalance", "kind": "disable"}, {"op": "rebalance", "kind": "enable"}, {"op": "rebalance"},
                                       {"op": "rebalance", "path": p if p in dsets else (rng.choice(list(dsets)) if dsets else "/absent")}]))
            elif p in dsets and rng.random() < 0.25:
                ops.append({"op": "delattr", "path": p, "name": hx(nm)})
            else:
                k, v = rand_attr_value(rng, big=rng.random() < 0.15)
                ops.append({"op": "setattr", "path": p, "name": hx(nm), "kind": k, "val": v.hex()})
        elif r < 0.88 and links and cur_session == 0 and (dsets or (group_links and len(groups) > 1)):
            tgt = rng.choice(list(dsets) + ([g for g in groups if g != "/"] if group_links else []))
            p, parent = newpath()
            kind = rng.choice(["hardlink"] * 4 + (["softlink"] if soft_links else ["hardlink"]))
            ops.append({"op": kind, "path": p + "_l", "target": tgt})
        elif r < 0.96 and resize and dsets:
            cands = [p for p in dsets if dsets[p]["maxdims"] is not None]
            if cands:
                p = rng.choice(cands); d = dsets[p]
                nd = []
                for cur, m, shrunk in zip(d["dims"], d["maxdims"], d.setdefault("low", [False] * len(d["dims"]))):
                    hi = min(cur + 6, m) if m != UNLIMITED else cur + 6
                    # growing a dimension again after it was shrunk (without a full rewrite in between)
                    # exposes stale data (KNOWN-FINDING C13-shrink-then-grow): only with shrink_grow=True
                    lo_hi = hi if (shrink_grow or not shrunk) else cur
                    nd.append(rng.randint(1, max(1, lo_hi)))
                will_write = rng.random() < 0.5
                ops.append({"op": "resize", "path": p, "dims": nd})
                d["low"] = [s or (b < a) for s, a, b in zip(d["low"], d["dims"], nd)]
                # the generator assumes success (within max); later writes use the new shape
                for q in dsets:
                    if dsets[q] is d:
                        pass
                d["dims"] = nd
                if will_write:
                    ops.append(write_op(rng, p, d))
                    d["low"] = [False] * len(nd)
        else:
            if rng.random() < 0.3:
                ops.append({"op": "close"})
                ops.append({"op": "close"})
                if rng.random() < 0.5 and dsets:
                    p = rng.choice(list(dsets)); d = dsets[p]
                    ops.append(write_op(rng, p, d))
                    ops.append({"op": "mkgroup", "path": "/afterclose"})
                break
    if handles:
        sess = 0
        for o in ops:
            if o["op"] == "reopen":
                sess += 1
            elif sess > 0 and o["op"] in ("write", "setattr", "delattr") and o.get("path") in dsets and rng.random() < 0.6:
                o["h"] = rng.randint(0, 3)
    return ops


def gen_handles(rng, nsess=2, nops=24):
    """Attribute / data histories on a few datasets where, inside each reopened session, the same dataset path is opened
    several times (opends) and the operations alternate between the handles obtained so far: every handle must see what
    the others did, and nothing done through one handle may be undone by another (C10, C02, C16)."""
    ops = []
    paths = ["/d%d" % i for i in range(rng.choice([1, 2, 3]))]
    names = ["a", "b", "c", "x", "y", "z"] + ["k%d" % i for i in range(rng.choice([0, 6, 10]))]
    present = {p: set() for p in paths}
    for p in paths:
        ops.append({"op": "mkds", "path": p, "dtype": "int32", "dims": [4]})
        ops.append({"op": "write", "path": p, "val": rand_data(rng, "int32", 4).hex()})
        for nm in rng.sample(names, rng.choice([0, 2, 5, min(9, len(names))])):
            k, v = rand_attr_value(rng)
            ops.append({"op": "setattr", "path": p, "name": hx(nm), "kind": k, "val": v.hex()})
            present[p].add(nm)
    for _ in range(nsess):
        ops += [{"op": "close"}, {"op": "dump"}, {"op": "reopen"}]
        opened = {p: 0 for p in paths}
        for _ in range(nops):
            p = rng.choice(paths)
            r = rng.random()
            if opened[p] == 0 or r < 0.2:
                ops.append({"op": "opends", "path": p})
                opened[p] += 1
                continue
            hsel = rng.choice([opened[p] - 1, opened[p] - 1, rng.randrange(opened[p])])
            if r < 0.35 and present[p]:
                nm = rng.choice(sorted(present[p]))
                ops.append({"op": "delattr", "path": p, "name": hx(nm), "h": hsel})
                present[p].discard(nm)
            elif r < 0.45:
                ops.append({"op": "write", "path": p, "dtype": "int32", "val": rand_data(rng, "int32", 4).hex(), "h": hsel})
            else:
                nm = rng.choice(names)
                k, v = rand_attr_value(rng, big=rng.random() < 0.1)
                ops.append({"op": "setattr", "path": p, "name": hx(nm), "kind": k, "val": v.hex(), "h": hsel})
                present[p].add(nm)      # (if the call is refused the oracle follows the implementation)
    ops += [{"op": "close"}, {"op": "dump"}]
    return ops
