"""Field locator for C07: turns the extent map of the independent format walker (tools/h5spec.py) into the list
of size / count / address / version / flag fields of a file, by decoding each visited structure from the HDF5
File Format Specification (nothing here is derived from the Go reader).

fields(walk_result) -> list of dict(off=file offset, w=width in bytes, name="ohdr1.hsize", cat="size|count|address|version|flags|type")

Only fields that lie wholly inside the file are returned.  Raw data extents (chunk, contiguous-data, lheap-data) have no
fields; they get random byte mutations from the generator.
"""


def _u(b, off, w):
    return int.from_bytes(b[off:off + w], "little")


class _F:
    def __init__(self, data, O, L):
        self.b, self.n, self.O, self.L = data, len(data), O, L
        self.out = []
        self.seen = set()

    def add(self, off, w, name, cat):
        if w <= 0 or off < 0 or off + w > self.n or (off, w) in self.seen:
            return
        self.seen.add((off, w))
        self.out.append(dict(off=off, w=w, name=name, cat=cat))

    # ---------------------------------------------------------------- superblock
    def superblock(self, s, e):
        b, O = self.b, self.O
        v = b[8]
        self.add(8, 1, "sb.version", "version")
        if v in (0, 1):
            for off, nm in ((9, "sb.fsversion"), (10, "sb.rootversion"), (12, "sb.shmversion")):
                self.add(off, 1, nm, "version")
            self.add(13, 1, "sb.offsize", "size")
            self.add(14, 1, "sb.lensize", "size")
            self.add(16, 2, "sb.leafK", "count")
            self.add(18, 2, "sb.intK", "count")
            self.add(20, 4, "sb.flags", "flags")
            p = 24
            if v == 1:
                self.add(24, 2, "sb.istoreK", "count")
                p = 28
            for i, nm in enumerate(("base", "fsinfo", "eof", "driver")):
                self.add(p + i * O, O, "sb." + nm, "address")
            self.sym_entry(p + 4 * O, "sb.root")
        else:
            self.add(9, 1, "sb.offsize", "size")
            self.add(10, 1, "sb.lensize", "size")
            self.add(11, 1, "sb.flags", "flags")
            for i, nm in enumerate(("base", "ext", "eof", "root")):
                self.add(12 + i * O, O, "sb." + nm, "address")
            self.add(12 + 4 * O, 4, "sb.checksum", "flags")

    def sym_entry(self, p, pre):
        O = self.O
        self.add(p, O, pre + ".nameoff", "address")
        self.add(p + O, O, pre + ".obj", "address")
        self.add(p + 2 * O, 4, pre + ".cache", "type")
        sp = p + 2 * O + 8
        self.add(sp, O, pre + ".scratch.btree", "address")
        self.add(sp + O, O, pre + ".scratch.heap", "address")

    # ---------------------------------------------------------------- object headers
    def ohdr1(self, s, e, cont=False):
        b = self.b
        p = s
        if not cont:
            self.add(s, 1, "ohdr1.version", "version")
            self.add(s + 1, 1, "ohdr1.reserved", "flags")
            self.add(s + 2, 2, "ohdr1.nmsgs", "count")
            self.add(s + 4, 4, "ohdr1.refcount", "count")
            self.add(s + 8, 4, "ohdr1.hsize", "size")
            p = s + 16
        while p + 8 <= e:
            t, sz = _u(b, p, 2), _u(b, p + 2, 2)
            self.add(p, 2, "ohdr1.msg.type", "type")
            self.add(p + 2, 2, "ohdr1.msg.size", "size")
            self.add(p + 4, 1, "ohdr1.msg.flags", "flags")
            if p + 8 + sz > e:
                break
            self.message(t, p + 8, sz, v1pad=True)
            p += 8 + sz

    def ohdr2(self, s, e, cont=False):
        b = self.b
        if not cont:
            self.add(s + 4, 1, "ohdr2.version", "version")
            self.add(s + 5, 1, "ohdr2.flags", "flags")
            fl = b[s + 5]
            self._o2flags = fl
            p = s + 6
            if fl & 0x20:
                p += 16
            if fl & 0x10:
                self.add(p, 2, "ohdr2.maxcompact", "count")
                self.add(p + 2, 2, "ohdr2.mindense", "count")
                p += 4
            w = 1 << (fl & 3)
            self.add(p, w, "ohdr2.chunk0size", "size")
            end = p + w + _u(b, p, w)
            p += w
        else:
            fl = getattr(self, "_o2flags", 0)
            p = s + 4
            end = e
        end = min(end, e)
        mh = 4 + (2 if fl & 4 else 0)
        while p + mh <= end:
            t, sz = b[p], _u(b, p + 1, 2)
            self.add(p, 1, "ohdr2.msg.type", "type")
            self.add(p + 1, 2, "ohdr2.msg.size", "size")
            self.add(p + 3, 1, "ohdr2.msg.flags", "flags")
            if p + mh + sz > end:
                break
            if t == 0 and sz == 0:
                break
            self.message(t, p + mh, sz, v1pad=False)
            p += mh + sz
        if p + 4 <= e:
            self.add(e - 4, 4, "ohdr2.checksum", "flags")

    def message(self, t, p, sz, v1pad):
        b, O, L = self.b, self.O, self.L
        e = p + sz
        if t == 0x01:
            self.dataspace(p, e, "msg.dataspace")
        elif t == 0x03:
            self.datatype(p, e, "msg.datatype")
        elif t == 0x04:
            self.add(p, 4, "msg.fillold.size", "size")
        elif t == 0x05:
            v = b[p] if p < e else 0
            self.add(p, 1, "msg.fill.version", "version")
            if v in (1, 2):
                self.add(p + 1, 1, "msg.fill.alloctime", "flags")
                self.add(p + 2, 1, "msg.fill.writetime", "flags")
                self.add(p + 3, 1, "msg.fill.defined", "flags")
                if p + 8 <= e:
                    self.add(p + 4, 4, "msg.fill.size", "size")
            elif v == 3:
                self.add(p + 1, 1, "msg.fill.flags", "flags")
                if p + 6 <= e:
                    self.add(p + 2, 4, "msg.fill.size", "size")
        elif t == 0x06:
            self.link(p, e)
        elif t == 0x08:
            self.layout(p, e)
        elif t == 0x0A:
            self.add(p, 1, "msg.ginfo.version", "version")
            self.add(p + 1, 1, "msg.ginfo.flags", "flags")
        elif t == 0x0B:
            self.pipeline(p, e)
        elif t == 0x0C:
            self.attribute(p, e, v1pad)
        elif t == 0x10:
            self.add(p, O, "msg.cont.addr", "address")
            self.add(p + O, L, "msg.cont.len", "size")
        elif t == 0x11:
            self.add(p, O, "msg.symtab.btree", "address")
            self.add(p + O, O, "msg.symtab.heap", "address")
        elif t == 0x02:
            self.add(p, 1, "msg.linkinfo.version", "version")
            self.add(p + 1, 1, "msg.linkinfo.flags", "flags")
            fl = b[p + 1] if p + 1 < e else 0
            q = p + 2
            if fl & 1:
                self.add(q, 8, "msg.linkinfo.maxcorder", "count")
                q += 8
            self.add(q, O, "msg.linkinfo.heap", "address")
            self.add(q + O, O, "msg.linkinfo.btname", "address")
            if fl & 2:
                self.add(q + 2 * O, O, "msg.linkinfo.btorder", "address")
        elif t == 0x15:
            self.add(p, 1, "msg.attrinfo.version", "version")
            self.add(p + 1, 1, "msg.attrinfo.flags", "flags")
            fl = b[p + 1] if p + 1 < e else 0
            q = p + 2
            if fl & 1:
                self.add(q, 2, "msg.attrinfo.maxcidx", "count")
                q += 2
            self.add(q, O, "msg.attrinfo.heap", "address")
            self.add(q + O, O, "msg.attrinfo.btname", "address")
            if fl & 2:
                self.add(q + 2 * O, O, "msg.attrinfo.btorder", "address")
        elif t == 0x16:
            self.add(p, 1, "msg.refcount.version", "version")
            self.add(p + 1, 4, "msg.refcount.count", "count")
        elif t == 0x0D:
            pass

    def dataspace(self, p, e, pre):
        b, L = self.b, self.L
        if p + 4 > e:
            return
        v, rank, fl = b[p], b[p + 1], b[p + 2]
        self.add(p, 1, pre + ".version", "version")
        self.add(p + 1, 1, pre + ".rank", "count")
        self.add(p + 2, 1, pre + ".flags", "flags")
        if v == 2:
            self.add(p + 3, 1, pre + ".type", "type")
        q = p + (8 if v == 1 else 4)
        for i in range(rank):
            if q + 8 > e:
                break
            self.add(q, 8 if L == 8 else L, pre + ".dim", "size")
            q += L
        if fl & 1:
            for i in range(rank):
                if q + L > e:
                    break
                self.add(q, L, pre + ".maxdim", "size")
                q += L

    def datatype(self, p, e, pre, depth=0):
        b = self.b
        if p + 8 > e:
            return p
        cv = b[p]
        cls, ver = cv & 15, cv >> 4
        self.add(p, 1, pre + ".classversion", "version")
        self.add(p + 1, 3, pre + ".bits", "flags")
        self.add(p + 4, 4, pre + ".size", "size")
        q = p + 8
        if cls in (0, 4):
            self.add(q, 2, pre + ".bitoffset", "size")
            self.add(q + 2, 2, pre + ".precision", "size")
        elif cls == 1:
            self.add(q, 2, pre + ".bitoffset", "size")
            self.add(q + 2, 2, pre + ".precision", "size")
            for k, nm in enumerate(("exploc", "expsize", "mantloc", "mantsize")):
                self.add(q + 4 + k, 1, pre + "." + nm, "size")
            self.add(q + 8, 4, pre + ".expbias", "size")
        elif cls == 6 and depth < 3:
            n = _u(b, p + 1, 2)
            if ver == 3:
                for i in range(min(n, 64)):
                    z = b.find(b"\0", q, e)
                    if z < 0:
                        break
                    q = z + 1
                    # member offset is encoded in the fewest bytes that hold the compound size
                    size = _u(b, p + 4, 4)
                    ow = 1
                    while size >= (1 << (8 * ow)) and ow < 4:
                        ow += 1
                    self.add(q, ow, pre + ".member.offset", "address")
                    q += ow
                    q = self.datatype(q, e, pre + ".member", depth + 1) or e
            elif ver in (1, 2):
                for i in range(min(n, 64)):
                    z = b.find(b"\0", q, e)
                    if z < 0:
                        break
                    nl = z - q + 1
                    q += (nl + 7) // 8 * 8
                    self.add(q, 4, pre + ".member.offset", "address")
                    q += 4
                    if ver == 1:
                        self.add(q, 1, pre + ".member.rank", "count")
                        q += 28
                    q = self.datatype(q, e, pre + ".member", depth + 1) or e
        elif cls == 9 and depth < 3:
            self.datatype(q, e, pre + ".base", depth + 1)
        elif cls == 10 and depth < 3:
            if q < e:
                rank = b[q]
                self.add(q, 1, pre + ".array.rank", "count")
                q += 1 + (3 if ver < 3 else 0)
                for i in range(rank):
                    if q + 4 > e:
                        break
                    self.add(q, 4, pre + ".array.dim", "size")
                    q += 4
                if ver < 3:
                    q += 4 * rank
                self.datatype(q, e, pre + ".base", depth + 1)
        elif cls == 8 and depth < 3:
            self.datatype(q, e, pre + ".base", depth + 1)
        # where this type ends is only needed for compound members: fixed property sizes
        plen = {0: 4, 1: 12, 2: 2, 3: 0, 4: 4, 7: 0}.get(cls)
        return p + 8 + plen if plen is not None else None

    def link(self, p, e):
        b, O = self.b, self.O
        if p + 2 > e:
            return
        self.add(p, 1, "msg.link.version", "version")
        self.add(p + 1, 1, "msg.link.flags", "flags")
        fl = b[p + 1]
        q = p + 2
        ty = 0
        if fl & 8:
            self.add(q, 1, "msg.link.type", "type")
            ty = b[q] if q < e else 0
            q += 1
        if fl & 4:
            self.add(q, 8, "msg.link.corder", "count")
            q += 8
        if fl & 16:
            self.add(q, 1, "msg.link.charset", "type")
            q += 1
        w = 1 << (fl & 3)
        if q + w > e:
            return
        self.add(q, w, "msg.link.namelen", "size")
        nl = _u(b, q, w)
        q += w + nl
        if ty == 0:
            self.add(q, O, "msg.link.addr", "address")
        elif ty in (1, 64):
            self.add(q, 2, "msg.link.valuelen", "size")

    def layout(self, p, e):
        b, O, L = self.b, self.O, self.L
        if p + 2 > e:
            return
        v, cls = b[p], b[p + 1]
        self.add(p, 1, "msg.layout.version", "version")
        if v == 3:
            self.add(p + 1, 1, "msg.layout.class", "type")
            if cls == 0:
                self.add(p + 2, 2, "msg.layout.compactsize", "size")
            elif cls == 1:
                self.add(p + 2, O, "msg.layout.addr", "address")
                self.add(p + 2 + O, L, "msg.layout.size", "size")
            elif cls == 2:
                self.add(p + 2, 1, "msg.layout.rank", "count")
                self.add(p + 3, O, "msg.layout.addr", "address")
                for i in range(b[p + 2] if p + 2 < e else 0):
                    self.add(p + 3 + O + 4 * i, 4, "msg.layout.chunkdim", "size")
        elif v == 4:
            self.add(p + 1, 1, "msg.layout.class", "type")
            if cls == 0:
                self.add(p + 2, 2, "msg.layout.compactsize", "size")
            elif cls == 1:
                self.add(p + 2, O, "msg.layout.addr", "address")
                self.add(p + 2 + O, L, "msg.layout.size", "size")
            elif cls == 2 and p + 5 <= e:
                self.add(p + 2, 1, "msg.layout.flags", "flags")
                self.add(p + 3, 1, "msg.layout.rank", "count")
                self.add(p + 4, 1, "msg.layout.dimwidth", "size")
                rank, dw = b[p + 3], b[p + 4]
                q = p + 5
                for i in range(rank):
                    self.add(q, dw, "msg.layout.chunkdim", "size")
                    q += dw
                self.add(q, 1, "msg.layout.indextype", "type")
                # index-specific creation parameters follow, then the index address: the last O bytes
                self.add(e - O, O, "msg.layout.addr", "address")
        elif v in (1, 2):
            self.add(p + 1, 1, "msg.layout.rank", "count")
            self.add(p + 2, 1, "msg.layout.class", "type")
            q = p + 8
            if b[p + 2] != 0:
                self.add(q, O, "msg.layout.addr", "address")
                q += O
            for i in range(b[p + 1]):
                self.add(q, 4, "msg.layout.dim", "size")
                q += 4

    def pipeline(self, p, e):
        b = self.b
        if p + 2 > e:
            return
        v, n = b[p], b[p + 1]
        self.add(p, 1, "msg.pipeline.version", "version")
        self.add(p + 1, 1, "msg.pipeline.nfilters", "count")
        q = p + (8 if v == 1 else 2)
        for i in range(n):
            if q + 8 > e:
                break
            fid = _u(b, q, 2)
            self.add(q, 2, "msg.pipeline.id", "type")
            q += 2
            nl = 0
            if v == 1 or fid >= 256:
                self.add(q, 2, "msg.pipeline.namelen", "size")
                nl = _u(b, q, 2)
                q += 2
            self.add(q, 2, "msg.pipeline.flags", "flags")
            self.add(q + 2, 2, "msg.pipeline.ncd", "count")
            ncd = _u(b, q + 2, 2)
            q += 4
            q += (nl + 7) // 8 * 8 if v == 1 else nl
            for k in range(ncd):
                if q + 4 > e:
                    break
                self.add(q, 4, "msg.pipeline.cd", "size")
                q += 4
            if v == 1 and ncd % 2:
                q += 4

    def attribute(self, p, e, v1pad):
        b = self.b
        if p + 8 > e:
            return
        v = b[p]
        self.add(p, 1, "msg.attr.version", "version")
        self.add(p + 1, 1, "msg.attr.flags", "flags")
        self.add(p + 2, 2, "msg.attr.namesize", "size")
        self.add(p + 4, 2, "msg.attr.dtsize", "size")
        self.add(p + 6, 2, "msg.attr.dssize", "size")
        ns, ts, ss = _u(b, p + 2, 2), _u(b, p + 4, 2), _u(b, p + 6, 2)
        q = p + 8
        if v == 3:
            self.add(q, 1, "msg.attr.encoding", "type")
            q += 1
        pad = (lambda x: (x + 7) // 8 * 8) if v == 1 else (lambda x: x)
        q += pad(ns)
        if q + ts <= e:
            self.datatype(q, q + ts, "msg.attr.datatype")
        q += pad(ts)
        if q + ss <= e:
            self.dataspace(q, q + ss, "msg.attr.dataspace")

    # ---------------------------------------------------------------- other structures
    def lheap(self, s, e):
        L, O = self.L, self.O
        self.add(s + 4, 1, "lheap.version", "version")
        self.add(s + 8, L, "lheap.datasize", "size")
        self.add(s + 8 + L, L, "lheap.freeoff", "address")
        self.add(s + 8 + 2 * L, O, "lheap.dataaddr", "address")

    def btree1(self, s, e, group):
        b, O, L = self.b, self.O, self.L
        self.add(s + 4, 1, "btree1.type", "type")
        self.add(s + 5, 1, "btree1.level", "count")
        self.add(s + 6, 2, "btree1.entries", "count")
        self.add(s + 8, O, "btree1.left", "address")
        self.add(s + 8 + O, O, "btree1.right", "address")
        n = _u(b, s + 6, 2)
        body = e - s - 8 - 2 * O - n * O
        if n + 1 <= 0 or body <= 0 or body % (n + 1):
            return
        ks = body // (n + 1)
        p = s + 8 + 2 * O
        for i in range(n + 1):
            if group:
                self.add(p, ks, "btree1.group.key", "address")
            else:
                self.add(p, 4, "btree1.chunk.nbytes", "size")
                self.add(p + 4, 4, "btree1.chunk.mask", "flags")
                for k in range((ks - 8) // 8):
                    self.add(p + 8 + 8 * k, 8, "btree1.chunk.offset", "address")
            p += ks
            if i < n:
                self.add(p, O, "btree1.child", "address")
                p += O

    def snod(self, s, e):
        b, O = self.b, self.O
        self.add(s + 4, 1, "snod.version", "version")
        self.add(s + 6, 2, "snod.nsyms", "count")
        n = _u(b, s + 6, 2)
        esz = 2 * O + 24
        for i in range(n):
            p = s + 8 + i * esz
            if p + esz > e:
                break
            self.sym_entry(p, "snod.entry")

    def gcol(self, s, e):
        b, L = self.b, self.L
        self.add(s + 4, 1, "gcol.version", "version")
        self.add(s + 8, L, "gcol.size", "size")
        p = s + 8 + L
        k = 0
        while p + 8 + L <= e and k < 256:
            idx = _u(b, p, 2)
            self.add(p, 2, "gcol.obj.index", "count")
            self.add(p + 2, 2, "gcol.obj.refcount", "count")
            self.add(p + 8, L, "gcol.obj.size", "size")
            sz = _u(b, p + 8, L)
            if idx == 0:
                break
            p += 8 + L + (sz + 7) // 8 * 8
            k += 1

    def fheap_hdr(self, s, e):
        O, L = self.O, self.L
        self.add(s + 4, 1, "fheap.version", "version")
        self.add(s + 5, 2, "fheap.idlen", "size")
        self.add(s + 7, 2, "fheap.filterlen", "size")
        self.add(s + 9, 1, "fheap.flags", "flags")
        self.add(s + 10, 4, "fheap.maxmanaged", "size")
        p = s + 14
        for nm, w, cat in (("nexthuge", L, "count"), ("hugebt", O, "address"), ("free", L, "size"), ("fsaddr", O, "address"),
                           ("mansize", L, "size"), ("manalloc", L, "size"), ("iter", L, "address"), ("nman", L, "count"),
                           ("hugesize", L, "size"), ("nhuge", L, "count"), ("tinysize", L, "size"), ("ntiny", L, "count")):
            self.add(p, w, "fheap." + nm, cat)
            p += w
        self.add(p, 2, "fheap.width", "count"); p += 2
        self.add(p, L, "fheap.startblock", "size"); p += L
        self.add(p, L, "fheap.maxdirect", "size"); p += L
        self.add(p, 2, "fheap.maxheapbits", "size"); p += 2
        self.add(p, 2, "fheap.startrows", "count"); p += 2
        self.add(p, O, "fheap.root", "address"); p += O
        self.add(p, 2, "fheap.currows", "count"); p += 2
        self.add(e - 4, 4, "fheap.checksum", "flags")

    def fheap_dblock(self, s, e):
        O = self.O
        self.add(s + 4, 1, "fhdb.version", "version")
        self.add(s + 5, O, "fhdb.hdraddr", "address")
        self.add(s + 5 + O, 1, "fhdb.blockoff", "address")

    def fheap_iblock(self, s, e):
        O = self.O
        self.add(s + 4, 1, "fhib.version", "version")
        self.add(s + 5, O, "fhib.hdraddr", "address")
        p = e - 4 - O
        k = 0
        while p >= s + 5 + O + 1 and k < 64:
            self.add(p, O, "fhib.child", "address")
            p -= O
            k += 1
        self.add(e - 4, 4, "fhib.checksum", "flags")

    def btree2_hdr(self, s, e):
        O, L = self.O, self.L
        self.add(s + 4, 1, "bt2.version", "version")
        self.add(s + 5, 1, "bt2.type", "type")
        self.add(s + 6, 4, "bt2.nodesize", "size")
        self.add(s + 10, 2, "bt2.recsize", "size")
        self.add(s + 12, 2, "bt2.depth", "count")
        self.add(s + 14, 1, "bt2.split", "count")
        self.add(s + 15, 1, "bt2.merge", "count")
        self.add(s + 16, O, "bt2.root", "address")
        self.add(s + 16 + O, 2, "bt2.nroot", "count")
        self.add(s + 18 + O, L, "bt2.total", "count")
        self.add(e - 4, 4, "bt2.checksum", "flags")

    def btree2_leaf(self, s, e):
        self.add(s + 4, 1, "bt2leaf.version", "version")
        self.add(s + 5, 1, "bt2leaf.type", "type")
        # first record: the heap ID / hash fields of the first records
        for k in range(0, min(64, e - s - 6), 4):
            self.add(s + 6 + k, 4, "bt2leaf.record", "address")


# ---------------------------------------------------------------- tolerant structure scan
# The walker stops at constructs it does not implement (NIL messages, new-style groups written by the reference library,
# ...).  To still reach every structure of a corpus file, structures are also located by their signatures, and version 1
# object headers (which have none) through the symbol table entries / superblock that point at them.

def scan_extents(data, O, L):
    n = len(data)
    ext = []
    v1hdrs = set()

    def u(off, w):
        return int.from_bytes(data[off:off + w], "little") if 0 <= off and off + w <= n else None

    def sig_iter(sig):
        i = data.find(sig)
        while i >= 0:
            yield i
            i = data.find(sig, i + 1)

    if n >= 96 and data[8] in (0, 1):
        p = (24 if data[8] == 0 else 28) + 4 * O
        a = u(p + O, O)
        if a is not None and a + 16 <= n:
            v1hdrs.add(a)
    elif n >= 48 and data[8] in (2, 3):
        pass
    for i in sig_iter(b"SNOD"):
        if i + 8 > n or data[i + 4] != 1:
            continue
        cnt = u(i + 6, 2)
        esz = 2 * O + 24
        cnt = min(cnt, (n - i - 8) // esz)
        ext.append((i, i + 8 + cnt * esz, "snod", "scan"))
        for k in range(cnt):
            a = u(i + 8 + k * esz + O, O)
            if a is not None and a + 16 <= n and data[a:a + 4] != b"OHDR" and data[a] == 1 and data[a + 1] == 0:
                v1hdrs.add(a)
    conts2 = {}
    for i in sig_iter(b"OHDR"):
        if i + 8 > n or data[i + 4] != 2:
            continue
        fl = data[i + 5]
        p = i + 6 + (16 if fl & 0x20 else 0) + (4 if fl & 0x10 else 0)
        w = 1 << (fl & 3)
        cs = u(p, w)
        if cs is None:
            continue
        end = min(n, p + w + cs)
        ext.append((i, end, "ohdr2", "scan@%d" % i))
        # continuation messages and hard-link targets
        mh = 4 + (2 if fl & 4 else 0)
        q = p + w
        while q + mh <= end - 4:
            t, sz = data[q], u(q + 1, 2)
            if q + mh + sz > end:
                break
            if t == 0x10 and sz >= O + L:
                conts2[u(q + mh, O)] = (u(q + mh + O, L), "scan@%d" % i)
            q += mh + sz
    for a, (ln, owner) in list(conts2.items()):
        if a is not None and ln and a + 8 <= n and data[a:a + 4] == b"OCHK":
            ext.append((a, min(n, a + ln), "ohdr2-cont", owner))
    for a in sorted(v1hdrs):
        hs = u(a + 8, 4)
        if hs is None:
            continue
        end = min(n, a + 16 + hs)
        ext.append((a, end, "ohdr1", "scan@%d" % a))
        q = a + 16
        while q + 8 <= end:
            t, sz = u(q, 2), u(q + 2, 2)
            if q + 8 + sz > end:
                break
            if t == 0x10 and sz >= O + L:
                ca, cl = u(q + 8, O), u(q + 8 + O, L)
                if ca is not None and cl and ca + 8 <= n:
                    ext.append((ca, min(n, ca + cl), "ohdr1-cont", "scan@%d" % a))
            q += 8 + sz
    for i in sig_iter(b"HEAP"):
        if i + 8 + 2 * L + O <= n and data[i + 4] == 0:
            ext.append((i, i + 8 + 2 * L + O, "lheap-hdr", "scan"))
    for i in sig_iter(b"TREE"):
        if i + 8 + 2 * O > n or data[i + 4] not in (0, 1):
            continue
        cnt = u(i + 6, 2)
        if data[i + 4] == 0:
            end = i + 8 + 2 * O + cnt * (L + O) + L
            if end <= n:
                ext.append((i, end, "btree1-group", "scan"))
            else:
                ext.append((i, i + 8 + 2 * O, "btree1-hdr", "scan"))
        else:
            ext.append((i, i + 8 + 2 * O, "btree1-hdr", "scan"))
            ext.append((i + 8 + 2 * O, min(n, i + 8 + 2 * O + 8), "btree1-chunkkey0", "scan"))
    for i in sig_iter(b"GCOL"):
        sz = u(i + 8, L)
        if sz and data[i + 4] == 1:
            ext.append((i, min(n, i + sz), "gcol", "scan"))
    for i in sig_iter(b"FRHP"):
        end = i + 14 + 12 * 0
        p = i + 14 + (L + O + L + O + 8 * L) + 2 + L + L + 4 + O + 2
        if p + 4 <= n and data[i + 4] == 0:
            ext.append((i, p + 4, "fheap-hdr", "scan"))
    for i in sig_iter(b"FHDB"):
        if i + 5 + O + 1 <= n:
            ext.append((i, i + 5 + O + 1, "fheap-dblock", "scan"))
    for i in sig_iter(b"FHIB"):
        if i + 5 + O + 8 + O <= n:
            ext.append((i, i + 5 + O + 8, "fheap-iblock-hdr", "scan"))
    for i in sig_iter(b"BTHD"):
        if i + 22 + O + L <= n:
            ext.append((i, i + 22 + O + L, "btree2-hdr", "scan"))
    for i in sig_iter(b"BTLF"):
        ext.append((i, min(n, i + 6 + 32), "btree2-leaf", "scan"))
    for i in sig_iter(b"BTIN"):
        ext.append((i, min(n, i + 6 + 32), "btree2-leaf", "scan"))
    return ext


def fields(w):
    """w = h5spec.walk(path) result"""
    data = w["data"]
    sb = w["sb"]
    f = _F(data, 8, 8)
    if len(data) > 14:
        v = data[8]
        if v in (0, 1):
            f.O, f.L = data[13], data[14]
        elif v in (2, 3):
            f.O, f.L = data[9], data[10]
    if f.O not in (2, 4, 8) or f.L not in (2, 4, 8):
        f.O = f.L = 8
    order = {"ohdr2": 0}
    have = {(x[0], x[2]) for x in w["extents"]}
    extra = [x for x in scan_extents(data, f.O, f.L) if (x[0], x[2]) not in have]
    for s, e, kind, owner in sorted(list(w["extents"]) + extra, key=lambda x: (x[3], order.get(x[2], 1), x[0])):
        try:
            if kind == "superblock":
                f.superblock(s, e)
            elif kind == "ohdr1":
                f.ohdr1(s, e)
            elif kind == "ohdr1-cont":
                f.ohdr1(s, e, cont=True)
            elif kind == "ohdr2":
                f.ohdr2(s, e)
            elif kind == "ohdr2-cont":
                f.ohdr2(s, e, cont=True)
            elif kind == "lheap-hdr":
                f.lheap(s, e)
            elif kind == "btree1-group":
                f.btree1(s, e, True)
            elif kind == "btree1-chunk":
                f.btree1(s, e, False)
            elif kind == "btree1-hdr":
                f.add(s + 4, 1, "btree1.type", "type")
                f.add(s + 5, 1, "btree1.level", "count")
                f.add(s + 6, 2, "btree1.entries", "count")
                f.add(s + 8, f.O, "btree1.left", "address")
                f.add(s + 8 + f.O, f.O, "btree1.right", "address")
            elif kind == "btree1-chunkkey0":
                f.add(s, 4, "btree1.chunk.nbytes", "size")
                f.add(s + 4, 4, "btree1.chunk.mask", "flags")
            elif kind == "fheap-iblock-hdr":
                f.add(s + 4, 1, "fhib.version", "version")
                f.add(s + 5, f.O, "fhib.hdraddr", "address")
                f.add(s + 5 + f.O + 8, f.O, "fhib.child", "address")
            elif kind == "snod":
                f.snod(s, e)
            elif kind == "gcol":
                f.gcol(s, e)
            elif kind == "fheap-hdr":
                f.fheap_hdr(s, e)
            elif kind == "fheap-dblock":
                f.fheap_dblock(s, e)
            elif kind == "fheap-iblock":
                f.fheap_iblock(s, e)
            elif kind == "btree2-hdr":
                f.btree2_hdr(s, e)
            elif kind == "btree2-leaf":
                f.btree2_leaf(s, e)
        except IndexError:
            continue
    if not any(x["name"].startswith("sb.") for x in f.out) and len(data) >= 48 and data[:8] == b"\x89HDF\r\n\x1a\n":
        f.superblock(0, min(len(data), 96))      # the walker gave up on the superblock: locate its fields anyway
    return sorted(f.out, key=lambda x: x["off"])


def boundary_values(w, fsize, cur):
    """boundary values for a little-endian field of w bytes (as ints), without the current value"""
    top = (1 << (8 * w)) - 1
    vals = {0, 1, top - 1, top, fsize, fsize - 1, fsize + 1, 1 << 31, (1 << 32) - 1, 1 << 63, (1 << 64) - 1}
    if w == 1:
        vals |= {2, 3, 4, 5, 8, 16, 32, 64, 127, 128}
    elif w == 2:
        vals |= {255, 256, 0x7FFF, 0x8000}
    else:
        vals |= {0xFFFF, 0x10000, (1 << 31) - 1, (1 << 32), (1 << 63) - 1} | {cur + 1, cur - 1 if cur else 0, cur * 2, cur + 8}
    return sorted(v for v in vals if 0 <= v <= top and v != cur)


if __name__ == "__main__":
    import sys, os, collections
    sys.path.insert(0, os.path.dirname(os.path.abspath(__file__)))
    import h5spec
    for p in sys.argv[1:]:
        w = h5spec.walk(p)
        fs = fields(w)
        print(p, len(w["data"]), "fields", len(fs), dict(collections.Counter(x["cat"] for x in fs)), "errors", w["errors"][:2])
        if os.environ.get("V"):
            for x in fs:
                print("  %6d %d %-28s %s = %d" % (x["off"], x["w"], x["name"], x["cat"], int.from_bytes(w["data"][x["off"]:x["off"] + x["w"]], "little")))
