#!/usr/bin/env python3
"""Regenerate MANIFEST.json from the table below (keeps it schema-valid)."""
import json, os
V = os.path.dirname(os.path.dirname(os.path.abspath(__file__)))
BASE = json.load(open("/root/.vp/BASELINE.json"))["cmd"] if os.path.exists("/root/.vp/BASELINE.json") else "cd /repo && go test ./..."

CHECKS = {
 "C20": dict(
   text="Theorems (Coq, all inputs): the model of the FP8/bfloat16 encoders equals round-to-nearest-even on exact values for every non-NaN float32, is monotone, and code->float->code is the identity on all non-NaN codes (finite domains by vm_compute). Tie: the Go encoders are run on ALL 2^32 bit patterns per format and compared with the model run by run; theorem C20_run_lifting lifts end-point agreement to whole runs, so model = implementation on the full domain in every run.",
   note="Trusted: Coq kernel+vm_compute, the hand transcription of datatype_fp8.go/datatype_bfloat16.go (validated exhaustively each run), exact-value replacement of math.Log2/Pow/RoundToEven, Go harness glue. Known finding: NaN -> 0x7F (+Inf code) pinned by tests.",
   design="7/C20", technique="Coq theorem (nearest-even, monotone) + exhaustive differential tie lifted by a monotonicity lemma"),
}
NOT_APPLICABLE = []

def main():
    ids = [json.loads(l)["id"] for l in open(os.path.join(V, "properties.jsonl"))]
    checks = []
    for pid in ids:
        if pid not in CHECKS: continue
        c = CHECKS[pid]
        checks.append(dict(
            property_id=pid,
            quick_cmd="python3 tools/check.py %s --tier quick" % pid,
            thorough_cmd="python3 tools/check.py %s --tier thorough" % pid,
            evidence_file="/verif/evidence/%s.json" % pid,
            replay_cmd_template="python3 tools/check.py %s --replay {path}" % pid,
            engine="coq+verifharness",
            level_claimed=dict(category="proof", text=c["text"], design_ref="DESIGN.md section " + c["design"]),
            level_note=c["note"], technique=c["technique"]))
    na = list(NOT_APPLICABLE)
    claimed = set(CHECKS) | {n["property_id"] for n in na}
    for pid in ids:
        if pid not in claimed:
            na.append(dict(property_id=pid, reason="not yet claimed: check under construction (see DESIGN.md section 7/%s); no verdict is given for it in this commit" % pid))
    man = dict(
        version=1,
        setup_cmd="python3 tools/setup.py",
        hooks=dict(guard="verif",
                   enable="go build -tags verif -overlay <generated overlay.json mapping /repo/... to /verif/harness/overlay/...> ./cmd/verifharness (see tools/vlib.py build_harness)",
                   baseline_off_cmd=BASE, source_commits=[], add_only=True),
        engines=[dict(name="coq", path="/verif/coq", serves_properties=sorted(CHECKS), kind_free_text="Coq 8.16.1 development: Model/ (executable), Proofs/, Props/ (property theorems + Print Assumptions)"),
                 dict(name="verifharness", path="/verif/harness/overlay", serves_properties=sorted(CHECKS), kind_free_text="Go harness injected with -overlay (build tag verif, add-only, nothing committed to /repo)"),
                 dict(name="check.py", path="/verif/tools/check.py", serves_properties=sorted(CHECKS), kind_free_text="driver: builds E1/E3 from the current trees, generates cases, evaluates the model with coqc vm_compute, classifies, writes evidence")],
        checks=checks, not_applicable=na,
        notes="All instrumentation is injected by go build -overlay (no hook commits in /repo; MANIFEST.hooks.source_commits is empty). fix: commits in /repo are listed in KNOWN_FINDINGS.json.")
    json.dump(man, open(os.path.join(V, "MANIFEST.json"), "w"), indent=1)
    print("claimed:", sorted(CHECKS), "not_applicable:", [n["property_id"] for n in na])

if __name__ == "__main__":
    main()
