#!/usr/bin/env python3
"""Regenerate MANIFEST.json from the table below (keeps it schema-valid)."""
import json, os
V = os.path.dirname(os.path.dirname(os.path.abspath(__file__)))
BASE = json.load(open("/root/.vp/BASELINE.json"))["cmd"] if os.path.exists("/root/.vp/BASELINE.json") else "cd /repo && go test ./..."

CHECKS = {
 "C20": dict(
   text="Theorems (Coq, all inputs): the model of the FP8/bfloat16 encoders equals round-to-nearest-even on exact values for every non-NaN float32, is monotone, and code->float->code is the identity on all non-NaN codes (finite domains by vm_compute). Tie: the Go encoders are run on ALL 2^32 bit patterns per format and compared with the model run by run; theorem C20_run_lifting lifts end-point agreement to whole runs, so model = implementation on the full domain in every run.",
   note="Trusted: Coq kernel+vm_compute, the hand transcription of datatype_fp8.go/datatype_bfloat16.go (validated exhaustively each run), exact-value replacement of math.Log2/Pow/RoundToEven, Go harness glue. Known finding: NaN -> 0x7F (+Inf code) pinned by tests.",
   design="7/C20", technique="Coq theorem (nearest-even, monotone) + exhaustive differential tie lifted by a monotonicity lemma"),
 "C09": dict(
   text="Theorems (Coq, all ranks, all inputs): the model of validate accepts exactly the selections inside the dataset (uint64 wrap-around modelled; completeness up to the documented 10^9-block limit); every extraction path (compact recursion, single contiguous read under the exact contiguity test, 2-D element-wise, selection run, chunked with computed output position) and the dispatcher return select(full, row-major coordinates); invalid selections are rejected; the chunk iterator visits each chunk once, its boxes partition the index space and each piece is the box selection. Tie: complete enumeration of selections over small extents (all chunk shapes, partial edges) plus random rank 1-4 / filtered / corpus (compact) datasets; Go == independent oracle on the full Read == Coq model.",
   note="Trusted: hand transcription of dataset_read_hyperslab.go/overflow.go/dataset_chunk_iterator.go (validated each run), chunk store = format layout, B-tree/filters/datatype conversion not modelled (exercised through Dataset.Read in the tie), extraction arithmetic unbounded (dataset < 2^64 bytes). No open finding; 4 fix: commits.",
   design="7/C09", technique="Coq theorems (general rank) + exhaustive small-scope differential tie"),
 "C15": dict(
   text="Theorems (Coq, all histories incl. interleaved store/load, all block sizes 20..65536, every map-order choice): the model of the writable fractal heap refines a finite map id->bytes: live ids return their bytes, are pairwise distinct with disjoint ranges, header count/free equal the map's; a failing insert changes nothing; load(store s) preserves state and commutes with later operations; every live byte is in the serialised block and both read-only readers return it. Tie: generated histories replayed on the Go heap and on the model with all ids, bytes, ok/err, header counters, CRC of serialised header/block and both readers compared; independent Python dict oracle.",
   note="Trusted: hand transcription of fractalheap_write.go / fractalheap.go / core/attribute.go heap reader (validated each run), 8/8/LE superblock, CRC-32 reimplementation. Excluded by named hypotheses with refutation lemmas and listed as KNOWN-FINDINGs: multi-block heaps, operations on non-live ids.",
   design="7/C15", technique="Coq refinement proof (simulation relation, byte-level codec round trip) + differential tie + refuted-class witnesses"),
 "C01": dict(
   text="Theorems (Coq, every rank >= 1, all positive extents and chunk extents incl. non-dividing and larger-than-extent, every element size): placing every chunk the writer emits (full-size, zero-padded, keyed by element offset) back through the reader's placement returns exactly the data, in any chunk order; the writer's chunk enumeration visits each coordinate once; integer encodings of every width and both signednesses decode to the written value with the recorded sign bit (unsigned values never read negative); float64 bit patterns and fixed strings round-trip; integer->float64 widening exact below 2^53. Ties: (unit) Go chunk extraction + reader placement + element conversion vs the Coq model byte for byte; (history) one fully written dataset per file over all element types x ranks 1-4 x extents x chunk shapes x filters x superblock 0/2/3 with extreme data, closed, reopened with hdf5.Open and compared with the written values (Info, raw bytes, Read, ReadStrings; error where no typed read exists).",
   note="Trusted: transcription of chunk_coordinator.go / dataset_reader.go copyNDChunk / element encoders (validated each run by c01unit), tools/histlib.py oracle, hist harness. The chunk B-tree, object header and superblock codecs are covered by C11/C05, not by these theorems; compound/array/enum/opaque types are outside the generated domain.",
   design="7/C01", technique="Coq tiling/round-trip theorems (general rank) + unit differential tie + history-level reopen tie"),
 "C13": dict(
   text="Theorems (Coq, all ranks/extents/chunk shapes): reading the chunks written for the old extent under the new extent equals resize_arr (elements inside both extents kept, new space zero, outside gone) for any single resize mixing growing and shrinking dimensions, and for two resizes when no intermediate extent is below both outer extents; resize_arr laws. C13_shrink_grow_refuted exhibits the one failing class (shrink then grow without a rewrite), a listed KNOWN-FINDING. Ties: unit (Go reader placement under new dims vs model) and history-level: grow/shrink/rewrite sequences over ranks 1-3, fixed and unlimited maxima, requests beyond the maximum (must be rejected), shape and values after reopen vs the oracle.",
   note="Trusted: as C01. Resize's header rewrite (dataspace message) is tied only at history level. Known finding C13-shrink-then-grow is excluded from the generated gating histories by construction and re-confirmed on every run.",
   design="7/C13", technique="Coq theorem read_after_resize = resize_arr + refuted-class witness + history-level tie"),
 "C02": dict(
   text="Theorems (Coq, all attribute histories on one object, name hash abstract): with collision-free names the attributes listed after any sequence of write/delete calls have unique names and are exactly the bindings of the finite map built from the successful calls (C02_refines_map*), per-call answers agree (delete succeeds exactly on present names), any non-Ok answer leaves the state identical (C02_err_unchanged), every refusal has one of a short list of named reasons (header full, index full at 371, heap full, object too large, encode error), the compact->dense transition preserves the listing as a permutation, storage form is irrelevant; the collision class is refuted with a concrete lookup3 pair (listed KNOWN-FINDING). Ties: (unit) attribute histories through the real API vs the Coq model per call and on the final attribute set; (history) histories of 3..300 calls on datasets and groups hovering around the threshold incl. all histories of length <= 3/5 over 2 names x 3 values, dumped after reopen and judged by the map oracle.",
   note="Trusted: transcription of attribute_write.go / attribute_modify.go / objectheader_write.go with B-tree and heap as minimal abstract interfaces (their detailed models are C14/C15), tools/histlib.py oracle, hist harness. Known finding: names with equal lookup3 hash are confused in dense storage.",
   design="7/C02", technique="Coq refinement to a finite map + unit and history-level differential ties"),
 "C03": dict(
   text="Theorems (Coq, all creation histories, every threshold/repair configuration): the reader's tree of the writer's heap/symbol-node bookkeeping equals the specification tree and per-call ok/err agree (duplicates, missing or non-group parents, missing targets rejected; refusal exactly at capacity); decoded names of a group are pairwise distinct in every reachable state; a failing call leaves groups, heaps, nodes and object kinds unchanged; hard links resolve to the target's object. Excluded by named predicates with witness lemmas and listed as KNOWN-FINDINGs: hard links whose target is a group, soft/external links. Ties: (unit) real LocalHeap / SymbolTableNode / linkToParent / Open+Walk vs the model and a Python oracle, thresholds and repair switches read from the current source; (history) deep/wide/long-name/mixed creation sequences with duplicate, missing-parent and malformed requests judged after reopen by the tree oracle.",
   note="Trusted: transcription of group_write.go / link_write.go / localheap.go / symboltable_node.go / group.go walk (validated each run), tools/histlib.py, hist harness; nesting below the reader's 1024-level limit.",
   design="7/C03", technique="Coq refinement (writer bookkeeping + reader walk vs spec tree) + unit and history-level ties"),
 "C04": dict(
   text="Theorems (Coq store model, arbitrary operation lists, all repair configurations): every in-place header rewrite stays within the reserved 7+255 bytes (proved from the 255-byte check, not assumed); every byte range written by an operation lies in extents owned by its target, in the parent group's heap/symbol node, or in extents it allocated itself; hence all extents of every other object are untouched (C04_frame). Refutation witnesses for exact-size headers and exact-size link headers document what the fixes bought. Ties: (unit) allocation trace and changed byte ranges after every call on the real file vs ownership reconstructed from the trace, compared with the model's allocation sequence (fidelity diagnostic); (history) all orders of {create X, create Y, write X, write Y, attribute on X, attribute on Y, hard link to X, resize X} (sampled quick, all 40320 thorough) and random interleavings over 2-6 objects, every untouched object compared after reopen.",
   note="Trusted: store model abstracts byte contents (extents, sizes, write sets); transcription validated by c04unit on >50k steps; global-heap collections and filters not in the store model.",
   design="7/C04", technique="Coq frame theorem over an extent/ownership store model + byte-range diff tie + history-level tie"),
 "C05": dict(
   text="Theorems (Coq): extents_ok (sorted sweep: in bounds, below EOF, pairwise disjoint) is sound and complete, so the tie's disjointness verdict is computed by a proved function; the append-only allocator hands out disjoint increasing blocks tiling [initial, EOF) for every request list; in every reachable state of the store model all extents are pairwise disjoint and end at or below the allocator EOF and, after Close, the file size (C05Store); the stale-EOF defect is refuted for the old code and proved repaired. Tie: an independent decoder written from the HDF5 format specification (tools/h5spec.py, Python) walks every file produced by generated histories (all superblock versions, filters, dense attributes, links, resizes, vlen, multi-session): extents inside the file and below the superblock EOF, pairwise disjoint (Coq extents_ok on the same lists), signatures/versions/sizes/checksums consistent (Coq crc32 and lookup3 on sampled ranges), decoded tree and values equal the logical oracle; each tolerated format deviation has a tag that must be a listed KNOWN-FINDING. Specification decoders in Coq (Spec/Format*.v, written from the HDF5 File Format Specification 3.0, not from the Go code): strict and tolerant decoders for every on-disk structure the writer produces (superblock v0-v3, object headers v1/v2 with continuation, 14 message types incl. all datatype classes, local/global/fractal heaps, v1/v2 B-tree nodes, SNOD); every metadata encoder of the writer (the C11 Gallina transcriptions, tied byte-exactly to Go) is proved against them (Props/C05Spec.v): for all well-formed inputs the strict decoder returns the logical value, or, for each listed deviation, the strict decoder rejects and the tolerant decoder accepts reporting exactly that deviation's tag; a checksum the strict decoder accepts is lookup3 of the covered bytes, the writer stores CRC-32. Tie: per structure located by the Python walker in the generated files (3000 sampled per quick run, every (kind,length,tags) class once) and in 297 reference-library files, Coq strict/tolerant verdict, tag set and decoded fields == the independent Python decoder; strict decoders accept the reference files.",
   note="Trusted: tools/h5spec.py is the specification reading (Python, not Coq) of the format subset the writer produces; unsupported features raise errors. 31 listed format deviations (e.g. CRC-32 where the spec uses lookup3, missing OHDR checksum) are genuine non-conformances without small repairs. Spec theorems are universal for superblock, object header v2, dataspace, layout, symbol table, attribute info, link info and datatype classes 0/1/3/5/7, witness-level (vm_compute on the smallest value) for pipeline, link, attribute, array, vlen, compound, enum and object header v1; local heap, SNOD, v1/v2 B-tree, global heap and fractal heap have specification decoders but no encoder model, they are checked on real files only; cross-structure clauses (sorted symbol nodes, B-tree keys, reference counts, EOF, heap-ID address space) and whole-file reachability are decided by the Python walker, not in Coq. 33 listed format deviations.",
   design="7/C05", technique="Coq extent/allocator theorems + Coq specification decoders with encoder-vs-specification theorems + two independent spec decoders (Coq, Python) over generated and reference files"),
 "C06": dict(
   text="Theorems (Coq): the value decoding the comparison relies on - dec_int (byte order, signedness, size) and dec_string (three paddings) - is the inverse of the format's encoding (bijection on well-formed elements, BE = reverse LE, range), plus refutation lemmas for the attribute ReadValue transcription (unsigned-as-signed, listed). Tie (exhaustive over the bundled corpus): for every file with an h5dump DDL every object is compared: group membership, kinds, shapes, types, integer/string values exactly, floats per DDL token precision; on every opened file typed values are compared with the Coq decoding of the raw element bytes and announced links with Children(). A discrepancy not in the committed (file, object, kind) list is a VIOLATION; listed ones are grouped into 8 root causes (KNOWN-FINDINGs).",
   note="Trusted: tools/ddl.py (h5dump DDL parser), the corpus DDL files as reference, float comparison at the printed precision. The Go reader itself is not modelled beyond value decoding; errors returned by the reader are not gating (unsupported features).",
   design="7/C06", technique="Coq decoding spec + exhaustive corpus comparison against shipped h5dump output"),
 "C10": dict(
   text="Theorems (Coq store model): reopen(close s) keeps all extents valid and disjoint and later allocations are disjoint from all of them (needs every extent <= file size after Close: the Close extension; refuted without it); a session whose calls issue no store command leaves bytes, allocator and file size unchanged; failed creations are quiet with the link pre-check (refuted without). Tie: 2-6 open-modify-close sessions (attribute upserts/deletes through OpenDataset, contiguous overwrite, creation attempts) with a logical dump after every session vs the oracle; sessions without successful modification must keep the SHA-256.",
   note="Trusted: as C04 (store model) plus tools/histlib.py across sessions. OpenDataset offers Write for contiguous layout only (chunked overwrite is refused by 38055d0).",
   design="7/C10", technique="Coq reopen-invariant theorem + multi-session history tie with byte identity for no-op sessions"),
 "C11": dict(
   text="Theorems (Coq, byte-level transcriptions of encoder and decoder per element with checked slicing and outcome Ok/Err/Panic): dec(enc x) = Ok(projection x) and length(enc x) = size formula for dataspace, layout v3, datatype (fixed, float, string, reference, opaque, vlen, array, enum, compound-as-bytes), attribute v3, superblock v0/v2/v3 (incl. CRC-32), object header v2 and v1, link, link-info, attribute-info, symbol-table message (32 theorems); the dataspace encoder never emits an ambiguous length. Tie: generated well-formed values per element: Go Encode bytes == model bytes, Go Parse(Encode x) == x, encoding twice identical; truncations and single-byte changes of valid encodings: Go outcome class and value == model. Covered by tie only: compound member lists, filter pipeline message (C08), structures.ParseLinkMessage. Known finding: compound with a non-last string/reference/opaque/array/enum/vlen member does not parse back.",
   note="Trusted: hand transcriptions validated each run; continuation chunks outside the object-header model; determinism is definitional in Gallina and checked on the Go side by double encoding.",
   design="7/C11", technique="Coq round-trip theorems per codec + byte-exact differential tie incl. malformed inputs"),
 "C14": dict(
   text="Theorems (Coq, all inputs): the Go name hash equals lookup3 hashlittle(.,0) on every byte string (induction on 12-byte blocks); for every history in every rebalancing mode the index keeps records sorted, count views equal, refuses inserts at capacity without change; under pairwise distinct hashes it returns exactly what a finite map returns and ends with the live keys' records; it is reproduced byte for byte by write and load (CRC-checked header and leaf) at any point; modes never influence results or bytes. Collision confusion and node sizes below 10 are proved refutations. Tie: histories up to 450 operations crossing capacity 371, all length <= 3 histories over two names, four modes, store/rewrite at random points, corrupted images; all observables incl. bytes compared with the model and judged by a Python map/lookup3/decoder oracle; hash on lengths 0-1 exhaustively, every length 0-64, multiples of 12.",
   note="Trusted: hand transcription of btreev2_*.go, bitwise CRC-32 model (compared on every structure), in-memory file/allocator glue. Not modelled: the background goroutine (C18). Known finding: hash-equal names are confused.",
   design="7/C14", technique="Coq refinement (state machine to map, codec round trip, mode erasure) + differential tie + refutation witness"),
 "C16": dict(
   text="Theorems (Coq store model, all operation lists): a failing call writes only into extents it allocated itself (or, for a hard link, the target's own header) and leaves the writer's bookkeeping unchanged; with the link pre-check and attribute-info check every other failing call neither allocates nor writes (the two remaining harmless orphan cases are stated); C02_err_unchanged / C03_err_unchanged give the same at attribute-storage and namespace level. Tie: valid operations interleaved with operations chosen to fail at each validation and capacity point (32-entry groups, name heaps, 255-byte headers, dense storage, oversized values on handles with cached headers, closed writer, invalid arguments, later sessions); content after Close must equal the oracle that ignores failed calls, no call may panic, Close repeated.",
   note="Trusted: as C04; panics are caught by the harness and reported as violations; Go runtime fatal errors would kill the harness (reported as machinery failure).",
   design="7/C16", technique="Coq failed-call frame theorems + failure-injection history tie"),
 "C19": dict(
   text="Theorems (Coq, all strategies/constraints/observation lists/clock readings, float64 via Coq SpecFloat bit-exact): the selector returns none or an allowed mode; confidence < min gives none; the reported confidence is the strategy's bit for bit and within [0,1] for the built-in strategy (NaN behaviour stated exactly); a gate-passing decision less than MinStabilityPeriod after the last recorded one keeps the mode (saturating int64 clock arithmetic, backwards clocks), mode changes are at least one period apart under a monotone clock; Evaluate sessions reduce to selector runs; the configuration only selects a delete entry point and records/results are configuration-independent. Tie: 10^4 (quick) / 10^6 (thorough) SelectConfig decisions and Evaluate sessions compared bit for bit with the model plus an independent oracle; attribute histories x 7 configurations through the public API compared after reopen and against a map.",
   note="The literal pairwise reading of stability is refuted (C19_stability_pairwise_refuted) and stated in recorded-decision/dwell form; Part A theorem is over a record-list model with abstract hash, the file-level claim rests on the differential runs; lazy/incremental/smart options are largely inert in the pinned tree.",
   design="7/C19", technique="Coq invariant proofs over a fold + bit-exact differential tie + independent oracle"),
}
import json as _json
ENGINE = {}
for _pid in ("C07", "C17", "C18"):
    try:
        _e = _json.load(open(os.path.join(V, "notes", _pid.lower() + "-manifest.json")))
        _e = _e.get(_pid, _e)
        _lc = _e.get("level_claimed", {})
        CHECKS[_pid] = dict(text=_lc.get("text") or _e["text"], note=_e.get("level_note") or _e.get("note"),
                            design=(_lc.get("design_ref", "") or "").replace("DESIGN.md section ", "") or "7/" + _pid,
                            technique=_e["technique"])
        if _e.get("engine"):
            ENGINE[_pid] = _e["engine"]
    except Exception as _ex:
        pass
for _pid, _f, _key in (("C12", "notes/c12_proposals.json", "manifest_check"), ("C08", "notes/C08-manifest.json", None)):
    try:
        _d = _json.load(open(os.path.join(V, _f)))
        _e = (_d[_key] if _key else _d)[_pid]
        CHECKS[_pid] = dict(text=_e["text"], note=_e["note"], design=_e.get("design", "7/" + _pid), technique=_e["technique"])
    except Exception as _ex:
        pass
try:
    _e = _json.load(open(os.path.join(V, "notes", "c14-manifest.json")))["C14"]
    CHECKS["C14"] = dict(CHECKS["C14"], text=_e["text"], note=CHECKS["C14"]["note"] + " " + _e.get("note_addition", ""))
except Exception as _ex:
    pass
PENDING = set()   # merged but temporarily not claimed (model being updated to the new LZF stream order)
for _p in PENDING:
    CHECKS.pop(_p, None)
NOT_APPLICABLE = []

def main():
    ids = [json.loads(l)["id"] for l in open(os.path.join(V, "properties.jsonl"))]
    checks = []
    for pid in ids:
        if pid not in CHECKS: continue
        c = CHECKS[pid]
        checks.append(dict(
            property_id=pid,
            quick_cmd="python3 tools/check.py %s --tier quick" % pid,
            thorough_cmd="python3 tools/check.py %s --tier thorough" % pid,
            evidence_file="/verif/evidence/%s.json" % pid,
            replay_cmd_template="python3 tools/check.py %s --replay {path}" % pid,
            engine=ENGINE.get(pid, "coq+verifharness"),
            level_claimed=dict(category="proof", text=c["text"], design_ref="DESIGN.md section " + c["design"]),
            level_note=c["note"], technique=c["technique"]))
    na = list(NOT_APPLICABLE)
    claimed = set(CHECKS) | {n["property_id"] for n in na}
    for pid in ids:
        if pid not in claimed:
            na.append(dict(property_id=pid, reason="not yet claimed: check under construction (see DESIGN.md section 7/%s); no verdict is given for it in this commit" % pid))
    man = dict(
        version=1,
        setup_cmd="python3 tools/setup.py",
        hooks=dict(guard="verif",
                   enable="go build -tags verif -overlay <generated overlay.json mapping /repo/... to /verif/harness/overlay/...> ./cmd/verifharness (see tools/vlib.py build_harness)",
                   baseline_off_cmd=BASE, source_commits=[], add_only=True),
        engines=[dict(name="coq", path="/verif/coq", serves_properties=sorted(CHECKS), kind_free_text="Coq 8.16.1 development: Model/ (executable), Proofs/, Props/ (property theorems + Print Assumptions)"),
                 dict(name="verifharness", path="/verif/harness/overlay", serves_properties=sorted(CHECKS), kind_free_text="Go harness injected with -overlay (build tag verif, add-only, nothing committed to /repo)"),
                 dict(name="check.py", path="/verif/tools/check.py", serves_properties=sorted(CHECKS), kind_free_text="driver: builds E1/E3 from the current trees, generates cases, evaluates the model with coqc vm_compute, classifies, writes evidence")],
        checks=checks, not_applicable=na,
        notes="All instrumentation is injected by go build -overlay (no hook commits in /repo; MANIFEST.hooks.source_commits is empty). fix: commits in /repo are listed in KNOWN_FINDINGS.json.")
    json.dump(man, open(os.path.join(V, "MANIFEST.json"), "w"), indent=1)
    print("claimed:", sorted(CHECKS), "not_applicable:", [n["property_id"] for n in na])

if __name__ == "__main__":
    main()
