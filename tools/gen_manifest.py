#!/usr/bin/env python3
"""Regenerate MANIFEST.json from the table below (keeps it schema-valid)."""
import json, os
V = os.path.dirname(os.path.dirname(os.path.abspath(__file__)))
BASE = json.load(open("/root/.vp/BASELINE.json"))["cmd"] if os.path.exists("/root/.vp/BASELINE.json") else "cd /repo && go test ./..."

CHECKS = {
 "C20": dict(
   text="Theorems (Coq, all inputs): the model of the FP8/bfloat16 encoders equals round-to-nearest-even on exact values for every non-NaN float32, is monotone, and code->float->code is the identity on all non-NaN codes (finite domains by vm_compute). Tie: the Go encoders are run on ALL 2^32 bit patterns per format and compared with the model run by run; theorem C20_run_lifting lifts end-point agreement to whole runs, so model = implementation on the full domain in every run.",
   note="Trusted: Coq kernel+vm_compute, the hand transcription of datatype_fp8.go/datatype_bfloat16.go (validated exhaustively each run), exact-value replacement of math.Log2/Pow/RoundToEven, Go harness glue. Known finding: NaN -> 0x7F (+Inf code) pinned by tests.",
   design="7/C20", technique="Coq theorem (nearest-even, monotone) + exhaustive differential tie lifted by a monotonicity lemma"),
 "C09": dict(
   text="Theorems (Coq, all ranks, all inputs): the model of validate accepts exactly the selections inside the dataset (uint64 wrap-around modelled; completeness up to the documented 10^9-block limit); every extraction path (compact recursion, single contiguous read under the exact contiguity test, 2-D element-wise, selection run, chunked with computed output position) and the dispatcher return select(full, row-major coordinates); invalid selections are rejected; the chunk iterator visits each chunk once, its boxes partition the index space and each piece is the box selection. Tie: complete enumeration of selections over small extents (all chunk shapes, partial edges) plus random rank 1-4 / filtered / corpus (compact) datasets; Go == independent oracle on the full Read == Coq model.",
   note="Trusted: hand transcription of dataset_read_hyperslab.go/overflow.go/dataset_chunk_iterator.go (validated each run), chunk store = format layout, B-tree/filters/datatype conversion not modelled (exercised through Dataset.Read in the tie), extraction arithmetic unbounded (dataset < 2^64 bytes). No open finding; 4 fix: commits.",
   design="7/C09", technique="Coq theorems (general rank) + exhaustive small-scope differential tie"),
 "C15": dict(
   text="Theorems (Coq, all histories incl. interleaved store/load, all block sizes 20..65536, every map-order choice): the model of the writable fractal heap refines a finite map id->bytes: live ids return their bytes, are pairwise distinct with disjoint ranges, header count/free equal the map's; a failing insert changes nothing; load(store s) preserves state and commutes with later operations; every live byte is in the serialised block and both read-only readers return it. Tie: generated histories replayed on the Go heap and on the model with all ids, bytes, ok/err, header counters, CRC of serialised header/block and both readers compared; independent Python dict oracle.",
   note="Trusted: hand transcription of fractalheap_write.go / fractalheap.go / core/attribute.go heap reader (validated each run), 8/8/LE superblock, CRC-32 reimplementation. Excluded by named hypotheses with refutation lemmas and listed as KNOWN-FINDINGs: multi-block heaps, operations on non-live ids.",
   design="7/C15", technique="Coq refinement proof (simulation relation, byte-level codec round trip) + differential tie + refuted-class witnesses"),
 "C01": dict(
   text="Theorems (Coq, every rank >= 1, all positive extents and chunk extents incl. non-dividing and larger-than-extent, every element size): placing every chunk the writer emits (full-size, zero-padded, keyed by element offset) back through the reader's placement returns exactly the data, in any chunk order; the writer's chunk enumeration visits each coordinate once; integer encodings of every width and both signednesses decode to the written value with the recorded sign bit (unsigned values never read negative); float64 bit patterns and fixed strings round-trip; integer->float64 widening exact below 2^53. Ties: (unit) Go chunk extraction + reader placement + element conversion vs the Coq model byte for byte; (history) one fully written dataset per file over all element types x ranks 1-4 x extents x chunk shapes x filters x superblock 0/2/3 with extreme data, closed, reopened with hdf5.Open and compared with the written values (Info, raw bytes, Read, ReadStrings; error where no typed read exists).",
   note="Trusted: transcription of chunk_coordinator.go / dataset_reader.go copyNDChunk / element encoders (validated each run by c01unit), tools/histlib.py oracle, hist harness. The chunk B-tree, object header and superblock codecs are covered by C11/C05, not by these theorems; compound/array/enum/opaque types are outside the generated domain.",
   design="7/C01", technique="Coq tiling/round-trip theorems (general rank) + unit differential tie + history-level reopen tie"),
 "C13": dict(
   text="Theorems (Coq, all ranks/extents/chunk shapes): reading the chunks written for the old extent under the new extent equals resize_arr (elements inside both extents kept, new space zero, outside gone) for any single resize mixing growing and shrinking dimensions, and for two resizes when no intermediate extent is below both outer extents; resize_arr laws. C13_shrink_grow_refuted exhibits the one failing class (shrink then grow without a rewrite), a listed KNOWN-FINDING. Ties: unit (Go reader placement under new dims vs model) and history-level: grow/shrink/rewrite sequences over ranks 1-3, fixed and unlimited maxima, requests beyond the maximum (must be rejected), shape and values after reopen vs the oracle.",
   note="Trusted: as C01. Resize's header rewrite (dataspace message) is tied only at history level. Known finding C13-shrink-then-grow is excluded from the generated gating histories by construction and re-confirmed on every run.",
   design="7/C13", technique="Coq theorem read_after_resize = resize_arr + refuted-class witness + history-level tie"),
}
NOT_APPLICABLE = []

def main():
    ids = [json.loads(l)["id"] for l in open(os.path.join(V, "properties.jsonl"))]
    checks = []
    for pid in ids:
        if pid not in CHECKS: continue
        c = CHECKS[pid]
        checks.append(dict(
            property_id=pid,
            quick_cmd="python3 tools/check.py %s --tier quick" % pid,
            thorough_cmd="python3 tools/check.py %s --tier thorough" % pid,
            evidence_file="/verif/evidence/%s.json" % pid,
            replay_cmd_template="python3 tools/check.py %s --replay {path}" % pid,
            engine="coq+verifharness",
            level_claimed=dict(category="proof", text=c["text"], design_ref="DESIGN.md section " + c["design"]),
            level_note=c["note"], technique=c["technique"]))
    na = list(NOT_APPLICABLE)
    claimed = set(CHECKS) | {n["property_id"] for n in na}
    for pid in ids:
        if pid not in claimed:
            na.append(dict(property_id=pid, reason="not yet claimed: check under construction (see DESIGN.md section 7/%s); no verdict is given for it in this commit" % pid))
    man = dict(
        version=1,
        setup_cmd="python3 tools/setup.py",
        hooks=dict(guard="verif",
                   enable="go build -tags verif -overlay <generated overlay.json mapping /repo/... to /verif/harness/overlay/...> ./cmd/verifharness (see tools/vlib.py build_harness)",
                   baseline_off_cmd=BASE, source_commits=[], add_only=True),
        engines=[dict(name="coq", path="/verif/coq", serves_properties=sorted(CHECKS), kind_free_text="Coq 8.16.1 development: Model/ (executable), Proofs/, Props/ (property theorems + Print Assumptions)"),
                 dict(name="verifharness", path="/verif/harness/overlay", serves_properties=sorted(CHECKS), kind_free_text="Go harness injected with -overlay (build tag verif, add-only, nothing committed to /repo)"),
                 dict(name="check.py", path="/verif/tools/check.py", serves_properties=sorted(CHECKS), kind_free_text="driver: builds E1/E3 from the current trees, generates cases, evaluates the model with coqc vm_compute, classifies, writes evidence")],
        checks=checks, not_applicable=na,
        notes="All instrumentation is injected by go build -overlay (no hook commits in /repo; MANIFEST.hooks.source_commits is empty). fix: commits in /repo are listed in KNOWN_FINDINGS.json.")
    json.dump(man, open(os.path.join(V, "MANIFEST.json"), "w"), indent=1)
    print("claimed:", sorted(CHECKS), "not_applicable:", [n["property_id"] for n in na])

if __name__ == "__main__":
    main()
