//go:build verif

package hdf5

// C18 (dynamic half): independent file handles used from several goroutines give the
// results of the sequential run, parallel writers of different files do not disturb
// each other, and nothing that the read API hands out aliases a pooled buffer.
// Run with -race.
//
// Environment:
//   VERIF_C18_SEED  int64, default 1  (math/rand source of every test)
//   VERIF_C18_ITERS int,   default 20 (scales the number of repetitions)
//
// Failure classes (first token of every failure message):
//   [result-diff] [goroutine-leak] [stop-timeout] [panic] [pool-alias]

import (
	"fmt"
	"math"
	"math/rand"
	"os"
	"path/filepath"
	"runtime"
	"sort"
	"strconv"
	"strings"
	"sync"
	"sync/atomic"
	"testing"
	"time"

	"github.com/scigolib/hdf5/internal/core"
	"github.com/scigolib/hdf5/internal/structures"
	"github.com/scigolib/hdf5/internal/utils"
)

const (
	verifC18StopTimeout = 5 * time.Second
	verifC18SettleTime  = 2 * time.Second
)

func verifC18Seed() int64 {
	if s := os.Getenv("VERIF_C18_SEED"); s != "" {
		if v, err := strconv.ParseInt(s, 10, 64); err == nil {
			return v
		}
	}
	return 1
}

func verifC18Iters() int {
	if s := os.Getenv("VERIF_C18_ITERS"); s != "" {
		if v, err := strconv.Atoi(s); err == nil && v > 0 {
			return v
		}
	}
	return 20
}

func verifC18Settle(before int) (int, bool) {
	deadline := time.Now().Add(verifC18SettleTime)
	for {
		n := runtime.NumGoroutine()
		if n <= before {
			return n, true
		}
		if time.Now().After(deadline) {
			return n, false
		}
		runtime.Gosched()
		time.Sleep(200 * time.Microsecond)
	}
}

func verifC18PanicString(r interface{}) string {
	switch v := r.(type) {
	case string:
		return v
	case error:
		return v.Error()
	}
	return fmt.Sprint(r)
}

// verifC18Parallel runs fn(0..n-1) in n goroutines released together; panics are
// recovered and returned as "[panic] ..." messages together with the messages the
// functions return themselves. The functions call beat() while they make progress:
// the wait is given up (finished == false) only when no goroutine has made progress
// for 6 stop timeouts, so the limit does not depend on the iteration count.
func verifC18Parallel(n int, what string, fn func(i int, beat func()) []string) (msgs []string, finished bool) {
	var mu sync.Mutex
	var wg sync.WaitGroup
	var beats atomic.Int64
	beat := func() { beats.Add(1) }
	start := make(chan struct{})
	for i := 0; i < n; i++ {
		wg.Add(1)
		go func(i int) {
			defer wg.Done()
			defer func() {
				if r := recover(); r != nil {
					mu.Lock()
					msgs = append(msgs, fmt.Sprintf("[panic] %s (%s goroutine=%d)", verifC18PanicString(r), what, i))
					mu.Unlock()
				}
			}()
			<-start
			out := fn(i, beat)
			mu.Lock()
			msgs = append(msgs, out...)
			mu.Unlock()
		}(i)
	}
	done := make(chan struct{})
	go func() { wg.Wait(); close(done) }()
	close(start)
	ticker := time.NewTicker(50 * time.Millisecond)
	defer ticker.Stop()
	last, lastChange := beats.Load(), time.Now()
	for {
		select {
		case <-done:
			mu.Lock()
			defer mu.Unlock()
			return msgs, true
		case <-ticker.C:
			if b := beats.Load(); b != last {
				last, lastChange = b, time.Now()
			} else if time.Since(lastChange) > 6*verifC18StopTimeout {
				return nil, false
			}
		}
	}
}

// ---------------------------------------------------------------------------
// Canonical rendering.

func verifC18Canon(v interface{}) string {
	switch x := v.(type) {
	case nil:
		return "nil"
	case float64:
		return fmt.Sprintf("f64:%x", math.Float64bits(x))
	case float32:
		return fmt.Sprintf("f32:%x", math.Float32bits(x))
	case []float64:
		var sb strings.Builder
		sb.WriteString("[]f64{")
		for _, f := range x {
			fmt.Fprintf(&sb, "%x,", math.Float64bits(f))
		}
		sb.WriteString("}")
		return sb.String()
	case []float32:
		var sb strings.Builder
		sb.WriteString("[]f32{")
		for _, f := range x {
			fmt.Fprintf(&sb, "%x,", math.Float32bits(f))
		}
		sb.WriteString("}")
		return sb.String()
	case []byte:
		return fmt.Sprintf("bytes:%x", x)
	case string:
		return fmt.Sprintf("str:%q", x)
	case []string:
		return fmt.Sprintf("[]str:%q", x)
	case []interface{}:
		parts := make([]string, len(x))
		for i, e := range x {
			parts[i] = verifC18Canon(e)
		}
		return "[]any{" + strings.Join(parts, ",") + "}"
	case core.CompoundValue:
		return verifC18CanonMap(x)
	case map[string]interface{}:
		return verifC18CanonMap(x)
	case []core.CompoundValue:
		parts := make([]string, len(x))
		for i, e := range x {
			parts[i] = verifC18CanonMap(e)
		}
		return "[]compound{" + strings.Join(parts, ",") + "}"
	case error:
		return "err:" + x.Error()
	}
	return fmt.Sprintf("%T:%v", v, v)
}

func verifC18CanonMap(m map[string]interface{}) string {
	keys := make([]string, 0, len(m))
	for k := range m {
		keys = append(keys, k)
	}
	sort.Strings(keys)
	parts := make([]string, len(keys))
	for i, k := range keys {
		parts[i] = fmt.Sprintf("%q=%s", k, verifC18Canon(m[k]))
	}
	return "map{" + strings.Join(parts, ",") + "}"
}

func verifC18CanonAttrs(attrs []*core.Attribute, err error) []string {
	if err != nil {
		return []string{"attrs-error: " + err.Error()}
	}
	out := make([]string, 0, len(attrs))
	for _, a := range attrs {
		if a == nil {
			out = append(out, "attr <nil>")
			continue
		}
		v, verr := a.ReadValue()
		val := verifC18Canon(v)
		if verr != nil {
			val = "value-error: " + verr.Error()
		}
		dims := "?"
		if a.Dataspace != nil {
			dims = fmt.Sprint(a.Dataspace.Dimensions)
		}
		class, size := "?", uint32(0)
		if a.Datatype != nil {
			class, size = fmt.Sprint(a.Datatype.Class), a.Datatype.Size
		}
		out = append(out, fmt.Sprintf("attr %q class=%s size=%d dims=%s raw=%x value=%s", a.Name, class, size, dims, a.Data, val))
	}
	sort.Strings(out)
	return out
}

// verifC18DumpObject renders one object of an open file: everything the public read
// API gives for it.
func verifC18DumpObject(path string, obj Object) []string {
	var lines []string
	add := func(format string, args ...interface{}) {
		lines = append(lines, path+" | "+fmt.Sprintf(format, args...))
	}
	switch o := obj.(type) {
	case *Group:
		add("group name=%q children=%d", o.Name(), len(o.Children()))
		for _, l := range verifC18CanonAttrs(o.Attributes()) {
			add("%s", l)
		}
	case *Dataset:
		add("dataset name=%q", o.Name())
		if info, err := o.Info(); err != nil {
			add("info-error: %v", err)
		} else {
			add("info %s", info)
		}
		for _, l := range verifC18CanonAttrs(o.Attributes()) {
			add("%s", l)
		}
		if names, err := o.ListAttributes(); err == nil {
			add("attr-names %q", names)
			for _, n := range names {
				v, err := o.ReadAttribute(n)
				if err != nil {
					add("read-attr %q error: %v", n, err)
				} else {
					add("read-attr %q %s", n, verifC18Canon(v))
				}
			}
		}
		if vals, err := o.Read(); err == nil {
			add("read %s", verifC18Canon(vals))
		} else if strs, serr := o.ReadStrings(); serr == nil {
			add("read-strings %s", verifC18Canon(strs))
		} else if comp, cerr := o.ReadCompound(); cerr == nil {
			add("read-compound %s", verifC18Canon(comp))
		} else {
			add("read-error: %v / %v / %v", err, serr, cerr)
		}
		if it, err := o.ChunkIterator(); err == nil {
			n := 0
			for it.Next() && n < 64 {
				c, cerr := it.Chunk()
				if cerr != nil {
					add("chunk %v error: %v", it.ChunkCoords(), cerr)
				} else {
					add("chunk %v %s", it.ChunkCoords(), verifC18Canon(c))
				}
				n++
			}
			if it.Err() != nil {
				add("chunk-iterator error: %v", it.Err())
			}
		}
	case *NamedDatatype:
		dt := o.Datatype()
		if dt != nil {
			add("named-datatype name=%q class=%v size=%d", o.Name(), dt.Class, dt.Size)
		} else {
			add("named-datatype name=%q", o.Name())
		}
	default:
		add("object %T name=%q", obj, obj.Name())
	}
	return lines
}

// verifC18Dump opens the file with its own handle, walks the whole tree and returns
// the canonical (sorted) rendering.
func verifC18Dump(path string) (string, error) {
	f, err := Open(path)
	if err != nil {
		return "", err
	}
	defer func() { _ = f.Close() }()
	lines := []string{fmt.Sprintf("superblock version=%d", f.SuperblockVersion())}
	f.Walk(func(p string, obj Object) {
		lines = append(lines, verifC18DumpObject(p, obj)...)
	})
	sort.Strings(lines)
	return strings.Join(lines, "\n"), nil
}

func verifC18FirstDiff(a, b string) string {
	la, lb := strings.Split(a, "\n"), strings.Split(b, "\n")
	for i := 0; i < len(la) || i < len(lb); i++ {
		var x, y string
		if i < len(la) {
			x = la[i]
		}
		if i < len(lb) {
			y = lb[i]
		}
		if x != y {
			if len(x) > 160 {
				x = x[:160] + "..."
			}
			if len(y) > 160 {
				y = y[:160] + "..."
			}
			return fmt.Sprintf("line %d: want %q got %q", i, x, y)
		}
	}
	return "no difference"
}

// ---------------------------------------------------------------------------
// Deterministic writer.

// verifC18Options returns the file options used by writer number idx.
func verifC18Options(idx int) []interface{} {
	switch idx % 4 {
	case 1:
		return []interface{}{WithLazyRebalancing(LazyThreshold(0.10), LazyMaxDelay(time.Millisecond), LazyBatchSize(16))}
	case 2:
		return []interface{}{
			WithLazyRebalancing(),
			WithIncrementalRebalancing(
				IncrementalBudget(50*time.Microsecond),
				IncrementalInterval(100*time.Microsecond),
				IncrementalProgressCallback(func(structures.RebalancingProgress) {}),
			),
		}
	case 3:
		return []interface{}{WithSuperblockVersion(SuperblockV0)}
	}
	return nil
}

// verifC18WriteFile writes a file whose content depends on idx only.
func verifC18WriteFile(path string, idx int) (err error) {
	fw, err := CreateForWrite(path, CreateTruncate, verifC18Options(idx)...)
	if err != nil {
		return fmt.Errorf("CreateForWrite: %w", err)
	}
	defer func() {
		if cerr := fw.Close(); err == nil && cerr != nil {
			err = fmt.Errorf("Close: %w", cerr)
		}
	}()

	g, err := fw.CreateGroup("/grp")
	if err != nil {
		return fmt.Errorf("CreateGroup: %w", err)
	}
	if err := g.WriteAttribute("index", int32(idx)); err != nil {
		return fmt.Errorf("group attribute: %w", err)
	}
	if _, err := fw.CreateGroup("/grp/sub"); err != nil {
		return fmt.Errorf("CreateGroup nested: %w", err)
	}

	n := 16 + idx%5
	ints := make([]int32, n)
	for i := range ints {
		ints[i] = int32(idx*1000 + i*i - 7)
	}
	dsInt, err := fw.CreateDataset("/ints", Int32, []uint64{uint64(n)})
	if err != nil {
		return fmt.Errorf("CreateDataset ints: %w", err)
	}
	if err := dsInt.Write(ints); err != nil {
		return fmt.Errorf("write ints: %w", err)
	}
	if err := dsInt.WriteAttribute("scale", float64(idx)+0.25); err != nil {
		return fmt.Errorf("attribute scale: %w", err)
	}
	if err := dsInt.WriteAttribute("unit", fmt.Sprintf("unit-%d", idx)); err != nil {
		return fmt.Errorf("attribute unit: %w", err)
	}
	if err := dsInt.WriteAttribute("vec", []int32{int32(idx), 2, 3}); err != nil {
		return fmt.Errorf("attribute vec: %w", err)
	}

	floats := make([]float64, 3*4)
	for i := range floats {
		floats[i] = math.Sqrt(float64(idx+1)) * float64(i+1) / 3
	}
	dsF, err := fw.CreateDataset("/grp/matrix", Float64, []uint64{3, 4})
	if err != nil {
		return fmt.Errorf("CreateDataset matrix: %w", err)
	}
	if err := dsF.Write(floats); err != nil {
		return fmt.Errorf("write matrix: %w", err)
	}

	strs := make([]string, 5)
	for i := range strs {
		strs[i] = fmt.Sprintf("s%d-%d", idx, i)
	}
	dsS, err := fw.CreateDataset("/grp/sub/names", String, []uint64{5}, WithStringSize(12))
	if err != nil {
		return fmt.Errorf("CreateDataset names: %w", err)
	}
	if err := dsS.Write(strs); err != nil {
		return fmt.Errorf("write names: %w", err)
	}

	// Chunked and compressed.
	chunked := make([]int32, 40*10)
	for i := range chunked {
		chunked[i] = int32((i*7 + idx) % 47)
	}
	dsC, err := fw.CreateDataset("/chunked", Int32, []uint64{40, 10}, WithChunkDims([]uint64{10, 5}), WithShuffle(), WithGZIPCompression(6))
	if err != nil {
		return fmt.Errorf("CreateDataset chunked: %w", err)
	}
	if err := dsC.Write(chunked); err != nil {
		return fmt.Errorf("write chunked: %w", err)
	}

	// Enough attributes for dense attribute storage, then a few deletions.
	dsA, err := fw.CreateDataset("/many_attrs", Float64, []uint64{2})
	if err != nil {
		return fmt.Errorf("CreateDataset many_attrs: %w", err)
	}
	if err := dsA.Write([]float64{float64(idx), -float64(idx)}); err != nil {
		return fmt.Errorf("write many_attrs: %w", err)
	}
	nAttrs := MaxCompactAttributes + 6 + idx%3
	for i := 0; i < nAttrs; i++ {
		if err := dsA.WriteAttribute(fmt.Sprintf("attr_%02d", i), int32(idx*100+i)); err != nil {
			return fmt.Errorf("attribute %d of many_attrs: %w", i, err)
		}
	}
	for i := 0; i < 3; i++ {
		if err := dsA.DeleteAttribute(fmt.Sprintf("attr_%02d", i*3+idx%2)); err != nil {
			return fmt.Errorf("delete attribute of many_attrs: %w", err)
		}
	}
	return nil
}

// ---------------------------------------------------------------------------

// verifC18ReferenceFiles are small files of the repository's test data (paths relative
// to the package directory).
var verifC18ReferenceFiles = []string{
	"testdata/with_groups.h5",
	"testdata/with_attributes.h5",
	"testdata/various_types.h5",
	"testdata/compound_test.h5",
	"testdata/string_test.h5",
	"testdata/gzip_test.h5",
	"testdata/test_3d_chunked.h5",
	"testdata/v0.h5",
}

func TestVerifC18_IndependentHandles(t *testing.T) {
	const name = "TestVerifC18_IndependentHandles"
	seed := verifC18Seed()
	iters := verifC18Iters()
	rng := rand.New(rand.NewSource(seed))
	dir := t.TempDir()
	before := runtime.NumGoroutine()

	// File set: repository test data plus files written here.
	var files []string
	for _, p := range verifC18ReferenceFiles {
		if _, err := verifC18Dump(p); err != nil {
			t.Logf("%s: skipping %s: %v", name, p, err)
			continue
		}
		files = append(files, p)
	}
	if len(files) < 3 {
		t.Fatalf("[result-diff] %s seed=%d: only %d of the reference files can be opened", name, seed, len(files))
	}
	const nWritten = 3
	for i := 0; i < nWritten; i++ {
		p := filepath.Join(dir, fmt.Sprintf("seq_%d.h5", i))
		if err := verifC18WriteFile(p, i); err != nil {
			t.Fatalf("[result-diff] %s seed=%d: sequential writer %d: %v", name, seed, i, err)
		}
		files = append(files, p)
	}

	// Sequential reference.
	want := make(map[string]string, len(files))
	for _, p := range files {
		d, err := verifC18Dump(p)
		if err != nil {
			t.Fatalf("[result-diff] %s seed=%d: sequential dump of %s: %v", name, seed, p, err)
		}
		again, err := verifC18Dump(p)
		if err != nil || again != d {
			t.Fatalf("[result-diff] %s seed=%d: two sequential dumps of %s differ (%v): %s", name, seed, p, err, verifC18FirstDiff(d, again))
		}
		want[p] = d
		if os.Getenv("VERIF_C18_DEBUG") != "" {
			t.Logf("dump of %s:\n%s", p, d)
		}
	}

	// Readers: half of them on the same file, the others on different files.
	const nReaders = 8
	shared := files[len(files)-1]
	reps := 1 + iters/7
	assignment := make([]string, nReaders)
	for i := range assignment {
		if i%2 == 0 {
			assignment[i] = shared
		} else {
			assignment[i] = files[rng.Intn(len(files))]
		}
	}
	msgs, finished := verifC18Parallel(nReaders, name+" readers", func(i int, beat func()) []string {
		var out []string
		for rep := 0; rep < reps; rep++ {
			beat()
			p := assignment[i]
			if i%2 == 1 {
				p = files[(i+rep*3)%len(files)]
			}
			got, err := verifC18Dump(p)
			if err != nil {
				out = append(out, fmt.Sprintf("[result-diff] %s seed=%d reader=%d rep=%d: dump of %s failed: %v", name, seed, i, rep, p, err))
			} else if got != want[p] {
				out = append(out, fmt.Sprintf("[result-diff] %s seed=%d reader=%d rep=%d: dump of %s differs from the sequential one: %s", name, seed, i, rep, p, verifC18FirstDiff(want[p], got)))
			}
		}
		return out
	})
	if !finished {
		t.Fatalf("[stop-timeout] %s seed=%d: concurrent readers did not finish", name, seed)
	}
	for _, m := range msgs {
		t.Error(m)
	}

	// Writers: each goroutine writes a different file; the content is the one the
	// same generator produced sequentially.
	nWriters := 6
	wantWritten := make([]string, nWriters)
	for i := 0; i < nWriters; i++ {
		if i < nWritten {
			wantWritten[i] = want[filepath.Join(dir, fmt.Sprintf("seq_%d.h5", i))]
			continue
		}
		p := filepath.Join(dir, fmt.Sprintf("seq_%d.h5", i))
		if err := verifC18WriteFile(p, i); err != nil {
			t.Fatalf("[result-diff] %s seed=%d: sequential writer %d: %v", name, seed, i, err)
		}
		d, err := verifC18Dump(p)
		if err != nil {
			t.Fatalf("[result-diff] %s seed=%d: dump of sequentially written file %d: %v", name, seed, i, err)
		}
		wantWritten[i] = d
	}
	wreps := 1 + iters/20
	msgs, finished = verifC18Parallel(nWriters, name+" writers", func(i int, beat func()) []string {
		var out []string
		for rep := 0; rep < wreps; rep++ {
			beat()
			p := filepath.Join(dir, fmt.Sprintf("par_%d_%d.h5", i, rep))
			if err := verifC18WriteFile(p, i); err != nil {
				out = append(out, fmt.Sprintf("[result-diff] %s seed=%d writer=%d rep=%d: %v", name, seed, i, rep, err))
				continue
			}
			beat()
			got, err := verifC18Dump(p)
			if err != nil {
				out = append(out, fmt.Sprintf("[result-diff] %s seed=%d writer=%d rep=%d: dump failed: %v", name, seed, i, rep, err))
			} else if got != wantWritten[i] {
				out = append(out, fmt.Sprintf("[result-diff] %s seed=%d writer=%d rep=%d: file written concurrently differs from the one written sequentially: %s", name, seed, i, rep, verifC18FirstDiff(wantWritten[i], got)))
			}
			seqBytes, err1 := os.ReadFile(filepath.Join(dir, fmt.Sprintf("seq_%d.h5", i)))
			parBytes, err2 := os.ReadFile(p)
			if err1 != nil || err2 != nil || string(seqBytes) != string(parBytes) {
				out = append(out, fmt.Sprintf("[result-diff] %s seed=%d writer=%d rep=%d: bytes of the concurrently written file differ from the sequentially written one (%v %v, %d vs %d bytes)", name, seed, i, rep, err1, err2, len(seqBytes), len(parBytes)))
			}
			_ = os.Remove(p)
		}
		return out
	})
	if !finished {
		t.Fatalf("[stop-timeout] %s seed=%d: concurrent writers did not finish", name, seed)
	}
	for _, m := range msgs {
		t.Error(m)
	}

	if n, ok := verifC18Settle(before); !ok {
		t.Errorf("[goroutine-leak] %s seed=%d: %d goroutines before, %d after all files were closed", name, seed, before, n)
	}
	t.Logf("%s seed=%d files=%d readers=%d x%d writers=%d x%d", name, seed, len(files), nReaders, reps, nWriters, wreps)
}

// verifC18Retained is a set of objects obtained from the read API and kept alive.
type verifC18Retained struct {
	path    string
	file    *File
	objects []Object
	paths   []string
	attrs   [][]*core.Attribute
	headers []*core.ObjectHeader
	values  []interface{}
	names   []string
}

func verifC18Retain(path string) (*verifC18Retained, error) {
	f, err := Open(path)
	if err != nil {
		return nil, err
	}
	r := &verifC18Retained{path: path, file: f}
	f.Walk(func(p string, obj Object) {
		r.objects = append(r.objects, obj)
		r.paths = append(r.paths, p)
		r.names = append(r.names, obj.Name())
		var addr uint64
		switch o := obj.(type) {
		case *Group:
			a, _ := o.Attributes()
			r.attrs = append(r.attrs, a)
			addr = o.address
		case *Dataset:
			a, _ := o.Attributes()
			r.attrs = append(r.attrs, a)
			addr = o.address
			if v, err := o.Read(); err == nil {
				r.values = append(r.values, v)
			} else if s, err := o.ReadStrings(); err == nil {
				r.values = append(r.values, s)
			} else if c, err := o.ReadCompound(); err == nil {
				r.values = append(r.values, c)
			}
			if n, err := o.ListAttributes(); err == nil {
				r.values = append(r.values, n)
			}
		}
		if addr != 0 {
			if h, err := core.ReadObjectHeader(f.osFile, addr, f.sb); err == nil {
				r.headers = append(r.headers, h)
			}
		}
	})
	return r, nil
}

// canon renders the retained objects themselves (nothing is read again from the file
// except attribute values that live in the global heap).
func (r *verifC18Retained) canon() string {
	var sb strings.Builder
	fmt.Fprintf(&sb, "file %s root=%q\n", r.path, r.file.Root().Name())
	for i, obj := range r.objects {
		fmt.Fprintf(&sb, "object %s name=%q retained-name=%q\n", r.paths[i], obj.Name(), r.names[i])
		if g, ok := obj.(*Group); ok {
			for _, c := range g.Children() {
				fmt.Fprintf(&sb, "  child %q\n", c.Name())
			}
			if g.localHeap != nil {
				fmt.Fprintf(&sb, "  local-heap %x\n", g.localHeap.Data)
			}
		}
	}
	for i, attrs := range r.attrs {
		for _, a := range attrs {
			if a == nil {
				continue
			}
			fmt.Fprintf(&sb, "attr[%d] %q raw=%x", i, a.Name, a.Data)
			if a.Datatype != nil {
				fmt.Fprintf(&sb, " class=%v size=%d props=%x", a.Datatype.Class, a.Datatype.Size, a.Datatype.Properties)
			}
			if a.Dataspace != nil {
				fmt.Fprintf(&sb, " dims=%v", a.Dataspace.Dimensions)
			}
			sb.WriteString("\n")
		}
	}
	for i, h := range r.headers {
		fmt.Fprintf(&sb, "header[%d] version=%d name=%q messages=%d\n", i, h.Version, h.Name, len(h.Messages))
		for _, m := range h.Messages {
			fmt.Fprintf(&sb, "  msg type=%d offset=%d data=%x\n", m.Type, m.Offset, m.Data)
		}
		for _, a := range h.Attributes {
			if a != nil {
				fmt.Fprintf(&sb, "  hattr %q raw=%x\n", a.Name, a.Data)
			}
		}
	}
	for i, v := range r.values {
		fmt.Fprintf(&sb, "value[%d] %s\n", i, verifC18Canon(v))
	}
	return sb.String()
}

// verifC18ChurnPool takes buffers of many sizes out of the pool, scribbles over their
// whole capacity and gives them back.
func verifC18ChurnPool(r *rand.Rand, rounds int) {
	sizes := []int{16, 24, 40, 64, 128, 256, 512, 1024, 2048, 4096}
	large := []int{8192, 20000, 65536}
	held := make([][]byte, 0, 8)
	for i := 0; i < rounds; i++ {
		n := sizes[r.Intn(len(sizes))]
		if r.Intn(16) == 0 {
			n = large[r.Intn(len(large))]
		}
		buf := utils.GetBuffer(n)
		fill := byte(0xAA)
		if i%2 == 1 {
			fill = 0x55
		}
		full := buf[:cap(buf)]
		for j := range full {
			full[j] = fill
		}
		held = append(held, buf)
		if len(held) == cap(held) || r.Intn(3) == 0 {
			for _, b := range held {
				utils.ReleaseBuffer(b)
			}
			held = held[:0]
		}
	}
	for _, b := range held {
		utils.ReleaseBuffer(b)
	}
}

func TestVerifC18_BufferPoolNoAlias(t *testing.T) {
	const name = "TestVerifC18_BufferPoolNoAlias"
	seed := verifC18Seed()
	iters := verifC18Iters()
	rng := rand.New(rand.NewSource(seed))
	dir := t.TempDir()
	before := runtime.NumGoroutine()

	written := filepath.Join(dir, "pool.h5")
	if err := verifC18WriteFile(written, 2); err != nil {
		t.Fatalf("[result-diff] %s seed=%d: writing %s: %v", name, seed, written, err)
	}
	candidates := append([]string{written}, verifC18ReferenceFiles...)

	var retained []*verifC18Retained
	var snapshots []string
	var others []string
	for i, p := range candidates {
		if i%2 == 1 {
			others = append(others, p)
			continue
		}
		// Churn between the opens as well: a buffer released by one open and kept by
		// mistake shows up as soon as the next user scribbles over it.
		verifC18ChurnPool(rng, 50)
		r, err := verifC18Retain(p)
		if err != nil {
			t.Logf("%s: skipping %s: %v", name, p, err)
			continue
		}
		retained = append(retained, r)
		snapshots = append(snapshots, r.canon())
	}
	defer func() {
		for _, r := range retained {
			_ = r.file.Close()
		}
	}()
	if len(retained) < 3 {
		t.Fatalf("[result-diff] %s seed=%d: only %d files could be opened", name, seed, len(retained))
	}

	check := func(stage string) {
		for i, r := range retained {
			if got := r.canon(); got != snapshots[i] {
				t.Errorf("[pool-alias] %s seed=%d: objects retained from %s changed after %s: %s", name, seed, r.path, stage, verifC18FirstDiff(snapshots[i], got))
			}
		}
	}

	verifC18ChurnPool(rng, 50*iters)
	check("single-goroutine pool churn")

	seeds := make([]int64, 6)
	for i := range seeds {
		seeds[i] = rng.Int63()
	}
	msgs, finished := verifC18Parallel(len(seeds), name+" churn", func(i int, beat func()) []string {
		r := rand.New(rand.NewSource(seeds[i]))
		var out []string
		for rep := 0; rep < 1+iters/4; rep++ {
			beat()
			verifC18ChurnPool(r, 100)
			if i%2 == 0 && len(others) > 0 {
				// Other files are opened and read while the pool is being churned.
				p := others[(i/2+rep)%len(others)]
				a, err := verifC18Dump(p)
				if err != nil {
					continue
				}
				verifC18ChurnPool(r, 20)
				b, err := verifC18Dump(p)
				if err != nil || a != b {
					out = append(out, fmt.Sprintf("[result-diff] %s seed=%d goroutine=%d: two dumps of %s differ during pool churn (%v): %s", name, seed, i, p, err, verifC18FirstDiff(a, b)))
				}
			}
		}
		return out
	})
	if !finished {
		t.Fatalf("[stop-timeout] %s seed=%d: pool churn goroutines did not finish", name, seed)
	}
	for _, m := range msgs {
		t.Error(m)
	}
	check("concurrent pool churn")

	if n, ok := verifC18Settle(before); !ok {
		t.Errorf("[goroutine-leak] %s seed=%d: %d goroutines before, %d after", name, seed, before, n)
	}
	total := 0
	for _, s := range snapshots {
		total += len(s)
	}
	t.Logf("%s seed=%d retainedFiles=%d snapshotBytes=%d otherFiles=%d", name, seed, len(retained), total, len(others))
}
