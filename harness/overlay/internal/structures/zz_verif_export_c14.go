//go:build verif

package structures

import "github.com/scigolib/hdf5/internal/core"

// Add-only exports for the C14 correspondence check (B-tree v2 name index).

// VerifJenkinsHash exposes the name hash.
func VerifJenkinsHash(s string) uint32 { return jenkinsHash(s) }

// VerifBT2Snapshot is a copy of the state of a WritableBTreeV2 (the "four views" of the record
// count, the header fields, the loaded addresses and the lazy counters).
type VerifBT2Snapshot struct {
	NodeSize       uint32
	Type           uint8
	HdrNodeSize    uint32
	RecordSize     uint16
	Depth          uint16
	Split, Merge   uint8
	Root           uint64
	NumRecordsRoot uint16
	TotalRecords   uint64
	LeafType       uint8
	LeafRecords    []LinkNameRecord
	Records        []LinkNameRecord
	LoadedHeader   uint64
	LoadedLeaf     uint64
	LazyOn         bool
	Underflow      int
	Pending        int
	MaxRecords     int
}

// VerifBT2State copies the state out.
func VerifBT2State(bt *WritableBTreeV2) VerifBT2Snapshot {
	s := VerifBT2Snapshot{
		NodeSize:       bt.nodeSize,
		Type:           bt.header.Type,
		HdrNodeSize:    bt.header.NodeSize,
		RecordSize:     bt.header.RecordSize,
		Depth:          bt.header.Depth,
		Split:          bt.header.SplitPercent,
		Merge:          bt.header.MergePercent,
		Root:           bt.header.RootNodeAddr,
		NumRecordsRoot: bt.header.NumRecordsRoot,
		TotalRecords:   bt.header.TotalRecords,
		LeafType:       bt.leaf.Type,
		LeafRecords:    append([]LinkNameRecord(nil), bt.leaf.Records...),
		Records:        append([]LinkNameRecord(nil), bt.records...),
		LoadedHeader:   bt.loadedHeaderAddress,
		LoadedLeaf:     bt.loadedLeafAddress,
		MaxRecords:     bt.calculateMaxRecords(),
	}
	if bt.lazyState != nil {
		s.LazyOn = true
		s.Underflow = bt.lazyState.UnderflowCount
		s.Pending = bt.lazyState.PendingDeletes
	}
	return s
}

// VerifBT2Encode returns the serialised header and leaf exactly as WriteToFile/WriteAt emit them.
func VerifBT2Encode(bt *WritableBTreeV2, sb *core.Superblock) (hdr, leaf []byte, err error) {
	leaf, err = bt.encodeLeafNode(sb)
	if err != nil {
		return nil, nil, err
	}
	hdr, err = bt.encodeHeader(sb)
	return hdr, leaf, err
}
