//go:build verif

package structures

// C18 (dynamic half): race-freedom and clean stop of the background (incremental)
// B-tree rebalancing. Run with -race. The file compiles against the tree with and
// without the rebalMu fix: fixed-only identifiers are reached through reflect.
//
// Environment:
//   VERIF_C18_SEED  int64, default 1  (math/rand source of every test)
//   VERIF_C18_ITERS int,   default 20 (scales the number of rounds)
//
// Failure classes (first token of every failure message):
//   [result-diff] [goroutine-leak] [stop-timeout] [panic]

import (
	"errors"
	"fmt"
	"math/rand"
	"os"
	"reflect"
	"runtime"
	"strconv"
	"sync"
	"sync/atomic"
	"testing"
	"time"
	"unsafe"
)

const (
	verifC18StopTimeout = 5 * time.Second
	verifC18SettleTime  = 2 * time.Second
)

func verifC18Seed() int64 {
	if s := os.Getenv("VERIF_C18_SEED"); s != "" {
		if v, err := strconv.ParseInt(s, 10, 64); err == nil {
			return v
		}
	}
	return 1
}

func verifC18Iters() int {
	if s := os.Getenv("VERIF_C18_ITERS"); s != "" {
		if v, err := strconv.Atoi(s); err == nil && v > 0 {
			return v
		}
	}
	return 20
}

// verifC18Settle polls until the number of goroutines is back to (at most) before.
func verifC18Settle(before int) (int, bool) {
	deadline := time.Now().Add(verifC18SettleTime)
	for {
		n := runtime.NumGoroutine()
		if n <= before {
			return n, true
		}
		if time.Now().After(deadline) {
			return n, false
		}
		runtime.Gosched()
		time.Sleep(200 * time.Microsecond)
	}
}

// verifC18PanicString renders a recovered panic value. Strings and errors are taken as
// they are, without fmt: sync.WaitGroup.Wait panics ("WaitGroup is reused ...") with the
// race detector's synchronisation tracking switched off for the goroutine, and anything
// that goes through a sync.Pool afterwards (fmt does) is then reported as a bogus race.
func verifC18PanicString(r interface{}) string {
	switch v := r.(type) {
	case string:
		return v
	case error:
		return v.Error()
	}
	return fmt.Sprint(r)
}

// verifC18Guard runs fn in its own goroutine with a recover; it returns the recovered
// panic value as a string ("" if none) and whether fn finished within the stop timeout.
func verifC18Guard(fn func()) (panicked string, finished bool) {
	done := make(chan string, 1)
	go func() {
		defer func() {
			if r := recover(); r != nil {
				done <- verifC18PanicString(r)
				return
			}
			done <- ""
		}()
		fn()
	}()
	timer := time.NewTimer(verifC18StopTimeout)
	defer timer.Stop()
	select {
	case p := <-done:
		return p, true
	case <-timer.C:
		return "", false
	}
}

// verifC18LockTree locks the mutex that guards the lazy state of the tree when the
// tree has one (field rebalMu, present after the fix) and returns the unlock function.
// The second result tells whether a lock was found.
func verifC18LockTree(bt *WritableBTreeV2) (func(), bool) {
	f := reflect.ValueOf(bt).Elem().FieldByName("rebalMu")
	if !f.IsValid() || !f.CanAddr() {
		return func() {}, false
	}
	p := unsafe.Pointer(f.UnsafeAddr())
	switch f.Type() {
	case reflect.TypeOf(sync.Mutex{}):
		mu := (*sync.Mutex)(p)
		mu.Lock()
		return mu.Unlock, true
	case reflect.TypeOf(sync.RWMutex{}):
		mu := (*sync.RWMutex)(p)
		mu.Lock()
		return mu.Unlock, true
	}
	return func() {}, false
}

func verifC18HasTreeLock() bool {
	unlock, ok := verifC18LockTree(NewWritableBTreeV2(4096))
	unlock()
	return ok
}

// verifC18Model is the sequential reference for the record set of one tree.
type verifC18Model struct {
	names []string
	next  int
}

func verifC18LazyConfig(rng *rand.Rand) LazyRebalancingConfig {
	delays := []time.Duration{20 * time.Microsecond, time.Millisecond, time.Hour}
	thresholds := []float64{0.01, 0.05, 0.2}
	return LazyRebalancingConfig{
		Enabled:   true,
		Threshold: thresholds[rng.Intn(len(thresholds))],
		MaxDelay:  delays[rng.Intn(len(delays))],
		BatchSize: 1 + rng.Intn(100),
	}
}

func verifC18IncrementalConfig(rng *rand.Rand, cb func(RebalancingProgress)) IncrementalRebalancingConfig {
	return IncrementalRebalancingConfig{
		Enabled:          true,
		Budget:           time.Duration(1+rng.Intn(100)) * time.Microsecond,
		Interval:         time.Duration(1+rng.Intn(1000)) * time.Microsecond,
		ProgressCallback: cb,
	}
}

// verifC18SeedUnderflow gives the background loop real work. Called only while no
// other goroutine can reach the tree, or (when the tree has a lock) under that lock.
func verifC18SeedUnderflow(bt *WritableBTreeV2, n int, base uint64) {
	unlock, _ := verifC18LockTree(bt)
	defer unlock()
	if bt.lazyState == nil {
		return
	}
	for i := 0; i < n; i++ {
		bt.lazyState.UnderflowNodes = append(bt.lazyState.UnderflowNodes, base+uint64(i)*4096)
	}
}

func TestVerifC18_IncrementalForeground(t *testing.T) {
	const name = "TestVerifC18_IncrementalForeground"
	seed := verifC18Seed()
	rounds := verifC18Iters()
	rng := rand.New(rand.NewSource(seed))
	hasLock := verifC18HasTreeLock()
	var bgNodes, callbacks, cbInconsistent int64

	for round := 0; round < rounds; round++ {
		before := runtime.NumGoroutine()

		bt := NewWritableBTreeV2(4096)
		model := &verifC18Model{}
		maxRecords := bt.calculateMaxRecords()
		// Around the underflow limit (maxRecords/2), so that deletes sometimes trigger
		// batch rebalancing by threshold and sometimes do not.
		nrec := maxRecords/2 - 20 + rng.Intn(60)
		for i := 0; i < nrec; i++ {
			n := fmt.Sprintf("r%d_%d", round, model.next)
			model.next++
			if err := bt.InsertRecord(n, uint64(i)); err == nil {
				model.names = append(model.names, n)
			}
		}

		bt.EnableLazyRebalancing(verifC18LazyConfig(rng))
		verifC18SeedUnderflow(bt, rng.Intn(4000), 0x1000)

		var cb func(RebalancingProgress)
		switch rng.Intn(3) {
		case 1:
			cb = func(p RebalancingProgress) {
				atomic.AddInt64(&callbacks, 1)
				if p.IsComplete != (p.NodesRemaining == 0) || p.NodesRemaining < 0 || p.NodesRebalanced < 0 {
					atomic.AddInt64(&cbInconsistent, 1)
				}
			}
		case 2:
			// A callback that queries the tree: no lock may be held around the callback.
			cb = func(RebalancingProgress) {
				atomic.AddInt64(&callbacks, 1)
				_, _, _ = bt.GetLazyRebalancingStats()
				_, _ = bt.GetIncrementalRebalancingProgress()
				_ = bt.IsLazyRebalancingEnabled()
			}
		}
		if err := bt.EnableIncrementalRebalancing(verifC18IncrementalConfig(rng, cb)); err != nil {
			t.Fatalf("[result-diff] %s seed=%d round=%d: EnableIncrementalRebalancing: %v", name, seed, round, err)
		}
		if err := bt.EnableIncrementalRebalancing(verifC18IncrementalConfig(rng, nil)); err == nil {
			t.Errorf("[result-diff] %s seed=%d round=%d: second EnableIncrementalRebalancing succeeded while running", name, seed, round)
		}

		// Observers.
		stopReaders := make(chan struct{})
		var readers sync.WaitGroup
		failures := make(chan string, 64)
		report := func(msg string) {
			select {
			case failures <- msg:
			default:
			}
		}
		nReaders := 2 + rng.Intn(2)
		for r := 0; r < nReaders; r++ {
			readers.Add(1)
			go func(r int) {
				defer readers.Done()
				defer func() {
					if p := recover(); p != nil {
						report(fmt.Sprintf("[panic] %v (%s seed=%d round=%d reader=%d)", p, name, seed, round, r))
					}
				}()
				last := -1
				for i := 0; ; i++ {
					select {
					case <-stopReaders:
						return
					default:
					}
					p, err := bt.GetIncrementalRebalancingProgress()
					if err == nil {
						if p.NodesRebalanced < last {
							report(fmt.Sprintf("[result-diff] %s seed=%d round=%d reader=%d: NodesRebalanced went back %d -> %d", name, seed, round, r, last, p.NodesRebalanced))
						}
						last = p.NodesRebalanced
						if p.NodesRemaining < 0 || p.IsComplete != (p.NodesRemaining == 0) {
							report(fmt.Sprintf("[result-diff] %s seed=%d round=%d reader=%d: inconsistent progress %+v", name, seed, round, r, p))
						}
					}
					_ = bt.IsIncrementalRebalancingEnabled()
					if i%4 == 0 {
						runtime.Gosched()
					}
				}
			}(r)
		}

		// The single foreground mutator.
		nOps := 200 + rng.Intn(400)
		opSeed := rng.Int63()
		mutDone := make(chan struct{})
		go func() {
			defer close(mutDone)
			defer func() {
				if p := recover(); p != nil {
					report(fmt.Sprintf("[panic] %v (%s seed=%d round=%d mutator)", p, name, seed, round))
				}
			}()
			r := rand.New(rand.NewSource(opSeed))
			for op := 0; op < nOps; op++ {
				switch k := r.Intn(100); {
				case k < 20:
					n := fmt.Sprintf("r%d_%d", round, model.next)
					model.next++
					err := bt.InsertRecord(n, uint64(op))
					switch {
					case err == nil:
						model.names = append(model.names, n)
					case errors.Is(err, ErrBTreeNodeFull), errors.Is(err, ErrBTreeRecordExists):
					default:
						report(fmt.Sprintf("[result-diff] %s seed=%d round=%d op=%d: InsertRecord: %v", name, seed, round, op, err))
					}
				case k < 60:
					if len(model.names) == 0 {
						continue
					}
					i := r.Intn(len(model.names))
					n := model.names[i]
					model.names[i] = model.names[len(model.names)-1]
					model.names = model.names[:len(model.names)-1]
					if err := bt.DeleteRecordLazy(n); err != nil {
						report(fmt.Sprintf("[result-diff] %s seed=%d round=%d op=%d: DeleteRecordLazy(%s): %v", name, seed, round, op, n, err))
					}
				case k < 65:
					if err := bt.BatchRebalance(); err != nil {
						report(fmt.Sprintf("[result-diff] %s seed=%d round=%d op=%d: BatchRebalance: %v", name, seed, round, op, err))
					}
				case k < 68:
					if err := bt.ForceBatchRebalance(); err != nil {
						report(fmt.Sprintf("[result-diff] %s seed=%d round=%d op=%d: ForceBatchRebalance: %v", name, seed, round, op, err))
					}
				case k < 78:
					u, p, d := bt.GetLazyRebalancingStats()
					if u < 0 || u > 1 || p < 0 || d < 0 {
						report(fmt.Sprintf("[result-diff] %s seed=%d round=%d op=%d: stats underflow=%d pending=%d since=%v", name, seed, round, op, u, p, d))
					}
				case k < 84:
					if !bt.IsLazyRebalancingEnabled() {
						report(fmt.Sprintf("[result-diff] %s seed=%d round=%d op=%d: lazy rebalancing reported disabled", name, seed, round, op))
					}
				case k < 86:
					// Re-configure lazy rebalancing while the background goroutine runs.
					bt.EnableLazyRebalancing(verifC18LazyConfig(r))
				case k < 94:
					// Direct field access is test code: only under the tree's own lock.
					if hasLock {
						verifC18SeedUnderflow(bt, 1+r.Intn(300), uint64(op)<<20)
					}
				default:
					if r.Intn(2) == 0 {
						runtime.Gosched()
					} else {
						time.Sleep(time.Duration(r.Intn(60)) * time.Microsecond)
					}
				}
			}
		}()
		mutTimer := time.NewTimer(6 * verifC18StopTimeout)
		select {
		case <-mutDone:
			mutTimer.Stop()
		case <-mutTimer.C:
			t.Fatalf("[stop-timeout] %s seed=%d round=%d: the foreground mutator (%d operations) did not finish within %v (deadlock with the background goroutine?)", name, seed, round, nOps, 6*verifC18StopTimeout)
		}

		if p, err := bt.GetIncrementalRebalancingProgress(); err == nil {
			bgNodes += int64(p.NodesRebalanced)
		} else {
			t.Errorf("[result-diff] %s seed=%d round=%d: GetIncrementalRebalancingProgress before stop: %v", name, seed, round, err)
		}

		var stopErr error
		panicked, finished := verifC18Guard(func() { stopErr = bt.StopIncrementalRebalancing() })
		close(stopReaders)
		if !finished {
			t.Fatalf("[stop-timeout] %s seed=%d round=%d: StopIncrementalRebalancing did not return within %v", name, seed, round, verifC18StopTimeout)
		}
		readers.Wait()
		if panicked != "" {
			t.Errorf("[panic] %s (%s seed=%d round=%d StopIncrementalRebalancing)", panicked, name, seed, round)
		}
		if stopErr != nil {
			t.Errorf("[result-diff] %s seed=%d round=%d: StopIncrementalRebalancing: %v", name, seed, round, stopErr)
		}
		close(failures)
		for msg := range failures {
			t.Error(msg)
		}

		// Final state against the sequential model.
		if bt.IsIncrementalRebalancingEnabled() {
			t.Errorf("[result-diff] %s seed=%d round=%d: still enabled after stop", name, seed, round)
		}
		if _, err := bt.GetIncrementalRebalancingProgress(); err == nil {
			t.Errorf("[result-diff] %s seed=%d round=%d: progress available after stop", name, seed, round)
		}
		if got := len(bt.GetRecords()); got != len(model.names) {
			t.Errorf("[result-diff] %s seed=%d round=%d: %d records in tree, model has %d", name, seed, round, got, len(model.names))
		}
		for _, n := range model.names {
			if !bt.HasKey(n) {
				t.Errorf("[result-diff] %s seed=%d round=%d: record %s missing", name, seed, round, n)
				break
			}
		}
		if u, p, _ := bt.GetLazyRebalancingStats(); u < 0 || u > 1 || p < 0 {
			t.Errorf("[result-diff] %s seed=%d round=%d: final stats underflow=%d pending=%d", name, seed, round, u, p)
		}
		func() {
			unlock, _ := verifC18LockTree(bt)
			defer unlock()
			if bt.lazyState != nil && len(bt.lazyState.UnderflowNodes) != 0 {
				t.Errorf("[result-diff] %s seed=%d round=%d: %d underflow nodes left after stop", name, seed, round, len(bt.lazyState.UnderflowNodes))
			}
		}()

		if n, ok := verifC18Settle(before); !ok {
			t.Fatalf("[goroutine-leak] %s seed=%d round=%d: %d goroutines before, %d after stop", name, seed, round, before, n)
		}
		if t.Failed() {
			return
		}
	}
	if c := atomic.LoadInt64(&cbInconsistent); c != 0 {
		t.Errorf("[result-diff] %s seed=%d: progress callback saw an inconsistent progress value %d times", name, seed, c)
	}
	t.Logf("%s seed=%d rounds=%d treeLock=%v nodesRebalancedInBackground=%d callbacks=%d", name, seed, rounds, hasLock,
		bgNodes, atomic.LoadInt64(&callbacks))
}

func TestVerifC18_ConcurrentStop(t *testing.T) {
	const name = "TestVerifC18_ConcurrentStop"
	seed := verifC18Seed()
	rounds := verifC18Iters() * 25
	rng := rand.New(rand.NewSource(seed))
	// Only this test's own findings end the loop early: a race report alone (which
	// also marks the test as failed) must not hide the double close behind it.
	findings := 0
	fail := func(format string, args ...interface{}) {
		findings++
		t.Errorf(format, args...)
	}

	for round := 0; round < rounds; round++ {
		before := runtime.NumGoroutine()

		bt := NewWritableBTreeV2(4096)
		for i := 0; i < 8; i++ {
			_ = bt.InsertRecord(fmt.Sprintf("s%d_%d", round, i), uint64(i))
		}
		bt.EnableLazyRebalancing(verifC18LazyConfig(rng))
		if round%2 == 0 {
			verifC18SeedUnderflow(bt, rng.Intn(500), 0x2000)
		}
		if err := bt.EnableIncrementalRebalancing(verifC18IncrementalConfig(rng, nil)); err != nil {
			t.Fatalf("[result-diff] %s seed=%d round=%d: EnableIncrementalRebalancing: %v", name, seed, round, err)
		}
		if round%3 == 0 {
			// Let the background goroutine get going first.
			time.Sleep(time.Duration(rng.Intn(200)) * time.Microsecond)
		}

		nStoppers := 2 + rng.Intn(3)
		start := make(chan struct{})
		var ready, done sync.WaitGroup
		panics := make(chan string, nStoppers)
		errs := make(chan error, nStoppers)
		for s := 0; s < nStoppers; s++ {
			ready.Add(1)
			done.Add(1)
			go func() {
				defer done.Done()
				defer func() {
					if p := recover(); p != nil {
						panics <- fmt.Sprint(p)
					}
				}()
				ready.Done()
				<-start
				if err := bt.StopIncrementalRebalancing(); err != nil {
					errs <- err
				}
			}()
		}
		ready.Wait()
		runtime.Gosched()
		close(start)

		_, finished := verifC18Guard(done.Wait)
		if !finished {
			t.Fatalf("[stop-timeout] %s seed=%d round=%d: %d concurrent StopIncrementalRebalancing calls did not all return within %v", name, seed, round, nStoppers, verifC18StopTimeout)
		}
		close(panics)
		close(errs)
		for p := range panics {
			fail("[panic] %s (%s seed=%d round=%d stoppers=%d)", p, name, seed, round, nStoppers)
		}
		for err := range errs {
			fail("[result-diff] %s seed=%d round=%d: StopIncrementalRebalancing: %v", name, seed, round, err)
		}
		if bt.IsIncrementalRebalancingEnabled() {
			fail("[result-diff] %s seed=%d round=%d: still enabled after concurrent stop", name, seed, round)
		}
		if n, ok := verifC18Settle(before); !ok {
			t.Fatalf("[goroutine-leak] %s seed=%d round=%d: %d goroutines before, %d after stop", name, seed, round, before, n)
		}
		if findings > 0 {
			return
		}
	}
	t.Logf("%s seed=%d rounds=%d", name, seed, rounds)
}

func TestVerifC18_RestartAfterStop(t *testing.T) {
	const name = "TestVerifC18_RestartAfterStop"
	seed := verifC18Seed()
	rounds := verifC18Iters()
	rng := rand.New(rand.NewSource(seed))

	for round := 0; round < rounds; round++ {
		before := runtime.NumGoroutine()
		bt := NewWritableBTreeV2(4096)
		for i := 0; i < 16; i++ {
			_ = bt.InsertRecord(fmt.Sprintf("q%d_%d", round, i), uint64(i))
		}
		bt.EnableLazyRebalancing(verifC18LazyConfig(rng))

		cycles := 2 + rng.Intn(3)
		for c := 0; c < cycles; c++ {
			verifC18SeedUnderflow(bt, rng.Intn(200), 0x3000)
			if err := bt.EnableIncrementalRebalancing(verifC18IncrementalConfig(rng, nil)); err != nil {
				t.Fatalf("[result-diff] %s seed=%d round=%d cycle=%d: EnableIncrementalRebalancing: %v", name, seed, round, c, err)
			}
			if !bt.IsIncrementalRebalancingEnabled() {
				t.Errorf("[result-diff] %s seed=%d round=%d cycle=%d: not enabled after enable", name, seed, round, c)
			}
			if rng.Intn(2) == 0 {
				time.Sleep(time.Duration(rng.Intn(300)) * time.Microsecond)
			}
			if err := bt.DeleteRecordLazy(fmt.Sprintf("q%d_%d", round, c)); err != nil {
				t.Errorf("[result-diff] %s seed=%d round=%d cycle=%d: DeleteRecordLazy: %v", name, seed, round, c, err)
			}
			var stopErr error
			panicked, finished := verifC18Guard(func() { stopErr = bt.StopIncrementalRebalancing() })
			if !finished {
				t.Fatalf("[stop-timeout] %s seed=%d round=%d cycle=%d: StopIncrementalRebalancing did not return within %v", name, seed, round, c, verifC18StopTimeout)
			}
			if panicked != "" {
				t.Errorf("[panic] %s (%s seed=%d round=%d cycle=%d)", panicked, name, seed, round, c)
			}
			if stopErr != nil {
				t.Errorf("[result-diff] %s seed=%d round=%d cycle=%d: StopIncrementalRebalancing: %v", name, seed, round, c, stopErr)
			}
			if bt.IsIncrementalRebalancingEnabled() {
				t.Errorf("[result-diff] %s seed=%d round=%d cycle=%d: enabled after stop", name, seed, round, c)
			}
			// A second stop is a no-op.
			if _, finished := verifC18Guard(func() { _ = bt.StopIncrementalRebalancing() }); !finished {
				t.Fatalf("[stop-timeout] %s seed=%d round=%d cycle=%d: repeated StopIncrementalRebalancing did not return within %v", name, seed, round, c, verifC18StopTimeout)
			}
		}
		if got, want := len(bt.GetRecords()), 16-cycles; got != want {
			t.Errorf("[result-diff] %s seed=%d round=%d: %d records, want %d", name, seed, round, got, want)
		}
		if n, ok := verifC18Settle(before); !ok {
			t.Fatalf("[goroutine-leak] %s seed=%d round=%d: %d goroutines before, %d after", name, seed, round, before, n)
		}
		if t.Failed() {
			return
		}
	}
	t.Logf("%s seed=%d rounds=%d", name, seed, rounds)
}

// TestVerifC18_StartAfterStopSameObject must stay the LAST test of this file: on a tree
// where Start after Stop re-runs the loop on the already closed channels the library's
// own goroutine panics (close of closed channel) and the test binary dies.
func TestVerifC18_StartAfterStopSameObject(t *testing.T) {
	const name = "TestVerifC18_StartAfterStopSameObject"
	seed := verifC18Seed()
	rounds := verifC18Iters()
	rng := rand.New(rand.NewSource(seed))

	for round := 0; round < rounds; round++ {
		before := runtime.NumGoroutine()
		bt := NewWritableBTreeV2(4096)
		_ = bt.InsertRecord("x", 1)
		bt.EnableLazyRebalancing(verifC18LazyConfig(rng))
		if err := bt.EnableIncrementalRebalancing(verifC18IncrementalConfig(rng, nil)); err != nil {
			t.Fatalf("[result-diff] %s seed=%d round=%d: EnableIncrementalRebalancing: %v", name, seed, round, err)
		}
		ir := bt.incrementalRebalancer
		panicked, finished := verifC18Guard(func() {
			ir.Stop()
			ir.Start()
			// Give a (wrongly) restarted loop the time to run into the closed channels.
			time.Sleep(time.Duration(rng.Intn(300)) * time.Microsecond)
			ir.Stop()
			ir.Stop()
		})
		if !finished {
			t.Fatalf("[stop-timeout] %s seed=%d round=%d: Stop/Start/Stop on one rebalancer did not return within %v", name, seed, round, verifC18StopTimeout)
		}
		if panicked != "" {
			t.Errorf("[panic] %s (%s seed=%d round=%d)", panicked, name, seed, round)
		}
		if bt.IsIncrementalRebalancingEnabled() {
			t.Errorf("[result-diff] %s seed=%d round=%d: rebalancer reported running after Stop/Start/Stop", name, seed, round)
		}
		if _, finished := verifC18Guard(func() { _ = bt.StopIncrementalRebalancing() }); !finished {
			t.Fatalf("[stop-timeout] %s seed=%d round=%d: StopIncrementalRebalancing did not return within %v", name, seed, round, verifC18StopTimeout)
		}
		if n, ok := verifC18Settle(before); !ok {
			t.Fatalf("[goroutine-leak] %s seed=%d round=%d: %d goroutines before, %d after", name, seed, round, before, n)
		}
		if t.Failed() {
			return
		}
	}
	t.Logf("%s seed=%d rounds=%d", name, seed, rounds)
}
