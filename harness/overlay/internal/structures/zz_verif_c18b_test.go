//go:build verif

package structures

import (
	"fmt"
	"testing"
	"time"
)

// TestVerifC18_StopWaitsForWorker: "no goroutine outlives Stop" in the strict sense - at the moment
// Stop (or StopIncrementalRebalancing) returns, the background goroutine has already finished
// (its deferred close(stoppedChan) has run). Deterministic: no settle loop.
func TestVerifC18_StopWaitsForWorker(t *testing.T) {
	rounds := 2 * verifC18Iters()
	for round := 0; round < rounds; round++ {
		bt := NewWritableBTreeV2(4096)
		for i := 0; i < 8; i++ {
			if err := bt.InsertRecord(fmt.Sprintf("n%d", i), uint64(i+1)); err != nil {
				t.Fatalf("[result-diff] TestVerifC18_StopWaitsForWorker: insert failed: %v", err)
			}
		}
		bt.EnableLazyRebalancing(DefaultLazyConfig())
		slow := make(chan struct{}, 1)
		cfg := IncrementalRebalancingConfig{Enabled: true, Budget: 50 * time.Microsecond, Interval: time.Duration(1+round%50) * time.Microsecond,
			ProgressCallback: func(RebalancingProgress) {
				select {
				case slow <- struct{}{}:
				default:
				}
				time.Sleep(200 * time.Microsecond) // the worker is busy when the stop request arrives
			}}
		if err := bt.EnableIncrementalRebalancing(cfg); err != nil {
			t.Fatalf("[result-diff] TestVerifC18_StopWaitsForWorker: enable failed: %v", err)
		}
		ir := bt.incrementalRebalancer
		if ir == nil {
			t.Fatalf("[result-diff] TestVerifC18_StopWaitsForWorker: no rebalancer after enable")
		}
		stopped := ir.stoppedChan
		if round%2 == 0 {
			verifC18SeedUnderflow(bt, 50, uint64(round)*1000)
			select {
			case <-slow:
			case <-time.After(200 * time.Millisecond):
			}
		}
		done := make(chan struct{})
		go func() {
			defer close(done)
			if round%3 == 0 {
				ir.Stop()
			} else {
				_ = bt.StopIncrementalRebalancing()
			}
		}()
		select {
		case <-done:
		case <-time.After(5 * time.Second):
			t.Fatalf("[stop-timeout] TestVerifC18_StopWaitsForWorker round=%d: Stop did not return within 5s", round)
		}
		select {
		case <-stopped:
		default:
			t.Fatalf("[goroutine-leak] TestVerifC18_StopWaitsForWorker round=%d: Stop returned while the background goroutine was still running (stoppedChan not closed)", round)
		}
	}
}
