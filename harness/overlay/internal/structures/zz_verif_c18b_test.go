//go:build verif

package structures

import (
	"fmt"
	"testing"
	"time"
)

// TestVerifC18_StopWaitsForWorker: "no goroutine outlives Stop" in the strict sense - at the moment
// Stop (or StopIncrementalRebalancing) returns, the background goroutine has already finished
// (its deferred close(stoppedChan) has run). Deterministic: no settle loop.
func TestVerifC18_StopWaitsForWorker(t *testing.T) {
	rounds := 2 * verifC18Iters()
	for round := 0; round < rounds; round++ {
		bt := NewWritableBTreeV2(4096)
		for i := 0; i < 8; i++ {
			if err := bt.InsertRecord(fmt.Sprintf("n%d", i), uint64(i+1)); err != nil {
				t.Fatalf("[result-diff] TestVerifC18_StopWaitsForWorker: insert failed: %v", err)
			}
		}
		bt.EnableLazyRebalancing(DefaultLazyConfig())
		slow := make(chan struct{}, 1)
		cfg := IncrementalRebalancingConfig{Enabled: true, Budget: 50 * time.Microsecond, Interval: time.Duration(1+round%50) * time.Microsecond,
			ProgressCallback: func(RebalancingProgress) {
				select {
				case slow <- struct{}{}:
				default:
				}
				time.Sleep(200 * time.Microsecond) // the worker is busy when the stop request arrives
			}}
		if err := bt.EnableIncrementalRebalancing(cfg); err != nil {
			t.Fatalf("[result-diff] TestVerifC18_StopWaitsForWorker: enable failed: %v", err)
		}
		ir := bt.incrementalRebalancer
		if ir == nil {
			t.Fatalf("[result-diff] TestVerifC18_StopWaitsForWorker: no rebalancer after enable")
		}
		stopped := ir.stoppedChan
		if round%2 == 0 {
			verifC18SeedUnderflow(bt, 50, uint64(round)*1000)
			select {
			case <-slow:
			case <-time.After(200 * time.Millisecond):
			}
		}
		done := make(chan struct{})
		go func() {
			defer close(done)
			if round%3 == 0 {
				ir.Stop()
			} else {
				_ = bt.StopIncrementalRebalancing()
			}
		}()
		select {
		case <-done:
		case <-time.After(5 * time.Second):
			t.Fatalf("[stop-timeout] TestVerifC18_StopWaitsForWorker round=%d: Stop did not return within 5s", round)
		}
		select {
		case <-stopped:
		default:
			t.Fatalf("[goroutine-leak] TestVerifC18_StopWaitsForWorker round=%d: Stop returned while the background goroutine was still running (stoppedChan not closed)", round)
		}
	}
}

// TestVerifC18_ConcurrentStopsAllWait: every one of several overlapping stop requests, at the moment it
// returns, finds the background goroutine finished ("a stop that returns" means stopped, whichever caller
// asked first).  The worker is kept inside a session (queued underflow nodes + slow progress callback) while
// the requests arrive.  Added after seeded change C18-b (a second concurrent StopIncrementalRebalancing
// returned at once because the first had already detached the rebalancer).
func TestVerifC18_ConcurrentStopsAllWait(t *testing.T) {
	rounds := 2 * verifC18Iters()
	for round := 0; round < rounds; round++ {
		bt := NewWritableBTreeV2(4096)
		for i := 0; i < 8; i++ {
			if err := bt.InsertRecord(fmt.Sprintf("n%d", i), uint64(i+1)); err != nil {
				t.Fatalf("[result-diff] TestVerifC18_ConcurrentStopsAllWait: insert failed: %v", err)
			}
		}
		bt.EnableLazyRebalancing(DefaultLazyConfig())
		slow := make(chan struct{}, 1)
		cfg := IncrementalRebalancingConfig{Enabled: true, Budget: 50 * time.Microsecond, Interval: time.Duration(1+round%50) * time.Microsecond,
			ProgressCallback: func(RebalancingProgress) {
				select {
				case slow <- struct{}{}:
				default:
				}
				time.Sleep(time.Duration(200+100*(round%4)) * time.Microsecond)
			}}
		if err := bt.EnableIncrementalRebalancing(cfg); err != nil {
			t.Fatalf("[result-diff] TestVerifC18_ConcurrentStopsAllWait: enable failed: %v", err)
		}
		ir := bt.incrementalRebalancer
		if ir == nil {
			t.Fatalf("[result-diff] TestVerifC18_ConcurrentStopsAllWait: no rebalancer after enable")
		}
		stopped := ir.stoppedChan
		verifC18SeedUnderflow(bt, 200, uint64(round)*1000)
		select {
		case <-slow:
		case <-time.After(200 * time.Millisecond):
		}
		nStoppers := 2 + round%3
		early := make(chan int, nStoppers)
		done := make(chan struct{}, nStoppers)
		start := make(chan struct{})
		for s := 0; s < nStoppers; s++ {
			go func(s int) {
				defer func() { done <- struct{}{} }()
				<-start
				if s > 0 {
					time.Sleep(time.Duration(s*(10+round%40)) * time.Microsecond) // arrive while an earlier request is waiting
				}
				_ = bt.StopIncrementalRebalancing()
				select {
				case <-stopped:
				default:
					early <- s
				}
			}(s)
		}
		close(start)
		for s := 0; s < nStoppers; s++ {
			select {
			case <-done:
			case <-time.After(5 * time.Second):
				t.Fatalf("[stop-timeout] TestVerifC18_ConcurrentStopsAllWait round=%d: %d overlapping stop requests did not all return within 5s", round, nStoppers)
			}
		}
		select {
		case s := <-early:
			t.Fatalf("[goroutine-leak] TestVerifC18_ConcurrentStopsAllWait round=%d: stop request #%d of %d overlapping ones returned while the background goroutine was still running (stoppedChan not closed)", round, s, nStoppers)
		default:
		}
	}
}
