//go:build verif

package rebalancing

// C18 (dynamic half): race-freedom and clean stop of the smart rebalancer's monitoring
// goroutine and of its collaborators (metrics collector, workload detector, config
// selector). Run with -race.
//
// Environment:
//   VERIF_C18_SEED  int64, default 1  (math/rand source of every test)
//   VERIF_C18_ITERS int,   default 20 (scales the number of iterations)
//
// Failure classes (first token of every failure message):
//   [result-diff] [goroutine-leak] [stop-timeout] [panic]

import (
	"context"
	"fmt"
	"math/rand"
	"os"
	"runtime"
	"strconv"
	"sync"
	"sync/atomic"
	"testing"
	"time"

	"github.com/scigolib/hdf5/internal/structures"
)

const (
	verifC18StopTimeout = 5 * time.Second
	verifC18SettleTime  = 2 * time.Second
)

func verifC18Seed() int64 {
	if s := os.Getenv("VERIF_C18_SEED"); s != "" {
		if v, err := strconv.ParseInt(s, 10, 64); err == nil {
			return v
		}
	}
	return 1
}

func verifC18Iters() int {
	if s := os.Getenv("VERIF_C18_ITERS"); s != "" {
		if v, err := strconv.Atoi(s); err == nil && v > 0 {
			return v
		}
	}
	return 20
}

func verifC18Settle(before int) (int, bool) {
	deadline := time.Now().Add(verifC18SettleTime)
	for {
		n := runtime.NumGoroutine()
		if n <= before {
			return n, true
		}
		if time.Now().After(deadline) {
			return n, false
		}
		runtime.Gosched()
		time.Sleep(200 * time.Microsecond)
	}
}

// verifC18PanicString renders a recovered panic value. Strings and errors are taken as
// they are, without fmt: sync.WaitGroup.Wait panics ("WaitGroup is reused ...") with the
// race detector's synchronisation tracking switched off for the goroutine, and anything
// that goes through a sync.Pool afterwards (fmt does) is then reported as a bogus race.
func verifC18PanicString(r interface{}) string {
	switch v := r.(type) {
	case string:
		return v
	case error:
		return v.Error()
	}
	return fmt.Sprint(r)
}

// verifC18Guard runs fn in its own goroutine with a recover; it returns the recovered
// panic value as a string ("" if none) and whether fn finished within the stop timeout.
func verifC18Guard(fn func()) (panicked string, finished bool) {
	done := make(chan string, 1)
	go func() {
		defer func() {
			if r := recover(); r != nil {
				done <- verifC18PanicString(r)
				return
			}
			done <- ""
		}()
		fn()
	}()
	timer := time.NewTimer(verifC18StopTimeout)
	defer timer.Stop()
	select {
	case p := <-done:
		return p, true
	case <-timer.C:
		return "", false
	}
}

// verifC18WaitProgress waits until wait returns. The workers tick beats while they make
// progress; the wait is given up (false) only when beats has not moved for the stop
// timeout, so the limit does not depend on the number of iterations or on the load.
func verifC18WaitProgress(wait func(), beats *atomic.Int64) bool {
	done := make(chan struct{})
	go func() { wait(); close(done) }()
	ticker := time.NewTicker(20 * time.Millisecond)
	defer ticker.Stop()
	last, lastChange := beats.Load(), time.Now()
	for {
		select {
		case <-done:
			return true
		case <-ticker.C:
			if b := beats.Load(); b != last {
				last, lastChange = b, time.Now()
			} else if time.Since(lastChange) > 2*verifC18StopTimeout {
				return false
			}
		}
	}
}

// verifC18Tree is a goroutine-safe fake of the B-tree behind the smart rebalancer.
type verifC18Tree struct {
	mu          sync.Mutex
	lazy        bool
	incremental bool
	background  bool
	calls       map[string]int
	doubleStart int
	fileSize    atomic.Uint64
}

func newVerifC18Tree() *verifC18Tree {
	return &verifC18Tree{calls: make(map[string]int)}
}

func (m *verifC18Tree) EnableLazyRebalancing(structures.LazyRebalancingConfig) error {
	m.mu.Lock()
	defer m.mu.Unlock()
	m.calls["lazy"]++
	m.lazy = true
	return nil
}

func (m *verifC18Tree) EnableIncrementalRebalancing(structures.IncrementalRebalancingConfig) error {
	m.mu.Lock()
	defer m.mu.Unlock()
	m.calls["incremental"]++
	m.lazy = true
	m.incremental = true
	return nil
}

func (m *verifC18Tree) DisableRebalancing() error {
	m.mu.Lock()
	defer m.mu.Unlock()
	m.calls["disable"]++
	m.lazy = false
	m.incremental = false
	m.background = false
	return nil
}

func (m *verifC18Tree) StartBackgroundRebalancing(context.Context) error {
	m.mu.Lock()
	defer m.mu.Unlock()
	m.calls["start"]++
	if !m.incremental {
		return fmt.Errorf("incremental rebalancing not enabled")
	}
	if m.background {
		m.doubleStart++
	}
	m.background = true
	return nil
}

func (m *verifC18Tree) StopBackgroundRebalancing() error {
	m.mu.Lock()
	defer m.mu.Unlock()
	m.calls["stop"]++
	m.background = false
	return nil
}

func (m *verifC18Tree) GetFileSize() uint64 { return m.fileSize.Load() }

func (m *verifC18Tree) state() (lazy, incremental, background bool, calls map[string]int, doubleStart int) {
	m.mu.Lock()
	defer m.mu.Unlock()
	c := make(map[string]int, len(m.calls))
	for k, v := range m.calls {
		c[k] = v
	}
	return m.lazy, m.incremental, m.background, c, m.doubleStart
}

// verifC18Op picks an operation for the workload phase:
//
//	0: deletes only (burst)       -> BatchDeletion -> lazy
//	1: mixed on a 600 MB file     -> MixedRW       -> incremental
//	2: writes only                -> AppendOnly    -> none
//	3: mixed on a small file      -> MixedRW       -> lazy
func verifC18Op(phase int, r *rand.Rand) OperationType {
	switch phase {
	case 0:
		return OpDelete
	case 2:
		return OpWrite
	default:
		switch k := r.Intn(100); {
		case k < 45:
			return OpRead
		case k < 90:
			return OpWrite
		default:
			return OpDelete
		}
	}
}

func verifC18PhaseFileSize(phase int) uint64 {
	if phase == 1 {
		return 600 << 20
	}
	return 10 << 20
}

func verifC18ValidMode(m Mode) bool {
	return m == ModeNone || m == ModeLazy || m == ModeIncremental
}

func TestVerifC18_SmartLifecycle(t *testing.T) {
	const name = "TestVerifC18_SmartLifecycle"
	seed := verifC18Seed()
	iters := verifC18Iters()
	rng := rand.New(rand.NewSource(seed))

	stabilities := []time.Duration{0, 50 * time.Microsecond, 0}
	totalModeChanges := 0
	for round := 0; round < len(stabilities); round++ {
		before := runtime.NumGoroutine()

		tree := newVerifC18Tree()
		tree.fileSize.Store(verifC18PhaseFileSize(0))
		detector := NewWorkloadDetector(WithCapacity(64), WithMinSampleSize(5))
		selector := NewConfigSelector(WithSafetyConstraints(SafetyConstraints{
			MaxCPUPercent:      50,
			MaxMemoryMB:        100,
			MinStabilityPeriod: stabilities[round],
			MinConfidence:      0.1,
		}))
		interval := time.Duration(1+rng.Intn(1000)) * time.Microsecond
		if round == 2 {
			interval = time.Microsecond
		}
		sr := NewSmartRebalancer(tree, WithDetector(detector), WithSelector(selector), WithReevalInterval(interval))

		// Recording works before the first Start.
		for i := 0; i < 64; i++ {
			if err := sr.RecordOperation(OpDelete); err != nil {
				t.Errorf("[result-diff] %s seed=%d round=%d: RecordOperation before Start: %v", name, seed, round, err)
				break
			}
		}

		var phase atomic.Int32
		var stop atomic.Bool
		var beats, lifeBeats atomic.Int64
		failures := make(chan string, 64)
		report := func(msg string) {
			select {
			case failures <- msg:
			default:
			}
		}
		var workers, lifecycles sync.WaitGroup
		spawn := func(wg *sync.WaitGroup, what string, fn func(r *rand.Rand)) {
			wg.Add(1)
			workerSeed := rng.Int63()
			go func() {
				defer wg.Done()
				defer func() {
					if p := recover(); p != nil {
						report(fmt.Sprintf("[panic] %v (%s seed=%d round=%d %s)", p, name, seed, round, what))
					}
				}()
				fn(rand.New(rand.NewSource(workerSeed)))
			}()
		}

		for w := 0; w < 3; w++ {
			spawn(&workers, "recorder", func(r *rand.Rand) {
				for i := 0; !stop.Load(); i++ {
					// An error is legal here: recording is refused between Stop and the next Start.
					_ = sr.RecordOperation(verifC18Op(int(phase.Load()), r))
					beats.Add(1)
					if i%8 == 0 {
						runtime.Gosched()
					}
				}
			})
		}
		for w := 0; w < 2; w++ {
			spawn(&workers, "evaluator", func(*rand.Rand) {
				for i := 0; !stop.Load(); i++ {
					d, err := sr.Evaluate()
					beats.Add(1)
					if err != nil {
						report(fmt.Sprintf("[result-diff] %s seed=%d round=%d: Evaluate: %v", name, seed, round, err))
						return
					}
					if !verifC18ValidMode(d.Mode) || d.Confidence < 0 || d.Confidence > 1 {
						report(fmt.Sprintf("[result-diff] %s seed=%d round=%d: Evaluate returned %v", name, seed, round, d))
						return
					}
					runtime.Gosched()
				}
			})
		}
		spawn(&workers, "observer", func(*rand.Rand) {
			lastEvals := 0
			for i := 0; !stop.Load(); i++ {
				st := sr.GetStats()
				beats.Add(1)
				if st.TotalEvaluations < lastEvals || !verifC18ValidMode(st.CurrentMode) {
					report(fmt.Sprintf("[result-diff] %s seed=%d round=%d: GetStats evaluations %d -> %d mode %q", name, seed, round, lastEvals, st.TotalEvaluations, st.CurrentMode))
					return
				}
				lastEvals = st.TotalEvaluations
				snap := sr.GetMetrics()
				if snap.TotalOperations < 0 || snap.TotalEvaluations < 0 {
					report(fmt.Sprintf("[result-diff] %s seed=%d round=%d: GetMetrics ops=%d evals=%d", name, seed, round, snap.TotalOperations, snap.TotalEvaluations))
					return
				}
				if i%4 == 0 && sr.GetMetricsString() == "" {
					report(fmt.Sprintf("[result-diff] %s seed=%d round=%d: empty GetMetricsString", name, seed, round))
					return
				}
				runtime.Gosched()
			}
		})

		guardedStop := func(who string, i int) bool {
			panicked, finished := verifC18Guard(func() { _ = sr.Stop() })
			if !finished {
				report(fmt.Sprintf("[stop-timeout] %s seed=%d round=%d: Stop (%s, iteration %d) did not return within %v", name, seed, round, who, i, verifC18StopTimeout))
				return false
			}
			if panicked != "" {
				// Reported, but the lifecycle goes on: only a hanging Stop ends it.
				report(fmt.Sprintf("[panic] %s (%s seed=%d round=%d Stop by %s, iteration %d)", panicked, name, seed, round, who, i))
			}
			return true
		}
		pause := func(r *rand.Rand) {
			switch r.Intn(3) {
			case 0:
				runtime.Gosched()
			case 1:
				time.Sleep(time.Duration(r.Intn(400)) * time.Microsecond)
			}
		}
		ctx := context.Background()
		nLifecycle := iters * 8
		// Alternating Start/Stop; also drives the workload phases.
		spawn(&lifecycles, "lifecycle-1", func(r *rand.Rand) {
			for i := 0; i < nLifecycle; i++ {
				lifeBeats.Add(1)
				p := i % 4
				tree.fileSize.Store(verifC18PhaseFileSize(p))
				phase.Store(int32(p))
				if err := sr.Start(ctx); err != nil && err != ErrAlreadyStarted {
					report(fmt.Sprintf("[result-diff] %s seed=%d round=%d: Start: %v", name, seed, round, err))
					return
				}
				pause(r)
				if !guardedStop("lifecycle-1", i) {
					return
				}
			}
		})
		// Random Start/Stop, so that a Start overlaps a Stop that is still waiting.
		spawn(&lifecycles, "lifecycle-2", func(r *rand.Rand) {
			for i := 0; i < nLifecycle; i++ {
				lifeBeats.Add(1)
				if r.Intn(2) == 0 {
					if err := sr.Start(ctx); err != nil && err != ErrAlreadyStarted {
						report(fmt.Sprintf("[result-diff] %s seed=%d round=%d: Start: %v", name, seed, round, err))
						return
					}
				} else if !guardedStop("lifecycle-2", i) {
					return
				}
				pause(r)
			}
		})

		// Only the lifecycle goroutines tick lifeBeats: it moves when Start/Stop calls return.
		finished := verifC18WaitProgress(lifecycles.Wait, &lifeBeats)
		stop.Store(true)
		if !finished {
			t.Fatalf("[stop-timeout] %s seed=%d round=%d: lifecycle goroutines made no progress for %v (a Start or Stop call hangs)", name, seed, round, 2*verifC18StopTimeout)
		}
		if !verifC18WaitProgress(workers.Wait, &beats) {
			t.Fatalf("[stop-timeout] %s seed=%d round=%d: worker goroutines did not finish (RecordOperation/Evaluate/GetStats/GetMetrics hangs)", name, seed, round)
		}

		for i := 0; i < 2; i++ {
			guardedStop("final", i)
		}
		close(failures)
		timedOut := false
		for msg := range failures {
			t.Error(msg)
			if len(msg) > 14 && msg[:14] == "[stop-timeout]" {
				timedOut = true
			}
		}
		if timedOut {
			t.FailNow()
		}

		st := sr.GetStats()
		if st.Started {
			t.Errorf("[result-diff] %s seed=%d round=%d: Started after final Stop", name, seed, round)
		}
		_, _, background, calls, doubleStart := tree.state()
		if background {
			t.Errorf("[result-diff] %s seed=%d round=%d: background rebalancing still running after final Stop (mode %q, calls %v)", name, seed, round, st.CurrentMode, calls)
		}
		totalModeChanges += st.ModeChanges
		t.Logf("%s seed=%d round=%d interval=%v stability=%v evaluations=%d modeChanges=%d transitionErrors=%d treeCalls=%v doubleStart=%d",
			name, seed, round, interval, stabilities[round], st.TotalEvaluations, st.ModeChanges, st.TransitionErrors, calls, doubleStart)
		_ = detector.Close()

		if n, ok := verifC18Settle(before); !ok {
			t.Fatalf("[goroutine-leak] %s seed=%d round=%d: %d goroutines before, %d after the final Stop", name, seed, round, before, n)
		}
		if t.Failed() {
			return
		}
	}
	t.Logf("%s seed=%d modeChanges=%d", name, seed, totalModeChanges)
}

func TestVerifC18_MetricsDetectorSelector(t *testing.T) {
	const name = "TestVerifC18_MetricsDetectorSelector"
	const goroutines = 8
	seed := verifC18Seed()
	n := verifC18Iters() * 25
	rng := rand.New(rand.NewSource(seed))
	before := runtime.NumGoroutine()
	var beats atomic.Int64 // ticked by every worker iteration, see verifC18WaitProgress

	failures := make(chan string, 64)
	report := func(msg string) {
		select {
		case failures <- msg:
		default:
		}
	}
	run := func(what string, fn func(g int, r *rand.Rand)) {
		var wg sync.WaitGroup
		for g := 0; g < goroutines; g++ {
			wg.Add(1)
			workerSeed := rng.Int63()
			go func(g int) {
				defer wg.Done()
				defer func() {
					if p := recover(); p != nil {
						report(fmt.Sprintf("[panic] %v (%s seed=%d %s goroutine=%d)", p, name, seed, what, g))
					}
				}()
				fn(g, rand.New(rand.NewSource(workerSeed)))
			}(g)
		}
		if !verifC18WaitProgress(wg.Wait, &beats) {
			t.Fatalf("[stop-timeout] %s seed=%d: %s goroutines made no progress for %v", name, seed, what, 2*verifC18StopTimeout)
		}
	}
	modes := []Mode{ModeNone, ModeLazy, ModeIncremental}
	workloads := []WorkloadType{WorkloadUnknown, WorkloadBatchDeletion, WorkloadFrequentWrites, WorkloadMixedRW, WorkloadReadHeavy, WorkloadAppendOnly}
	sizes := []uint64{1 << 20, 200 << 20, 800 << 20}

	// --- MetricsCollector: everything at once, Reset included.
	mc := NewMetricsCollector()
	run("metrics-mixed", func(g int, r *rand.Rand) {
		for i := 0; i < n; i++ {
			beats.Add(1)
			switch r.Intn(9) {
			case 0:
				mc.RecordEvaluation(Decision{Mode: modes[r.Intn(3)], Confidence: r.Float64()}, time.Duration(1+r.Intn(1000)))
			case 1:
				mc.RecordModeChange(modes[r.Intn(3)], modes[r.Intn(3)])
			case 2:
				mc.RecordOperation(OperationType(r.Intn(3)))
			case 3:
				mc.RecordError([]string{"transition", "detector", "selector", "other"}[r.Intn(4)])
			case 4:
				mc.RecordFileSize(sizes[r.Intn(3)])
			case 5:
				mc.RecordWorkloadType(workloads[r.Intn(len(workloads))])
			case 6:
				s := mc.Snapshot()
				var sum int64
				for _, v := range s.OperationsByType {
					sum += v
				}
				if sum < 0 || s.TotalErrors != s.TransitionErrors+s.DetectorErrors+s.SelectorErrors {
					report(fmt.Sprintf("[result-diff] %s seed=%d: inconsistent snapshot %+v", name, seed, s))
				}
			case 7:
				if mc.String() == "" {
					report(fmt.Sprintf("[result-diff] %s seed=%d: empty metrics string", name, seed))
				}
			case 8:
				if r.Intn(20) == 0 {
					mc.Reset()
				}
			}
		}
	})
	// --- MetricsCollector: exact counts (no lost update).
	mc.Reset()
	run("metrics-counting", func(g int, r *rand.Rand) {
		for i := 0; i < n; i++ {
			beats.Add(1)
			mc.RecordOperation(OperationType(i % 3))
			mc.RecordEvaluation(Decision{Mode: modes[i%3], Confidence: 0.5}, time.Microsecond)
			mc.RecordModeChange(ModeNone, ModeLazy)
			mc.RecordError("transition")
			mc.RecordFileSize(sizes[i%3])
			mc.RecordWorkloadType(workloads[i%len(workloads)])
			if i%16 == 0 {
				_ = mc.Snapshot()
			}
		}
	})
	total := int64(goroutines * n)
	snap := mc.Snapshot()
	var ops, decisions, wl, hist int64
	for _, v := range snap.OperationsByType {
		ops += v
	}
	for _, v := range snap.DecisionsByMode {
		decisions += v
	}
	for _, v := range snap.DecisionsByWorkload {
		wl += v
	}
	for _, v := range snap.FileSizeHistogram {
		hist += v
	}
	if snap.TotalOperations != total || ops != total || snap.TotalEvaluations != total || decisions != total ||
		snap.ModeChanges != total || snap.TransitionErrors != total || wl != total || hist != total {
		t.Errorf("[result-diff] %s seed=%d: metrics after %d concurrent records of each kind: ops=%d/%d evals=%d/%d modeChanges=%d errors=%d workloads=%d sizes=%d",
			name, seed, total, snap.TotalOperations, ops, snap.TotalEvaluations, decisions, snap.ModeChanges, snap.TransitionErrors, wl, hist)
	}
	if snap.AvgConfidence != 0.5 || snap.MinConfidence != 0.5 || snap.MaxConfidence != 0.5 {
		t.Errorf("[result-diff] %s seed=%d: confidence avg=%v min=%v max=%v, want 0.5", name, seed, snap.AvgConfidence, snap.MinConfidence, snap.MaxConfidence)
	}

	// --- WorkloadDetector.
	const capacity = 128
	det := NewWorkloadDetector(WithCapacity(capacity), WithMinSampleSize(5))
	ctx := context.Background()
	run("detector", func(g int, r *rand.Rand) {
		for i := 0; i < n; i++ {
			beats.Add(1)
			switch r.Intn(6) {
			case 0, 1, 2:
				if err := det.RecordOperation(ctx, OperationType(r.Intn(3)), sizes[r.Intn(3)]); err != nil {
					report(fmt.Sprintf("[result-diff] %s seed=%d: detector RecordOperation: %v", name, seed, err))
					return
				}
			case 3:
				f := det.ExtractFeatures()
				sum := f.DeleteRatio + f.WriteRatio + f.ReadRatio
				if f.SampleSize < 0 || f.SampleSize > capacity || (f.SampleSize > 0 && (sum < 0.999 || sum > 1.001)) {
					report(fmt.Sprintf("[result-diff] %s seed=%d: features %v", name, seed, f))
					return
				}
			case 4:
				_ = det.DetectWorkloadType()
			case 5:
				tot, win, _ := det.GetStats()
				if tot < 0 || tot > capacity || win < 0 || win > tot || det.IsClosed() {
					report(fmt.Sprintf("[result-diff] %s seed=%d: detector stats total=%d window=%d", name, seed, tot, win))
					return
				}
			}
		}
		// Every goroutine records at least capacity events, so the ring is full afterwards.
		for i := 0; i < capacity; i++ {
			_ = det.RecordOperation(ctx, OpWrite, 1)
		}
	})
	if tot, _, _ := det.GetStats(); tot != capacity {
		t.Errorf("[result-diff] %s seed=%d: detector holds %d events, want %d (ring full)", name, seed, tot, capacity)
	}
	run("detector-close", func(g int, r *rand.Rand) {
		if g%2 == 0 {
			_ = det.Close()
		} else {
			_ = det.IsClosed()
		}
	})
	if !det.IsClosed() {
		t.Errorf("[result-diff] %s seed=%d: detector not closed after Close", name, seed)
	}
	if err := det.RecordOperation(ctx, OpRead, 1); err == nil {
		t.Errorf("[result-diff] %s seed=%d: RecordOperation accepted by a closed detector", name, seed)
	}

	// --- ConfigSelector: with a very long stability period the mode of the first
	// decision is kept for every later one, so all callers get the same mode.
	randomFeatures := func(r *rand.Rand) (WorkloadFeatures, WorkloadType) {
		d := r.Float64()
		w := r.Float64() * (1 - d)
		return WorkloadFeatures{
			DeleteRatio: d, WriteRatio: w, ReadRatio: 1 - d - w,
			OperationRate: r.Float64() * 200, BurstDetected: r.Intn(2) == 0,
			FileSize: sizes[r.Intn(3)], WindowDuration: time.Minute, SampleSize: 100 + r.Intn(2000),
		}, workloads[r.Intn(len(workloads))]
	}
	sticky := NewConfigSelector(WithSafetyConstraints(SafetyConstraints{
		MaxCPUPercent: 50, MaxMemoryMB: 100, MinStabilityPeriod: time.Hour, MinConfidence: 0,
	}))
	var stickyModes [goroutines]map[Mode]int
	run("selector-sticky", func(g int, r *rand.Rand) {
		seen := make(map[Mode]int)
		for i := 0; i < n; i++ {
			beats.Add(1)
			f, wt := randomFeatures(r)
			d := sticky.SelectConfig(f, wt)
			if !verifC18ValidMode(d.Mode) || d.Timestamp.IsZero() {
				report(fmt.Sprintf("[result-diff] %s seed=%d: SelectConfig returned %v", name, seed, d))
				return
			}
			seen[d.Mode]++
		}
		stickyModes[g] = seen
	})
	all := make(map[Mode]int)
	for _, seen := range stickyModes {
		for m, c := range seen {
			all[m] += c
		}
	}
	if len(all) > 1 {
		t.Errorf("[result-diff] %s seed=%d: selector with a 1h stability period handed out different modes concurrently: %v", name, seed, all)
	}
	// Without stability period and confidence limit the selector is the bare strategy.
	free := NewConfigSelector(WithSafetyConstraints(SafetyConstraints{
		MaxCPUPercent: 50, MaxMemoryMB: 100, MinStabilityPeriod: 0, MinConfidence: 0,
	}))
	reference := &RuleBasedStrategy{clock: RealClock{}}
	run("selector-free", func(g int, r *rand.Rand) {
		for i := 0; i < n; i++ {
			beats.Add(1)
			f, wt := randomFeatures(r)
			d := free.SelectConfig(f, wt)
			want := reference.Select(f, wt)
			if d.Mode != want.Mode || d.Confidence != want.Confidence || d.Reason != want.Reason {
				report(fmt.Sprintf("[result-diff] %s seed=%d: SelectConfig %v, strategy alone %v", name, seed, d, want))
				return
			}
		}
	})

	close(failures)
	for msg := range failures {
		t.Error(msg)
	}
	if got, ok := verifC18Settle(before); !ok {
		t.Errorf("[goroutine-leak] %s seed=%d: %d goroutines before, %d after", name, seed, before, got)
	}
	t.Logf("%s seed=%d goroutines=%d iterations=%d stickyModes=%v", name, seed, goroutines, n, all)
}
