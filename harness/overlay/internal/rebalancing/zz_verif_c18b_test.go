//go:build verif

package rebalancing

import (
	"context"
	"sync/atomic"
	"testing"
	"time"

	"github.com/scigolib/hdf5/internal/structures"
)

// verifC18SlowTree: GetFileSize (called by the monitoring goroutine inside Evaluate) takes a while and
// records that the worker is inside the call.
type verifC18SlowTree struct {
	inCall  atomic.Int32
	entered chan struct{}
}

func (m *verifC18SlowTree) EnableLazyRebalancing(structures.LazyRebalancingConfig) error { return nil }
func (m *verifC18SlowTree) EnableIncrementalRebalancing(structures.IncrementalRebalancingConfig) error {
	return nil
}
func (m *verifC18SlowTree) DisableRebalancing() error                        { return nil }
func (m *verifC18SlowTree) StartBackgroundRebalancing(context.Context) error { return nil }
func (m *verifC18SlowTree) StopBackgroundRebalancing() error                 { return nil }
func (m *verifC18SlowTree) GetFileSize() uint64 {
	m.inCall.Add(1)
	select {
	case m.entered <- struct{}{}:
	default:
	}
	time.Sleep(3 * time.Millisecond)
	m.inCall.Add(-1)
	return 1 << 20
}

// TestVerifC18_SmartStopWaitsForWorker: when Stop returns, the monitoring goroutine is not in the
// middle of an evaluation any more (Stop waited for it). Only the worker calls GetFileSize here.
func TestVerifC18_SmartStopWaitsForWorker(t *testing.T) {
	rounds := 5 + verifC18Iters()
	for round := 0; round < rounds; round++ {
		tree := &verifC18SlowTree{entered: make(chan struct{}, 1)}
		sr := NewSmartRebalancer(tree, WithReevalInterval(time.Duration(1+round%20)*time.Microsecond))
		if err := sr.Start(context.Background()); err != nil {
			t.Fatalf("[result-diff] TestVerifC18_SmartStopWaitsForWorker: Start failed: %v", err)
		}
		select {
		case <-tree.entered: // the worker is inside an evaluation now
		case <-time.After(2 * time.Second):
			t.Fatalf("[stop-timeout] TestVerifC18_SmartStopWaitsForWorker round=%d: the monitoring goroutine never evaluated", round)
		}
		done := make(chan error, 1)
		go func() { done <- sr.Stop() }()
		select {
		case <-done:
		case <-time.After(5 * time.Second):
			t.Fatalf("[stop-timeout] TestVerifC18_SmartStopWaitsForWorker round=%d: Stop did not return within 5s", round)
		}
		if n := tree.inCall.Load(); n != 0 {
			t.Fatalf("[goroutine-leak] TestVerifC18_SmartStopWaitsForWorker round=%d: Stop returned while the monitoring goroutine was still evaluating (%d call(s) in flight)", round, n)
		}
		// and it stays quiet (drop the token of an evaluation that started before Stop returned)
		select {
		case <-tree.entered:
		default:
		}
		time.Sleep(500 * time.Microsecond)
		select {
		case <-tree.entered:
			t.Fatalf("[goroutine-leak] TestVerifC18_SmartStopWaitsForWorker round=%d: the monitoring goroutine evaluated again after Stop returned", round)
		default:
		}
	}
}
