//go:build verif

package core

// Add-only exports for the unit-level tie of C01/C13 (cmd/verifharness/c01unit.go).

// VerifCopyChunkToArray is the reader's chunk placement.
func VerifCopyChunkToArray(chunkData, fullData []byte, chunkCoords, chunkSize, dataDims []uint64, elemSize uint64) error {
	return copyChunkToArray(chunkData, fullData, chunkCoords, chunkSize, dataDims, elemSize)
}

// VerifConvertToFloat64 is the reader's numeric widening.
func VerifConvertToFloat64(rawData []byte, datatype *DatatypeMessage, numElements uint64) ([]float64, error) {
	return convertToFloat64(rawData, datatype, numElements)
}

// VerifConvertToStrings is the reader's fixed-string decoding.
func VerifConvertToStrings(rawData []byte, datatype *DatatypeMessage, numElements uint64) ([]string, error) {
	return convertToStrings(rawData, datatype, numElements)
}
