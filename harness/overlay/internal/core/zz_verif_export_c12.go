//go:build verif

package core

import "io"

// VerifC12ReadChunkedRaw exposes the library's own chunked raw-data reader (no filters) so the
// C12 harness can fetch the 16-byte global-heap references of a chunked vlen dataset.
func VerifC12ReadChunkedRaw(r io.ReaderAt, layout *DataLayoutMessage, dataspace *DataspaceMessage,
	datatype *DatatypeMessage, sb *Superblock) ([]byte, error) {
	return readChunkedData(r, layout, dataspace, datatype, sb, nil)
}
