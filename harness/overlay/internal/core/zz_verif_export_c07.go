//go:build verif

package core

import "io"

// VerifReadDenseAttributes runs readDenseAttributes (dense attribute storage: B-tree v2 name index,
// fractal heap direct block, attribute message parse) on the given addresses; it returns the number
// of attributes read.
func VerifReadDenseAttributes(r io.ReaderAt, heapAddr, btreeAddr uint64, sb *Superblock) (int, error) {
	attrs, err := readDenseAttributes(r, &AttributeInfoMessage{FractalHeapAddr: heapAddr, BTreeNameIndexAddr: btreeAddr}, sb)
	return len(attrs), err
}
