//go:build verif

package core

import "io"

// VerifReadBTreeV2Raw runs the minimal B-tree v2 reader used for dense attributes (header, then
// the heap ids of the leaf records) on the given bytes.
func VerifReadBTreeV2Raw(r io.ReaderAt, addr uint64, sb *Superblock) (nroot uint16, total uint64, root uint64, ids [][7]byte, err error) {
	h, err := readBTreeV2HeaderRaw(r, addr, sb)
	if err != nil {
		return 0, 0, 0, nil, err
	}
	ids, err = readBTreeV2LeafRecords(r, h.RootNodeAddr, h.NumRecordsRoot, sb)
	return h.NumRecordsRoot, h.TotalRecords, h.RootNodeAddr, ids, err
}
