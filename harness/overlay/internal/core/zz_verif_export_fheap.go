//go:build verif

package core

import "io"

// VerifDenseHeapRead runs the minimal fractal-heap reader that readDenseAttributes uses
// (steps 3 and 4 of that function: header, heap id, direct-block object) on one heap id.
// The name index stores the first 7 bytes of an id; the same truncation is applied here.
func VerifDenseHeapRead(r io.ReaderAt, heapAddr uint64, heapID []byte, sb *Superblock) ([]byte, error) {
	hdr, err := readFractalHeapHeaderRaw(r, heapAddr, sb)
	if err != nil {
		return nil, err
	}
	var id7 [7]byte
	copy(id7[:], heapID)
	off, length, err := parseHeapID(id7, hdr)
	if err != nil {
		return nil, err
	}
	return readHeapObject(r, hdr.RootBlockAddress, off, length, sb, hdr)
}
