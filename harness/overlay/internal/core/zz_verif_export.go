//go:build verif

package core

import (
	"encoding/binary"
	"errors"
	"fmt"
	"io"
)

// VerifSuperblockEOF returns the end-of-file address stored in the superblock on disk.
func VerifSuperblockEOF(r io.ReaderAt, sb *Superblock) uint64 {
	buf := make([]byte, 8)
	off := int64(28)
	if sb.Version == 0 || sb.Version == 1 {
		off = 40
	}
	if _, err := r.ReadAt(buf, off); err != nil {
		return 0
	}
	return binary.LittleEndian.Uint64(buf)
}

// VerifDatasetMeta is what the reader parsed from a dataset's header.
type VerifDatasetMeta struct {
	Class   int
	Size    uint32
	Bits    uint32
	Dims    []uint64
	MaxDims []uint64
	Layout  string
}

// VerifDatasetRaw returns the raw element bytes of a dataset using the library's own layout
// dispatch (the same code path as ReadDatasetFloat64, without the numeric conversion).
func VerifDatasetRaw(r io.ReaderAt, header *ObjectHeader, sb *Superblock) (*VerifDatasetMeta, []byte, error) {
	var datatypeMsg, dataspaceMsg, layoutMsg, filterPipelineMsg *HeaderMessage
	for _, msg := range header.Messages {
		switch msg.Type {
		case MsgDatatype:
			datatypeMsg = msg
		case MsgDataspace:
			dataspaceMsg = msg
		case MsgDataLayout:
			layoutMsg = msg
		case MsgFilterPipeline:
			filterPipelineMsg = msg
		}
	}
	if datatypeMsg == nil || dataspaceMsg == nil || layoutMsg == nil {
		return nil, nil, errors.New("missing datatype/dataspace/layout message")
	}
	datatype, err := ParseDatatypeMessage(datatypeMsg.Data)
	if err != nil {
		return nil, nil, fmt.Errorf("datatype: %w", err)
	}
	dataspace, err := ParseDataspaceMessage(dataspaceMsg.Data)
	if err != nil {
		return nil, nil, fmt.Errorf("dataspace: %w", err)
	}
	meta := &VerifDatasetMeta{Class: int(datatype.Class), Size: datatype.Size, Bits: datatype.ClassBitField,
		Dims: dataspace.Dimensions, MaxDims: dataspace.MaxDims}
	layout, err := ParseDataLayoutMessage(layoutMsg.Data, sb)
	if err != nil {
		return meta, nil, fmt.Errorf("layout: %w", err)
	}
	var filterPipeline *FilterPipelineMessage
	if filterPipelineMsg != nil {
		filterPipeline, err = ParseFilterPipelineMessage(filterPipelineMsg.Data)
		if err != nil {
			return meta, nil, fmt.Errorf("filter pipeline: %w", err)
		}
	}
	total := dataspace.TotalElements()
	switch {
	case layout.IsCompact():
		meta.Layout = "compact"
		return meta, layout.CompactData, nil
	case layout.IsContiguous():
		meta.Layout = "contiguous"
		size := total * uint64(datatype.Size)
		if size > 1<<28 {
			return meta, nil, errors.New("verif: dataset too large to dump")
		}
		raw := make([]byte, size)
		if size == 0 {
			return meta, raw, nil
		}
		if _, err := r.ReadAt(raw, int64(layout.DataAddress)); err != nil {
			return meta, nil, fmt.Errorf("contiguous read: %w", err)
		}
		return meta, raw, nil
	case layout.IsChunked():
		meta.Layout = "chunked"
		raw, err := readChunkedData(r, layout, dataspace, datatype, sb, filterPipeline)
		if err != nil {
			return meta, nil, fmt.Errorf("chunked read: %w", err)
		}
		return meta, raw, nil
	}
	return meta, nil, fmt.Errorf("unsupported layout class %d", layout.Class)
}
