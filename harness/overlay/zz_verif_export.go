//go:build verif

package hdf5

// VerifAddress returns the object header address of a group (0 for symbol-table-only groups).
func (g *Group) VerifAddress() uint64 { return g.address }
