//go:build verif

package hdf5

import (
	"os"

	"github.com/scigolib/hdf5/internal/core"
)

// VerifDatasetAt returns a Dataset handle on an already opened file WITHOUT running Open: in the C17 tie the K-th
// pread64 of the process is then the K-th I/O call of the Dataset method under test (cmd/verifharness/c17slice.go).
func VerifDatasetAt(f *os.File, sb *core.Superblock, addr uint64) *Dataset {
	return &Dataset{file: &File{osFile: f, sb: sb}, address: addr}
}
