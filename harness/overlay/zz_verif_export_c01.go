//go:build verif

package hdf5

// Add-only exports of the element encoders for the unit-level tie of C01 (cmd/verifharness/c01unit.go).

func VerifEncodeFixedPoint(data interface{}, elemSize uint32, expectedSize uint64) ([]byte, error) {
	return encodeFixedPointData(data, elemSize, expectedSize)
}

func VerifEncodeString(data interface{}, elemSize uint32, expectedSize uint64) ([]byte, error) {
	return encodeStringData(data, elemSize, expectedSize)
}

func VerifEncodeFloat(data interface{}, elemSize uint32, expectedSize uint64) ([]byte, error) {
	return encodeFloatData(data, elemSize, expectedSize)
}
