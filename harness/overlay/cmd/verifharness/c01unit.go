//go:build verif

package main

import (
	"encoding/hex"
	"encoding/json"
	"fmt"
	"math"
	"strconv"

	hdf5 "github.com/scigolib/hdf5"
	"github.com/scigolib/hdf5/internal/core"
	"github.com/scigolib/hdf5/internal/writer"
)

// c01unit: unit-level tie for C01/C13 (chunk extraction/placement, element encoding/widening).
//
//	{"mode":"tile","dims":[..],"cdims":[..],"esz":n,"data":hex}
//	   -> {"chunks":[{"coord","key","size","bytes"}...],"read":{"ok","err","bytes"}}
//	   every chunk index i: GetChunkCoordinate, GetChunkOffset, GetChunkSize, ExtractPaddedChunkData;
//	   then all chunks are placed back, in index order (or in the order "perm" if given), with the
//	   reader's copyChunkToArray (scaled = key / chunk extent, as btree_v1.go does) into zeros.
//	{"mode":"resize","dims":old,"newdims":new,...}: same chunks (written for old) placed under new.
//	{"mode":"conv","class":c,"size":s,"bits":b,"raw":hex} -> float64 bit patterns (hex) or err
//	{"mode":"strdec","size":s,"raw":hex} -> decoded strings (hex)
//	{"mode":"encint","dtype":"int32","vals":["-1",...]} -> bytes;  {"mode":"encstr","size":s,"strs":[hex..]}
type c01Case struct {
	Mode    string   `json:"mode"`
	Dims    []uint64 `json:"dims"`
	NewDims []uint64 `json:"newdims"`
	CDims   []uint64 `json:"cdims"`
	Esz     uint32   `json:"esz"`
	Data    string   `json:"data"`
	Perm    []int    `json:"perm"`
	Class   int      `json:"class"`
	Size    uint32   `json:"size"`
	Bits    uint32   `json:"bits"`
	Raw     string   `json:"raw"`
	Dtype   string   `json:"dtype"`
	Vals    []string `json:"vals"`
	Strs    []string `json:"strs"`
	// chunk index modes (c01index.go)
	Dim     int           `json:"dim"`
	Entries []c01IdxEntry `json:"entries"`
	EOF     uint64        `json:"eof"`
	File    string        `json:"file"`
	Root    uint64        `json:"root"`
	Osz     uint8         `json:"osz"`
	NDims   int           `json:"ndims"`
	ZTail   uint64        `json:"ztail"` // indexraw: that many zero bytes follow File
}

type c01Chunk struct {
	Coord []uint64 `json:"coord"`
	Key   []uint64 `json:"key"`
	Size  []uint64 `json:"size"`
	Bytes string   `json:"bytes"`
}

type c01Read struct {
	OK    bool   `json:"ok"`
	Err   string `json:"err,omitempty"`
	Bytes string `json:"bytes"`
}

func c01Tile(c *c01Case) (interface{}, error) {
	data, err := hex.DecodeString(c.Data)
	if err != nil {
		return nil, err
	}
	cc, err := writer.NewChunkCoordinator(c.Dims, c.CDims)
	if err != nil {
		return map[string]interface{}{"coord_err": err.Error()}, nil
	}
	total := cc.GetTotalChunks()
	chunks := make([]c01Chunk, 0, total)
	raw := make([][]byte, 0, total)
	for i := uint64(0); i < total; i++ {
		coord := cc.GetChunkCoordinate(i)
		b := cc.ExtractPaddedChunkData(data, coord, c.Esz)
		raw = append(raw, b)
		chunks = append(chunks, c01Chunk{Coord: coord, Key: cc.GetChunkOffset(coord), Size: cc.GetChunkSize(coord), Bytes: hex.EncodeToString(b)})
	}
	readDims := c.Dims
	if c.Mode == "resize" {
		readDims = c.NewDims
	}
	n := uint64(c.Esz)
	for _, d := range readDims {
		n *= d
	}
	full := make([]byte, n)
	order := c.Perm
	if len(order) == 0 {
		order = make([]int, total)
		for i := range order {
			order[i] = i
		}
	}
	rd := c01Read{OK: true}
	for _, i := range order {
		scaled := make([]uint64, len(chunks[i].Key))
		for j, k := range chunks[i].Key {
			scaled[j] = k / c.CDims[j] // btree_v1.go: key.Scaled[j] = byteOffset / chunkDims[j]
		}
		if err := core.VerifCopyChunkToArray(raw[i], full, scaled, c.CDims, readDims, uint64(c.Esz)); err != nil {
			rd.OK, rd.Err = false, err.Error()
			break
		}
	}
	rd.Bytes = hex.EncodeToString(full)
	return map[string]interface{}{"chunks": chunks, "read": rd, "total": total, "numchunks": cc.NumChunks()}, nil
}

func c01EncInt(c *c01Case) (interface{}, error) {
	n := len(c.Vals)
	var data interface{}
	var esz uint32
	signed := func(bits int) []int64 {
		out := make([]int64, n)
		for i, s := range c.Vals {
			v, err := strconv.ParseInt(s, 10, bits)
			if err != nil {
				panic(err)
			}
			out[i] = v
		}
		return out
	}
	unsigned := func(bits int) []uint64 {
		out := make([]uint64, n)
		for i, s := range c.Vals {
			v, err := strconv.ParseUint(s, 10, bits)
			if err != nil {
				panic(err)
			}
			out[i] = v
		}
		return out
	}
	switch c.Dtype {
	case "int8":
		v := make([]int8, n)
		for i, x := range signed(8) {
			v[i] = int8(x)
		}
		data, esz = v, 1
	case "int16":
		v := make([]int16, n)
		for i, x := range signed(16) {
			v[i] = int16(x)
		}
		data, esz = v, 2
	case "int32":
		v := make([]int32, n)
		for i, x := range signed(32) {
			v[i] = int32(x)
		}
		data, esz = v, 4
	case "int64":
		data, esz = signed(64), 8
	case "uint8":
		v := make([]uint8, n)
		for i, x := range unsigned(8) {
			v[i] = uint8(x)
		}
		data, esz = v, 1
	case "uint16":
		v := make([]uint16, n)
		for i, x := range unsigned(16) {
			v[i] = uint16(x)
		}
		data, esz = v, 2
	case "uint32":
		v := make([]uint32, n)
		for i, x := range unsigned(32) {
			v[i] = uint32(x)
		}
		data, esz = v, 4
	case "uint64":
		data, esz = unsigned(64), 8
	default:
		return nil, fmt.Errorf("dtype %q", c.Dtype)
	}
	b, err := hdf5.VerifEncodeFixedPoint(data, esz, uint64(n)*uint64(esz))
	if err != nil {
		return map[string]interface{}{"ok": false, "err": err.Error()}, nil
	}
	return map[string]interface{}{"ok": true, "bytes": hex.EncodeToString(b)}, nil
}

func init() {
	handlers["c01unit"] = func(raw json.RawMessage) (interface{}, error) {
		var c c01Case
		if err := json.Unmarshal(raw, &c); err != nil {
			return nil, err
		}
		switch c.Mode {
		case "tile", "resize":
			return c01Tile(&c)
		case "index":
			return c01Index(&c)
		case "indexraw":
			return c01IndexRaw(&c)
		case "conv":
			rawb, err := hex.DecodeString(c.Raw)
			if err != nil {
				return nil, err
			}
			dt := &core.DatatypeMessage{Class: core.DatatypeClass(c.Class), Version: 1, Size: c.Size, ClassBitField: c.Bits}
			if c.Size == 0 {
				return nil, fmt.Errorf("size 0")
			}
			vals, err := core.VerifConvertToFloat64(rawb, dt, uint64(len(rawb))/uint64(c.Size))
			if err != nil {
				return map[string]interface{}{"ok": false, "err": err.Error()}, nil
			}
			out := make([]string, len(vals))
			for i, v := range vals {
				out[i] = fmt.Sprintf("%016x", math.Float64bits(v))
			}
			return map[string]interface{}{"ok": true, "f64": out}, nil
		case "strdec":
			rawb, err := hex.DecodeString(c.Raw)
			if err != nil {
				return nil, err
			}
			dt := &core.DatatypeMessage{Class: core.DatatypeString, Version: 1, Size: c.Size, ClassBitField: c.Bits}
			strs, err := core.VerifConvertToStrings(rawb, dt, uint64(len(rawb))/uint64(c.Size))
			if err != nil {
				return map[string]interface{}{"ok": false, "err": err.Error()}, nil
			}
			out := make([]string, len(strs))
			for i, s := range strs {
				out[i] = hex.EncodeToString([]byte(s))
			}
			return map[string]interface{}{"ok": true, "strs": out}, nil
		case "encint":
			return c01EncInt(&c)
		case "encstr":
			strs := make([]string, len(c.Strs))
			for i, h := range c.Strs {
				b, err := hex.DecodeString(h)
				if err != nil {
					return nil, err
				}
				strs[i] = string(b)
			}
			b, err := hdf5.VerifEncodeString(strs, c.Size, uint64(len(strs))*uint64(c.Size))
			if err != nil {
				return map[string]interface{}{"ok": false, "err": err.Error()}, nil
			}
			return map[string]interface{}{"ok": true, "bytes": hex.EncodeToString(b)}, nil
		}
		return nil, fmt.Errorf("unknown mode %q", c.Mode)
	}
}
