//go:build verif

package main

import (
	"bufio"
	"encoding/binary"
	"encoding/json"
	"fmt"
	"math"
	"os"
	"runtime"
	"strconv"
	"sync"

	"github.com/scigolib/hdf5/internal/core"
)

// c20 point queries: {"fmt":"bf16|e4m3|e5m2","enc":[f32 bits...],"dec":[codes...]}
// result: {"enc":[codes...],"dec":[f32 bits...],"bytes":[[code, decoded-from-bytes]...]}
type c20Case struct {
	Fmt string   `json:"fmt"`
	Enc []uint32 `json:"enc"`
	Dec []uint32 `json:"dec"`
}

func c20Encode(f string, bits uint32) uint32 {
	x := math.Float32frombits(bits)
	switch f {
	case "bf16":
		return uint32(core.Float32ToBFloat16(x))
	case "e4m3":
		return uint32(core.Float32ToFP8E4M3(x))
	default:
		return uint32(core.Float32ToFP8E5M2(x))
	}
}

func c20Decode(f string, code uint32) uint32 {
	switch f {
	case "bf16":
		return math.Float32bits(core.BFloat16(uint16(code)).ToFloat32())
	case "e4m3":
		return math.Float32bits(core.FP8E4M3(uint8(code)).ToFloat32())
	default:
		return math.Float32bits(core.FP8E5M2(uint8(code)).ToFloat32())
	}
}

func init() {
	handlers["c20"] = func(raw json.RawMessage) (interface{}, error) {
		var c c20Case
		if err := json.Unmarshal(raw, &c); err != nil {
			return nil, err
		}
		enc := make([]uint32, len(c.Enc))
		for i, b := range c.Enc {
			enc[i] = c20Encode(c.Fmt, b)
		}
		dec := make([]uint32, len(c.Dec))
		var byteRT [][2]uint32
		for i, code := range c.Dec {
			dec[i] = c20Decode(c.Fmt, code)
			if c.Fmt == "bf16" {
				b := core.BFloat16(uint16(code)).Encode()
				back := core.DecodeBFloat16(b)
				byteRT = append(byteRT, [2]uint32{uint32(binary.LittleEndian.Uint16(b)), uint32(back)})
			}
		}
		return map[string]interface{}{"enc": enc, "dec": dec, "bytes": byteRT}, nil
	}
	// c20runs <fmt> <lo> <hi>: run-length encoding of the encoder over all float32 bit
	// patterns in [lo,hi): lines "start code" whenever the code changes.
	bulk["c20runs"] = func(args []string) error {
		if len(args) != 3 {
			return fmt.Errorf("usage: c20runs fmt lo hi")
		}
		lo, _ := strconv.ParseUint(args[1], 10, 64)
		hi, _ := strconv.ParseUint(args[2], 10, 64)
		nw := uint64(runtime.NumCPU())
		type run struct {
			start uint64
			code  uint32
		}
		parts := make([][]run, nw)
		var wg sync.WaitGroup
		step := (hi - lo + nw - 1) / nw
		for w := uint64(0); w < nw; w++ {
			wg.Add(1)
			go func(w uint64) {
				defer wg.Done()
				a, b := lo+w*step, lo+(w+1)*step
				if b > hi {
					b = hi
				}
				var rs []run
				prev := uint32(1 << 31)
				for x := a; x < b; x++ {
					c := c20Encode(args[0], uint32(x))
					if c != prev {
						rs = append(rs, run{x, c})
						prev = c
					}
				}
				parts[w] = rs
			}(w)
		}
		wg.Wait()
		out := bufio.NewWriter(os.Stdout)
		defer out.Flush()
		prev := uint32(1 << 31)
		for _, rs := range parts {
			for _, r := range rs {
				if r.code != prev {
					fmt.Fprintf(out, "%d %d\n", r.start, r.code)
					prev = r.code
				}
			}
		}
		return nil
	}
}
