//go:build verif

package main

import (
	"encoding/hex"
	"fmt"
	"math"
	"sort"
	"strings"

	hdf5 "github.com/scigolib/hdf5"
	"github.com/scigolib/hdf5/internal/core"
)

// hist, extended input domain: the dataset kinds and group creation paths of the public write API that the
// first generation of histories never used.
//   mkds dtype "array:<base>" (+adims), "enum:<base>" (+enames, evals), "opaque" (+tag), "objref", "regref",
//              "vlen:<base>" (write with "vals": one hex string per element)
//   mkcompound members/csize/enc -> FileWriter.CreateCompoundDataset (data through WriteRaw)
//   mkdense / mkgrouplinks       -> FileWriter.CreateDenseGroup / CreateGroupWithLinks

type histMember struct {
	Name string `json:"name"`
	Type string `json:"type"` // int8..uint64, float32, float64, string
	Size uint32 `json:"size"` // string members: length
	Off  uint32 `json:"off"`
	Via  string `json:"via"` // "" = core.CreateBasicDatatypeMessage; "encode" = EncodeDatatypeMessage + ParseDatatypeMessage
}

var arrayByBase = map[string]hdf5.Datatype{
	"int8": hdf5.ArrayInt8, "int16": hdf5.ArrayInt16, "int32": hdf5.ArrayInt32, "int64": hdf5.ArrayInt64,
	"uint8": hdf5.ArrayUint8, "uint16": hdf5.ArrayUint16, "uint32": hdf5.ArrayUint32, "uint64": hdf5.ArrayUint64,
	"float32": hdf5.ArrayFloat32, "float64": hdf5.ArrayFloat64,
}

var enumByBase = map[string]hdf5.Datatype{
	"int8": hdf5.EnumInt8, "int16": hdf5.EnumInt16, "int32": hdf5.EnumInt32, "int64": hdf5.EnumInt64,
	"uint8": hdf5.EnumUint8, "uint16": hdf5.EnumUint16, "uint32": hdf5.EnumUint32, "uint64": hdf5.EnumUint64,
}

var vlenByBase = map[string]hdf5.Datatype{
	"string": hdf5.VLenString, "int32": hdf5.VLenInt32, "int64": hdf5.VLenInt64, "uint32": hdf5.VLenUint32,
	"uint64": hdf5.VLenUint64, "float32": hdf5.VLenFloat32, "float64": hdf5.VLenFloat64,
}

// histBaseName: the Go slice element type DatasetWriter.Write expects for a dataset kind.
func histBaseName(dtype string) string {
	if i := strings.IndexByte(dtype, ':'); i >= 0 && (strings.HasPrefix(dtype, "array:") || strings.HasPrefix(dtype, "enum:")) {
		return dtype[i+1:]
	}
	if dtype == "objref" {
		return "uint64"
	}
	return dtype
}

// histDatatype maps the dtype name of a mkds operation to the Datatype constant and its options.
func histDatatype(op *histOp) (hdf5.Datatype, []hdf5.DatasetOption, error) {
	var opts []hdf5.DatasetOption
	name := op.Dtype
	if dt, ok := dtypeByName[name]; ok {
		if name == "string" {
			opts = append(opts, hdf5.WithStringSize(op.StrSize))
		}
		if name == "opaque" {
			tag := "verif"
			if op.Tag != nil {
				tag = *op.Tag
			}
			opts = append(opts, hdf5.WithOpaqueTag(tag, op.StrSize))
		}
		return dt, opts, nil
	}
	switch {
	case name == "objref":
		return hdf5.ObjectReference, nil, nil
	case name == "regref":
		return hdf5.RegionReference, nil, nil
	case strings.HasPrefix(name, "array:"):
		dt, ok := arrayByBase[name[6:]]
		if !ok {
			return 0, nil, fmt.Errorf("harness: unknown dtype %q", name)
		}
		if op.ADims != nil {
			opts = append(opts, hdf5.WithArrayDims(op.ADims))
		}
		return dt, opts, nil
	case strings.HasPrefix(name, "enum:"):
		dt, ok := enumByBase[name[5:]]
		if !ok {
			return 0, nil, fmt.Errorf("harness: unknown dtype %q", name)
		}
		if op.ENames != nil || op.EVals != nil {
			opts = append(opts, hdf5.WithEnumValues(op.ENames, op.EVals))
		}
		return dt, opts, nil
	case strings.HasPrefix(name, "vlen:"):
		dt, ok := vlenByBase[name[5:]]
		if !ok {
			return 0, nil, fmt.Errorf("harness: unknown dtype %q", name)
		}
		return dt, nil, nil
	}
	return 0, nil, fmt.Errorf("harness: unknown dtype %q", name)
}

func histWriteVlen(d *hdf5.DatasetWriter, op *histOp) error {
	elems := make([][]byte, len(op.Vals))
	for i, s := range op.Vals {
		b, err := hex.DecodeString(s)
		if err != nil {
			return fmt.Errorf("harness: bad hex: %w", err)
		}
		elems[i] = b
	}
	base := op.Dtype
	base = strings.TrimPrefix(base, "vlen:")
	_, v, err := c12Typed(base, elems)
	if err != nil {
		return fmt.Errorf("harness: %w", err)
	}
	return d.Write(v)
}

func memberType(m *histMember) (*core.DatatypeMessage, error) {
	t, err := memberType0(m)
	if err != nil || m.Via != "encode" {
		return t, err
	}
	enc, err := core.EncodeDatatypeMessage(&core.DatatypeMessage{Class: t.Class, Version: 1, Size: t.Size, ClassBitField: t.ClassBitField})
	if err != nil {
		return nil, err
	}
	return core.ParseDatatypeMessage(enc)
}

func memberType0(m *histMember) (*core.DatatypeMessage, error) {
	sz := map[string]uint32{"int8": 1, "uint8": 1, "int16": 2, "uint16": 2, "int32": 4, "uint32": 4, "int64": 8, "uint64": 8}
	switch {
	case m.Type == "float32":
		return core.CreateBasicDatatypeMessage(core.DatatypeFloat, 4)
	case m.Type == "float64":
		return core.CreateBasicDatatypeMessage(core.DatatypeFloat, 8)
	case m.Type == "string":
		return core.CreateBasicDatatypeMessage(core.DatatypeString, m.Size)
	case sz[m.Type] != 0:
		t, err := core.CreateBasicDatatypeMessage(core.DatatypeFixed, sz[m.Type])
		if err == nil && m.Type[0] == 'i' {
			t.ClassBitField |= 0x08 // two's complement signed (exported field; the helper itself only produces unsigned)
		}
		return t, err
	}
	return nil, fmt.Errorf("harness: unknown member type %q", m.Type)
}

func (h *histRun) applyExt(op *histOp) error {
	switch op.Op {
	case "mkcompound":
		fields := make([]core.CompoundFieldDef, len(op.Members))
		for i := range op.Members {
			t, err := memberType(&op.Members[i])
			if err != nil {
				return err
			}
			fields[i] = core.CompoundFieldDef{Name: op.Members[i].Name, Offset: op.Members[i].Off, Type: t}
		}
		var ct *core.DatatypeMessage
		var err error
		switch op.Enc {
		case "", "fields":
			ct, err = core.CreateCompoundTypeFromFields(fields)
		case "v3", "v1":
			var enc []byte
			if op.Enc == "v3" {
				enc, err = core.EncodeCompoundDatatypeV3(op.CSize, fields)
			} else {
				enc, err = core.EncodeCompoundDatatypeV1(op.CSize, fields)
			}
			if err == nil {
				ct, err = core.ParseDatatypeMessage(enc)
			}
		default:
			return fmt.Errorf("harness: unknown compound encoding %q", op.Enc)
		}
		if err != nil {
			return fmt.Errorf("compound type: %w", err)
		}
		var opts []hdf5.DatasetOption
		if op.Chunk != nil {
			opts = append(opts, hdf5.WithChunkDims(op.Chunk))
		}
		d, e := h.fw.CreateCompoundDataset(op.Path, ct, op.Dims, opts...)
		if e == nil && d != nil {
			h.ds[op.Path] = d
			h.remember(op.Path, d)
			h.dtypeOf[op.Path] = "compound"
		}
		return e
	case "mkdense":
		return h.fw.CreateDenseGroup(op.Path, op.Links)
	case "mkgrouplinks":
		return h.fw.CreateGroupWithLinks(op.Path, op.Links)
	}
	return fmt.Errorf("harness: unknown op %q", op.Op)
}

// ---------------------------------------------------------------- dump

type memDump struct {
	Name  string `json:"name"` // hex
	Off   uint32 `json:"off"`
	Class int    `json:"class"`
	Size  uint32 `json:"size"`
	Bits  uint32 `json:"bits"`
}

func renderCompound(v interface{}) string {
	switch x := v.(type) {
	case int32:
		return fmt.Sprintf("i32:%d", x)
	case int64:
		return fmt.Sprintf("i64:%d", x)
	case uint32:
		return fmt.Sprintf("u32:%d", x)
	case uint64:
		return fmt.Sprintf("u64:%d", x)
	case int8:
		return fmt.Sprintf("i8:%d", x)
	case int16:
		return fmt.Sprintf("i16:%d", x)
	case uint8:
		return fmt.Sprintf("u8:%d", x)
	case uint16:
		return fmt.Sprintf("u16:%d", x)
	case float32:
		return fmt.Sprintf("f32:%08x", math.Float32bits(x))
	case float64:
		return fmt.Sprintf("f64:%016x", math.Float64bits(x))
	case string:
		return "str:" + hex.EncodeToString([]byte(x))
	}
	return fmt.Sprintf("%T:%v", v, v)
}

// dumpExt adds what the read API offers for the extended dataset kinds: the datatype message, the compound member
// table ReadCompound works from, ReadCompound itself (for every dataset: it must fail for non-compound types), and
// the elements of variable-length datasets resolved through the library's own global heap reader.
func dumpExt(f *hdf5.File, o *hdf5.Dataset, hdr *core.ObjectHeader, raw []byte, rerr error, od *objDump, nodata bool) {
	sb := f.Superblock()
	for _, m := range hdr.Messages {
		if m.Type != core.MsgDatatype {
			continue
		}
		od.DtMsg = hex.EncodeToString(m.Data)
		dt, err := core.ParseDatatypeMessage(m.Data)
		if err != nil || dt.Class != core.DatatypeCompound {
			break
		}
		ct, err := core.ParseCompoundType(dt)
		if err != nil {
			od.MemErr = err.Error()
			break
		}
		for _, cm := range ct.Members {
			md := memDump{Name: hex.EncodeToString([]byte(cm.Name)), Off: cm.Offset}
			if cm.Type != nil {
				md.Class, md.Size, md.Bits = int(cm.Type.Class), cm.Type.Size, cm.Type.ClassBitField
			}
			od.Members = append(od.Members, md)
		}
		break
	}
	func() {
		defer func() {
			if r := recover(); r != nil {
				od.CompErr = "panic: " + fmt.Sprint(r)
			}
		}()
		recs, err := o.ReadCompound()
		if err != nil {
			od.CompErr = err.Error()
			return
		}
		od.HasComp = true
		if nodata {
			return
		}
		for _, r := range recs {
			keys := make([]string, 0, len(r))
			for k := range r {
				keys = append(keys, k)
			}
			sort.Strings(keys)
			parts := make([]string, len(keys))
			for i, k := range keys {
				parts[i] = hex.EncodeToString([]byte(k)) + "=" + renderCompound(r[k])
			}
			od.Compound = append(od.Compound, strings.Join(parts, ";"))
		}
	}()
	if od.Class == int(core.DatatypeVarLen) && rerr == nil && !nodata {
		cache := map[uint64]*core.GlobalHeapCollection{}
		n := len(raw) / 16
		for i := 0; i < n; i++ {
			od.Vlen = append(od.Vlen, func() (out string) {
				defer func() {
					if r := recover(); r != nil {
						out = "!panic: " + fmt.Sprint(r)
					}
				}()
				ref, err := core.ParseGlobalHeapReference(raw[i*16:(i+1)*16], int(sb.OffsetSize))
				if err != nil {
					return "!ref: " + err.Error()
				}
				col := cache[ref.HeapAddress]
				if col == nil {
					col, err = core.ReadGlobalHeapCollection(f.Reader(), ref.HeapAddress, int(sb.OffsetSize))
					if err != nil {
						return "!collection: " + err.Error()
					}
					cache[ref.HeapAddress] = col
				}
				obj, err := col.GetObject(ref.ObjectIndex)
				if err != nil {
					return "!object: " + err.Error()
				}
				return hex.EncodeToString(obj.Data)
			}())
		}
	}
}
