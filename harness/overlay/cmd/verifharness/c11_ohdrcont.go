//go:build verif

package main

import (
	"bytes"
	"encoding/hex"
	"encoding/json"
	"strings"

	"github.com/scigolib/hdf5/internal/core"
)

// Kind "ohdrcont" of subcommand c11: object header version 2 with continuation chunks.
// The library's writer never emits continuation chunks, so there is no Go encoder: "val" carries a
// ready-made file image {"image":"hex"} (built by the Python generator and compared with the
// specification-side encoder of the Coq model), which "enc" returns unchanged.  "dec" runs
// core.ReadObjectHeader on the image at sb.addr with the given offset / length sizes and byte order and
// returns the same VAL shape as kind "ohdr"; continuation messages are part of the value.  Only a
// version 1 header with continuation blocks (not modelled) is mapped to the marker ["636f6e74"].
func init() {
	c11Codecs["ohdrcont"] = c11Codec{
		enc: func(val json.RawMessage, _ *core.Superblock) ([]byte, error) {
			var v struct {
				Image string `json:"image"`
			}
			if err := json.Unmarshal(val, &v); err != nil {
				return nil, err
			}
			return hex.DecodeString(v.Image)
		},
		dec: func(data []byte, sb *core.Superblock) (interface{}, error) {
			addr := sb.BaseAddress
			sb2 := *sb
			sb2.BaseAddress = 0
			oh, err := core.ReadObjectHeader(bytes.NewReader(data), addr, &sb2)
			if err != nil {
				if strings.Contains(err.Error(), "continuation") && strings.Contains(err.Error(), "v1 header parse failed") {
					return vl{"636f6e74"}, nil
				}
				return nil, err
			}
			msgs := make(vl, len(oh.Messages))
			for i, m := range oh.Messages {
				if oh.Version == 1 && m.Type == core.MsgContinuation && len(m.Data) > 0 {
					return vl{"636f6e74"}, nil
				}
				msgs[i] = vl{uint16(m.Type), m.Offset, vBytes(m.Data)}
			}
			return vl{oh.Version, oh.Flags, oh.ReferenceCount, vBytes([]byte(oh.Name)), msgs}, nil
		},
	}
}
