//go:build verif

package main

// c03wire: byte-level tie for the three structures a symbol-table group consists of
// (internal/structures/localheap.go, symboltable_node.go, btree_group.go; writers AND readers)
// against coq/theories/Model/GroupWire.v (predicates in Model/GroupWireTie.v, driver tools/props/c03wire.py).
//
// One JSON case per line, field "kind".  uint64 values travel as plain JSON numbers (encoding/json
// parses and prints uint64 literals exactly, Python integers are exact as well).
// A class is 0 = returned normally, 1 = returned an error, 2 = panicked.
//
//	{"kind":"heap","init":N,"names":[hex..],"addr":N,"gets":[N..]}
//	    NewLocalHeap(init); AddString per name -> adds [[ok,off]..]; WriteTo(mem, addr) -> wc, image =
//	    mem[addr : addr+32+DataSegmentSize], size = Size(); LoadLocalHeap(mem, addr, sb) -> lc, data;
//	    GetString(off) for every off of gets (when the load succeeded) -> gets [[class,hex]..]
//	{"kind":"heapread","file":hex,"addr":N,"gets":[N..]}       LoadLocalHeap / GetString on given bytes
//	{"kind":"snod","cap":N,"entries":[[name,obj,cache,reserved]..],"max":N,"addr":N}
//	    NewSymbolTableNode(cap); AddEntry each -> adds [ok..]; WriteAt(mem, addr, 8, max, LE) -> wc, image =
//	    mem[addr : addr+8+max*40]; ParseSymbolTableNode(mem, addr, sb) -> pc, version, num, cap, entries
//	{"kind":"snodread","file":hex,"addr":N}                    ParseSymbolTableNode on given bytes
//	{"kind":"btree","k":N,"keys":[[key,child]..],"addr":N}
//	    NewBTreeNodeV1(0,k); AddKey each -> adds; WriteAt(mem, addr, 8, k, LE) -> wc, image
//	{"kind":"btreeread","file":hex,"addr":N}                   ReadGroupBTreeEntries -> c, entries [[name,obj,cache,bt,heap]..]

import (
	"bytes"
	"encoding/binary"
	"encoding/hex"
	"encoding/json"
	"fmt"

	"github.com/scigolib/hdf5/internal/core"
	"github.com/scigolib/hdf5/internal/structures"
)

type c03wCase struct {
	Kind    string      `json:"kind"`
	Init    uint64      `json:"init"`
	Names   []string    `json:"names"`
	Addr    uint64      `json:"addr"`
	Gets    []uint64    `json:"gets"`
	File    string      `json:"file"`
	Cap     uint16      `json:"cap"`
	Entries [][4]uint64 `json:"entries"`
	Max     uint16      `json:"max"`
	K       uint16      `json:"k"`
	Keys    [][2]uint64 `json:"keys"`
}

// c03wGuard runs f; 0 = nil, 1 = error, 2 = panic.
func c03wGuard(f func() error) (cls int, msg string) {
	defer func() {
		if r := recover(); r != nil {
			cls, msg = 2, fmt.Sprint(r)
		}
	}()
	if err := f(); err != nil {
		return 1, err.Error()
	}
	return 0, ""
}

func c03wSB() *core.Superblock {
	return &core.Superblock{Version: 2, OffsetSize: 8, LengthSize: 8, Endianness: binary.LittleEndian}
}

// bytes of b from a to e, clipped to what exists
func c03wSlice(b []byte, a, e uint64) []byte {
	n := uint64(len(b))
	if e > n {
		e = n
	}
	if a > e {
		a = e
	}
	return b[a:e]
}

// LoadLocalHeap + GetString on a byte image
func c03wLoad(file []byte, addr uint64, gets []uint64, out map[string]interface{}) {
	var h *structures.LocalHeap
	lc, lmsg := c03wGuard(func() error {
		var err error
		h, err = structures.LoadLocalHeap(bytes.NewReader(file), addr, c03wSB())
		return err
	})
	out["lc"], out["lerr"] = lc, lmsg
	res := [][2]interface{}{}
	if lc == 0 {
		out["data"] = hex.EncodeToString(h.Data)
		for _, off := range gets {
			var s string
			gc, _ := c03wGuard(func() error {
				var err error
				s, err = h.GetString(off)
				return err
			})
			if gc != 0 {
				s = ""
			}
			res = append(res, [2]interface{}{gc, hex.EncodeToString([]byte(s))})
		}
	} else {
		out["data"] = ""
	}
	out["gets"] = res
}

func c03wParse(file []byte, addr uint64, out map[string]interface{}) {
	var n *structures.SymbolTableNode
	pc, pmsg := c03wGuard(func() error {
		var err error
		n, err = structures.ParseSymbolTableNode(bytes.NewReader(file), addr, c03wSB())
		return err
	})
	out["pc"], out["perr"] = pc, pmsg
	ents := [][6]uint64{}
	if pc == 0 {
		out["version"], out["num"], out["cap"] = n.Version, n.NumSymbols, cap(n.Entries)
		for _, e := range n.Entries {
			ents = append(ents, [6]uint64{e.LinkNameOffset, e.ObjectAddress, uint64(e.CacheType), uint64(e.Reserved), e.CachedBTreeAddr, e.CachedHeapAddr})
		}
	}
	out["entries"] = ents
}

func c03wRun(c *c03wCase) (interface{}, error) {
	out := map[string]interface{}{}
	var file []byte
	if c.File != "" {
		var err error
		if file, err = hex.DecodeString(c.File); err != nil {
			return nil, fmt.Errorf("c03wire: bad hex file")
		}
	}
	switch c.Kind {
	case "heap":
		f := &c03memFile{}
		heap := structures.NewLocalHeap(c.Init)
		adds := [][2]uint64{}
		for _, hx := range c.Names {
			nm, err := hex.DecodeString(hx)
			if err != nil {
				return nil, fmt.Errorf("c03wire: bad hex name")
			}
			if off, err := heap.AddString(string(nm)); err != nil {
				adds = append(adds, [2]uint64{0, off})
			} else {
				adds = append(adds, [2]uint64{1, off})
			}
		}
		out["adds"] = adds
		wc, wmsg := c03wGuard(func() error { return heap.WriteTo(f, c.Addr) })
		out["wc"], out["werr"] = wc, wmsg
		out["image"] = hex.EncodeToString(c03wSlice(f.b, c.Addr, c.Addr+32+heap.DataSegmentSize))
		out["size"] = heap.Size()
		out["filelen"] = len(f.b)
		c03wLoad(f.b, c.Addr, c.Gets, out)
	case "heapread":
		c03wLoad(file, c.Addr, c.Gets, out)
	case "snod":
		f := &c03memFile{}
		node := structures.NewSymbolTableNode(c.Cap)
		adds := []int{}
		for _, e := range c.Entries {
			//nolint:gosec // the generator keeps cache type and reserved below 2^32
			err := node.AddEntry(structures.SymbolTableEntry{LinkNameOffset: e[0], ObjectAddress: e[1], CacheType: uint32(e[2]), Reserved: uint32(e[3])})
			if err != nil {
				adds = append(adds, 0)
			} else {
				adds = append(adds, 1)
			}
		}
		out["adds"] = adds
		wc, wmsg := c03wGuard(func() error { return node.WriteAt(f, c.Addr, 8, c.Max, binary.LittleEndian) })
		out["wc"], out["werr"] = wc, wmsg
		out["image"] = hex.EncodeToString(c03wSlice(f.b, c.Addr, c.Addr+8+uint64(c.Max)*40))
		out["filelen"] = len(f.b)
		if wc == 0 {
			c03wParse(f.b, c.Addr, out)
		}
	case "snodread":
		c03wParse(file, c.Addr, out)
	case "btree":
		f := &c03memFile{}
		bt := structures.NewBTreeNodeV1(0, c.K)
		adds := []int{}
		for _, kc := range c.Keys {
			if err := bt.AddKey(kc[0], kc[1]); err != nil {
				adds = append(adds, 0)
			} else {
				adds = append(adds, 1)
			}
		}
		out["adds"] = adds
		wc, wmsg := c03wGuard(func() error { return bt.WriteAt(f, c.Addr, 8, c.K, binary.LittleEndian) })
		out["wc"], out["werr"] = wc, wmsg
		out["image"] = hex.EncodeToString(c03wSlice(f.b, c.Addr, c.Addr+24+(2*uint64(c.K)+1)*8+2*uint64(c.K)*8))
		out["filelen"] = len(f.b)
	case "btreeread":
		var es []structures.BTreeEntry
		cls, msg := c03wGuard(func() error {
			var err error
			es, err = structures.ReadGroupBTreeEntries(bytes.NewReader(file), c.Addr, c03wSB())
			return err
		})
		out["c"], out["err"] = cls, msg
		ents := [][5]uint64{}
		if cls == 0 {
			for _, e := range es {
				ents = append(ents, [5]uint64{e.LinkNameOffset, e.ObjectAddress, uint64(e.CacheType), e.CachedBTreeAddr, e.CachedHeapAddr})
			}
		}
		out["entries"] = ents
	default:
		return nil, fmt.Errorf("c03wire: unknown kind %q", c.Kind)
	}
	return out, nil
}

func init() {
	handlers["c03wire"] = func(raw json.RawMessage) (interface{}, error) {
		var c c03wCase
		if err := json.NewDecoder(bytes.NewReader(raw)).Decode(&c); err != nil {
			return nil, err
		}
		return c03wRun(&c)
	}
}
