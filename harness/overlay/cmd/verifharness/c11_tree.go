//go:build verif

package main

import (
	"encoding/json"

	"github.com/scigolib/hdf5/internal/core"
)

// Kind "compoundtree" of subcommand c11: EncodeCompoundDatatypeV1/V3 read back the way the dataset reader
// does it: ParseDatatypeMessage, ParseCompoundType, and ParseCompoundType again on every member of class
// compound.  VAL: leaf = [0, datatype], compound = [1, version, size, [[name, offset, tree], ...]]
// (mirrors val_ctype in coq/theories/Model/CodecCompoundTree.v).
func c11ValTree(dt *core.DatatypeMessage) (interface{}, error) {
	if dt.Class != core.DatatypeCompound {
		return vl{0, c11ValDatatype(dt)}, nil
	}
	ct, err := core.ParseCompoundType(dt)
	if err != nil {
		return nil, err
	}
	ms := make(vl, len(ct.Members))
	for i, m := range ct.Members {
		sub, err := c11ValTree(m.Type)
		if err != nil {
			return nil, err
		}
		ms[i] = vl{vBytes([]byte(m.Name)), m.Offset, sub}
	}
	return vl{1, dt.Version, ct.Size, ms}, nil
}

func init() {
	c11Codecs["compoundtree"] = c11Codec{
		enc: func(val json.RawMessage, sb *core.Superblock) ([]byte, error) {
			return c11Codecs["compound"].enc(val, sb)
		},
		dec: func(data []byte, _ *core.Superblock) (interface{}, error) {
			dt, err := core.ParseDatatypeMessage(data)
			if err != nil {
				return nil, err
			}
			return c11ValTree(dt)
		},
	}
}
