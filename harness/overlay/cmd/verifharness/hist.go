//go:build verif

package main

import (
	"crypto/sha256"
	"encoding/binary"
	"encoding/hex"
	"encoding/json"
	"fmt"
	"math"
	"os"
	"path/filepath"
	"runtime/debug"
	"sort"
	"strings"

	hdf5 "github.com/scigolib/hdf5"
	"github.com/scigolib/hdf5/internal/core"
)

// hist: replay a history of write-API operations (possibly several open/close sessions) through the
// public API and dump the logical content of the file, as the public read API reports it after a
// fresh Open, after every Close.

type histOp struct {
	Op      string   `json:"op"`
	Path    string   `json:"path"`
	Target  string   `json:"target"`
	File    string   `json:"file"`
	Dtype   string   `json:"dtype"`
	Dims    []uint64 `json:"dims"`
	Chunk   []uint64 `json:"chunk"`
	MaxDims []uint64 `json:"maxdims"`
	Filters []string `json:"filters"`
	StrSize uint32   `json:"strsize"`
	Name    string   `json:"name"` // hex
	Kind    string   `json:"kind"`
	Val     string   `json:"val"` // hex of little-endian element bytes
	Raw     bool     `json:"raw"`
	H       *int     `json:"h"` // which handle of Path to use: index into the handles opened so far (nil = the latest)
	// extended dataset kinds (hist_ext.go)
	ADims   []uint64          `json:"adims"`   // array datatypes: WithArrayDims
	ENames  []string          `json:"enames"`  // enum datatypes: WithEnumValues names
	EVals   []int64           `json:"evals"`   //                 ... values
	Tag     *string           `json:"tag"`     // opaque tag (nil = "verif")
	Vals    []string          `json:"vals"`    // variable-length write: one hex string per element
	Members []histMember      `json:"members"` // mkcompound
	CSize   uint32            `json:"csize"`   // mkcompound: total size of one record
	Enc     string            `json:"enc"`     // mkcompound: "fields" | "v3" | "v1"
	Links   map[string]string `json:"links"`   // mkdense / mkgrouplinks
}

type histCase struct {
	SB     int      `json:"sb"`
	Config string   `json:"config"` // rebalancing configuration tag (see c19)
	Ops    []histOp `json:"ops"`
	Dir    string   `json:"dir"`
	Keep   bool     `json:"keep"`
	NoData bool     `json:"nodata"` // omit raw bytes from dumps (large datasets)
}

type opResult struct {
	OK    bool   `json:"ok"`
	Err   string `json:"err,omitempty"`
	Panic string `json:"panic,omitempty"`
	Note  string `json:"note,omitempty"` // an API observation that contradicts the call's own result (e.g. GroupWriter.Path)
}

var dtypeByName = map[string]hdf5.Datatype{
	"int8": hdf5.Int8, "int16": hdf5.Int16, "int32": hdf5.Int32, "int64": hdf5.Int64,
	"uint8": hdf5.Uint8, "uint16": hdf5.Uint16, "uint32": hdf5.Uint32, "uint64": hdf5.Uint64,
	"float32": hdf5.Float32, "float64": hdf5.Float64, "string": hdf5.String, "opaque": hdf5.Opaque,
}

// typedSlice converts raw little-endian element bytes to the Go slice type Write expects.
func typedSlice(dtype string, raw []byte, strsize uint32) (interface{}, error) {
	switch dtype {
	case "int8":
		out := make([]int8, len(raw))
		for i, b := range raw {
			out[i] = int8(b)
		}
		return out, nil
	case "uint8":
		return append([]uint8(nil), raw...), nil
	case "int16":
		out := make([]int16, len(raw)/2)
		for i := range out {
			out[i] = int16(binary.LittleEndian.Uint16(raw[2*i:]))
		}
		return out, nil
	case "uint16":
		out := make([]uint16, len(raw)/2)
		for i := range out {
			out[i] = binary.LittleEndian.Uint16(raw[2*i:])
		}
		return out, nil
	case "int32":
		out := make([]int32, len(raw)/4)
		for i := range out {
			out[i] = int32(binary.LittleEndian.Uint32(raw[4*i:]))
		}
		return out, nil
	case "uint32":
		out := make([]uint32, len(raw)/4)
		for i := range out {
			out[i] = binary.LittleEndian.Uint32(raw[4*i:])
		}
		return out, nil
	case "int64":
		out := make([]int64, len(raw)/8)
		for i := range out {
			out[i] = int64(binary.LittleEndian.Uint64(raw[8*i:]))
		}
		return out, nil
	case "uint64":
		out := make([]uint64, len(raw)/8)
		for i := range out {
			out[i] = binary.LittleEndian.Uint64(raw[8*i:])
		}
		return out, nil
	case "float32":
		out := make([]float32, len(raw)/4)
		for i := range out {
			out[i] = math.Float32frombits(binary.LittleEndian.Uint32(raw[4*i:]))
		}
		return out, nil
	case "float64":
		out := make([]float64, len(raw)/8)
		for i := range out {
			out[i] = math.Float64frombits(binary.LittleEndian.Uint64(raw[8*i:]))
		}
		return out, nil
	case "string":
		// raw = concatenation of NUL-separated strings (each terminated by 0xFF marker-free: use \x00 split)
		parts := strings.Split(string(raw), "\x00")
		if len(parts) > 0 && parts[len(parts)-1] == "" {
			parts = parts[:len(parts)-1]
		}
		return parts, nil
	case "opaque":
		return append([]byte(nil), raw...), nil
	}
	return nil, fmt.Errorf("harness: unknown dtype %q", dtype)
}

// attrValue converts (kind, raw LE bytes) to the Go value WriteAttribute receives.
func attrValue(kind string, raw []byte) (interface{}, error) {
	u := func(n int) uint64 {
		var v uint64
		for i := 0; i < n && i < len(raw); i++ {
			v |= uint64(raw[i]) << (8 * i)
		}
		return v
	}
	switch kind {
	case "i8":
		return int8(u(1)), nil
	case "i16":
		return int16(u(2)), nil
	case "i32":
		return int32(u(4)), nil
	case "i64":
		return int64(u(8)), nil
	case "u8":
		return uint8(u(1)), nil
	case "u16":
		return uint16(u(2)), nil
	case "u32":
		return uint32(u(4)), nil
	case "u64":
		return u(8), nil
	case "f32":
		return math.Float32frombits(uint32(u(4))), nil
	case "f64":
		return math.Float64frombits(u(8)), nil
	case "str":
		return string(raw), nil
	case "[]i32", "[]i64", "[]f32", "[]f64":
		name := map[string]string{"[]i32": "int32", "[]i64": "int64", "[]f32": "float32", "[]f64": "float64"}[kind]
		return typedSlice(name, raw, 0)
	case "nil":
		return nil, nil
	case "bool": // unsupported kind on purpose (error path)
		return len(raw) > 0 && raw[0] != 0, nil
	case "[]u8":
		return append([]uint8(nil), raw...), nil
	}
	return nil, fmt.Errorf("harness: unknown attr kind %q", kind)
}

type histRun struct {
	c       *histCase
	file    string
	fw      *hdf5.FileWriter
	ds      map[string]*hdf5.DatasetWriter
	dsAll   map[string][]*hdf5.DatasetWriter // every handle obtained for a path in this session (opends adds one)
	grp     map[string]*hdf5.GroupWriter
	dtypeOf map[string]string
	strsize map[string]uint32
	note    string
}

// handle selects the handle an operation asked for with "h" (an earlier OpenDataset/CreateDataset result
// of the same path in this session), or the latest one.
func (h *histRun) handle(op *histOp) (*hdf5.DatasetWriter, error) {
	if op.H != nil {
		if all := h.dsAll[op.Path]; len(all) > 0 {
			i := *op.H % len(all)
			if i < 0 {
				i += len(all)
			}
			return all[i], nil
		}
	}
	return h.dataset(op.Path)
}

func (h *histRun) remember(path string, d *hdf5.DatasetWriter) {
	if h.dsAll == nil {
		h.dsAll = map[string][]*hdf5.DatasetWriter{}
	}
	h.dsAll[path] = append(h.dsAll[path], d)
}

func (h *histRun) dataset(path string) (*hdf5.DatasetWriter, error) {
	if d, ok := h.ds[path]; ok {
		return d, nil
	}
	if h.fw == nil {
		return nil, fmt.Errorf("harness: no open writer")
	}
	d, err := h.fw.OpenDataset(path)
	if err != nil {
		return nil, err
	}
	h.ds[path] = d
	h.remember(path, d)
	return d, nil
}

func (h *histRun) apply(op *histOp) (err error) {
	switch op.Op {
	case "mkgroup":
		if h.fw == nil {
			return fmt.Errorf("harness: no open writer")
		}
		g, e := h.fw.CreateGroup(op.Path)
		if e == nil && g != nil {
			h.grp[op.Path] = g
			if g.Path() != op.Path {
				h.note = fmt.Sprintf("GroupWriter.Path() = %q for the group created as %q", g.Path(), op.Path)
			}
		}
		return e
	case "mkds":
		if h.fw == nil {
			return fmt.Errorf("harness: no open writer")
		}
		dt, opts, e0 := histDatatype(op)
		if e0 != nil {
			return e0
		}
		if op.Chunk != nil {
			opts = append(opts, hdf5.WithChunkDims(op.Chunk))
		}
		if op.MaxDims != nil {
			opts = append(opts, hdf5.WithMaxDims(op.MaxDims))
		}
		for _, f := range op.Filters {
			switch {
			case strings.HasPrefix(f, "gzip:"):
				lvl := 6
				fmt.Sscanf(f, "gzip:%d", &lvl)
				opts = append(opts, hdf5.WithGZIPCompression(lvl))
			case f == "shuffle":
				opts = append(opts, hdf5.WithShuffle())
			case f == "fletcher32":
				opts = append(opts, hdf5.WithFletcher32())
			}
		}
		d, e := h.fw.CreateDataset(op.Path, dt, op.Dims, opts...)
		if e == nil && d != nil {
			h.ds[op.Path] = d
			h.remember(op.Path, d)
			h.dtypeOf[op.Path] = op.Dtype
			h.strsize[op.Path] = op.StrSize
		}
		return e
	case "opends": // a further OpenDataset of the same path: becomes the latest handle, earlier ones stay usable ("h")
		if h.fw == nil {
			return fmt.Errorf("harness: no open writer")
		}
		d, e := h.fw.OpenDataset(op.Path)
		if e != nil {
			return e
		}
		h.ds[op.Path] = d
		h.remember(op.Path, d)
		return nil
	case "write":
		d, e := h.handle(op)
		if e != nil {
			return e
		}
		if op.Vals != nil {
			if op.Dtype == "" {
				op.Dtype = h.dtypeOf[op.Path]
			}
			return histWriteVlen(d, op)
		}
		raw, e := hex.DecodeString(op.Val)
		if e != nil {
			return fmt.Errorf("harness: bad hex: %w", e)
		}
		if op.Raw {
			return d.WriteRaw(raw)
		}
		dtn := op.Dtype
		if dtn == "" {
			dtn = h.dtypeOf[op.Path]
		}
		v, e := typedSlice(histBaseName(dtn), raw, h.strsize[op.Path])
		if e != nil {
			return e
		}
		return d.Write(v)
	case "resize":
		d, e := h.handle(op)
		if e != nil {
			return e
		}
		return d.Resize(op.Dims)
	case "closeds":
		d, e := h.dataset(op.Path)
		if e != nil {
			return e
		}
		return d.Close()
	case "setattr", "delattr":
		nameb, e := hex.DecodeString(op.Name)
		if e != nil {
			return fmt.Errorf("harness: bad hex name")
		}
		if g, ok := h.grp[op.Path]; ok {
			if op.Op == "delattr" {
				return fmt.Errorf("harness: group attribute deletion is not offered by the API")
			}
			raw, _ := hex.DecodeString(op.Val)
			v, e := attrValue(op.Kind, raw)
			if e != nil {
				return e
			}
			return g.WriteAttribute(string(nameb), v)
		}
		d, e := h.handle(op)
		if e != nil {
			return e
		}
		if op.Op == "delattr" {
			return d.DeleteAttribute(string(nameb))
		}
		raw, _ := hex.DecodeString(op.Val)
		v, e := attrValue(op.Kind, raw)
		if e != nil {
			return e
		}
		return d.WriteAttribute(string(nameb), v)
	case "rebalance": // explicit rebalancing calls: never change the logical content
		if h.fw == nil {
			return fmt.Errorf("harness: no open writer")
		}
		if op.Path == "" {
			switch op.Kind {
			case "disable":
				h.fw.DisableRebalancing()
				if h.fw.RebalancingEnabled() {
					h.note = "RebalancingEnabled() is true after DisableRebalancing()"
				}
				return nil
			case "enable":
				h.fw.EnableRebalancing()
				if !h.fw.RebalancingEnabled() {
					h.note = "RebalancingEnabled() is false after EnableRebalancing()"
				}
				return nil
			}
			return h.fw.RebalanceAllBTrees()
		}
		d, e := h.handle(op)
		if e != nil {
			return e
		}
		return d.RebalanceAttributeBTree()
	case "mkcompound", "mkdense", "mkgrouplinks":
		if h.fw == nil {
			return fmt.Errorf("harness: no open writer")
		}
		return h.applyExt(op)
	case "hardlink":
		if h.fw == nil {
			return fmt.Errorf("harness: no open writer")
		}
		return h.fw.CreateHardLink(op.Path, op.Target)
	case "softlink":
		if h.fw == nil {
			return fmt.Errorf("harness: no open writer")
		}
		return h.fw.CreateSoftLink(op.Path, op.Target)
	case "extlink":
		if h.fw == nil {
			return fmt.Errorf("harness: no open writer")
		}
		return h.fw.CreateExternalLink(op.Path, op.File, op.Target)
	case "close":
		if h.fw == nil {
			return nil
		}
		return h.fw.Close() // handle kept: a second close must be harmless
	case "reopen":
		if h.fw != nil {
			_ = h.fw.Close()
		}
		h.ds = map[string]*hdf5.DatasetWriter{}
		h.dsAll = map[string][]*hdf5.DatasetWriter{}
		h.grp = map[string]*hdf5.GroupWriter{}
		fw, e := hdf5.OpenForWrite(h.file, hdf5.OpenReadWrite)
		if e != nil {
			h.fw = nil
			return e
		}
		h.fw = fw
		return nil
	}
	return fmt.Errorf("harness: unknown op %q", op.Op)
}

func (h *histRun) applySafe(op *histOp) (res opResult) {
	defer func() {
		if r := recover(); r != nil {
			st := string(debug.Stack())
			if len(st) > 1500 {
				st = st[:1500]
			}
			res = opResult{Panic: fmt.Sprint(r) + "\n" + st}
		}
	}()
	h.note = ""
	if err := h.apply(op); err != nil {
		return opResult{Err: err.Error(), Note: h.note}
	}
	return opResult{OK: true, Note: h.note}
}

// ---------------------------------------------------------------- logical dump

type attrDump struct {
	Name    string   `json:"name"` // hex
	Class   int      `json:"class"`
	Size    uint32   `json:"size"`
	Bits    uint32   `json:"bits"`
	Dims    []uint64 `json:"dims"`
	Data    string   `json:"data"` // hex
	Value   string   `json:"value"`
	ValErr  string   `json:"valerr,omitempty"`
	Version int      `json:"-"`
}

type objDump struct {
	Path     string     `json:"path"`
	Kind     string     `json:"kind"`
	Addr     uint64     `json:"addr"`
	Children []string   `json:"children,omitempty"`
	Attrs    []attrDump `json:"attrs"`
	AttrErr  string     `json:"attrerr,omitempty"`
	Info     string     `json:"info,omitempty"`
	InfoErr  string     `json:"infoerr,omitempty"`
	Class    int        `json:"class"`
	Size     uint32     `json:"size"`
	Bits     uint32     `json:"bits"`
	Dims     []uint64   `json:"dims,omitempty"`
	MaxDims  []uint64   `json:"maxdims,omitempty"`
	Layout   string     `json:"layout,omitempty"`
	HdrErr   string     `json:"hdrerr,omitempty"`
	Raw      *string    `json:"raw,omitempty"`
	RawErr   string     `json:"rawerr,omitempty"`
	Read     []string   `json:"read,omitempty"` // float64 bit patterns, hex
	ReadErr  string     `json:"readerr,omitempty"`
	Strings  []string   `json:"strings,omitempty"` // hex
	StrErr   string     `json:"strerr,omitempty"`
	NStrings int        `json:"nstrings"`
	DtMsg    string     `json:"dtmsg,omitempty"`    // datatype message as the reader's header parser returns it (hex)
	Members  []memDump  `json:"members,omitempty"`  // compound: what core.ParseCompoundType (used by ReadCompound) sees
	MemErr   string     `json:"memerr,omitempty"`
	Compound []string   `json:"compound,omitempty"` // ReadCompound: one rendered record per element
	CompErr  string     `json:"comperr,omitempty"`
	HasComp  bool       `json:"hascomp,omitempty"`  // ReadCompound returned without error
	Vlen     []string   `json:"vlen,omitempty"`     // variable-length: every element resolved through the library's global heap reader (hex / "!err")
}

type fileDump struct {
	OpenErr string    `json:"openerr,omitempty"`
	Panic   string    `json:"panic,omitempty"`
	SB      int       `json:"sb"`
	Size    int64     `json:"size"`
	SHA     string    `json:"sha"`
	EOF     uint64    `json:"eof"`
	Objects []objDump `json:"objects"`
}

func dumpAttrs(attrs []*core.Attribute) []attrDump {
	out := make([]attrDump, 0, len(attrs))
	for _, a := range attrs {
		ad := attrDump{Name: hex.EncodeToString([]byte(a.Name)), Data: hex.EncodeToString(a.Data)}
		if a.Datatype != nil {
			ad.Class, ad.Size, ad.Bits = int(a.Datatype.Class), a.Datatype.Size, a.Datatype.ClassBitField
		}
		if a.Dataspace != nil {
			ad.Dims = a.Dataspace.Dimensions
		}
		func() {
			defer func() {
				if r := recover(); r != nil {
					ad.ValErr = "panic: " + fmt.Sprint(r)
				}
			}()
			v, err := a.ReadValue()
			if err != nil {
				ad.ValErr = err.Error()
			} else {
				ad.Value = renderValue(v)
			}
		}()
		out = append(out, ad)
	}
	return out
}

func renderValue(v interface{}) string {
	switch x := v.(type) {
	case float32:
		return fmt.Sprintf("f32:%08x", math.Float32bits(x))
	case float64:
		return fmt.Sprintf("f64:%016x", math.Float64bits(x))
	case []float32:
		parts := make([]string, len(x))
		for i, e := range x {
			parts[i] = fmt.Sprintf("%08x", math.Float32bits(e))
		}
		return "[]f32:" + strings.Join(parts, ",")
	case []float64:
		parts := make([]string, len(x))
		for i, e := range x {
			parts[i] = fmt.Sprintf("%016x", math.Float64bits(e))
		}
		return "[]f64:" + strings.Join(parts, ",")
	case string:
		return "str:" + hex.EncodeToString([]byte(x))
	case []string:
		parts := make([]string, len(x))
		for i, e := range x {
			parts[i] = hex.EncodeToString([]byte(e))
		}
		return "[]str:" + strings.Join(parts, ",")
	}
	return fmt.Sprintf("%T:%v", v, v)
}

func dumpFile(path string, nodata bool) (fd fileDump) {
	defer func() {
		if r := recover(); r != nil {
			st := string(debug.Stack())
			if len(st) > 2500 {
				st = st[:2500]
			}
			fd.Panic = fmt.Sprint(r) + "\n" + st
		}
	}()
	if b, err := os.ReadFile(path); err == nil {
		s := sha256.Sum256(b)
		fd.SHA = hex.EncodeToString(s[:])
		fd.Size = int64(len(b))
	}
	f, err := hdf5.Open(path)
	if err != nil {
		fd.OpenErr = err.Error()
		return fd
	}
	defer f.Close()
	fd.SB = int(f.SuperblockVersion())
	fd.EOF = core.VerifSuperblockEOF(f.Reader(), f.Superblock())
	f.Walk(func(p string, obj hdf5.Object) {
		od := objDump{Path: p}
		switch o := obj.(type) {
		case *hdf5.Group:
			od.Kind = "group"
			od.Addr = o.VerifAddress()
			for _, c := range o.Children() {
				od.Children = append(od.Children, hex.EncodeToString([]byte(c.Name())))
			}
			attrs, err := o.Attributes()
			if err != nil {
				od.AttrErr = err.Error()
			} else {
				od.Attrs = dumpAttrs(attrs)
			}
		case *hdf5.Dataset:
			od.Kind = "dataset"
			od.Addr = o.Address()
			attrs, err := o.Attributes()
			if err != nil {
				od.AttrErr = err.Error()
			} else {
				od.Attrs = dumpAttrs(attrs)
			}
			if info, err := o.Info(); err != nil {
				od.InfoErr = err.Error()
			} else {
				od.Info = info
			}
			hdr, err := core.ReadObjectHeader(f.Reader(), o.Address(), f.Superblock())
			if err != nil {
				od.HdrErr = err.Error()
			} else {
				meta, raw, rerr := core.VerifDatasetRaw(f.Reader(), hdr, f.Superblock())
				if meta != nil {
					od.Class, od.Size, od.Bits = meta.Class, meta.Size, meta.Bits
					od.Dims, od.MaxDims, od.Layout = meta.Dims, meta.MaxDims, meta.Layout
				}
				if rerr != nil {
					od.RawErr = rerr.Error()
				} else if !nodata {
					s := hex.EncodeToString(raw)
					od.Raw = &s
				}
				dumpExt(f, o, hdr, raw, rerr, &od, nodata)
			}
			if vals, err := o.Read(); err != nil {
				od.ReadErr = err.Error()
			} else if !nodata {
				od.Read = make([]string, len(vals))
				for i, v := range vals {
					od.Read[i] = fmt.Sprintf("%016x", math.Float64bits(v))
				}
			}
			if od.Class != int(core.DatatypeFixed) && od.Class != int(core.DatatypeFloat) {
				if strs, err := o.ReadStrings(); err != nil {
					od.StrErr = err.Error()
				} else {
					od.NStrings = len(strs)
					for _, s := range strs {
						od.Strings = append(od.Strings, hex.EncodeToString([]byte(s)))
					}
				}
			}
		default:
			od.Kind = fmt.Sprintf("%T", obj)
		}
		fd.Objects = append(fd.Objects, od)
	})
	sort.SliceStable(fd.Objects, func(i, j int) bool { return fd.Objects[i].Path < fd.Objects[j].Path })
	return fd
}

func init() {
	handlers["hist"] = func(raw json.RawMessage) (interface{}, error) {
		var c histCase
		if err := json.Unmarshal(raw, &c); err != nil {
			return nil, err
		}
		dir := c.Dir
		if dir == "" {
			dir = os.TempDir()
		}
		tmp, err := os.MkdirTemp(dir, "hist-")
		if err != nil {
			return nil, err
		}
		if !c.Keep {
			defer os.RemoveAll(tmp)
		}
		h := &histRun{c: &c, file: filepath.Join(tmp, "f.h5"), ds: map[string]*hdf5.DatasetWriter{},
			grp: map[string]*hdf5.GroupWriter{}, dtypeOf: map[string]string{}, strsize: map[string]uint32{}}
		results := []opResult{}
		type snap struct {
			After int      `json:"after"`
			Dump  fileDump `json:"dump"`
		}
		var dumps []snap
		opts := []interface{}{hdf5.WithSuperblockVersion(uint8(c.SB))}
		opts = append(opts, histConfigOptions(c.Config)...)
		var createRes opResult
		func() {
			defer func() {
				if r := recover(); r != nil {
					createRes = opResult{Panic: fmt.Sprint(r)}
				}
			}()
			fw, err := hdf5.CreateForWrite(h.file, hdf5.CreateTruncate, opts...)
			if err != nil {
				createRes = opResult{Err: err.Error()}
				return
			}
			h.fw = fw
			createRes = opResult{OK: true}
		}()
		closed := false
		for i := range c.Ops {
			op := &c.Ops[i]
			if op.Op == "dump" {
				if closed {
					dumps = append(dumps, snap{After: i, Dump: dumpFile(h.file, c.NoData)})
				}
				results = append(results, opResult{OK: true})
				continue
			}
			r := h.applySafe(op)
			results = append(results, r)
			if op.Op == "close" {
				closed = true
			} else if op.Op == "reopen" {
				closed = false
			}
		}
		// final close + dump
		var finalClose opResult
		if h.fw != nil {
			finalClose = h.applySafe(&histOp{Op: "close"})
		} else {
			finalClose = opResult{OK: true}
		}
		final := dumpFile(h.file, c.NoData)
		out := map[string]interface{}{"create": createRes, "results": results, "dumps": dumps, "final_close": finalClose, "final": final}
		if c.Keep {
			out["file"] = h.file
		}
		return out, nil
	}
}
