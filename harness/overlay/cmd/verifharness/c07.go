//go:build verif

package main

import (
	"bufio"
	"bytes"
	"encoding/binary"
	"encoding/hex"
	"encoding/json"
	"fmt"
	"os"
	"path/filepath"
	"runtime"
	"runtime/debug"
	"strconv"
	"strings"
	"sync/atomic"
	"time"

	hdf5 "github.com/scigolib/hdf5"
	"github.com/scigolib/hdf5/internal/core"
	"github.com/scigolib/hdf5/internal/structures"
	"github.com/scigolib/hdf5/internal/utils"
)

// Subcommand c07worker: the isolated worker of property C07.
//
//	verifharness c07worker <scratch-dir> <per-input-timeout-seconds> [skip=chunked-extent]
//
// stdin, one JSON case per line:
//
//	{"id":N, "base":"/path/file.h5", "patches":[[offset,"hex"],...], "trunc":K, "extend":"hex"}   mutated copy of a base file
//	{"id":N, "hex":"..."}                                                                        literal contents
//	{"id":N, "path":"/path"}                                                                     the file as it is
//
// For every case the worker first prints {"id":N,"begin":true} (flushed), then materialises the input as a file in
// <scratch-dir>, opens it with hdf5.Open and reads EVERYTHING reachable through the public read API (Walk; group
// attributes + ReadValue; per dataset Info, Attributes/ListAttributes + ReadValue, Read, ReadStrings, ReadCompound,
// ReadSlice of two small corner slabs, ChunkIterator over the first chunks; named datatypes), each operation under
// recover().  Then it prints the result line
//
//	{"id":N,"c":"ok|err|panic","open":"ok|err","e":"first error","panic":"text","op":"operation that panicked",
//	 "objs":n,"ops":n,"ms":wall,"hwm_kb":peak RSS of the process while this input was handled,"alloc":bytes allocated}
//
// A Go *fatal* error (stack overflow, out of memory, concurrent map write) cannot be recovered: the process dies, the
// caller sees a begin line without a result line and attributes the death (exit status + stderr text) to that input.
// A watchdog prints {"id":N,"c":"timeout","op":...} and exits with status 97 when one input takes longer than the limit.
type c07Case struct {
	ID      int             `json:"id"`
	Base    string          `json:"base"`
	Patches [][]interface{} `json:"patches"`
	Trunc   *int            `json:"trunc"`
	Extend  string          `json:"extend"`
	Hex     *string         `json:"hex"`
	Path    string          `json:"path"`
}

type c07Res struct {
	ID    int    `json:"id"`
	C     string `json:"c"`
	Open  string `json:"open,omitempty"`
	E     string `json:"e,omitempty"`
	Panic string `json:"panic,omitempty"`
	Op    string `json:"op,omitempty"`
	Stack string `json:"stack,omitempty"`
	Objs  int    `json:"objs"`
	Ops   int    `json:"ops"`
	Errs  int    `json:"errs"`
	Ms    int64  `json:"ms"`
	HWM   int64  `json:"hwm_kb"`
	Alloc uint64 `json:"alloc"`
	Size  int    `json:"size"`
	// the single operation that allocated most (cumulative bytes allocated while it ran)
	MaxOp      string `json:"maxop,omitempty"`
	MaxOpAlloc uint64 `json:"maxop_alloc"`
	MaxOpMs    int64  `json:"maxop_ms"`
	SlowOp     string `json:"slowop,omitempty"`
	Notes      []string `json:"notes,omitempty"`
}

var c07CurOp atomic.Value // string: what the worker is doing right now (for the watchdog)

var c07BaseCache = map[string][]byte{}

func c07Materialise(c *c07Case, dir string) (string, int, error) {
	if c.Path != "" {
		st, err := os.Stat(c.Path)
		if err != nil {
			return "", 0, err
		}
		return c.Path, int(st.Size()), nil
	}
	var data []byte
	if c.Hex != nil {
		b, err := hex.DecodeString(*c.Hex)
		if err != nil {
			return "", 0, err
		}
		data = b
	} else {
		base, ok := c07BaseCache[c.Base]
		if !ok {
			b, err := os.ReadFile(c.Base)
			if err != nil {
				return "", 0, err
			}
			if len(c07BaseCache) > 8 {
				c07BaseCache = map[string][]byte{}
			}
			c07BaseCache[c.Base] = b
			base = b
		}
		data = append([]byte(nil), base...)
		if c.Trunc != nil && *c.Trunc >= 0 && *c.Trunc < len(data) {
			data = data[:*c.Trunc]
		}
		if c.Extend != "" {
			b, err := hex.DecodeString(c.Extend)
			if err != nil {
				return "", 0, err
			}
			data = append(data, b...)
		}
		for _, p := range c.Patches {
			if len(p) != 2 {
				return "", 0, fmt.Errorf("bad patch")
			}
			off, ok1 := p[0].(float64)
			hx, ok2 := p[1].(string)
			if !ok1 || !ok2 {
				return "", 0, fmt.Errorf("bad patch")
			}
			b, err := hex.DecodeString(hx)
			if err != nil {
				return "", 0, err
			}
			o := int(off)
			if o < 0 {
				return "", 0, fmt.Errorf("negative patch offset")
			}
			if o+len(b) > len(data) { // a patch may extend the file (zero filled gap)
				data = append(data, make([]byte, o+len(b)-len(data))...)
			}
			copy(data[o:], b)
		}
	}
	path := filepath.Join(dir, "in-"+strconv.Itoa(os.Getpid())+".h5")
	if err := os.WriteFile(path, data, 0o600); err != nil {
		return "", 0, err
	}
	return path, len(data), nil
}

// c07Guard runs one read operation; a panic is recorded (first one wins), an error is counted.
func c07Guard(res *c07Res, op string, f func() error) {
	c07CurOp.Store(op)
	res.Ops++
	var ms runtime.MemStats
	runtime.ReadMemStats(&ms)
	a0, t0 := ms.TotalAlloc, time.Now()
	defer func() {
		r := recover()
		runtime.ReadMemStats(&ms)
		if d := ms.TotalAlloc - a0; d > res.MaxOpAlloc {
			res.MaxOpAlloc, res.MaxOp = d, op
		}
		if d := time.Since(t0).Milliseconds(); d > res.MaxOpMs {
			res.MaxOpMs, res.SlowOp = d, op
		}
		if r != nil {
			if res.Panic == "" {
				res.Panic = fmt.Sprint(r)
				res.Op = op
				st := string(debug.Stack())
				if len(st) > 3000 {
					st = st[:3000]
				}
				res.Stack = st
			}
		}
	}()
	if err := f(); err != nil {
		res.Errs++
		if res.E == "" {
			res.E = op + ": " + err.Error()
			if len(res.E) > 400 {
				res.E = res.E[:400]
			}
		}
	}
}

func c07ReadAttrs(res *c07Res, what string, get func() ([]*core.Attribute, error)) {
	var attrs []*core.Attribute
	c07Guard(res, what+".Attributes", func() error {
		a, err := get()
		attrs = a
		return err
	})
	for i, a := range attrs {
		if i >= 4096 {
			break
		}
		a := a
		c07Guard(res, what+".Attribute.ReadValue", func() error {
			if a == nil {
				return nil
			}
			_, err := a.ReadValue()
			return err
		})
	}
}

const c07MaxChunks = 64

// c07SkipChunkedExtent: do not materialise chunked datasets whose declared extent is far larger than the file
// (known finding C07-chunked-extent-alloc: the result buffer is sized by the dataspace, not by what is stored).
// The datasets are still reported in Notes, so the caller counts them.
var c07SkipChunkedExtent bool

// c07ChunkedExtent reports the declared size in bytes of a chunked dataset (0 if the dataset is not chunked or its
// messages do not parse); overflow is reported as MaxUint64.
func c07ChunkedExtent(hdr *core.ObjectHeader, sb *core.Superblock) uint64 {
	var dt *core.DatatypeMessage
	var ds *core.DataspaceMessage
	var ly *core.DataLayoutMessage
	for _, m := range hdr.Messages {
		switch m.Type {
		case core.MsgDatatype:
			if x, err := core.ParseDatatypeMessage(m.Data); err == nil {
				dt = x
			}
		case core.MsgDataspace:
			if x, err := core.ParseDataspaceMessage(m.Data); err == nil {
				ds = x
			}
		case core.MsgDataLayout:
			if x, err := core.ParseDataLayoutMessage(m.Data, sb); err == nil {
				ly = x
			}
		}
	}
	if dt == nil || ds == nil || ly == nil || !ly.IsChunked() {
		return 0
	}
	total := uint64(1)
	for _, d := range ds.Dimensions {
		if d != 0 && total > ^uint64(0)/d {
			return ^uint64(0)
		}
		total *= d
	}
	if ds.Type == core.DataspaceNull {
		total = 0
	}
	es := uint64(dt.Size)
	if es != 0 && total > ^uint64(0)/es {
		return ^uint64(0)
	}
	return total * es
}

func c07ReadDataset(res *c07Res, f *hdf5.File, path string, d *hdf5.Dataset) {
	c07Guard(res, "Dataset.Info", func() error { _, err := d.Info(); return err })
	c07ReadAttrs(res, "Dataset", d.Attributes)
	c07Guard(res, "Dataset.ListAttributes", func() error { _, err := d.ListAttributes(); return err })
	c07Guard(res, "Dataset.ReadAttribute", func() error { _, _ = d.ReadAttribute("units"); return nil })
	// the extent as the reader itself parses it (needed to form an in-range selection)
	var dims []uint64
	sparse := false
	c07Guard(res, "dims", func() error {
		hdr, err := core.ReadObjectHeader(f.Reader(), d.Address(), f.Superblock())
		if err != nil {
			return err
		}
		if ext := c07ChunkedExtent(hdr, f.Superblock()); ext > 4<<20+4*uint64(res.Size) {
			sparse = true
			if len(res.Notes) < 16 {
				res.Notes = append(res.Notes, fmt.Sprintf("chunked-extent:%d", ext))
			}
		}
		for _, m := range hdr.Messages {
			if m.Type == core.MsgDataspace {
				ds, err := core.ParseDataspaceMessage(m.Data)
				if err != nil {
					return err
				}
				dims = ds.Dimensions
				return nil
			}
		}
		return nil
	})
	if !(sparse && c07SkipChunkedExtent) {
		c07Guard(res, "Dataset.Read", func() error { _, err := d.Read(); return err })
		c07Guard(res, "Dataset.ReadStrings", func() error { _, err := d.ReadStrings(); return err })
		c07Guard(res, "Dataset.ReadCompound", func() error { _, err := d.ReadCompound(); return err })
	}
	if len(dims) > 0 && len(dims) <= 64 {
		start := make([]uint64, len(dims))
		count := make([]uint64, len(dims))
		last := make([]uint64, len(dims))
		wide := 0 // at most three dimensions get more than one element: the slab stays small whatever the rank
		for i, n := range dims {
			count[i] = n
			if n > 1 {
				count[i] = 1
				if wide < 3 {
					count[i] = 2
					wide++
				}
			}
			last[i] = n - count[i]
		}
		c07Guard(res, "Dataset.ReadSlice(first)", func() error { _, err := d.ReadSlice(start, count); return err })
		c07Guard(res, "Dataset.ReadSlice(last)", func() error { _, err := d.ReadSlice(last, count); return err })
		c07Guard(res, "Dataset.ReadHyperslab(stride)", func() error {
			stride := make([]uint64, len(dims))
			block := make([]uint64, len(dims))
			cnt := make([]uint64, len(dims))
			w := 0
			for i := range dims {
				stride[i], block[i], cnt[i] = 2, 1, 1
				if dims[i] >= 3 && w < 3 {
					cnt[i] = 2
					w++
				}
			}
			_, err := d.ReadHyperslab(&hdf5.HyperslabSelection{Start: start, Count: cnt, Stride: stride, Block: block})
			return err
		})
	}
	c07Guard(res, "Dataset.ChunkIterator", func() error {
		it, err := d.ChunkIterator()
		if err != nil {
			return err
		}
		n := 0
		for !(sparse && c07SkipChunkedExtent) && it.Next() && n < c07MaxChunks {
			n++
			c07CurOp.Store("ChunkIterator.Chunk")
			if _, err := it.Chunk(); err != nil {
				return err
			}
			_ = it.ChunkCoords()
		}
		return it.Err()
	})
}

func c07ReadAll(path string, res *c07Res) {
	var f *hdf5.File
	c07Guard(res, "Open", func() error {
		var err error
		f, err = hdf5.Open(path)
		return err
	})
	if f == nil {
		res.Open = "err"
		return
	}
	res.Open = "ok"
	defer f.Close()
	type item struct {
		path string
		obj  hdf5.Object
	}
	var items []item
	c07Guard(res, "Walk", func() error {
		f.Walk(func(p string, o hdf5.Object) { items = append(items, item{p, o}) })
		return nil
	})
	res.Objs = len(items)
	seen := map[uint64]int{}
	for _, it := range items {
		switch o := it.obj.(type) {
		case *hdf5.Group:
			c07ReadAttrs(res, "Group", o.Attributes)
		case *hdf5.Dataset:
			// hard links can list one dataset under many paths: read each object at most twice
			seen[o.Address()]++
			if seen[o.Address()] > 2 {
				continue
			}
			c07ReadDataset(res, f, it.path, o)
		case *hdf5.NamedDatatype:
			c07Guard(res, "NamedDatatype.Datatype", func() error {
				if dt := o.Datatype(); dt != nil {
					_ = dt.String()
				}
				return nil
			})
		}
	}
}

func c07HWM() int64 {
	b, err := os.ReadFile("/proc/self/status")
	if err != nil {
		return -1
	}
	for _, l := range strings.Split(string(b), "\n") {
		if strings.HasPrefix(l, "VmHWM:") {
			f := strings.Fields(l)
			if len(f) >= 2 {
				n, _ := strconv.ParseInt(f[1], 10, 64)
				return n
			}
		}
	}
	return -1
}

func c07RSS() int64 {
	b, err := os.ReadFile("/proc/self/statm")
	if err != nil {
		return -1
	}
	f := strings.Fields(string(b))
	if len(f) < 2 {
		return -1
	}
	n, _ := strconv.ParseInt(f[1], 10, 64)
	return n * int64(os.Getpagesize()) / 1024
}

// c07ResetHWM resets the kernel's peak-RSS counter of this process (Linux: "5" > /proc/self/clear_refs).
func c07ResetHWM() bool {
	return os.WriteFile("/proc/self/clear_refs", []byte("5"), 0) == nil
}

func init() {
	bulk["c07worker"] = func(args []string) error {
		if len(args) < 2 {
			return fmt.Errorf("usage: c07worker <scratch-dir> <timeout-seconds>")
		}
		dir := args[0]
		limit, err := strconv.ParseFloat(args[1], 64)
		if err != nil {
			return err
		}
		for _, a := range args[2:] {
			if a == "skip=chunked-extent" {
				c07SkipChunkedExtent = true
			}
		}
		if err := os.MkdirAll(dir, 0o700); err != nil {
			return err
		}
		out := bufio.NewWriterSize(os.Stdout, 1<<16)
		enc := json.NewEncoder(out)
		emit := func(v interface{}) {
			_ = enc.Encode(v)
			_ = out.Flush()
		}
		// watchdog
		var curID atomic.Int64
		var started atomic.Int64
		curID.Store(-1)
		go func() {
			for {
				time.Sleep(100 * time.Millisecond)
				id := curID.Load()
				if id < 0 {
					continue
				}
				if time.Since(time.Unix(0, started.Load())).Seconds() > limit {
					op, _ := c07CurOp.Load().(string)
					// the main goroutine may be stuck: write directly, do not touch its buffered writer
					line, _ := json.Marshal(c07Res{ID: int(id), C: "timeout", Op: op, Ms: int64(limit * 1000), HWM: c07HWM()})
					os.Stdout.Write(append(line, '\n'))
					os.Exit(97)
				}
			}
		}()
		sc := bufio.NewScanner(bufio.NewReaderSize(os.Stdin, 1<<20))
		sc.Buffer(make([]byte, 1<<20), 1<<30)
		canReset := c07ResetHWM()
		var ms runtime.MemStats
		for sc.Scan() {
			line := sc.Bytes()
			if len(line) == 0 {
				continue
			}
			var c c07Case
			if err := json.Unmarshal(line, &c); err != nil {
				return fmt.Errorf("bad case: %v", err)
			}
			emit(map[string]interface{}{"id": c.ID, "begin": true})
			path, size, err := c07Materialise(&c, dir)
			if err != nil {
				emit(map[string]interface{}{"id": c.ID, "harness_error": err.Error()})
				continue
			}
			if c07RSS() > 20*1024 {
				debug.FreeOSMemory()
			}
			if canReset {
				c07ResetHWM()
			}
			runtime.ReadMemStats(&ms)
			a0 := ms.TotalAlloc
			res := c07Res{ID: c.ID, Size: size}
			t0 := time.Now()
			started.Store(t0.UnixNano())
			curID.Store(int64(c.ID))
			c07ReadAll(path, &res)
			curID.Store(-1)
			res.Ms = time.Since(t0).Milliseconds()
			runtime.ReadMemStats(&ms)
			res.Alloc = ms.TotalAlloc - a0
			res.HWM = c07HWM()
			switch {
			case res.Panic != "":
				res.C = "panic"
			case res.Open == "ok":
				res.C = "ok"
			default:
				res.C = "err"
			}
			emit(res)
			if c.Path == "" {
				_ = os.Remove(path)
			}
		}
		return sc.Err()
	}
}

// ------------------------------------------------------------------------------------------------
// Subcommand c07: the functions modelled in coq/theories/Model/RobustAlloc.v / RobustTerm.v, run on a file
// image held in memory (bytes.Reader).  One JSON case per line:
//
//	{"k":"readbytesat","file":"hex","off":N,"size":N}      utils.ReadBytesAt                -> ok [len] | err
//	{"k":"safemul","a":N,"b":N}                            utils.SafeMultiply               -> ok [v] | err
//	{"k":"contig","file":"hex","dims":[..],"es":4|8,"cls":0|1,"addr":N}  core.ReadDatasetFloat64 on a contiguous layout -> ok [n] | err
//	{"k":"lheap","file":"hex","addr":N,"o":O,"l":L}        structures.LoadLocalHeap         -> ok [len(Data)] | err
//	{"k":"gcol","file":"hex","addr":N,"os":4|8}            core.ReadGlobalHeapCollection    -> ok [sizes...] | err
//	{"k":"ohdr","file":"hex","addr":N}                     core.ReadObjectHeader            -> ok [len(Messages)] | err
//	{"k":"btree","file":"hex","addr":N,"nd":N}             core.ParseBTreeV1Node + CollectAllChunks -> ok [nchunks] | err
//	{"k":"gnode","file":"hex","addr":N,"o":O}              structures.ReadGroupBTreeEntries -> ok [len(entries)] | err
//	{"k":"snod","file":"hex","addr":N,"o":O}               structures.ParseSymbolTableNode  -> ok [name,obj,cache,bt,heap]* | err
//	{"k":"hstr","file":"hex(heap data)","off":N}           structures.LocalHeap.GetString   -> ok [bytes] | err
//	{"k":"bt2","file":"hex","addr":N,"o":O}                readBTreeV2HeaderRaw + readBTreeV2LeafRecords -> ok [nroot,total,root,id bytes...] | err
//	{"k":"fheap","file":"hex","addr":N,"id":"hex","o":O,"l":L}  readFractalHeapHeaderRaw + parseHeapID + readHeapObject -> ok [bytes] | err
//	{"k":"dense","file":"hex","fh":N,"bt":N,"o":O,"l":L}   readDenseAttributes -> ok [count] | err
//	{"k":"convf","file":"hex(raw)","es":N,"cls":C,"n":N}   convertToFloat64 -> ok [len] | err
//	{"k":"convs","file":"hex(raw)","es":N,"n":N}           convertToStrings (fixed strings) -> ok [len] | err
//	{"k":"lzf","file":"hex(input)"}                        FilterPipelineMessage{LZF}.ApplyFilters -> ok [len(out), out bytes...] | err
//
// result {"c":"ok|err|panic","v":[...],"e":"...","alloc":bytes allocated by the call}
type c07Model struct {
	K    string   `json:"k"`
	File string   `json:"file"`
	Off  uint64   `json:"off"`
	Size uint64   `json:"size"`
	A    uint64   `json:"a"`
	B    uint64   `json:"b"`
	Dims []uint64 `json:"dims"`
	ES   uint32   `json:"es"`
	Cls  uint8    `json:"cls"`
	Addr uint64   `json:"addr"`
	O    uint8    `json:"o"`
	L    uint8    `json:"l"`
	OS   int      `json:"os"`
	ND   int      `json:"nd"`
	ID   string   `json:"id"`
	Fh   uint64   `json:"fh"`
	Bt   uint64   `json:"bt"`
	N    uint64   `json:"n"`
}

func c07ModelRun(c *c07Model, file []byte) (v []uint64, err error) {
	r := bytes.NewReader(file)
	sb := &core.Superblock{Version: 2, OffsetSize: 8, LengthSize: 8, Endianness: binary.LittleEndian}
	switch c.K {
	case "readbytesat":
		b, err := utils.ReadBytesAt(r, c.Off, c.Size, "c07")
		if err != nil {
			return nil, err
		}
		return []uint64{uint64(len(b))}, nil
	case "safemul":
		x, err := utils.SafeMultiply(c.A, c.B)
		if err != nil {
			return nil, err
		}
		return []uint64{x}, nil
	case "contig":
		dt := &core.DatatypeMessage{Class: core.DatatypeClass(c.Cls), Version: 1, Size: c.ES, ClassBitField: 8}
		dtb, err := core.EncodeDatatypeMessage(dt)
		if err != nil {
			return nil, fmt.Errorf("harness: %w", err)
		}
		// the size field of the encoded message is what the reader multiplies with
		dsb, err := core.EncodeDataspaceMessage(c.Dims, nil)
		if err != nil {
			return nil, fmt.Errorf("harness: %w", err)
		}
		lyb, err := core.EncodeLayoutMessage(core.DataLayoutClass(1), 0, c.Addr, sb, nil)
		if err != nil {
			return nil, fmt.Errorf("harness: %w", err)
		}
		hdr := &core.ObjectHeader{Messages: []*core.HeaderMessage{
			{Type: core.MsgDatatype, Data: dtb}, {Type: core.MsgDataspace, Data: dsb}, {Type: core.MsgDataLayout, Data: lyb}}}
		out, err := core.ReadDatasetFloat64(r, hdr, sb)
		if err != nil {
			return nil, err
		}
		return []uint64{uint64(len(out))}, nil
	case "lheap":
		sb2 := *sb
		sb2.OffsetSize, sb2.LengthSize = c.O, c.L
		h, err := structures.LoadLocalHeap(r, c.Addr, &sb2)
		if err != nil {
			return nil, err
		}
		return []uint64{uint64(len(h.Data))}, nil
	case "gcol":
		g, err := core.ReadGlobalHeapCollection(r, c.Addr, c.OS)
		if err != nil {
			return nil, err
		}
		out := []uint64{}
		for _, o := range g.Objects {
			out = append(out, uint64(len(o.Data)))
		}
		return out, nil
	case "ohdr":
		h, err := core.ReadObjectHeader(r, c.Addr, sb)
		if err != nil {
			return nil, err
		}
		return []uint64{uint64(len(h.Messages))}, nil
	case "btree":
		cd := make([]uint64, c.ND)
		for i := range cd {
			cd[i] = 1
		}
		n, err := core.ParseBTreeV1Node(r, c.Addr, 8, c.ND, cd)
		if err != nil {
			return nil, err
		}
		ch, err := n.CollectAllChunks(r, 8, cd)
		if err != nil {
			return nil, err
		}
		return []uint64{uint64(len(ch))}, nil
	case "gnode":
		sb2 := *sb
		sb2.OffsetSize = c.O
		es, err := structures.ReadGroupBTreeEntries(r, c.Addr, &sb2)
		if err != nil {
			return nil, err
		}
		return []uint64{uint64(len(es))}, nil
	case "snod":
		sb2 := *sb
		sb2.OffsetSize = c.O
		nd, err := structures.ParseSymbolTableNode(r, c.Addr, &sb2)
		if err != nil {
			return nil, err
		}
		out := []uint64{}
		for _, e := range nd.Entries {
			out = append(out, e.LinkNameOffset, e.ObjectAddress, uint64(e.CacheType), e.CachedBTreeAddr, e.CachedHeapAddr)
		}
		return out, nil
	case "hstr":
		h := &structures.LocalHeap{Data: file}
		s, err := h.GetString(c.Off)
		if err != nil {
			return nil, err
		}
		out := []uint64{}
		for _, b := range []byte(s) {
			out = append(out, uint64(b))
		}
		return out, nil
	case "bt2":
		sb2 := *sb
		sb2.OffsetSize = c.O
		nroot, total, root, ids, err := core.VerifReadBTreeV2Raw(r, c.Addr, &sb2)
		if err != nil {
			return nil, err
		}
		out := []uint64{uint64(nroot), total, root}
		for _, id := range ids {
			for _, b := range id {
				out = append(out, uint64(b))
			}
		}
		return out, nil
	case "fheap":
		sb2 := *sb
		sb2.OffsetSize, sb2.LengthSize = c.O, c.L
		id, err := hex.DecodeString(c.ID)
		if err != nil {
			return nil, fmt.Errorf("harness: %w", err)
		}
		b, err := core.VerifDenseHeapRead(r, c.Addr, id, &sb2)
		if err != nil {
			return nil, err
		}
		out := []uint64{}
		for _, x := range b {
			out = append(out, uint64(x))
		}
		return out, nil
	case "dense":
		sb2 := *sb
		sb2.OffsetSize, sb2.LengthSize = c.O, c.L
		n, err := core.VerifReadDenseAttributes(r, c.Fh, c.Bt, &sb2)
		if err != nil {
			return nil, err
		}
		return []uint64{uint64(n)}, nil
	case "convf":
		dt := &core.DatatypeMessage{Class: core.DatatypeClass(c.Cls), Version: 1, Size: c.ES, ClassBitField: 8}
		out, err := core.VerifConvertToFloat64(file, dt, c.N)
		if err != nil {
			return nil, err
		}
		return []uint64{uint64(len(out))}, nil
	case "convs":
		dt := &core.DatatypeMessage{Class: core.DatatypeString, Version: 1, Size: c.ES}
		out, err := core.VerifConvertToStrings(file, dt, c.N)
		if err != nil {
			return nil, err
		}
		return []uint64{uint64(len(out))}, nil
	case "lzf":
		fp := &core.FilterPipelineMessage{Version: 2, NumFilters: 1, Filters: []core.Filter{{ID: core.FilterLZF}}}
		b, err := fp.ApplyFilters(file)
		if err != nil {
			return nil, err
		}
		out := []uint64{}
		for _, x := range b {
			out = append(out, uint64(x))
		}
		return out, nil
	}
	return nil, fmt.Errorf("harness: unknown kind %q", c.K)
}

func init() {
	handlers["c07"] = func(raw json.RawMessage) (interface{}, error) {
		var c c07Model
		if err := json.Unmarshal(raw, &c); err != nil {
			return nil, err
		}
		file, err := hex.DecodeString(c.File)
		if err != nil {
			return nil, err
		}
		res := map[string]interface{}{}
		func() {
			defer func() {
				if r := recover(); r != nil {
					res["c"], res["e"] = "panic", fmt.Sprint(r)
				}
			}()
			var ms runtime.MemStats
			runtime.ReadMemStats(&ms)
			a0 := ms.TotalAlloc
			v, err := c07ModelRun(&c, file)
			runtime.ReadMemStats(&ms)
			res["alloc"] = ms.TotalAlloc - a0
			if err != nil {
				if strings.HasPrefix(err.Error(), "harness:") {
					res["c"], res["e"] = "harness", err.Error()
					return
				}
				res["c"], res["e"] = "err", err.Error()
				return
			}
			if v == nil {
				v = []uint64{}
			}
			res["c"], res["v"] = "ok", v
		}()
		return res, nil
	}
}
