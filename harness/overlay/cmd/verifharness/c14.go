//go:build verif

package main

import (
	"encoding/binary"
	"encoding/hex"
	"encoding/json"
	"fmt"
	"io"
	"strconv"
	"time"

	"github.com/scigolib/hdf5/internal/core"
	"github.com/scigolib/hdf5/internal/structures"
)

// ---- in-memory file (structures.Writer + io.ReaderAt) and bump allocator (structures.Allocator)

type c14File struct{ data []byte }

func (m *c14File) WriteAtAddress(d []byte, addr uint64) error {
	end := int(addr) + len(d)
	if end > len(m.data) {
		m.data = append(m.data, make([]byte, end-len(m.data))...)
	}
	copy(m.data[addr:], d)
	return nil
}

func (m *c14File) ReadAt(p []byte, off int64) (int, error) {
	if off < 0 || off >= int64(len(m.data)) {
		return 0, io.EOF
	}
	n := copy(p, m.data[off:])
	if n < len(p) {
		return n, io.EOF
	}
	return n, nil
}

// c14Err renders an error as pure ASCII (names are arbitrary bytes; the driver splits lines on
// several Unicode line separators).
func c14Err(err error) string { return strconv.QuoteToASCII(err.Error()) }

type c14Alloc struct{ next uint64 }

func (a *c14Alloc) Allocate(size uint64) (uint64, error) {
	r := a.next
	a.next += size
	return r, nil
}

// ---- case format

type c14Op struct {
	Op string `json:"o"` // i(nsert) u(pdate) s(earch) h(as) d(elete) p(ersist: WriteToFile+Load) r(ewrite: WriteAt+Load)
	N  string `json:"n"` // name, hex
	V  uint64 `json:"v"` // heap id (uint64; the index keeps the low 7 bytes)
}

type c14Case struct {
	NS    uint32  `json:"ns"`
	Mode  string  `json:"mode"` // off | immediate | lazy | incremental
	Thr   int     `json:"thr"`  // lazy threshold in thousandths
	Delay bool    `json:"delay"`
	Osz   uint8   `json:"osz"`
	Ops   []c14Op `json:"ops"`
}

type c14Tree struct {
	c  *c14Case
	bt *structures.WritableBTreeV2
}

func (t *c14Tree) enable() error {
	switch t.c.Mode {
	case "lazy", "incremental":
		d := time.Hour
		if t.c.Delay {
			d = time.Nanosecond
		}
		t.bt.EnableLazyRebalancing(structures.LazyRebalancingConfig{Enabled: true, Threshold: float64(t.c.Thr) / 1000.0, MaxDelay: d})
		if t.c.Mode == "incremental" {
			return t.bt.EnableIncrementalRebalancing(structures.IncrementalRebalancingConfig{
				Enabled: true, Budget: time.Millisecond, Interval: time.Millisecond})
		}
	}
	return nil
}

func (t *c14Tree) stop() {
	if t.c.Mode == "incremental" {
		_ = t.bt.StopIncrementalRebalancing()
	}
}

func (t *c14Tree) del(name string) error {
	switch t.c.Mode {
	case "off":
		return t.bt.DeleteRecord(name)
	case "immediate":
		return t.bt.DeleteRecordWithRebalancing(name)
	default:
		return t.bt.DeleteRecordLazy(name)
	}
}

func c14Recs(rs []structures.LinkNameRecord) [][2]interface{} {
	out := make([][2]interface{}, len(rs))
	for i, r := range rs {
		out[i] = [2]interface{}{r.NameHash, hex.EncodeToString(r.HeapID[:])}
	}
	return out
}

func c14View(bt *structures.WritableBTreeV2, sb *core.Superblock) map[string]interface{} {
	s := structures.VerifBT2State(bt)
	hdr, leaf, err := structures.VerifBT2Encode(bt, sb)
	v := map[string]interface{}{
		"recs": c14Recs(s.Records), "leafrecs": c14Recs(s.LeafRecords),
		"nroot": s.NumRecordsRoot, "total": s.TotalRecords, "nodesize": s.NodeSize,
		"hdrfields": []uint64{uint64(s.Type), uint64(s.HdrNodeSize), uint64(s.RecordSize), uint64(s.Depth), uint64(s.Split), uint64(s.Merge), s.Root},
		"leaftype":  s.LeafType, "loaded": []uint64{s.LoadedHeader, s.LoadedLeaf}, "maxrecords": s.MaxRecords,
		"hdr": hex.EncodeToString(hdr), "leaf": hex.EncodeToString(leaf),
	}
	if err != nil {
		v["encode_err"] = c14Err(err)
	}
	if s.LazyOn {
		v["lazy"] = []int{s.Underflow, s.Pending}
	}
	return v
}

// c14Raw runs the minimal reader of internal/core on the same bytes.
func c14Raw(f *c14File, addr uint64, sb *core.Superblock) map[string]interface{} {
	nroot, total, root, ids, err := core.VerifReadBTreeV2Raw(f, addr, sb)
	if err != nil {
		return map[string]interface{}{"err": c14Err(err)}
	}
	hs := make([]string, len(ids))
	for i := range ids {
		hs[i] = hex.EncodeToString(ids[i][:])
	}
	return map[string]interface{}{"nroot": nroot, "total": total, "root": root, "ids": hs}
}

func c14Run(c *c14Case) (interface{}, error) {
	if c.Osz == 0 {
		c.Osz = 8
	}
	sb := &core.Superblock{OffsetSize: c.Osz, LengthSize: 8, Endianness: binary.LittleEndian}
	file := &c14File{}
	alloc := &c14Alloc{next: 64}
	t := &c14Tree{c: c, bt: structures.NewWritableBTreeV2(c.NS)}
	if err := t.enable(); err != nil {
		return nil, err
	}
	res := make([]string, 0, len(c.Ops))
	var errs []string
	note := func(i int, err error) {
		if len(errs) < 8 {
			errs = append(errs, fmt.Sprintf("%d:%s", i, c14Err(err)))
		}
	}
	reload := func(i int, addr uint64) bool {
		nt := &c14Tree{c: c, bt: structures.NewWritableBTreeV2(c.NS)}
		if err := nt.bt.LoadFromFile(file, addr, sb); err != nil {
			note(i, err)
			return false
		}
		t.stop()
		if err := nt.enable(); err != nil {
			note(i, err)
			return false
		}
		t = nt
		return true
	}
	for i, o := range c.Ops {
		nb, err := hex.DecodeString(o.N)
		if err != nil {
			return nil, err
		}
		name := string(nb)
		r := "ok"
		switch o.Op {
		case "i":
			if err := t.bt.InsertRecord(name, o.V); err != nil {
				r = "err"
				note(i, err)
			}
		case "u":
			if err := t.bt.UpdateRecord(name, o.V); err != nil {
				r = "err"
				note(i, err)
			}
		case "s":
			id, ok := t.bt.SearchRecord(name)
			if ok {
				r = "found:" + hex.EncodeToString(id)
			} else {
				r = "nf"
			}
		case "h":
			if t.bt.HasKey(name) {
				r = "t"
			} else {
				r = "f"
			}
		case "d":
			if err := t.del(name); err != nil {
				r = "err"
				note(i, err)
			}
		case "p":
			addr, err := t.bt.WriteToFile(file, alloc, sb)
			if err != nil {
				r = "err"
				note(i, err)
			} else if !reload(i, addr) {
				r = "err"
			}
		case "r":
			if err := t.bt.WriteAt(file, sb); err != nil {
				r = "err"
				note(i, err)
			} else if !reload(i, structures.VerifBT2State(t.bt).LoadedHeader) {
				r = "err"
			}
		default:
			return nil, fmt.Errorf("unknown op %q", o.Op)
		}
		res = append(res, r)
	}
	t.stop()
	out := map[string]interface{}{"res": res, "errs": errs, "state": c14View(t.bt, sb), "next": alloc.next}
	if len(file.data) <= 5000 {
		out["file"] = hex.EncodeToString(file.data)
	}
	out["filelen"] = len(file.data)
	// final image: WriteToFile into a fresh file, LoadFromFile back into a fresh object, re-encode,
	// and the minimal reader on the same bytes
	ff := &c14File{}
	fa := &c14Alloc{next: 64}
	addr, err := t.bt.WriteToFile(ff, fa, sb)
	if err != nil {
		out["final_err"] = c14Err(err)
		return out, nil
	}
	out["final_file"] = hex.EncodeToString(ff.data)
	out["final_addr"] = addr
	nb := structures.NewWritableBTreeV2(c.NS)
	if err := nb.LoadFromFile(ff, addr, sb); err != nil {
		out["final_load_err"] = c14Err(err)
	} else {
		out["final_loaded"] = c14View(nb, sb)
	}
	out["final_raw"] = c14Raw(ff, addr, sb)
	return out, nil
}

func init() {
	handlers["c14"] = func(raw json.RawMessage) (interface{}, error) {
		var c c14Case
		if err := json.Unmarshal(raw, &c); err != nil {
			return nil, err
		}
		return c14Run(&c)
	}
	// {"keys":[hex...]} -> {"h":[uint32...]}
	handlers["c14hash"] = func(raw json.RawMessage) (interface{}, error) {
		var c struct {
			Keys []string `json:"keys"`
		}
		if err := json.Unmarshal(raw, &c); err != nil {
			return nil, err
		}
		hs := make([]uint32, len(c.Keys))
		for i, k := range c.Keys {
			b, err := hex.DecodeString(k)
			if err != nil {
				return nil, err
			}
			hs[i] = structures.VerifJenkinsHash(string(b))
		}
		return map[string]interface{}{"h": hs}, nil
	}
	// {"file":hex,"addr":n,"osz":n,"ns":n} -> LoadFromFile + minimal reader on arbitrary bytes
	handlers["c14load"] = func(raw json.RawMessage) (interface{}, error) {
		var c struct {
			File string `json:"file"`
			Addr uint64 `json:"addr"`
			Osz  uint8  `json:"osz"`
			NS   uint32 `json:"ns"`
		}
		if err := json.Unmarshal(raw, &c); err != nil {
			return nil, err
		}
		if c.Osz == 0 {
			c.Osz = 8
		}
		data, err := hex.DecodeString(c.File)
		if err != nil {
			return nil, err
		}
		sb := &core.Superblock{OffsetSize: c.Osz, LengthSize: 8, Endianness: binary.LittleEndian}
		f := &c14File{data: data}
		bt := structures.NewWritableBTreeV2(c.NS)
		out := map[string]interface{}{}
		if err := bt.LoadFromFile(f, c.Addr, sb); err != nil {
			out["ok"] = false
			out["err"] = c14Err(err)
		} else {
			out["ok"] = true
			out["state"] = c14View(bt, sb)
		}
		out["raw"] = c14Raw(f, c.Addr, sb)
		return out, nil
	}
}
