//go:build verif

package main

import (
	"encoding/binary"
	"encoding/hex"
	"encoding/json"
	"fmt"
	"io"
	"strconv"
	"strings"
	"time"

	"github.com/scigolib/hdf5/internal/core"
	"github.com/scigolib/hdf5/internal/structures"
)

// ---- in-memory file (structures.Writer + io.ReaderAt) and bump allocator (structures.Allocator)

type c14File struct{ data []byte }

func (m *c14File) WriteAtAddress(d []byte, addr uint64) error {
	end := int(addr) + len(d)
	if end > len(m.data) {
		m.data = append(m.data, make([]byte, end-len(m.data))...)
	}
	copy(m.data[addr:], d)
	return nil
}

func (m *c14File) ReadAt(p []byte, off int64) (int, error) {
	if off < 0 || off >= int64(len(m.data)) {
		return 0, io.EOF
	}
	n := copy(p, m.data[off:])
	if n < len(p) {
		return n, io.EOF
	}
	return n, nil
}

// c14Err renders an error as pure ASCII (names are arbitrary bytes; the driver splits lines on
// several Unicode line separators).
func c14Err(err error) string { return strconv.QuoteToASCII(err.Error()) }

type c14Alloc struct{ next uint64 }

func (a *c14Alloc) Allocate(size uint64) (uint64, error) {
	r := a.next
	a.next += size
	return r, nil
}

// ---- case format

type c14Op struct {
	// i(nsert) u(pdate) s(earch) h(as) d(elete) p(ersist: WriteToFile+Load) r(ewrite: WriteAt+Load)
	// w(rite in place: WriteAt, the history continues on the SAME object) P(WriteToFile, same object)
	Op string `json:"o"`
	N  string `json:"n"` // name, hex
	V  uint64 `json:"v"` // heap id (uint64; the index keeps the low 7 bytes)
}

type c14Case struct {
	NS    uint32  `json:"ns"`
	Mode  string  `json:"mode"` // off | immediate | lazy | incremental
	Thr   int     `json:"thr"`  // lazy threshold in thousandths
	Delay bool    `json:"delay"`
	Osz   uint8   `json:"osz"`
	Ops   []c14Op `json:"ops"`
}

type c14Tree struct {
	c  *c14Case
	bt *structures.WritableBTreeV2
}

func (t *c14Tree) enable() error {
	switch t.c.Mode {
	case "lazy", "incremental":
		d := time.Hour
		if t.c.Delay {
			d = time.Nanosecond
		}
		t.bt.EnableLazyRebalancing(structures.LazyRebalancingConfig{Enabled: true, Threshold: float64(t.c.Thr) / 1000.0, MaxDelay: d})
		if t.c.Mode == "incremental" {
			return t.bt.EnableIncrementalRebalancing(structures.IncrementalRebalancingConfig{
				Enabled: true, Budget: time.Millisecond, Interval: time.Millisecond})
		}
	}
	return nil
}

func (t *c14Tree) stop() {
	if t.c.Mode == "incremental" {
		_ = t.bt.StopIncrementalRebalancing()
	}
}

func (t *c14Tree) del(name string) error {
	switch t.c.Mode {
	case "off":
		return t.bt.DeleteRecord(name)
	case "immediate":
		return t.bt.DeleteRecordWithRebalancing(name)
	default:
		return t.bt.DeleteRecordLazy(name)
	}
}

func c14Recs(rs []structures.LinkNameRecord) [][2]interface{} {
	out := make([][2]interface{}, len(rs))
	for i, r := range rs {
		out[i] = [2]interface{}{r.NameHash, hex.EncodeToString(r.HeapID[:])}
	}
	return out
}

func c14View(bt *structures.WritableBTreeV2, sb *core.Superblock) map[string]interface{} {
	s := structures.VerifBT2State(bt)
	hdr, leaf, err := structures.VerifBT2Encode(bt, sb)
	v := map[string]interface{}{
		"recs": c14Recs(s.Records), "leafrecs": c14Recs(s.LeafRecords),
		"nroot": s.NumRecordsRoot, "total": s.TotalRecords, "nodesize": s.NodeSize,
		"hdrfields": []uint64{uint64(s.Type), uint64(s.HdrNodeSize), uint64(s.RecordSize), uint64(s.Depth), uint64(s.Split), uint64(s.Merge), s.Root},
		"leaftype":  s.LeafType, "loaded": []uint64{s.LoadedHeader, s.LoadedLeaf}, "maxrecords": s.MaxRecords,
		"hdr": hex.EncodeToString(hdr), "leaf": hex.EncodeToString(leaf),
	}
	if err != nil {
		v["encode_err"] = c14Err(err)
	}
	if s.LazyOn {
		v["lazy"] = []int{s.Underflow, s.Pending}
	}
	return v
}

// c14Raw runs the minimal reader of internal/core on the same bytes.
func c14Raw(f *c14File, addr uint64, sb *core.Superblock) map[string]interface{} {
	nroot, total, root, ids, err := core.VerifReadBTreeV2Raw(f, addr, sb)
	if err != nil {
		return map[string]interface{}{"err": c14Err(err)}
	}
	hs := make([]string, len(ids))
	for i := range ids {
		hs[i] = hex.EncodeToString(ids[i][:])
	}
	return map[string]interface{}{"nroot": nroot, "total": total, "root": root, "ids": hs}
}

// c14ErrClass names the reason LoadFromFile gave (stable words of the error texts).
func c14ErrClass(err error) string {
	m := err.Error()
	part := "header"
	if strings.Contains(m, "failed to read leaf node") {
		part = "leaf"
	}
	for _, w := range []string{"checksum", "signature", "incomplete", "version", "type", "depth"} {
		if strings.Contains(m, w) {
			return part + "-" + w
		}
	}
	return part + "-other"
}

func c14SameRecs(a, b []structures.LinkNameRecord) bool {
	if len(a) != len(b) {
		return false
	}
	for i := range a {
		if a[i] != b[i] {
			return false
		}
	}
	return true
}

// c14Image reads the file image at header address addr with a FRESH object (LoadFromFile) and with the
// minimal reader of internal/core, and compares both with the in-memory object bt:
// img = "same" | "load_err:<class>" | "diff:<what>", raw = "same" | "err" | "diff".
func c14Image(file *c14File, bt *structures.WritableBTreeV2, addr uint64, ns uint32, sb *core.Superblock) (img, raw, detail string) {
	live := structures.VerifBT2State(bt)
	nb := structures.NewWritableBTreeV2(ns)
	if err := nb.LoadFromFile(file, addr, sb); err != nil {
		img = "load_err:" + c14ErrClass(err)
		detail = c14Err(err)
	} else {
		got := structures.VerifBT2State(nb)
		switch {
		case !c14SameRecs(got.Records, live.Records) || !c14SameRecs(got.LeafRecords, live.Records):
			img = "diff:records"
			detail = fmt.Sprintf("file %d records, memory %d", len(got.Records), len(live.Records))
		case got.NumRecordsRoot != live.NumRecordsRoot || got.TotalRecords != live.TotalRecords:
			img = "diff:counts"
			detail = fmt.Sprintf("file %d/%d, memory %d/%d", got.NumRecordsRoot, got.TotalRecords, live.NumRecordsRoot, live.TotalRecords)
		case got.NodeSize != live.NodeSize || got.HdrNodeSize != live.HdrNodeSize || got.Type != live.Type ||
			got.RecordSize != live.RecordSize || got.Depth != live.Depth || got.Split != live.Split || got.Merge != live.Merge ||
			got.LeafType != live.LeafType:
			img = "diff:header"
		default:
			img = "same"
		}
	}
	nroot, total, _, ids, err := core.VerifReadBTreeV2Raw(file, addr, sb)
	switch {
	case err != nil:
		raw = "err"
		if detail == "" {
			detail = c14Err(err)
		}
	case int(nroot) != len(live.Records) || total != uint64(len(live.Records)) || len(ids) != len(live.Records):
		raw = "diff"
	default:
		raw = "same"
		for i := range ids {
			if ids[i] != live.Records[i].HeapID {
				raw = "diff"
			}
		}
	}
	return img, raw, detail
}

func c14Run(c *c14Case) (interface{}, error) {
	if c.Osz == 0 {
		c.Osz = 8
	}
	sb := &core.Superblock{OffsetSize: c.Osz, LengthSize: 8, Endianness: binary.LittleEndian}
	file := &c14File{}
	alloc := &c14Alloc{next: 64}
	t := &c14Tree{c: c, bt: structures.NewWritableBTreeV2(c.NS)}
	if err := t.enable(); err != nil {
		return nil, err
	}
	res := make([]string, 0, len(c.Ops))
	// per operation: the image check after a successful write ("" = no check at this operation)
	imgs := make([]string, 0, len(c.Ops))
	raws := make([]string, 0, len(c.Ops))
	var imgDetail []string
	var errs []string
	note := func(i int, err error) {
		if len(errs) < 8 {
			errs = append(errs, fmt.Sprintf("%d:%s", i, c14Err(err)))
		}
	}
	reload := func(i int, addr uint64) bool {
		nt := &c14Tree{c: c, bt: structures.NewWritableBTreeV2(c.NS)}
		if err := nt.bt.LoadFromFile(file, addr, sb); err != nil {
			note(i, err)
			return false
		}
		t.stop()
		if err := nt.enable(); err != nil {
			note(i, err)
			return false
		}
		t = nt
		return true
	}
	for i, o := range c.Ops {
		nb, err := hex.DecodeString(o.N)
		if err != nil {
			return nil, err
		}
		name := string(nb)
		r := "ok"
		img, raw := "", ""
		check := func(addr uint64) {
			var d string
			img, raw, d = c14Image(file, t.bt, addr, c.NS, sb)
			if d != "" && len(imgDetail) < 8 {
				imgDetail = append(imgDetail, fmt.Sprintf("%d:%s", i, d))
			}
		}
		switch o.Op {
		case "i":
			if err := t.bt.InsertRecord(name, o.V); err != nil {
				r = "err"
				note(i, err)
			}
		case "u":
			if err := t.bt.UpdateRecord(name, o.V); err != nil {
				r = "err"
				note(i, err)
			}
		case "s":
			id, ok := t.bt.SearchRecord(name)
			if ok {
				r = "found:" + hex.EncodeToString(id)
			} else {
				r = "nf"
			}
		case "h":
			if t.bt.HasKey(name) {
				r = "t"
			} else {
				r = "f"
			}
		case "d":
			if err := t.del(name); err != nil {
				r = "err"
				note(i, err)
			}
		case "p":
			addr, err := t.bt.WriteToFile(file, alloc, sb)
			if err != nil {
				r = "err"
				note(i, err)
			} else if !reload(i, addr) {
				r = "err"
				check(addr) // the object that was written, against what it wrote
			} else {
				check(structures.VerifBT2State(t.bt).LoadedHeader)
			}
		case "r":
			if err := t.bt.WriteAt(file, sb); err != nil {
				r = "err"
				note(i, err)
			} else if !reload(i, structures.VerifBT2State(t.bt).LoadedHeader) {
				r = "err"
				check(structures.VerifBT2State(t.bt).LoadedHeader)
			} else {
				check(structures.VerifBT2State(t.bt).LoadedHeader)
			}
		case "w":
			// WriteAt in place; the SAME object stays in use (no reload): a handle can be written many times
			if err := t.bt.WriteAt(file, sb); err != nil {
				r = "err"
				note(i, err)
			} else {
				check(structures.VerifBT2State(t.bt).LoadedHeader)
			}
		case "P":
			// WriteToFile to fresh addresses; the SAME object stays in use
			addr, err := t.bt.WriteToFile(file, alloc, sb)
			if err != nil {
				r = "err"
				note(i, err)
			} else {
				check(addr)
			}
		default:
			return nil, fmt.Errorf("unknown op %q", o.Op)
		}
		res = append(res, r)
		imgs = append(imgs, img)
		raws = append(raws, raw)
	}
	t.stop()
	out := map[string]interface{}{"res": res, "errs": errs, "state": c14View(t.bt, sb), "next": alloc.next,
		"img": imgs, "rawimg": raws, "img_detail": imgDetail}
	// end of the history, object loaded: the image at the loaded header address as it is now (the driver
	// requires "same" when nothing was modified since the last write) ...
	if la := structures.VerifBT2State(t.bt).LoadedHeader; la != 0 {
		ei, er, ed := c14Image(file, t.bt, la, c.NS, sb)
		out["end_img"] = []string{ei, er, ed}
	}
	if len(file.data) <= 5000 {
		out["file"] = hex.EncodeToString(file.data)
	}
	out["filelen"] = len(file.data)
	// final image: WriteToFile into a fresh file, LoadFromFile back into a fresh object, re-encode,
	// and the minimal reader on the same bytes
	ff := &c14File{}
	fa := &c14Alloc{next: 64}
	addr, err := t.bt.WriteToFile(ff, fa, sb)
	if err != nil {
		out["final_err"] = c14Err(err)
		return out, nil
	}
	out["final_file"] = hex.EncodeToString(ff.data)
	out["final_addr"] = addr
	nb := structures.NewWritableBTreeV2(c.NS)
	if err := nb.LoadFromFile(ff, addr, sb); err != nil {
		out["final_load_err"] = c14Err(err)
	} else {
		out["final_loaded"] = c14View(nb, sb)
	}
	out["final_raw"] = c14Raw(ff, addr, sb)
	// ... and after one more WriteAt of the object as it is now, on a copy of the file (always "same")
	if la := structures.VerifBT2State(t.bt).LoadedHeader; la != 0 {
		cf := &c14File{data: append([]byte(nil), file.data...)}
		if err := t.bt.WriteAt(cf, sb); err != nil {
			out["endw_img"] = []string{"write_err", "", c14Err(err)}
		} else {
			ei, er, ed := c14Image(cf, t.bt, la, c.NS, sb)
			out["endw_img"] = []string{ei, er, ed}
		}
	}
	return out, nil
}

func init() {
	handlers["c14"] = func(raw json.RawMessage) (interface{}, error) {
		var c c14Case
		if err := json.Unmarshal(raw, &c); err != nil {
			return nil, err
		}
		return c14Run(&c)
	}
	// {"keys":[hex...]} -> {"h":[uint32...]}
	handlers["c14hash"] = func(raw json.RawMessage) (interface{}, error) {
		var c struct {
			Keys []string `json:"keys"`
		}
		if err := json.Unmarshal(raw, &c); err != nil {
			return nil, err
		}
		hs := make([]uint32, len(c.Keys))
		for i, k := range c.Keys {
			b, err := hex.DecodeString(k)
			if err != nil {
				return nil, err
			}
			hs[i] = structures.VerifJenkinsHash(string(b))
		}
		return map[string]interface{}{"h": hs}, nil
	}
	// {"file":hex,"addr":n,"osz":n,"ns":n} -> LoadFromFile + minimal reader on arbitrary bytes
	handlers["c14load"] = func(raw json.RawMessage) (interface{}, error) {
		var c struct {
			File string `json:"file"`
			Addr uint64 `json:"addr"`
			Osz  uint8  `json:"osz"`
			NS   uint32 `json:"ns"`
		}
		if err := json.Unmarshal(raw, &c); err != nil {
			return nil, err
		}
		if c.Osz == 0 {
			c.Osz = 8
		}
		data, err := hex.DecodeString(c.File)
		if err != nil {
			return nil, err
		}
		sb := &core.Superblock{OffsetSize: c.Osz, LengthSize: 8, Endianness: binary.LittleEndian}
		f := &c14File{data: data}
		bt := structures.NewWritableBTreeV2(c.NS)
		out := map[string]interface{}{}
		if err := bt.LoadFromFile(f, c.Addr, sb); err != nil {
			out["ok"] = false
			out["err"] = c14Err(err)
		} else {
			out["ok"] = true
			out["state"] = c14View(bt, sb)
		}
		out["raw"] = c14Raw(f, c.Addr, sb)
		return out, nil
	}
}
