//go:build verif

package main

import (
	"encoding/binary"
	"encoding/hex"
	"encoding/json"
	"fmt"
	"math"
	"os"
	"path/filepath"

	hdf5 "github.com/scigolib/hdf5"
)

// c05vlen: create a file with variable-length datasets (global heap collections) through the public API
// and leave it on disk for the independent decoder.
//   {"sb":2,"dir":"...","datasets":[{"path":"/v","kind":"str|i32|i64|u32|u64|f32|f64","dims":[3],"chunk":[2],"vals":["hex",...]}]}
// vals: one hex string per element = the element's bytes (string bytes / little-endian numbers).
// result: {"create":..,"results":[{ok|err|panic} per dataset: create+write],"close":..,"file":path}
type c05VlenDS struct {
	Path  string   `json:"path"`
	Kind  string   `json:"kind"`
	Dims  []uint64 `json:"dims"`
	Chunk []uint64 `json:"chunk"`
	Vals  []string `json:"vals"`
}

type c05VlenCase struct {
	SB       int         `json:"sb"`
	Dir      string      `json:"dir"`
	Datasets []c05VlenDS `json:"datasets"`
}

func c05VlenValue(kind string, vals []string) (hdf5.Datatype, interface{}, error) {
	raws := make([][]byte, len(vals))
	for i, v := range vals {
		b, err := hex.DecodeString(v)
		if err != nil {
			return 0, nil, fmt.Errorf("harness: bad hex")
		}
		raws[i] = b
	}
	switch kind {
	case "str":
		out := make([]string, len(raws))
		for i, b := range raws {
			out[i] = string(b)
		}
		return hdf5.VLenString, out, nil
	case "i32":
		out := make([][]int32, len(raws))
		for i, b := range raws {
			out[i] = make([]int32, len(b)/4)
			for j := range out[i] {
				out[i][j] = int32(binary.LittleEndian.Uint32(b[4*j:]))
			}
		}
		return hdf5.VLenInt32, out, nil
	case "u32":
		out := make([][]uint32, len(raws))
		for i, b := range raws {
			out[i] = make([]uint32, len(b)/4)
			for j := range out[i] {
				out[i][j] = binary.LittleEndian.Uint32(b[4*j:])
			}
		}
		return hdf5.VLenUint32, out, nil
	case "i64":
		out := make([][]int64, len(raws))
		for i, b := range raws {
			out[i] = make([]int64, len(b)/8)
			for j := range out[i] {
				out[i][j] = int64(binary.LittleEndian.Uint64(b[8*j:]))
			}
		}
		return hdf5.VLenInt64, out, nil
	case "u64":
		out := make([][]uint64, len(raws))
		for i, b := range raws {
			out[i] = make([]uint64, len(b)/8)
			for j := range out[i] {
				out[i][j] = binary.LittleEndian.Uint64(b[8*j:])
			}
		}
		return hdf5.VLenUint64, out, nil
	case "f32":
		out := make([][]float32, len(raws))
		for i, b := range raws {
			out[i] = make([]float32, len(b)/4)
			for j := range out[i] {
				out[i][j] = math.Float32frombits(binary.LittleEndian.Uint32(b[4*j:]))
			}
		}
		return hdf5.VLenFloat32, out, nil
	case "f64":
		out := make([][]float64, len(raws))
		for i, b := range raws {
			out[i] = make([]float64, len(b)/8)
			for j := range out[i] {
				out[i][j] = math.Float64frombits(binary.LittleEndian.Uint64(b[8*j:]))
			}
		}
		return hdf5.VLenFloat64, out, nil
	}
	return 0, nil, fmt.Errorf("harness: unknown vlen kind %q", kind)
}

func init() {
	handlers["c05vlen"] = func(raw json.RawMessage) (interface{}, error) {
		var c c05VlenCase
		if err := json.Unmarshal(raw, &c); err != nil {
			return nil, err
		}
		dir := c.Dir
		if dir == "" {
			dir = os.TempDir()
		}
		tmp, err := os.MkdirTemp(dir, "vlen-")
		if err != nil {
			return nil, err
		}
		file := filepath.Join(tmp, "f.h5")
		out := map[string]interface{}{"file": file}
		fw, err := hdf5.CreateForWrite(file, hdf5.CreateTruncate, hdf5.WithSuperblockVersion(uint8(c.SB)))
		if err != nil {
			out["create"] = opResult{Err: err.Error()}
			return out, nil
		}
		out["create"] = opResult{OK: true}
		results := make([]opResult, 0, len(c.Datasets))
		for i := range c.Datasets {
			d := &c.Datasets[i]
			results = append(results, func() (res opResult) {
				defer func() {
					if r := recover(); r != nil {
						res = opResult{Panic: fmt.Sprint(r)}
					}
				}()
				dt, val, err := c05VlenValue(d.Kind, d.Vals)
				if err != nil {
					return opResult{Err: err.Error()}
				}
				var opts []hdf5.DatasetOption
				if d.Chunk != nil {
					opts = append(opts, hdf5.WithChunkDims(d.Chunk))
				}
				ds, err := fw.CreateDataset(d.Path, dt, d.Dims, opts...)
				if err != nil {
					return opResult{Err: "create: " + err.Error()}
				}
				if err := ds.Write(val); err != nil {
					return opResult{Err: "write: " + err.Error()}
				}
				return opResult{OK: true}
			}())
		}
		out["results"] = results
		if err := fw.Close(); err != nil {
			out["close"] = opResult{Err: err.Error()}
		} else {
			out["close"] = opResult{OK: true}
		}
		return out, nil
	}
}
