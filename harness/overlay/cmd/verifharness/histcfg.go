//go:build verif

package main

import (
	"strconv"
	"strings"
	"time"

	hdf5 "github.com/scigolib/hdf5"
)

// histConfigOptions maps a configuration tag to CreateForWrite options.
//   ""/"default"            default configuration
//   "norebalance"           WithBTreeRebalancing(false)
//   "lazy:<threshold>:<delay_ns>:<batch>"
//   "incremental:<budget_ns>:<interval_ns>"
//   "smart"
func histConfigOptions(tag string) []interface{} {
	parts := strings.Split(tag, ":")
	f := func(i int, def float64) float64 {
		if i < len(parts) {
			if v, err := strconv.ParseFloat(parts[i], 64); err == nil {
				return v
			}
		}
		return def
	}
	switch parts[0] {
	case "norebalance":
		return []interface{}{hdf5.WithBTreeRebalancing(false)}
	case "lazy":
		return []interface{}{hdf5.WithLazyRebalancing(
			hdf5.LazyThreshold(f(1, 0.05)),
			hdf5.LazyMaxDelay(time.Duration(f(2, 3e11))),
			hdf5.LazyBatchSize(int(f(3, 100))))}
	case "incremental":
		return []interface{}{hdf5.WithLazyRebalancing(), hdf5.WithIncrementalRebalancing(
			hdf5.IncrementalBudget(time.Duration(f(1, 1e8))),
			hdf5.IncrementalInterval(time.Duration(f(2, 5e9))))}
	case "smart":
		return []interface{}{hdf5.WithSmartRebalancing()}
	}
	return nil
}
