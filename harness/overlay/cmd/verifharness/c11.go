//go:build verif

package main

import (
	"bytes"
	"encoding/binary"
	"encoding/hex"
	"encoding/json"
	"fmt"
	"strings"

	"github.com/scigolib/hdf5/internal/core"
	"github.com/scigolib/hdf5/internal/structures"
	"github.com/scigolib/hdf5/internal/writer"
)

// Subcommand c11: metadata codec round trips.
//
// case:   {"kind":K, "val":<kind-specific JSON>, "raw":"hex" (optional), "sb":{"v":..,"o":..,"l":..,"be":..}}
//   with "val": the value is encoded twice by the library encoder, and the decoder is run on the
//               encoder's output;
//   with "raw": the decoder is run on the given bytes.
// result: {"enc":"hex","enc2":"hex","encerr":"...","dec":{"c":"ok|err|panic","v":VAL,"e":"..."},"raw":{...}}
//
// VAL is the decoded structure in a canonical positional form: numbers, hex strings (byte strings),
// arrays (records, lists; nil/absent = [], present = [x]).  The field order is fixed here and mirrored by
// the val_X' functions of the Coq model (coq/theories/Model/Codec*.v).
type c11Case struct {
	Kind string          `json:"kind"`
	Val  json.RawMessage `json:"val"`
	Raw  *string         `json:"raw"`
	Sb   *c11Sb          `json:"sb"`
}

type c11Sb struct {
	V    uint8  `json:"v"`
	O    uint8  `json:"o"`
	L    uint8  `json:"l"`
	BE   bool   `json:"be"`
	Addr uint64 `json:"addr"` // address of the structure inside the file image (object header)
}

func (s *c11Sb) sb() *core.Superblock {
	if s == nil {
		return &core.Superblock{Version: 2, OffsetSize: 8, LengthSize: 8, Endianness: binary.LittleEndian}
	}
	var e binary.ByteOrder = binary.LittleEndian
	if s.BE {
		e = binary.BigEndian
	}
	// BaseAddress is not used by any codec under test: it carries the structure address to the decoder
	return &core.Superblock{Version: s.V, OffsetSize: s.O, LengthSize: s.L, Endianness: e, BaseAddress: s.Addr}
}

type c11Dec struct {
	C string      `json:"c"`
	V interface{} `json:"v,omitempty"`
	E string      `json:"e,omitempty"`
}

type c11Codec struct {
	enc func(val json.RawMessage, sb *core.Superblock) ([]byte, error)
	dec func(data []byte, sb *core.Superblock) (interface{}, error)
}

var c11Codecs = map[string]c11Codec{}

// ---- canonical VAL helpers
type vl = []interface{}

func vBytes(b []byte) interface{} {
	return hex.EncodeToString(b)
}
func vOptBytes(b []byte) interface{} {
	if b == nil {
		return vl{}
	}
	return vl{hex.EncodeToString(b)}
}
func vU64s(xs []uint64) interface{} {
	out := make(vl, len(xs))
	for i, x := range xs {
		out[i] = x
	}
	return out
}
func vOptU64s(xs []uint64) interface{} {
	if xs == nil {
		return vl{}
	}
	return vl{vU64s(xs)}
}
func vBool(b bool) interface{} {
	if b {
		return 1
	}
	return 0
}

func c11SafeDec(f func(data []byte, sb *core.Superblock) (interface{}, error), data []byte, sb *core.Superblock) (res c11Dec) {
	defer func() {
		if r := recover(); r != nil {
			res = c11Dec{C: "panic", E: fmt.Sprint(r)}
		}
	}()
	// the decoder gets its own copy: aliasing between input and result must not be observable
	v, err := f(append([]byte(nil), data...), sb)
	if err != nil {
		return c11Dec{C: "err", E: err.Error()}
	}
	return c11Dec{C: "ok", V: v}
}

func c11SafeEnc(f func(val json.RawMessage, sb *core.Superblock) ([]byte, error), val json.RawMessage, sb *core.Superblock) (out []byte, errs string) {
	defer func() {
		if r := recover(); r != nil {
			out, errs = nil, "panic: "+fmt.Sprint(r)
		}
	}()
	b, err := f(val, sb)
	if err != nil {
		return nil, "error: " + err.Error()
	}
	if b == nil {
		b = []byte{}
	}
	return b, ""
}

func init() {
	handlers["c11"] = func(raw json.RawMessage) (interface{}, error) {
		var c c11Case
		if err := json.Unmarshal(raw, &c); err != nil {
			return nil, err
		}
		codec, ok := c11Codecs[c.Kind]
		if !ok {
			return nil, fmt.Errorf("unknown kind %q", c.Kind)
		}
		sb := c.Sb.sb()
		res := map[string]interface{}{}
		if len(c.Val) > 0 && !bytes.Equal(c.Val, []byte("null")) {
			e1, err1 := c11SafeEnc(codec.enc, c.Val, sb)
			e2, err2 := c11SafeEnc(codec.enc, c.Val, sb)
			res["encerr"] = err1
			if err1 == "" && err2 == "" {
				res["enc"] = hex.EncodeToString(e1)
				res["enc2"] = hex.EncodeToString(e2)
				res["dec"] = c11SafeDec(codec.dec, e1, sb)
			} else if err1 != err2 {
				res["enc2err"] = err2
			}
		}
		if c.Raw != nil {
			b, err := hex.DecodeString(*c.Raw)
			if err != nil {
				return nil, err
			}
			res["raw"] = c11SafeDec(codec.dec, b, sb)
		}
		return res, nil
	}

	// ---------------------------------------------------------------- dataspace
	c11Codecs["dataspace"] = c11Codec{
		enc: func(val json.RawMessage, _ *core.Superblock) ([]byte, error) {
			var v struct {
				Dims    []uint64 `json:"dims"`
				MaxDims []uint64 `json:"maxdims"`
			}
			if err := json.Unmarshal(val, &v); err != nil {
				return nil, err
			}
			return core.EncodeDataspaceMessage(v.Dims, v.MaxDims)
		},
		dec: func(data []byte, _ *core.Superblock) (interface{}, error) {
			ds, err := core.ParseDataspaceMessage(data)
			if err != nil {
				return nil, err
			}
			return c11ValDataspace(ds), nil
		},
	}

	// ---------------------------------------------------------------- data layout (v3)
	c11Codecs["layout"] = c11Codec{
		enc: func(val json.RawMessage, sb *core.Superblock) ([]byte, error) {
			var v struct {
				Class uint8    `json:"class"`
				Size  uint64   `json:"size"`
				Addr  uint64   `json:"addr"`
				Chunk []uint64 `json:"chunk"`
			}
			if err := json.Unmarshal(val, &v); err != nil {
				return nil, err
			}
			return core.EncodeLayoutMessage(core.DataLayoutClass(v.Class), v.Size, v.Addr, sb, v.Chunk)
		},
		dec: func(data []byte, sb *core.Superblock) (interface{}, error) {
			m, err := core.ParseDataLayoutMessage(data, sb)
			if err != nil {
				return nil, err
			}
			return vl{m.Version, uint8(m.Class), m.DataAddress, m.DataSize, vOptBytes(m.CompactData),
				vOptU64s(m.ChunkSize), m.ChunkKeySize}, nil
		},
	}

	// ---------------------------------------------------------------- datatype message
	c11Codecs["datatype"] = c11Codec{
		enc: func(val json.RawMessage, _ *core.Superblock) ([]byte, error) {
			dt, err := c11Datatype(val)
			if err != nil {
				return nil, err
			}
			return core.EncodeDatatypeMessage(dt)
		},
		dec: func(data []byte, _ *core.Superblock) (interface{}, error) {
			dt, err := core.ParseDatatypeMessage(data)
			if err != nil {
				return nil, err
			}
			return c11ValDatatype(dt), nil
		},
	}

	// ---------------------------------------------------------------- attribute message (v3 writer)
	c11Codecs["attribute"] = c11Codec{
		enc: func(val json.RawMessage, _ *core.Superblock) ([]byte, error) {
			var v struct {
				Name    string   `json:"name"`
				DT      c11DT    `json:"dt"`
				Dims    []uint64 `json:"dims"`
				MaxDims []uint64 `json:"maxdims"`
				Data    string   `json:"data"`
			}
			if err := json.Unmarshal(val, &v); err != nil {
				return nil, err
			}
			name, err := hex.DecodeString(v.Name)
			if err != nil {
				return nil, err
			}
			data, err := hex.DecodeString(v.Data)
			if err != nil {
				return nil, err
			}
			dt, err := v.DT.msg()
			if err != nil {
				return nil, err
			}
			return core.EncodeAttributeMessage(string(name), dt, &core.DataspaceMessage{Dimensions: v.Dims, MaxDims: v.MaxDims}, data)
		},
		dec: func(data []byte, sb *core.Superblock) (interface{}, error) {
			a, err := core.ParseAttributeMessage(data, sb.Endianness)
			if err != nil {
				return nil, err
			}
			return vl{vBytes([]byte(a.Name)), c11ValDatatype(a.Datatype), c11ValDataspace(a.Dataspace), vOptBytes(a.Data)}, nil
		},
	}

	// ---------------------------------------------------------------- superblock v0 / v2 / v3
	c11Codecs["superblock"] = c11Codec{
		enc: func(val json.RawMessage, _ *core.Superblock) ([]byte, error) {
			var v struct {
				Version   uint8  `json:"version"`
				OffSize   uint8  `json:"offsize"`
				LenSize   uint8  `json:"lensize"`
				Base      uint64 `json:"base"`
				Root      uint64 `json:"root"`
				SuperExt  uint64 `json:"superext"`
				RootBTree uint64 `json:"rootbtree"`
				RootHeap  uint64 `json:"rootheap"`
				EOF       uint64 `json:"eof"`
			}
			if err := json.Unmarshal(val, &v); err != nil {
				return nil, err
			}
			sb := &core.Superblock{Version: v.Version, OffsetSize: v.OffSize, LengthSize: v.LenSize, BaseAddress: v.Base,
				RootGroup: v.Root, Endianness: binary.LittleEndian, SuperExtension: v.SuperExt,
				RootBTreeAddr: v.RootBTree, RootHeapAddr: v.RootHeap}
			w := &c11Mem{}
			if err := sb.WriteTo(w, v.EOF); err != nil {
				return nil, err
			}
			return w.b, nil
		},
		dec: func(data []byte, _ *core.Superblock) (interface{}, error) {
			sb, err := core.ReadSuperblock(bytes.NewReader(data))
			if err != nil {
				return nil, err
			}
			return vl{sb.Version, sb.OffsetSize, sb.LengthSize, vBool(sb.Endianness == binary.BigEndian), sb.BaseAddress,
				sb.RootGroup, sb.SuperExtension, sb.DriverInfo, sb.RootBTreeAddr, sb.RootHeapAddr}, nil
		},
	}

	// ---------------------------------------------------------------- object header v1 / v2
	// "encoded bytes" = file image: "pre" (addr bytes; zeros when absent), the header written by WriteTo at
	// addr (any address, aligned or not), then "suf"
	c11Codecs["ohdr"] = c11Codec{
		enc: func(val json.RawMessage, sb *core.Superblock) ([]byte, error) {
			var v struct {
				Version  uint8  `json:"version"`
				Flags    uint8  `json:"flags"`
				RefCount uint32 `json:"refcount"`
				Msgs     []struct {
					Type uint16 `json:"type"`
					Data string `json:"data"`
				} `json:"msgs"`
				Suf string `json:"suf"`
				Pre string `json:"pre"`
			}
			if err := json.Unmarshal(val, &v); err != nil {
				return nil, err
			}
			w := &core.ObjectHeaderWriter{Version: v.Version, Flags: v.Flags, RefCount: v.RefCount}
			for _, m := range v.Msgs {
				d, err := hex.DecodeString(m.Data)
				if err != nil {
					return nil, err
				}
				w.Messages = append(w.Messages, core.MessageWriter{Type: core.MessageType(m.Type), Data: d})
			}
			suf, err := hex.DecodeString(v.Suf)
			if err != nil {
				return nil, err
			}
			mem := &c11Mem{b: make([]byte, sb.BaseAddress)}
			if v.Pre != "" {
				pre, err := hex.DecodeString(v.Pre)
				if err != nil {
					return nil, err
				}
				if uint64(len(pre)) != sb.BaseAddress {
					return nil, fmt.Errorf("pre has %d bytes, address is %d", len(pre), sb.BaseAddress)
				}
				copy(mem.b, pre)
			}
			n, err := w.WriteTo(mem, sb.BaseAddress)
			if err != nil {
				return nil, err
			}
			if n != w.Size() || uint64(len(mem.b)) != sb.BaseAddress+n {
				return nil, fmt.Errorf("WriteTo returned %d, Size() = %d, image length %d", n, w.Size(), len(mem.b))
			}
			return append(mem.b, suf...), nil
		},
		dec: func(data []byte, sb *core.Superblock) (interface{}, error) {
			addr := sb.BaseAddress
			sb2 := *sb
			sb2.BaseAddress = 0
			oh, err := core.ReadObjectHeader(bytes.NewReader(data), addr, &sb2)
			if err != nil {
				if strings.Contains(err.Error(), "continuation") {
					return vl{"636f6e74"}, nil // "cont": continuation blocks are outside the model
				}
				return nil, err
			}
			msgs := make(vl, len(oh.Messages))
			for i, m := range oh.Messages {
				if m.Type == core.MsgContinuation && len(m.Data) > 0 {
					return vl{"636f6e74"}, nil
				}
				msgs[i] = vl{uint16(m.Type), m.Offset, vBytes(m.Data)}
			}
			return vl{oh.Version, oh.Flags, oh.ReferenceCount, vBytes([]byte(oh.Name)), msgs}, nil
		},
	}

	// ---------------------------------------------------------------- link message
	c11Codecs["link"] = c11Codec{
		enc: func(val json.RawMessage, sb *core.Superblock) ([]byte, error) {
			var v struct {
				Version uint8  `json:"version"`
				Flags   uint8  `json:"flags"`
				Type    uint8  `json:"type"`
				COrder  uint64 `json:"corder"`
				CharSet uint8  `json:"charset"`
				Name    string `json:"name"`
				Value   string `json:"value"`
			}
			if err := json.Unmarshal(val, &v); err != nil {
				return nil, err
			}
			name, err := hex.DecodeString(v.Name)
			if err != nil {
				return nil, err
			}
			value, err := hex.DecodeString(v.Value)
			if err != nil {
				return nil, err
			}
			return core.EncodeLinkMessage(&core.LinkMessage{Version: v.Version, Flags: v.Flags, Type: core.LinkType(v.Type),
				CreationOrder: v.COrder, CharSet: v.CharSet, Name: string(name), LinkValue: value}, sb)
		},
		dec: func(data []byte, sb *core.Superblock) (interface{}, error) {
			lm, err := core.ParseLinkMessage(data, sb)
			if err != nil {
				return nil, err
			}
			return vl{lm.Version, lm.Flags, uint8(lm.Type), lm.CreationOrder, lm.CharSet, vBytes([]byte(lm.Name)), vBytes(lm.LinkValue)}, nil
		},
	}

	// the second decoder of the same message (internal/structures/linkmessage.go), used by the group reader
	c11Codecs["link2"] = c11Codec{
		enc: c11Codecs["link"].enc,
		dec: func(data []byte, sb *core.Superblock) (interface{}, error) {
			lm, err := structures.ParseLinkMessage(data, sb)
			if err != nil {
				return nil, err
			}
			return vl{lm.Version, lm.Flags, uint8(lm.Type), vBytes([]byte(lm.Name)), uint64(lm.CreationOrder), vBool(lm.CreationOrderValid),
				lm.CharacterSet, lm.ObjectAddress, vBytes([]byte(lm.TargetPath))}, nil
		},
	}

	// ---------------------------------------------------------------- link info message
	c11Codecs["linkinfo"] = c11Codec{
		enc: func(val json.RawMessage, sb *core.Superblock) ([]byte, error) {
			var v struct {
				Version uint8  `json:"version"`
				Flags   uint8  `json:"flags"`
				MaxCO   uint64 `json:"maxcorder"`
				Heap    uint64 `json:"heap"`
				BTName  uint64 `json:"btname"`
				BTOrder uint64 `json:"btorder"`
			}
			if err := json.Unmarshal(val, &v); err != nil {
				return nil, err
			}
			return core.EncodeLinkInfoMessage(&core.LinkInfoMessage{Version: v.Version, Flags: v.Flags, MaxCreationOrder: int64(v.MaxCO),
				FractalHeapAddress: v.Heap, NameBTreeAddress: v.BTName, CreationOrderBTreeAddress: v.BTOrder}, sb)
		},
		dec: func(data []byte, sb *core.Superblock) (interface{}, error) {
			m, err := core.ParseLinkInfoMessage(data, sb)
			if err != nil {
				return nil, err
			}
			return vl{m.Version, m.Flags, uint64(m.MaxCreationOrder), m.FractalHeapAddress, m.NameBTreeAddress, m.CreationOrderBTreeAddress}, nil
		},
	}

	// ---------------------------------------------------------------- attribute info message
	c11Codecs["attrinfo"] = c11Codec{
		enc: func(val json.RawMessage, sb *core.Superblock) ([]byte, error) {
			var v struct {
				Version uint8  `json:"version"`
				Flags   uint8  `json:"flags"`
				Heap    uint64 `json:"heap"`
				BTName  uint64 `json:"btname"`
				MaxCIdx uint64 `json:"maxcidx"`
				BTOrder uint64 `json:"btorder"`
			}
			if err := json.Unmarshal(val, &v); err != nil {
				return nil, err
			}
			return core.EncodeAttributeInfoMessage(&core.AttributeInfoMessage{Version: v.Version, Flags: v.Flags, FractalHeapAddr: v.Heap,
				BTreeNameIndexAddr: v.BTName, MaxCreationIndex: v.MaxCIdx, BTreeOrderIndexAddr: v.BTOrder}, sb)
		},
		dec: func(data []byte, sb *core.Superblock) (interface{}, error) {
			m, err := core.ParseAttributeInfoMessage(data, sb)
			if err != nil {
				return nil, err
			}
			return vl{m.Version, m.Flags, m.FractalHeapAddr, m.BTreeNameIndexAddr, m.MaxCreationIndex, m.BTreeOrderIndexAddr}, nil
		},
	}

	// ---------------------------------------------------------------- symbol table message
	// The library has no decoder function for this message: group.go reads it inline (lines 274-281,
	// 341-343, 521-523).  The decoder below is a copy of those lines, not the library code itself.
	c11Codecs["symtab"] = c11Codec{
		enc: func(val json.RawMessage, sb *core.Superblock) ([]byte, error) {
			var v struct {
				BTree uint64 `json:"btree"`
				Heap  uint64 `json:"heap"`
			}
			if err := json.Unmarshal(val, &v); err != nil {
				return nil, err
			}
			return core.EncodeSymbolTableMessage(v.BTree, v.Heap, int(sb.OffsetSize), int(sb.LengthSize)), nil
		},
		dec: func(data []byte, sb *core.Superblock) (interface{}, error) {
			if len(data) >= 16 {
				return vl{sb.Endianness.Uint64(data[0:8]), sb.Endianness.Uint64(data[8:16])}, nil
			}
			return nil, fmt.Errorf("symbol table message shorter than 16 bytes")
		},
	}

	// ---------------------------------------------------------------- compound datatype (v1 / v3 member lists)
	c11Codecs["compound"] = c11Codec{
		enc: func(val json.RawMessage, _ *core.Superblock) ([]byte, error) {
			var v struct {
				Version uint8  `json:"version"`
				Size    uint32 `json:"size"`
				Fields  []struct {
					Name   string `json:"name"`
					Offset uint32 `json:"offset"`
					DT     c11DT  `json:"dt"`
				} `json:"fields"`
			}
			if err := json.Unmarshal(val, &v); err != nil {
				return nil, err
			}
			fields := make([]core.CompoundFieldDef, len(v.Fields))
			for i, f := range v.Fields {
				name, err := hex.DecodeString(f.Name)
				if err != nil {
					return nil, err
				}
				dt, err := f.DT.msg()
				if err != nil {
					return nil, err
				}
				fields[i] = core.CompoundFieldDef{Name: string(name), Offset: f.Offset, Type: dt}
			}
			if v.Version == 1 {
				return core.EncodeCompoundDatatypeV1(v.Size, fields)
			}
			return core.EncodeCompoundDatatypeV3(v.Size, fields)
		},
		dec: func(data []byte, _ *core.Superblock) (interface{}, error) {
			dt, err := core.ParseDatatypeMessage(data)
			if err != nil {
				return nil, err
			}
			ct, err := core.ParseCompoundType(dt)
			if err != nil {
				return nil, err
			}
			ms := make(vl, len(ct.Members))
			for i, m := range ct.Members {
				ms[i] = vl{vBytes([]byte(m.Name)), m.Offset, c11ValDatatype(m.Type)}
			}
			return vl{dt.Version, dt.ClassBitField, ct.Size, ms}, nil
		},
	}

	// ---------------------------------------------------------------- array / enum datatype messages
	// (the library has no structural decoder for their properties: ParseDatatypeMessage returns them raw)
	c11Codecs["array"] = c11Codec{
		enc: func(val json.RawMessage, _ *core.Superblock) ([]byte, error) {
			var v struct {
				Base string   `json:"base"`
				Dims []uint64 `json:"dims"`
				Size uint32   `json:"size"`
			}
			if err := json.Unmarshal(val, &v); err != nil {
				return nil, err
			}
			base, err := hex.DecodeString(v.Base)
			if err != nil {
				return nil, err
			}
			return core.EncodeArrayDatatypeMessage(base, v.Dims, v.Size)
		},
		dec: c11Codecs["datatype"].dec,
	}
	c11Codecs["enum"] = c11Codec{
		enc: func(val json.RawMessage, _ *core.Superblock) ([]byte, error) {
			var v struct {
				Base   string   `json:"base"`
				Names  []string `json:"names"`
				Values string   `json:"values"`
				Size   uint32   `json:"size"`
			}
			if err := json.Unmarshal(val, &v); err != nil {
				return nil, err
			}
			base, err := hex.DecodeString(v.Base)
			if err != nil {
				return nil, err
			}
			values, err := hex.DecodeString(v.Values)
			if err != nil {
				return nil, err
			}
			names := make([]string, len(v.Names))
			for i, n := range v.Names {
				b, err := hex.DecodeString(n)
				if err != nil {
					return nil, err
				}
				names[i] = string(b)
			}
			return core.EncodeEnumDatatypeMessage(base, names, values, v.Size)
		},
		dec: c11Codecs["datatype"].dec,
	}

	// ---------------------------------------------------------------- filter pipeline message
	c11Codecs["filterpipe"] = c11Codec{
		enc: func(val json.RawMessage, _ *core.Superblock) ([]byte, error) {
			var v []struct {
				ID    uint16   `json:"id"`
				Name  string   `json:"name"`
				Flags uint16   `json:"flags"`
				CD    []uint32 `json:"cd"`
			}
			if err := json.Unmarshal(val, &v); err != nil {
				return nil, err
			}
			fp := writer.NewFilterPipeline()
			for _, f := range v {
				name, err := hex.DecodeString(f.Name)
				if err != nil {
					return nil, err
				}
				fp.AddFilter(&c11Filter{id: writer.FilterID(f.ID), name: string(name), flags: f.Flags, cd: f.CD})
			}
			return fp.EncodePipelineMessage()
		},
		dec: func(data []byte, _ *core.Superblock) (interface{}, error) {
			p, err := core.ParseFilterPipelineMessage(data)
			if err != nil {
				return nil, err
			}
			fs := make(vl, len(p.Filters))
			for i, f := range p.Filters {
				var cd interface{} = vl{}
				if f.ClientData != nil {
					c := make(vl, len(f.ClientData))
					for j, x := range f.ClientData {
						c[j] = x
					}
					cd = vl{c}
				}
				fs[i] = vl{uint16(f.ID), f.NameLength, f.Flags, f.NumClientData, vBytes([]byte(f.Name)), cd}
			}
			return vl{p.Version, p.NumFilters, fs}, nil
		},
	}
}

// c11Filter is a writer.Filter with freely chosen message fields (the data transforms are not used here).
type c11Filter struct {
	id    writer.FilterID
	name  string
	flags uint16
	cd    []uint32
}

func (f *c11Filter) ID() writer.FilterID                { return f.id }
func (f *c11Filter) Name() string                       { return f.name }
func (f *c11Filter) Apply(d []byte) ([]byte, error)     { return d, nil }
func (f *c11Filter) Remove(d []byte) ([]byte, error)    { return d, nil }
func (f *c11Filter) Encode() (uint16, []uint32)         { return f.flags, f.cd }

// c11Mem is an in-memory io.WriterAt (zero-extends like a file).
type c11Mem struct{ b []byte }

func (m *c11Mem) WriteAt(p []byte, off int64) (int, error) {
	end := int(off) + len(p)
	if end > len(m.b) {
		m.b = append(m.b, make([]byte, end-len(m.b))...)
	}
	copy(m.b[off:], p)
	return len(p), nil
}

type c11DT struct {
	Class   uint8  `json:"class"`
	Version uint8  `json:"version"`
	Size    uint32 `json:"size"`
	CBF     uint32 `json:"cbf"`
	Props   string `json:"props"`
}

func (v *c11DT) msg() (*core.DatatypeMessage, error) {
	props, err := hex.DecodeString(v.Props)
	if err != nil {
		return nil, err
	}
	return &core.DatatypeMessage{Class: core.DatatypeClass(v.Class), Version: v.Version, Size: v.Size,
		ClassBitField: v.CBF, Properties: props}, nil
}

func c11Datatype(val json.RawMessage) (*core.DatatypeMessage, error) {
	var v c11DT
	if err := json.Unmarshal(val, &v); err != nil {
		return nil, err
	}
	return v.msg()
}

func c11ValDatatype(dt *core.DatatypeMessage) interface{} {
	return vl{uint8(dt.Class), dt.Version, dt.Size, dt.ClassBitField, vBytes(dt.Properties)}
}

func c11ValDataspace(ds *core.DataspaceMessage) interface{} {
	return vl{ds.Version, uint8(ds.Type), vU64s(ds.Dimensions), vOptU64s(ds.MaxDims)}
}
