//go:build verif

package main

// C08: filter pipelines are lossless, self-compatible and detect corruption.
//
//   c08        one payload x one pipeline: writer Apply (per stage), writer Remove, pipeline message,
//              reader ParseFilterPipelineMessage + ApplyFilters on the writer's bytes
//   c08corrupt every requested single/multi byte alteration of a stored chunk: do writer.Remove and
//              reader.ApplyFilters report an error?
//   c08e2e     public API: create a chunked dataset with filter options, close, reopen, read
//   c08read    reader only: message bytes + stored chunk -> ApplyFilters (malformed-input stream)

import (
	"math"
	"bytes"
	"encoding/hex"
	"encoding/json"
	"fmt"
	"os"
	"path/filepath"

	"github.com/scigolib/hdf5"
	"github.com/scigolib/hdf5/internal/core"
	"github.com/scigolib/hdf5/internal/writer"
)

type c08Filter struct {
	T     string `json:"t"` // deflate | shuffle | fletcher32 | lzf | bzip2
	Level int    `json:"level,omitempty"`
	Esz   uint32 `json:"esz,omitempty"`
}

type c08Case struct {
	Data    string      `json:"data"` // hex
	Filters []c08Filter `json:"filters"`
	Stages  bool        `json:"stages,omitempty"`  // return every intermediate Apply result
	NoBytes bool        `json:"nobytes,omitempty"` // do not return the encoded bytes (large payloads)
}

func c08Build(fs []c08Filter) (*writer.FilterPipeline, []writer.Filter, error) {
	p := writer.NewFilterPipeline()
	var list []writer.Filter
	for _, f := range fs {
		var wf writer.Filter
		switch f.T {
		case "deflate":
			wf = writer.NewGZIPFilter(f.Level)
		case "shuffle":
			wf = writer.NewShuffleFilter(f.Esz)
		case "fletcher32":
			wf = writer.NewFletcher32Filter()
		case "lzf":
			wf = writer.NewLZFFilter()
		case "bzip2":
			wf = writer.NewBZIP2Filter(f.Level)
		case "szip":
			wf = writer.NewSZIPFilter(0, 8, 8, 8)
		default:
			return nil, nil, fmt.Errorf("unknown filter %q", f.T)
		}
		p.AddFilter(wf)
		list = append(list, wf)
	}
	return p, list, nil
}

func errStr(err error) string {
	if err == nil {
		return ""
	}
	return err.Error()
}

type c08Parsed struct {
	ID    uint16   `json:"id"`
	Flags uint16   `json:"flags"`
	Name  string   `json:"name"` // hex of the name bytes
	NameL uint16   `json:"namelen"`
	NCD   uint16   `json:"ncd"`
	CD    []uint32 `json:"cd"`
}

func c08ParsedOf(pm *core.FilterPipelineMessage) (uint8, []c08Parsed) {
	out := make([]c08Parsed, 0, len(pm.Filters))
	for _, f := range pm.Filters {
		cd := f.ClientData
		if cd == nil {
			cd = []uint32{}
		}
		out = append(out, c08Parsed{ID: uint16(f.ID), Flags: f.Flags, Name: hex.EncodeToString([]byte(f.Name)), NameL: f.NameLength, NCD: f.NumClientData, CD: cd})
	}
	return pm.Version, out
}

// safely: a panic inside one library call becomes an observable string, the other observables survive.
func safely(f func()) (p string) {
	defer func() {
		if r := recover(); r != nil {
			p = fmt.Sprint(r)
		}
	}()
	f()
	return ""
}

func c08Run(raw json.RawMessage) (interface{}, error) {
	var c c08Case
	if err := json.Unmarshal(raw, &c); err != nil {
		return nil, err
	}
	data, err := hex.DecodeString(c.Data)
	if err != nil {
		return nil, err
	}
	res := map[string]interface{}{}
	pl, list, err := c08Build(c.Filters)
	if err != nil {
		return nil, err
	}
	// writer Apply, stage by stage through the individual filters (what FilterPipeline.Apply does) ...
	{
		stages := []string{}
		lens := []int{}
		cur := append([]byte(nil), data...)
		for _, f := range list {
			var e error
			if p := safely(func() { cur, e = f.Apply(cur) }); p != "" {
				res["stage_panic"] = p
				break
			}
			if e != nil {
				break
			}
			lens = append(lens, len(cur))
			if c.Stages {
				stages = append(stages, hex.EncodeToString(cur))
			}
		}
		res["stage_lens"] = lens
		if c.Stages {
			res["stages"] = stages
		}
	}
	// ... and through the pipeline object itself
	var enc []byte
	var aerr error
	orig := append([]byte(nil), data...)
	if p := safely(func() { enc, aerr = pl.Apply(data) }); p != "" {
		res["apply_panic"] = p
		return res, nil
	}
	res["input_mutated"] = !bytes.Equal(orig, data)
	res["apply_ok"] = aerr == nil
	res["apply_err"] = errStr(aerr)
	// pipeline description message
	var msg []byte
	var merr error
	if len(list) > 0 {
		if p := safely(func() { msg, merr = pl.EncodePipelineMessage() }); p != "" {
			res["msg_panic"] = p
		}
		res["msg_err"] = errStr(merr)
		res["msg"] = hex.EncodeToString(msg)
	}
	var pm *core.FilterPipelineMessage
	if msg != nil {
		var perr error
		if p := safely(func() { pm, perr = core.ParseFilterPipelineMessage(msg) }); p != "" {
			res["parse_panic"] = p
		}
		res["parse_ok"] = perr == nil && pm != nil
		res["parse_err"] = errStr(perr)
		if perr == nil && pm != nil {
			v, ps := c08ParsedOf(pm)
			res["parsed_version"] = v
			res["parsed"] = ps
		} else {
			pm = nil
		}
	}
	if aerr != nil {
		return res, nil
	}
	res["enc_len"] = len(enc)
	if !c.NoBytes {
		res["enc"] = hex.EncodeToString(enc)
	}
	encCopy := append([]byte(nil), enc...)
	// writer Remove
	var dec []byte
	var rerr error
	if p := safely(func() { dec, rerr = pl.Remove(enc) }); p != "" {
		res["remove_panic"] = p
	} else {
		res["remove_ok"] = rerr == nil
		res["remove_err"] = errStr(rerr)
		if rerr == nil {
			eq := bytes.Equal(dec, orig)
			res["remove_eq"] = eq
			if !eq && len(dec) <= 1<<16 {
				res["remove"] = hex.EncodeToString(dec)
			}
		}
	}
	// reader on the writer's bytes and the writer's message
	if pm != nil {
		var rd []byte
		var e error
		if p := safely(func() { rd, e = pm.ApplyFilters(append([]byte(nil), encCopy...)) }); p != "" {
			res["reader_panic"] = p
		} else {
			res["reader_ok"] = e == nil
			res["reader_err"] = errStr(e)
			if e == nil {
				eq := bytes.Equal(rd, orig)
				res["reader_eq"] = eq
				if !eq && len(rd) <= 1<<16 {
					res["reader"] = hex.EncodeToString(rd)
				}
			}
		}
	}
	return res, nil
}

// ---- corruption

type c08Corrupt struct {
	Data      string      `json:"data"`
	Filters   []c08Filter `json:"filters"`
	Xors      []int       `json:"xors"`      // replacement = b ^ v
	Sets      []int       `json:"sets"`      // replacement = v (skipped when equal to b)
	Positions []int       `json:"positions"` // nil = every position of the stored chunk
	Multi     [][][2]int  `json:"multi"`     // each entry: list of (pos, xor) applied together
}

type c08Miss struct {
	Pos       []int  `json:"pos"`
	Val       []int  `json:"val"`
	WriterErr bool   `json:"writer_err"`
	ReaderErr bool   `json:"reader_err"`
	WriterEq  bool   `json:"writer_eq"` // no error and the ORIGINAL payload came back
	ReaderEq  bool   `json:"reader_eq"`
	Panic     string `json:"panic,omitempty"`
}

func c08CorruptRun(raw json.RawMessage) (interface{}, error) {
	var c c08Corrupt
	if err := json.Unmarshal(raw, &c); err != nil {
		return nil, err
	}
	data, err := hex.DecodeString(c.Data)
	if err != nil {
		return nil, err
	}
	pl, _, err := c08Build(c.Filters)
	if err != nil {
		return nil, err
	}
	enc, err := pl.Apply(append([]byte(nil), data...))
	if err != nil {
		return map[string]interface{}{"apply_err": err.Error()}, nil
	}
	msg, err := pl.EncodePipelineMessage()
	if err != nil {
		return map[string]interface{}{"msg_err": err.Error()}, nil
	}
	pm, err := core.ParseFilterPipelineMessage(msg)
	if err != nil {
		return map[string]interface{}{"parse_err": err.Error()}, nil
	}
	// sanity: the unaltered chunk decodes on both sides
	w0, werr0 := pl.Remove(append([]byte(nil), enc...))
	r0, rerr0 := pm.ApplyFilters(append([]byte(nil), enc...))
	res := map[string]interface{}{
		"enc":         hex.EncodeToString(enc),
		"clean_ok":    werr0 == nil && rerr0 == nil && bytes.Equal(w0, data) && bytes.Equal(r0, data),
		"clean_w_err": errStr(werr0), "clean_r_err": errStr(rerr0),
	}
	total, wdet, rdet := 0, 0, 0
	misses := []c08Miss{}
	try := func(pos, val []int, mod []byte) {
		total++
		m := c08Miss{Pos: pos, Val: val}
		m.Panic = safely(func() {
			wd, we := pl.Remove(append([]byte(nil), mod...))
			rd, re := pm.ApplyFilters(append([]byte(nil), mod...))
			m.WriterErr, m.ReaderErr = we != nil, re != nil
			m.WriterEq = we == nil && bytes.Equal(wd, data)
			m.ReaderEq = re == nil && bytes.Equal(rd, data)
		})
		if m.WriterErr {
			wdet++
		}
		if m.ReaderErr {
			rdet++
		}
		if (!m.WriterErr || !m.ReaderErr || m.Panic != "") && len(misses) < 2000 {
			misses = append(misses, m)
		}
	}
	positions := c.Positions
	if positions == nil {
		positions = make([]int, len(enc))
		for i := range positions {
			positions[i] = i
		}
	}
	for _, i := range positions {
		if i < 0 || i >= len(enc) {
			continue
		}
		seen := map[byte]bool{enc[i]: true}
		var vals []byte
		for _, x := range c.Xors {
			vals = append(vals, enc[i]^byte(x))
		}
		for _, s := range c.Sets {
			vals = append(vals, byte(s))
		}
		for _, v := range vals {
			if seen[v] {
				continue
			}
			seen[v] = true
			mod := append([]byte(nil), enc...)
			mod[i] = v
			try([]int{i}, []int{int(v)}, mod)
		}
	}
	for _, m := range c.Multi {
		mod := append([]byte(nil), enc...)
		var ps, vs []int
		for _, pv := range m {
			if pv[0] < 0 || pv[0] >= len(enc) {
				continue
			}
			mod[pv[0]] ^= byte(pv[1])
			ps = append(ps, pv[0])
		}
		if bytes.Equal(mod, enc) {
			continue
		}
		for _, p := range ps {
			vs = append(vs, int(mod[p]))
		}
		try(ps, vs, mod)
	}
	res["total"], res["writer_detected"], res["reader_detected"], res["misses"] = total, wdet, rdet, misses
	return res, nil
}

// ---- reader only

type c08Read struct {
	Msg  string `json:"msg"`
	Data string `json:"data"`
}

func c08ReadRun(raw json.RawMessage) (interface{}, error) {
	var c c08Read
	if err := json.Unmarshal(raw, &c); err != nil {
		return nil, err
	}
	msg, err := hex.DecodeString(c.Msg)
	if err != nil {
		return nil, err
	}
	data, err := hex.DecodeString(c.Data)
	if err != nil {
		return nil, err
	}
	res := map[string]interface{}{}
	pm, perr := core.ParseFilterPipelineMessage(msg)
	res["parse_ok"] = perr == nil
	res["parse_err"] = errStr(perr)
	if perr != nil {
		return res, nil
	}
	v, ps := c08ParsedOf(pm)
	res["parsed_version"], res["parsed"] = v, ps
	out, e := pm.ApplyFilters(data)
	res["reader_ok"] = e == nil
	res["reader_err"] = errStr(e)
	if e == nil {
		res["reader"] = hex.EncodeToString(out)
	}
	return res, nil
}

// ---- end to end through the public API

type c08E2E struct {
	Dir    string      `json:"dir"`   // directory under the clone's build/
	Dtype  string      `json:"dtype"` // int32 | int64 | float32 | float64
	Dims   []uint64    `json:"dims"`
	Chunk  []uint64    `json:"chunk"`
	Values []float64   `json:"values"`
	Opts   []c08Filter `json:"opts"` // in option order: deflate(level) | shuffle | fletcher32
	SB     int         `json:"sb"`   // superblock version, -1 = default
	Keep bool        `json:"keep"` // keep the file and return its path (the caller deletes it)
}

func c08E2ERun(raw json.RawMessage) (interface{}, error) {
	var c c08E2E
	if err := json.Unmarshal(raw, &c); err != nil {
		return nil, err
	}
	if err := os.MkdirAll(c.Dir, 0o755); err != nil {
		return nil, err
	}
	f, err := os.CreateTemp(c.Dir, "c08-*.h5")
	if err != nil {
		return nil, err
	}
	path := f.Name()
	f.Close()
	if !c.Keep {
		defer os.Remove(path)
	}
	res := map[string]interface{}{"file": filepath.Base(path), "path": path}
	var wopts []interface{}
	if c.SB >= 0 {
		wopts = append(wopts, hdf5.WithSuperblockVersion(uint8(c.SB)))
	}
	fw, err := hdf5.CreateForWrite(path, hdf5.CreateTruncate, wopts...)
	if err != nil {
		res["create_err"] = err.Error()
		return res, nil
	}
	opts := []hdf5.DatasetOption{hdf5.WithChunkDims(c.Chunk)}
	for _, o := range c.Opts {
		switch o.T {
		case "deflate":
			opts = append(opts, hdf5.WithGZIPCompression(o.Level))
		case "shuffle":
			opts = append(opts, hdf5.WithShuffle())
		case "fletcher32":
			opts = append(opts, hdf5.WithFletcher32())
		default:
			return nil, fmt.Errorf("no public option for filter %q", o.T)
		}
	}
	var dt hdf5.Datatype
	var data interface{}
	switch c.Dtype {
	case "int32":
		dt = hdf5.Int32
		v := make([]int32, len(c.Values))
		for i, x := range c.Values {
			v[i] = int32(x)
		}
		data = v
	case "int64":
		dt = hdf5.Int64
		v := make([]int64, len(c.Values))
		for i, x := range c.Values {
			v[i] = int64(x)
		}
		data = v
	case "float32":
		dt = hdf5.Float32
		v := make([]float32, len(c.Values))
		for i, x := range c.Values {
			v[i] = float32(x)
		}
		data = v
	case "float64":
		dt = hdf5.Float64
		data = append([]float64(nil), c.Values...)
	default:
		return nil, fmt.Errorf("dtype %q", c.Dtype)
	}
	ds, err := fw.CreateDataset("/d", dt, c.Dims, opts...)
	if err != nil {
		res["dataset_err"] = err.Error()
		_ = fw.Close()
		return res, nil
	}
	if err := ds.Write(data); err != nil {
		res["write_err"] = err.Error()
		_ = fw.Close()
		return res, nil
	}
	if err := fw.Close(); err != nil {
		res["close_err"] = err.Error()
		return res, nil
	}
	if st, err := os.Stat(path); err == nil {
		res["file_size"] = st.Size()
	}
	rf, err := hdf5.Open(path)
	if err != nil {
		res["open_err"] = err.Error()
		return res, nil
	}
	defer rf.Close()
	var found *hdf5.Dataset
	rf.Walk(func(p string, o hdf5.Object) {
		if d, ok := o.(*hdf5.Dataset); ok && (p == "/d" || p == "/d/" || d.Name() == "d") {
			found = d
		}
	})
	if found == nil {
		res["read_err"] = "dataset /d not found after reopen"
		return res, nil
	}
	vals, err := found.Read()
	if err != nil {
		res["read_err"] = err.Error()
		return res, nil
	}
	// encoding/json refuses NaN and infinities: a tree that returns such values for finite data must still produce a result
	out := make([]interface{}, len(vals))
	for i, v := range vals {
		switch {
		case math.IsNaN(v):
			out[i] = "NaN"
		case math.IsInf(v, 0):
			out[i] = fmt.Sprint(v)
		default:
			out[i] = v
		}
	}
	res["values"] = out
	return res, nil
}

// ---- reference files: read every dataset of a file, report the error class per dataset

type c08File struct {
	Path string `json:"path"`
}

func c08FileRun(raw json.RawMessage) (interface{}, error) {
	var c c08File
	if err := json.Unmarshal(raw, &c); err != nil {
		return nil, err
	}
	res := map[string]interface{}{}
	f, err := hdf5.Open(c.Path)
	if err != nil {
		res["open_err"] = err.Error()
		return res, nil
	}
	defer f.Close()
	ds := map[string]interface{}{}
	f.Walk(func(p string, o hdf5.Object) {
		d, ok := o.(*hdf5.Dataset)
		if !ok {
			return
		}
		e := map[string]interface{}{}
		if p := safely(func() {
			info, _ := d.Info()
			e["info"] = info
			v, err := d.Read()
			e["err"] = errStr(err)
			e["n"] = len(v)
			if len(v) > 8 {
				v = v[:8]
			}
			e["head"] = fmt.Sprint(v)
		}); p != "" {
			e["panic"] = p
		}
		ds[p] = e
	})
	res["datasets"] = ds
	return res, nil
}

func init() {
	handlers["c08file"] = c08FileRun
	handlers["c08"] = c08Run
	handlers["c08corrupt"] = c08CorruptRun
	handlers["c08read"] = c08ReadRun
	handlers["c08e2e"] = c08E2ERun
}
