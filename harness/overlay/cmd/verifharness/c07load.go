//go:build verif

package main

// c07load: the object-tree loader of hdf5.Open on constructed group graphs (tools/props/c07load.py) against
// Model/RobustLoad.v: class, number of objects in the loaded tree, loadCount, number of marked group B-trees,
// wall time and bytes allocated.

import (
	"encoding/json"
	"fmt"
	"runtime"
	"time"

	"github.com/scigolib/hdf5"
)

type c07LoadCase struct {
	Path string `json:"path"`
}

func init() {
	handlers["c07load"] = func(raw json.RawMessage) (interface{}, error) {
		var c c07LoadCase
		if err := json.Unmarshal(raw, &c); err != nil {
			return nil, err
		}
		res := map[string]interface{}{}
		func() {
			defer func() {
				if r := recover(); r != nil {
					res["c"], res["e"] = "panic", fmt.Sprint(r)
				}
			}()
			var ms runtime.MemStats
			runtime.ReadMemStats(&ms)
			a0 := ms.TotalAlloc
			t0 := time.Now()
			f, err := hdf5.Open(c.Path)
			res["ms"] = time.Since(t0).Milliseconds()
			runtime.ReadMemStats(&ms)
			res["alloc"] = ms.TotalAlloc - a0
			if err != nil {
				res["c"], res["e"] = "err", err.Error()
				return
			}
			defer f.Close()
			n, groups := 0, 0
			f.Walk(func(_ string, o hdf5.Object) {
				n++
				if _, ok := o.(*hdf5.Group); ok {
					groups++
				}
			})
			res["c"] = "ok"
			res["v"] = []int64{int64(n), f.VerifLoadCount(), int64(f.VerifVisitedBTrees())}
			res["groups"], res["maxloads"] = groups, f.VerifMaxLoads()
		}()
		return res, nil
	}
}
