//go:build verif

// Command verifharness is injected into the module with `go build -tags verif -overlay`.
// It exposes the library (public API and, through zz_verif_export.go files, selected
// internals) as line-oriented subcommands for the correspondence checks in /verif.
// Each subcommand reads one JSON case per line on stdin and writes one JSON result per line.
package main

import (
	"bufio"
	"encoding/json"
	"fmt"
	"os"
	"runtime/debug"
)

type handler func(raw json.RawMessage) (interface{}, error)

var handlers = map[string]handler{}

// bulk subcommands take over stdin/stdout completely.
var bulk = map[string]func(args []string) error{}

func main() {
	if len(os.Args) < 2 {
		fmt.Fprintln(os.Stderr, "usage: verifharness <subcommand>")
		os.Exit(2)
	}
	if b, ok := bulk[os.Args[1]]; ok {
		if err := b(os.Args[2:]); err != nil {
			fmt.Fprintln(os.Stderr, "error:", err)
			os.Exit(3)
		}
		return
	}
	h, ok := handlers[os.Args[1]]
	if !ok {
		fmt.Fprintln(os.Stderr, "unknown subcommand", os.Args[1])
		os.Exit(2)
	}
	in := bufio.NewReaderSize(os.Stdin, 1<<20)
	sc := bufio.NewScanner(in)
	sc.Buffer(make([]byte, 1<<20), 1<<30)
	out := bufio.NewWriterSize(os.Stdout, 1<<20)
	defer out.Flush()
	enc := json.NewEncoder(out)
	for sc.Scan() {
		line := sc.Bytes()
		if len(line) == 0 {
			continue
		}
		res := runOne(h, append([]byte(nil), line...))
		if err := enc.Encode(res); err != nil {
			fmt.Fprintln(os.Stderr, "encode:", err)
			os.Exit(3)
		}
	}
}

// runOne converts a panic inside the library into an observable result.
func runOne(h handler, line []byte) (res interface{}) {
	defer func() {
		if r := recover(); r != nil {
			res = map[string]interface{}{"panic": fmt.Sprint(r), "stack": string(debug.Stack())}
		}
	}()
	v, err := h(json.RawMessage(line))
	if err != nil {
		return map[string]interface{}{"harness_error": err.Error()}
	}
	return v
}
