//go:build verif

package main

import (
	"bytes"
	"encoding/binary"
	"encoding/hex"
	"encoding/json"
	"fmt"
	"math"
	"os"
	"path/filepath"
	"sync/atomic"

	"github.com/scigolib/hdf5"
	"github.com/scigolib/hdf5/internal/core"
)

// c12: variable-length data through the global heap.
// case: {"dir":"<scratch dir under the clone's build/>","sbver":2,
//        "datasets":[{"name":"d0","base":"string|int32|int64|uint32|uint64|float32|float64",
//                     "chunk":0,"elems":["hex",...]}], "keep":false, "dump_gcol":true}
// All datasets of a case go into ONE file (they share the file's global-heap writer), in order.
type c12DS struct {
	Name  string   `json:"name"`
	Base  string   `json:"base"`
	Chunk uint64   `json:"chunk"`
	Elems []string `json:"elems"`
	// optional (tools/props/c12file.py): the link name as hex (any bytes), the dataset's shape (default: [len(elems)])
	NameHex string   `json:"name_hex,omitempty"`
	Dims    []uint64 `json:"dims,omitempty"`
}

type c12Case struct {
	Dir      string  `json:"dir"`
	SBVer    int     `json:"sbver"`
	Datasets []c12DS `json:"datasets"`
	Keep     bool    `json:"keep"`
	DumpGCOL bool    `json:"dump_gcol"`
	DumpFile bool    `json:"dump_file"` // return the WHOLE file as hex ("file")
}

var c12Counter uint64

func c12Typed(base string, elems [][]byte) (hdf5.Datatype, interface{}, error) {
	n := len(elems)
	chk := func(w int) error {
		for i, e := range elems {
			if len(e)%w != 0 {
				return fmt.Errorf("element %d: length %d is not a multiple of the base size %d", i, len(e), w)
			}
		}
		return nil
	}
	switch base {
	case "string":
		v := make([]string, n)
		for i, e := range elems {
			v[i] = string(e)
		}
		return hdf5.VLenString, v, nil
	case "int32":
		if err := chk(4); err != nil {
			return 0, nil, err
		}
		v := make([][]int32, n)
		for i, e := range elems {
			v[i] = make([]int32, len(e)/4)
			for j := range v[i] {
				v[i][j] = int32(binary.LittleEndian.Uint32(e[4*j:]))
			}
		}
		return hdf5.VLenInt32, v, nil
	case "uint32":
		if err := chk(4); err != nil {
			return 0, nil, err
		}
		v := make([][]uint32, n)
		for i, e := range elems {
			v[i] = make([]uint32, len(e)/4)
			for j := range v[i] {
				v[i][j] = binary.LittleEndian.Uint32(e[4*j:])
			}
		}
		return hdf5.VLenUint32, v, nil
	case "float32":
		if err := chk(4); err != nil {
			return 0, nil, err
		}
		v := make([][]float32, n)
		for i, e := range elems {
			v[i] = make([]float32, len(e)/4)
			for j := range v[i] {
				v[i][j] = math.Float32frombits(binary.LittleEndian.Uint32(e[4*j:]))
			}
		}
		return hdf5.VLenFloat32, v, nil
	case "int64":
		if err := chk(8); err != nil {
			return 0, nil, err
		}
		v := make([][]int64, n)
		for i, e := range elems {
			v[i] = make([]int64, len(e)/8)
			for j := range v[i] {
				v[i][j] = int64(binary.LittleEndian.Uint64(e[8*j:]))
			}
		}
		return hdf5.VLenInt64, v, nil
	case "uint64":
		if err := chk(8); err != nil {
			return 0, nil, err
		}
		v := make([][]uint64, n)
		for i, e := range elems {
			v[i] = make([]uint64, len(e)/8)
			for j := range v[i] {
				v[i][j] = binary.LittleEndian.Uint64(e[8*j:])
			}
		}
		return hdf5.VLenUint64, v, nil
	case "float64":
		if err := chk(8); err != nil {
			return 0, nil, err
		}
		v := make([][]float64, n)
		for i, e := range elems {
			v[i] = make([]float64, len(e)/8)
			for j := range v[i] {
				v[i][j] = math.Float64frombits(binary.LittleEndian.Uint64(e[8*j:]))
			}
		}
		return hdf5.VLenFloat64, v, nil
	}
	return 0, nil, fmt.Errorf("unknown base type %q", base)
}

func c12Err(e error) interface{} {
	if e == nil {
		return nil
	}
	return e.Error()
}

func c12DT(dt *core.DatatypeMessage) map[string]interface{} {
	return map[string]interface{}{
		"class": int(dt.Class), "version": int(dt.Version), "size": dt.Size,
		"bitfield": dt.ClassBitField, "props": hex.EncodeToString(dt.Properties),
		"is_vlen_string": dt.IsVariableString(), "string": dt.String(),
	}
}

func c12Reopen(path string, c *c12Case, res map[string]interface{}) {
	f, err := hdf5.Open(path)
	res["open_err"] = c12Err(err)
	if err != nil {
		return
	}
	defer f.Close()
	sb := f.Superblock()
	res["offset_size"] = int(sb.OffsetSize)
	found := map[string]*hdf5.Dataset{}
	f.Walk(func(p string, o hdf5.Object) {
		if d, ok := o.(*hdf5.Dataset); ok {
			found[d.Name()] = d
		}
	})
	var dsOut []interface{}
	cache := map[uint64]*core.GlobalHeapCollection{}
	for _, spec := range c.Datasets {
		out := map[string]interface{}{"name": spec.Name}
		dsOut = append(dsOut, out)
		d := found[spec.Name]
		if d == nil {
			out["missing"] = true
			continue
		}
		info, ierr := d.Info()
		out["info"], out["info_err"] = info, c12Err(ierr)
		// public read API: must be the written values or an error, never other values
		strs, serr := d.ReadStrings()
		if serr != nil {
			out["read_strings_err"] = serr.Error()
		} else {
			hs := make([]string, len(strs))
			for i, s := range strs {
				hs[i] = hex.EncodeToString([]byte(s))
			}
			out["read_strings"] = hs
		}
		vals, rerr := d.Read()
		if rerr != nil {
			out["read_err"] = rerr.Error()
		} else {
			bits := make([]uint64, len(vals))
			for i, v := range vals {
				bits[i] = math.Float64bits(v)
			}
			out["read_f64bits"] = bits
		}
		hdr, err := core.ReadObjectHeader(f.Reader(), d.Address(), sb)
		if err != nil {
			out["header_err"] = err.Error()
			continue
		}
		var dtMsg, dsMsg, loMsg *core.HeaderMessage
		for _, m := range hdr.Messages {
			switch m.Type {
			case core.MsgDatatype:
				dtMsg = m
			case core.MsgDataspace:
				dsMsg = m
			case core.MsgDataLayout:
				loMsg = m
			}
		}
		if dtMsg == nil || dsMsg == nil || loMsg == nil {
			out["header_err"] = "missing datatype/dataspace/layout message"
			continue
		}
		out["dtmsg"] = hex.EncodeToString(dtMsg.Data)
		dt, err := core.ParseDatatypeMessage(dtMsg.Data)
		if err != nil {
			out["dt_err"] = err.Error()
			continue
		}
		out["dt"] = c12DT(dt)
		if bdt, berr := core.ParseDatatypeMessage(dt.Properties); berr == nil {
			out["base_dt"] = c12DT(bdt)
		} else {
			out["base_dt_err"] = berr.Error()
		}
		space, err := core.ParseDataspaceMessage(dsMsg.Data)
		if err != nil {
			out["space_err"] = err.Error()
			continue
		}
		out["dims"] = space.Dimensions
		layout, err := core.ParseDataLayoutMessage(loMsg.Data, sb)
		if err != nil {
			out["layout_err"] = err.Error()
			continue
		}
		n := space.TotalElements()
		var raw []byte
		switch {
		case layout.IsContiguous():
			out["layout"] = "contiguous"
			raw = make([]byte, n*16)
			if _, err := f.Reader().ReadAt(raw, int64(layout.DataAddress)); err != nil {
				out["raw_err"] = err.Error()
				continue
			}
		case layout.IsChunked():
			out["layout"] = "chunked"
			elt := *dt
			elt.Size = 16 // the writer stores 16-byte heap ids whatever the reader made of the message
			raw, err = core.VerifC12ReadChunkedRaw(f.Reader(), layout, space, &elt, sb)
			if err != nil {
				out["raw_err"] = err.Error()
				continue
			}
		default:
			out["raw_err"] = fmt.Sprintf("unexpected layout class %d", layout.Class)
			continue
		}
		out["raw_refs"] = hex.EncodeToString(raw)
		// resolve every element with the library's own global-heap readers
		resolved := make([]interface{}, 0, n)
		for i := uint64(0); i < n && (i+1)*16 <= uint64(len(raw)); i++ {
			ref, err := core.ParseGlobalHeapReference(raw[i*16:(i+1)*16], int(sb.OffsetSize))
			if err != nil {
				resolved = append(resolved, map[string]string{"err": "ref: " + err.Error()})
				continue
			}
			col := cache[ref.HeapAddress]
			if col == nil {
				col, err = core.ReadGlobalHeapCollection(f.Reader(), ref.HeapAddress, int(sb.OffsetSize))
				if err != nil {
					resolved = append(resolved, map[string]string{"err": "collection: " + err.Error()})
					continue
				}
				cache[ref.HeapAddress] = col
			}
			obj, err := col.GetObject(ref.ObjectIndex)
			if err != nil {
				resolved = append(resolved, map[string]string{"err": "object: " + err.Error()})
				continue
			}
			resolved = append(resolved, hex.EncodeToString(obj.Data))
		}
		out["resolved"] = resolved
	}
	res["datasets"] = dsOut
}

// c12ScanGCOL returns every global heap collection in the file: each "GCOL" signature found
// outside an already recognised collection (collection addresses are not aligned in files written
// by this library, so the scan is byte-wise). The interior of a recognised collection (declared
// size, clipped to the file) is skipped, so element data spelling "GCOL" is not reported.
func c12ScanGCOL(data []byte) []interface{} {
	out := []interface{}{}
	off := 0
	for {
		i := bytes.Index(data[off:], []byte("GCOL"))
		if i < 0 || off+i+16 > len(data) {
			return out
		}
		off += i
		size := binary.LittleEndian.Uint64(data[off+8 : off+16])
		end := uint64(off) + size
		clipped := false
		if size < 16 || end > uint64(len(data)) || end < uint64(off) {
			end = uint64(len(data))
			clipped = true
		}
		out = append(out, map[string]interface{}{
			"addr": off, "declared_size": size, "clipped": clipped,
			"hex": hex.EncodeToString(data[off:end]),
		})
		if size < 16 {
			off += 4
		} else {
			off = int(end)
		}
	}
}

func init() {
	handlers["c12"] = func(raw json.RawMessage) (interface{}, error) {
		var c c12Case
		c.SBVer = 2
		c.DumpGCOL = true
		if err := json.Unmarshal(raw, &c); err != nil {
			return nil, err
		}
		if c.Dir == "" {
			return nil, fmt.Errorf("c12: dir is required (a scratch directory under the clone's build/)")
		}
		if err := os.MkdirAll(c.Dir, 0o755); err != nil {
			return nil, err
		}
		path := filepath.Join(c.Dir, fmt.Sprintf("c12-%d-%d.h5", os.Getpid(), atomic.AddUint64(&c12Counter, 1)))
		if !c.Keep {
			defer os.Remove(path)
		}
		res := map[string]interface{}{"path": path}
		fw, err := hdf5.CreateForWrite(path, hdf5.CreateTruncate, hdf5.WithSuperblockVersion(uint8(c.SBVer)))
		if err != nil {
			res["create_err"] = err.Error()
			return res, nil
		}
		var werrs []interface{}
		for di := range c.Datasets {
			if c.Datasets[di].NameHex != "" {
				nb, err := hex.DecodeString(c.Datasets[di].NameHex)
				if err != nil {
					_ = fw.Close()
					return nil, err
				}
				c.Datasets[di].Name = string(nb)
			}
		}
		for _, spec := range c.Datasets {
			elems := make([][]byte, len(spec.Elems))
			for i, h := range spec.Elems {
				b, err := hex.DecodeString(h)
				if err != nil {
					_ = fw.Close()
					return nil, err
				}
				elems[i] = b
			}
			dtype, val, err := c12Typed(spec.Base, elems)
			if err != nil {
				_ = fw.Close()
				return nil, err
			}
			var opts []hdf5.DatasetOption
			if spec.Chunk > 0 {
				opts = append(opts, hdf5.WithChunkDims([]uint64{spec.Chunk}))
			}
			dims := []uint64{uint64(len(elems))}
			if len(spec.Dims) > 0 {
				dims = spec.Dims
			}
			ds, err := fw.CreateDataset("/"+spec.Name, dtype, dims, opts...)
			if err != nil {
				werrs = append(werrs, map[string]interface{}{"name": spec.Name, "create_dataset_err": err.Error()})
				continue
			}
			if err := ds.Write(val); err != nil {
				werrs = append(werrs, map[string]interface{}{"name": spec.Name, "write_err": err.Error()})
			}
		}
		res["write_errs"] = werrs
		res["close_err"] = c12Err(fw.Close())
		c12Reopen(path, &c, res)
		if data, err := os.ReadFile(path); err == nil {
			res["file_size"] = len(data)
			if c.DumpGCOL {
				res["gcols"] = c12ScanGCOL(data)
			}
			if c.DumpFile {
				res["file"] = hex.EncodeToString(data)
			}
		} else {
			res["file_err"] = err.Error()
		}
		return res, nil
	}
}
