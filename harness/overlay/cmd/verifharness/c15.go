//go:build verif

package main

import (
	"encoding/binary"
	"encoding/hex"
	"encoding/json"
	"fmt"
	"hash/crc32"
	"io"
	"sort"

	"github.com/scigolib/hdf5/internal/core"
	"github.com/scigolib/hdf5/internal/structures"
)

// c15: fractal heap histories.
// case:   {"bs":64,"ops":[{"op":"ins","data":hex}|{"op":"get","id":hex}|{"op":"ovw","id":hex,"data":hex}|
//                         {"op":"del","id":hex}|{"op":"sl"}], "final_ids":[hex...]}
//         an op may carry "ref":k instead of "id": the id returned by the insert at op index k
//         ("skip" result when that insert failed); "final_refs" does the same for the reader list.
// result: {"ops":[{"ok","id"|"data"|"err"|"hdr","blk","same","st"}...], "final":{...}, "store":{...},
//          "readers":[{"id","ro":{"ok","data"},"core":{"ok","data"}}...]}
// "same" = the complete in-memory heap state is identical before and after the op;
// "st"   = [count, free space, managed-space offset, free offset, len(Objects), #child blocks, indirect?1:0, length size].

type c15Op struct {
	Op   string `json:"op"`
	Data string `json:"data,omitempty"`
	ID   string `json:"id,omitempty"`
	Ref  *int   `json:"ref,omitempty"`
}

type c15Case struct {
	BS       uint64   `json:"bs"`
	Ops      []c15Op  `json:"ops"`
	FinalIDs []string `json:"final_ids"`
	FinalRef []int    `json:"final_refs"` // ids returned by the inserts at these op indices
	NoBytes  bool     `json:"nobytes"` // do not echo serialised block bytes of mid-history stores (large blocks)
}

// memFile is the byte file behind Writer / io.ReaderAt (zero-extends on write like os.File.WriteAt).
type memFile struct{ b []byte }

func (m *memFile) WriteAtAddress(data []byte, address uint64) error {
	end := int(address) + len(data)
	if end > len(m.b) {
		m.b = append(m.b, make([]byte, end-len(m.b))...)
	}
	copy(m.b[address:], data)
	return nil
}

func (m *memFile) ReadAt(p []byte, off int64) (int, error) {
	if off < 0 || off >= int64(len(m.b)) {
		return 0, io.EOF
	}
	n := copy(p, m.b[off:])
	if n < len(p) {
		return n, io.EOF
	}
	return n, nil
}

type bumpAlloc struct{ next uint64 }

func (a *bumpAlloc) Allocate(size uint64) (uint64, error) {
	addr := a.next
	a.next += size
	return addr, nil
}

func c15State(fh *structures.WritableFractalHeap) []uint64 {
	ind := uint64(0)
	if fh.RootIndirectBlock != nil {
		ind = 1
	}
	return []uint64{fh.Header.NumManagedObjects, fh.Header.FreeSpace, fh.Header.ManagedSpaceOffset,
		fh.DirectBlock.FreeOffset, uint64(len(fh.DirectBlock.Objects)), uint64(len(fh.DirectBlocks)), ind,
		uint64(fh.Header.HeapLengthSize)}
}

// c15Digest hashes everything the heap holds in memory (map contents in key order).
func c15Digest(fh *structures.WritableFractalHeap) uint32 {
	h := crc32.NewIEEE()
	w := func(vs ...uint64) {
		var b [8]byte
		for _, v := range vs {
			binary.LittleEndian.PutUint64(b[:], v)
			h.Write(b[:])
		}
	}
	hd := fh.Header
	w(uint64(hd.Version), uint64(hd.HeapIDLength), uint64(hd.IOFiltersLength), uint64(hd.Flags), uint64(hd.MaxManagedObjectSize),
		hd.NextHugeObjectID, hd.HugeObjectBTreeAddr, hd.FreeSpace, hd.FreeSectionAddress, hd.ManagedSpaceSize,
		hd.AllocatedManagedSpace, hd.ManagedSpaceOffset, hd.NumManagedObjects, hd.SizeHugeObjects, hd.NumHugeObjects,
		hd.SizeTinyObjects, hd.NumTinyObjects, uint64(hd.TableWidth), hd.StartingBlockSize, hd.MaxDirectBlockSize,
		uint64(hd.MaxHeapSize), uint64(hd.StartingNumRows), hd.RootBlockAddress, uint64(hd.CurrentNumRows),
		uint64(hd.HeapOffsetSize), uint64(hd.HeapLengthSize), fh.MaxDirectBlockSize)
	blk := func(b *structures.WritableDirectBlock) {
		w(uint64(b.Version), b.HeapHeaderAddress, b.BlockOffset, b.Size, b.FreeOffset, uint64(len(b.Objects)))
		h.Write(b.Objects)
	}
	blk(fh.DirectBlock)
	if fh.RootIndirectBlock != nil {
		w(1, uint64(len(fh.RootIndirectBlock.ChildAddresses)))
		w(fh.RootIndirectBlock.ChildAddresses...)
	} else {
		w(0)
	}
	keys := make([]uint64, 0, len(fh.DirectBlocks))
	for k := range fh.DirectBlocks {
		keys = append(keys, k)
	}
	sort.Slice(keys, func(i, j int) bool { return keys[i] < keys[j] })
	for _, k := range keys {
		w(k)
		blk(fh.DirectBlocks[k])
	}
	return h.Sum32()
}

func c15Err(err error) map[string]interface{} {
	return map[string]interface{}{"ok": false, "err": err.Error()}
}

func init() {
	handlers["c15"] = func(raw json.RawMessage) (interface{}, error) {
		var c c15Case
		if err := json.Unmarshal(raw, &c); err != nil {
			return nil, err
		}
		sb := &core.Superblock{Version: 2, OffsetSize: 8, LengthSize: 8, Endianness: binary.LittleEndian}
		mem := &memFile{}
		alloc := &bumpAlloc{next: 2048}
		heap := structures.NewWritableFractalHeap(c.BS)
		loaded := false
		var hdrAddr uint64
		hdrSize := 22 + 12*8 + 3*8 + 4

		// store writes the heap out; returns header address, header bytes, root block bytes.
		store := func() (uint64, []byte, []byte, error) {
			if loaded {
				if err := heap.WriteAt(mem, sb); err != nil {
					return 0, nil, nil, err
				}
			} else {
				a, err := heap.WriteToFile(mem, alloc, sb)
				if err != nil {
					return 0, nil, nil, err
				}
				hdrAddr = a
			}
			hb := make([]byte, hdrSize)
			_, _ = mem.ReadAt(hb, int64(hdrAddr))
			bb := make([]byte, heap.DirectBlock.Size)
			_, _ = mem.ReadAt(bb, int64(heap.Header.RootBlockAddress))
			return hdrAddr, hb, bb, nil
		}

		insIDs := map[int][]byte{}
		results := make([]map[string]interface{}, 0, len(c.Ops))
		resolve := func(op c15Op) ([]byte, bool) {
			if op.Ref != nil {
				id, ok := insIDs[*op.Ref]
				return id, ok
			}
			id, err := hex.DecodeString(op.ID)
			return id, err == nil
		}
		for i, op := range c.Ops {
			before := c15Digest(heap)
			var r map[string]interface{}
			switch op.Op {
			case "ins":
				data, err := hex.DecodeString(op.Data)
				if err != nil {
					return nil, err
				}
				id, err := heap.InsertObject(data)
				if err != nil {
					r = c15Err(err)
				} else {
					insIDs[i] = id
					r = map[string]interface{}{"ok": true, "id": hex.EncodeToString(id)}
				}
			case "get":
				id, ok := resolve(op)
				if !ok {
					r = map[string]interface{}{"skip": true}
					break
				}
				d, err := heap.GetObject(id)
				if err != nil {
					r = c15Err(err)
				} else {
					r = map[string]interface{}{"ok": true, "data": hex.EncodeToString(d)}
				}
			case "ovw":
				id, ok := resolve(op)
				if !ok {
					r = map[string]interface{}{"skip": true}
					break
				}
				data, err := hex.DecodeString(op.Data)
				if err != nil {
					return nil, err
				}
				if err := heap.OverwriteObject(id, data); err != nil {
					r = c15Err(err)
				} else {
					r = map[string]interface{}{"ok": true}
				}
			case "del":
				id, ok := resolve(op)
				if !ok {
					r = map[string]interface{}{"skip": true}
					break
				}
				if err := heap.DeleteObject(id); err != nil {
					r = c15Err(err)
				} else {
					r = map[string]interface{}{"ok": true}
				}
			case "sl":
				addr, hb, bb, err := store()
				if err != nil {
					r = c15Err(err)
					r["stage"] = "store"
					break
				}
				nh := structures.NewWritableFractalHeap(c.BS)
				if err := nh.LoadFromFile(mem, addr, sb); err != nil {
					r = c15Err(err)
					r["stage"] = "load"
				} else {
					heap = nh
					loaded = true
					r = map[string]interface{}{"ok": true}
				}
				r["hdr"] = hex.EncodeToString(hb)
				if !c.NoBytes {
					r["blk"] = hex.EncodeToString(bb)
				}
				r["blkcrc"] = crc32.ChecksumIEEE(bb)
			default:
				return nil, fmt.Errorf("unknown op %q", op.Op)
			}
			if op.Op != "sl" {
				r["same"] = before == c15Digest(heap)
			}
			r["st"] = c15State(heap)
			results = append(results, r)
		}

		out := map[string]interface{}{"ops": results, "final": c15State(heap)}
		addr, hb, bb, err := store()
		if err != nil {
			out["store"] = c15Err(err)
			return out, nil
		}
		out["store"] = map[string]interface{}{"ok": true, "hdr": hex.EncodeToString(hb), "blk": hex.EncodeToString(bb),
			"blkcrc": crc32.ChecksumIEEE(bb), "hdr_addr": addr, "blk_addr": heap.Header.RootBlockAddress}
		var readers []map[string]interface{}
		ro, roErr := structures.OpenFractalHeap(mem, addr, sb.LengthSize, sb.OffsetSize, sb.Endianness)
		finalIDs := append([]string(nil), c.FinalIDs...)
		for _, k := range c.FinalRef {
			if id, ok := insIDs[k]; ok {
				finalIDs = append(finalIDs, hex.EncodeToString(id))
			}
		}
		for _, ids := range finalIDs {
			id, err := hex.DecodeString(ids)
			if err != nil {
				return nil, err
			}
			e := map[string]interface{}{"id": ids}
			if roErr != nil {
				e["ro"] = c15Err(roErr)
			} else if d, err := ro.ReadObject(id); err != nil {
				e["ro"] = c15Err(err)
			} else {
				e["ro"] = map[string]interface{}{"ok": true, "data": hex.EncodeToString(d)}
			}
			if d, err := core.VerifDenseHeapRead(mem, addr, id, sb); err != nil {
				e["core"] = c15Err(err)
			} else {
				e["core"] = map[string]interface{}{"ok": true, "data": hex.EncodeToString(d)}
			}
			readers = append(readers, e)
		}
		out["readers"] = readers
		return out, nil
	}
}
