//go:build verif

package main

import (
	"bytes"
	"encoding/hex"
	"fmt"

	"github.com/scigolib/hdf5/internal/core"
	"github.com/scigolib/hdf5/internal/structures"
)

// Chunk index modes of c01unit (the version 1 B-tree between the chunk writer and the chunk reader):
//
//	{"mode":"index","dim":n,"cdims":[..],"entries":[{"coord":[..],"addr":a,"nbytes":s}..],"eof":e}
//	   the file starts as e zero bytes; ChunkBTreeWriter(dim).AddChunkWithSize for every entry, WriteToFile with an
//	   end-of-file allocator at e -> {"wok","werr","root","eof","file":hex} (file and allocator end ALSO when
//	   WriteToFile refuses); then ParseBTreeV1Node(root, 8, len(cdims), cdims)
//	   + CollectAllChunks on those bytes -> "read":{"class":0|1,"err","entries":[{"scaled","nbytes","mask","addr"}..]}
//	{"mode":"indexraw","file":hex,"ztail":z,"root":a,"osz":k,"ndims":n,"cdims":[..]}   (z zero bytes follow file)
//	   ParseBTreeV1Node + CollectAllChunks on the given bytes -> "read" as above (a panic is reported by runOne)
type c01IdxEntry struct {
	Coord  []uint64 `json:"coord"`
	Addr   uint64   `json:"addr"`
	Nbytes uint32   `json:"nbytes"`
}

type c01IdxOut struct {
	Scaled []uint64 `json:"scaled"`
	Nbytes uint32   `json:"nbytes"`
	Mask   uint32   `json:"mask"`
	Addr   uint64   `json:"addr"`
}

type c01IdxRead struct {
	Class   int         `json:"class"`
	Err     string      `json:"err,omitempty"`
	Level   int         `json:"level"`
	Entries []c01IdxOut `json:"entries"`
}

// c01MemFile is the file under the index writer: WriteAtAddress like os.File.WriteAt (zero fill beyond the end).
type c01MemFile struct{ b []byte }

func (m *c01MemFile) WriteAtAddress(data []byte, addr uint64) error {
	if int64(addr) < 0 {
		return fmt.Errorf("negative offset")
	}
	if len(data) == 0 {
		return nil
	}
	end := addr + uint64(len(data))
	if end > uint64(len(m.b)) {
		m.b = append(m.b, make([]byte, end-uint64(len(m.b)))...)
	}
	copy(m.b[addr:], data)
	return nil
}

// c01EOFAlloc is internal/writer/allocator.go Allocate: at the current end of file, size 0 refused.
type c01EOFAlloc struct{ next uint64 }

func (a *c01EOFAlloc) Allocate(size uint64) (uint64, error) {
	if size == 0 {
		return 0, fmt.Errorf("cannot allocate zero bytes")
	}
	addr := a.next
	a.next = addr + size
	return addr, nil
}

func c01ReadIndex(file []byte, root uint64, osz uint8, ndims int, cdims []uint64) c01IdxRead {
	r := bytes.NewReader(file)
	node, err := core.ParseBTreeV1Node(r, root, osz, ndims, cdims)
	if err != nil {
		return c01IdxRead{Class: 1, Err: err.Error()}
	}
	chunks, err := node.CollectAllChunks(r, osz, cdims)
	if err != nil {
		return c01IdxRead{Class: 1, Err: err.Error(), Level: int(node.NodeLevel)}
	}
	out := make([]c01IdxOut, 0, len(chunks))
	for _, c := range chunks {
		out = append(out, c01IdxOut{Scaled: c.Key.Scaled, Nbytes: c.Key.Nbytes, Mask: c.Key.FilterMask, Addr: c.Address})
	}
	return c01IdxRead{Class: 0, Level: int(node.NodeLevel), Entries: out}
}

func c01Index(c *c01Case) (interface{}, error) {
	w := structures.NewChunkBTreeWriter(c.Dim)
	for _, e := range c.Entries {
		if err := w.AddChunkWithSize(e.Coord, e.Addr, e.Nbytes); err != nil {
			return map[string]interface{}{"wok": false, "werr": err.Error()}, nil
		}
	}
	mf := &c01MemFile{b: make([]byte, c.EOF)}
	al := &c01EOFAlloc{next: c.EOF}
	root, err := w.WriteToFile(mf, al)
	if err != nil {
		// a refused call must leave the file and the allocator as they were: both are reported
		return map[string]interface{}{"wok": false, "werr": err.Error(), "eof": al.next, "file": hex.EncodeToString(mf.b)}, nil
	}
	rd := c01ReadIndex(mf.b, root, 8, len(c.CDims), c.CDims)
	return map[string]interface{}{"wok": true, "root": root, "eof": al.next, "file": hex.EncodeToString(mf.b), "read": rd}, nil
}

func c01IndexRaw(c *c01Case) (interface{}, error) {
	file, err := hex.DecodeString(c.File)
	if err != nil {
		return nil, err
	}
	if c.ZTail > 0 {
		file = append(file, make([]byte, c.ZTail)...)
	}
	rd := c01ReadIndex(file, c.Root, c.Osz, c.NDims, c.CDims)
	return map[string]interface{}{"read": rd}, nil
}
