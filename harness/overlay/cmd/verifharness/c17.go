//go:build verif

package main

import (
	"bufio"
	"crypto/sha1"
	"encoding/hex"
	"encoding/json"
	"errors"
	"fmt"
	"io"
	"math"
	"os"
	"path/filepath"
	"runtime"
	"runtime/debug"
	"sort"
	"strconv"
	"strings"
	"syscall"
	"time"

	hdf5 "github.com/scigolib/hdf5"
	"github.com/scigolib/hdf5/internal/core"
	"github.com/scigolib/hdf5/internal/structures"
)

// C17: truncated files and failing I/O give errors, never different answers.
//
//	c17dump  <file> [limit]             every public read-API call on <file>, one result per call
//	c17trunc <file> <workdir> [limit]   stdin: JSON list of truncation lengths; one comparison per length
//	c17fault <file> [limit]             internal entry points over a ReaderAt that fails at call k, every k
//	c17parse                            (handler) parser-level results on a file image cut at n / failing at k
//
// A "call" is one API call on one object; its result is the canonical rendering of the returned value,
// "E" when the call returned an error, "P:<msg>" when it panicked.  The gate (tools/props/c17.py) is:
// on a damaged file every call of the intact file is present and its result is equal or "E".

const c17Err = "E"

type c17Calls struct {
	Open  string            `json:"open"` // "ok" | "E" | "P:..."
	Order []string          `json:"order"`
	Res   map[string]string `json:"res"`
}

func (c *c17Calls) put(id, v string) {
	if _, ok := c.Res[id]; !ok {
		c.Order = append(c.Order, id)
	}
	c.Res[id] = v
}

// c17Call runs one API call; the value is rendered by fn itself.
func c17Call(c *c17Calls, id string, fn func() (string, error)) {
	defer func() {
		if r := recover(); r != nil {
			st := string(debug.Stack())
			if len(st) > 600 {
				st = st[:600]
			}
			c.put(id, "P:"+fmt.Sprint(r)+" "+st)
		}
	}()
	v, err := fn()
	if err != nil {
		c.put(id, c17Err)
		return
	}
	c.put(id, v)
}

func c17JSON(v interface{}) string {
	b, err := json.Marshal(v)
	if err != nil {
		return "unrenderable:" + err.Error()
	}
	return string(b)
}

type c17Attr struct {
	Name  string   `json:"name"`
	Class int      `json:"class"`
	Size  uint32   `json:"size"`
	Bits  uint32   `json:"bits"`
	Dims  []uint64 `json:"dims"`
	Data  string   `json:"data"`
}

func c17Attrs(c *c17Calls, path string, get func() ([]*core.Attribute, error)) {
	var attrs []*core.Attribute
	c17Call(c, "attrs:"+path, func() (string, error) {
		a, err := get()
		if err != nil {
			return "", err
		}
		attrs = a
		out := make([]c17Attr, 0, len(a))
		for _, x := range a {
			ad := c17Attr{Name: hex.EncodeToString([]byte(x.Name)), Data: hex.EncodeToString(x.Data)}
			if x.Datatype != nil {
				ad.Class, ad.Size, ad.Bits = int(x.Datatype.Class), x.Datatype.Size, x.Datatype.ClassBitField
			}
			if x.Dataspace != nil {
				ad.Dims = x.Dataspace.Dimensions
			}
			out = append(out, ad)
		}
		return c17JSON(out), nil
	})
	// the same call once more on the same handle: a failed (or successful) first call must not change what a later
	// call returns - equal to the intact result or an error, never a shorter list (seeded change C17-b: a cache
	// entry left behind by a failed first call)
	c17Call(c, "attrs-again:"+path, func() (string, error) {
		a, err := get()
		if err != nil {
			return "", err
		}
		names := make([]string, 0, len(a))
		for _, x := range a {
			names = append(names, hex.EncodeToString([]byte(x.Name))+"="+hex.EncodeToString(x.Data))
		}
		return strings.Join(names, ","), nil
	})
	for i, x := range attrs {
		x := x
		// Attribute.ReadValue performs I/O for variable-length data (global heap)
		c17Call(c, fmt.Sprintf("attrval:%s:%d:%s", path, i, hex.EncodeToString([]byte(x.Name))), func() (string, error) {
			v, err := x.ReadValue()
			if err != nil {
				return "", err
			}
			return renderValue(v), nil
		})
	}
}

func c17Floats(vals []float64, limit int) string {
	h := sha1.New()
	var sb strings.Builder
	for i, v := range vals {
		s := fmt.Sprintf("%016x", math.Float64bits(v))
		h.Write([]byte(s))
		if limit == 0 || i < limit {
			sb.WriteString(s)
		}
	}
	return fmt.Sprintf("n=%d sha=%x head=%s", len(vals), h.Sum(nil), sb.String())
}

func c17Bytes(b []byte, limit int) string {
	s := sha1.Sum(b)
	head := b
	if limit > 0 && len(head) > limit {
		head = head[:limit]
	}
	return fmt.Sprintf("n=%d sha=%x head=%x", len(b), s, head)
}

// c17DumpFile: Open + Walk + every read call of every object.
func c17DumpFile(path string, limit int) (c *c17Calls) {
	c = &c17Calls{Res: map[string]string{}}
	defer func() {
		if r := recover(); r != nil {
			st := string(debug.Stack())
			if len(st) > 1500 {
				st = st[:1500]
			}
			c.Open = "P:" + fmt.Sprint(r) + " " + st
		}
	}()
	f, err := hdf5.Open(path)
	if err != nil {
		c.Open = c17Err
		return c
	}
	defer f.Close()
	c.Open = "ok"
	c.put("sbversion", strconv.Itoa(int(f.SuperblockVersion())))
	type item struct {
		p   string
		obj hdf5.Object
	}
	var items []item
	c17Call(c, "walk", func() (string, error) {
		var paths []string
		f.Walk(func(p string, obj hdf5.Object) {
			items = append(items, item{p, obj})
			paths = append(paths, fmt.Sprintf("%s=%T", hex.EncodeToString([]byte(p)), obj))
		})
		return strings.Join(paths, ","), nil
	})
	seen := map[string]int{}
	for _, it := range items {
		p := hex.EncodeToString([]byte(it.p))
		seen[p]++
		if seen[p] > 1 {
			p = fmt.Sprintf("%s#%d", p, seen[p])
		}
		switch o := it.obj.(type) {
		case *hdf5.Group:
			c17Call(c, "children:"+p, func() (string, error) {
				var names []string
				for _, ch := range o.Children() {
					names = append(names, fmt.Sprintf("%s=%T", hex.EncodeToString([]byte(ch.Name())), ch))
				}
				return strings.Join(names, ","), nil
			})
			c17Attrs(c, p, o.Attributes)
		case *hdf5.Dataset:
			c17Attrs(c, p, o.Attributes)
			c17Call(c, "attrnames:"+p, func() (string, error) {
				names, err := o.ListAttributes()
				if err != nil {
					return "", err
				}
				for i := range names {
					names[i] = hex.EncodeToString([]byte(names[i]))
				}
				return strings.Join(names, ","), nil
			})
			c17Call(c, "info:"+p, func() (string, error) { return o.Info() })
			class := -1
			var dims []uint64
			c17Call(c, "raw:"+p, func() (string, error) {
				hdr, err := core.ReadObjectHeader(f.Reader(), o.Address(), f.Superblock())
				if err != nil {
					return "", err
				}
				meta, raw, rerr := core.VerifDatasetRaw(f.Reader(), hdr, f.Superblock())
				if meta != nil {
					class = meta.Class
					dims = meta.Dims
				}
				if rerr != nil {
					return "", rerr
				}
				return c17JSON(meta) + " " + c17Bytes(raw, limit), nil
			})
			// a hyperslab: the leading half of every dimension (dataset_read_hyperslab.go)
			c17Call(c, "slice:"+p, func() (string, error) {
				hdr, err := core.ReadObjectHeader(f.Reader(), o.Address(), f.Superblock())
				if err != nil {
					return "", err
				}
				info, err := core.ReadDatasetInfo(hdr, f.Superblock())
				if err != nil {
					return "", err
				}
				d := info.Dataspace.Dimensions
				if len(d) == 0 {
					return "scalar", nil
				}
				start, count := make([]uint64, len(d)), make([]uint64, len(d))
				for i, x := range d {
					count[i] = x / 2
					if count[i] == 0 {
						count[i] = 1
					}
					if count[i] > 64 {
						count[i] = 64
					}
				}
				v, err := o.ReadSlice(start, count)
				if err != nil {
					return "", err
				}
				return renderValue(v), nil
			})
			_ = dims
			// a strided / blocked hyperslab (ReadHyperslab): every second index of every dimension, blocks of one
			c17Call(c, "hyperslab:"+p, func() (string, error) {
				hdr, err := core.ReadObjectHeader(f.Reader(), o.Address(), f.Superblock())
				if err != nil {
					return "", err
				}
				info, err := core.ReadDatasetInfo(hdr, f.Superblock())
				if err != nil {
					return "", err
				}
				d := info.Dataspace.Dimensions
				if len(d) == 0 {
					return "scalar", nil
				}
				sel := &hdf5.HyperslabSelection{Start: make([]uint64, len(d)), Count: make([]uint64, len(d)), Stride: make([]uint64, len(d))}
				for i, x := range d {
					sel.Stride[i] = 2
					sel.Count[i] = (x + 1) / 2
					if sel.Count[i] == 0 {
						sel.Count[i] = 1
					}
					if sel.Count[i] > 24 {
						sel.Count[i] = 24
					}
				}
				v, err := o.ReadHyperslab(sel)
				if err != nil {
					return "", err
				}
				return renderValue(v), nil
			})
			// ChunkIterator: the coordinates and the data of every chunk (at most 64 chunks); the first error ends it
			c17Call(c, "chunkiter:"+p, func() (string, error) {
				it, err := o.ChunkIterator()
				if err != nil {
					return "", err
				}
				h := sha1.New()
				n := 0
				for it.Next() && n < 64 {
					v, err := it.Chunk()
					if err != nil {
						return "", err
					}
					fmt.Fprintf(h, "%v=%s;", it.ChunkCoords(), renderValue(v))
					n++
				}
				if err := it.Err(); err != nil {
					return "", err
				}
				return fmt.Sprintf("total=%d n=%d cd=%v dims=%v sha=%x", it.Total(), n, it.ChunkDims(), it.DatasetDims(), h.Sum(nil)), nil
			})
			c17Call(c, "read:"+p, func() (string, error) {
				vals, err := o.Read()
				if err != nil {
					return "", err
				}
				return c17Floats(vals, limit), nil
			})
			c17Call(c, "strings:"+p, func() (string, error) {
				strs, err := o.ReadStrings()
				if err != nil {
					return "", err
				}
				h := sha1.New()
				for _, s := range strs {
					h.Write([]byte(strconv.Itoa(len(s)) + ":" + s))
				}
				head := strs
				if limit > 0 && len(head) > limit {
					head = head[:limit]
				}
				hs := make([]string, len(head))
				for i, s := range head {
					hs[i] = hex.EncodeToString([]byte(s))
				}
				return fmt.Sprintf("n=%d sha=%x head=%s", len(strs), h.Sum(nil), strings.Join(hs, ",")), nil
			})
			_ = class
			{
				c17Call(c, "compound:"+p, func() (string, error) {
					vals, err := o.ReadCompound()
					if err != nil {
						return "", err
					}
					var elems []interface{}
					for i, v := range vals {
						if limit > 0 && i >= limit {
							break
						}
						elems = append(elems, c06RenderMember(v))
					}
					full := make([]interface{}, len(vals))
					for i, v := range vals {
						full[i] = c06RenderMember(v)
					}
					s := sha1.Sum([]byte(c17JSON(full)))
					return fmt.Sprintf("n=%d sha=%x head=%s", len(vals), s, c17JSON(elems)), nil
				})
			}
		case *hdf5.NamedDatatype:
			c17Call(c, "named:"+p, func() (string, error) {
				dt := o.Datatype()
				if dt == nil {
					return "nil", nil
				}
				return fmt.Sprintf("%d/%d/%d/%x", dt.Class, dt.Size, dt.ClassBitField, dt.Properties), nil
			})
		default:
			c.put("other:"+p, fmt.Sprintf("%T", it.obj))
		}
	}
	return c
}

func c17Hashed(c *c17Calls) map[string]interface{} {
	res := map[string]string{}
	for k, v := range c.Res {
		if v == c17Err || strings.HasPrefix(v, "P:") {
			res[k] = v
		} else {
			s := sha1.Sum([]byte(v))
			res[k] = "V:" + hex.EncodeToString(s[:8])
		}
	}
	open := c.Open
	return map[string]interface{}{"open": open, "res": res, "n": len(c.Order)}
}

func c17Short(s string) string {
	if len(s) > 300 {
		return s[:300] + "..."
	}
	return s
}

type c17Diff struct {
	ID     string `json:"id"`
	Intact string `json:"intact"`
	Got    string `json:"got"`
	Kind   string `json:"kind"` // different | missing | extra | panic | ok-where-intact-errs
}

// c17Compare: the gate, evaluated next to the data (tools/props/c17.py re-evaluates it on the hashed dumps of the
// strace runs and of a sample of truncations).
func c17Compare(base, got *c17Calls) (eq, errs int, diffs []c17Diff) {
	if strings.HasPrefix(got.Open, "P:") {
		return 0, 0, []c17Diff{{ID: "open", Intact: c17Short(base.Open), Got: c17Short(got.Open), Kind: "panic"}}
	}
	if got.Open == c17Err {
		return 0, 1, nil
	}
	if base.Open != "ok" { // the intact file is refused, the damaged one is accepted
		return 0, 0, []c17Diff{{ID: "open", Intact: c17Short(base.Open), Got: "ok", Kind: "ok-where-intact-errs"}}
	}
	for _, id := range base.Order {
		bv := base.Res[id]
		gv, ok := got.Res[id]
		switch {
		case !ok && c17ParentErred(id, got):
			errs++ // a value call of an attribute whose list call (Attributes) reported the error
		case !ok:
			diffs = append(diffs, c17Diff{ID: id, Intact: c17Short(bv), Kind: "missing"})
		case strings.HasPrefix(gv, "P:"):
			diffs = append(diffs, c17Diff{ID: id, Intact: c17Short(bv), Got: c17Short(gv), Kind: "panic"})
		case gv == bv:
			eq++
		case gv == c17Err:
			errs++
		case bv == c17Err:
			diffs = append(diffs, c17Diff{ID: id, Intact: bv, Got: c17Short(gv), Kind: "ok-where-intact-errs"})
		default:
			diffs = append(diffs, c17Diff{ID: id, Intact: c17Short(bv), Got: c17Short(gv), Kind: "different"})
		}
	}
	for _, id := range got.Order {
		if _, ok := base.Res[id]; !ok {
			diffs = append(diffs, c17Diff{ID: id, Got: c17Short(got.Res[id]), Kind: "extra"})
		}
	}
	return eq, errs, diffs
}

// c17ParentErred: id is "attrval:<path>:<i>:<name>" and the Attributes() call of <path> returned an error.
func c17ParentErred(id string, got *c17Calls) bool {
	if !strings.HasPrefix(id, "attrval:") {
		return false
	}
	parts := strings.Split(id, ":")
	if len(parts) < 2 {
		return false
	}
	return got.Res["attrs:"+parts[1]] == c17Err
}

func c17Watchdog(secs int) {
	go func() {
		time.Sleep(time.Duration(secs) * time.Second)
		fmt.Println(`{"timeout":true}`)
		os.Exit(0)
	}()
}

func c17CopyFile(src, dst string) error {
	b, err := os.ReadFile(src)
	if err != nil {
		return err
	}
	return os.WriteFile(dst, b, 0o644)
}

// ---------------------------------------------------------------- in-process fault injection

var errC17EIO = errors.New("verif: injected I/O error")

type c17FaultReader struct {
	r      io.ReaderAt
	k      int    // index of the failing call (-1: none)
	kind   string // eio | eof0 | short | shorterr | shortn
	shortN int    // shortn: at most this many bytes are delivered, then io.EOF
	calls  int
}

func (f *c17FaultReader) ReadAt(p []byte, off int64) (int, error) {
	i := f.calls
	f.calls++
	if i == f.k {
		switch f.kind {
		case "eio": // nothing read, a non-EOF error
			return 0, errC17EIO
		case "eof0": // the file ends before the range
			return 0, io.EOF
		case "shortn": // at most shortN bytes, then end of file (a full read when the range is not longer)
			if len(p) <= f.shortN {
				return f.r.ReadAt(p, off)
			}
			n, _ := f.r.ReadAt(p[:f.shortN], off)
			return n, io.EOF
		case "short": // half of the range, then end of file
			n, _ := f.r.ReadAt(p[:len(p)/2], off)
			return n, io.EOF
		case "shorterr": // half of the range, then a non-EOF error
			n, _ := f.r.ReadAt(p[:len(p)/2], off)
			return n, errC17EIO
		}
	}
	return f.r.ReadAt(p, off)
}

// an op returns named components; each component is a value or "E"
type c17Op struct {
	id  string
	run func(r io.ReaderAt) map[string]string
}

func c17Safe(fn func() map[string]string) (res map[string]string) {
	defer func() {
		if r := recover(); r != nil {
			st := string(debug.Stack())
			if len(st) > 600 {
				st = st[:600]
			}
			res = map[string]string{"": "P:" + fmt.Sprint(r) + " " + st}
		}
	}()
	return fn()
}

func c17RenderSB(sb *core.Superblock) string {
	be := 0
	if sb.Endianness != nil && sb.Endianness.String() == "BigEndian" {
		be = 1
	}
	return fmt.Sprintf("%d/%d/%d/%d/%d/%d/%d/%d/%d/%d", sb.Version, sb.OffsetSize, sb.LengthSize, be, sb.BaseAddress,
		sb.RootGroup, sb.SuperExtension, sb.DriverInfo, sb.RootBTreeAddr, sb.RootHeapAddr)
}

func c17RenderHdr(h *core.ObjectHeader) string {
	var sbd strings.Builder
	fmt.Fprintf(&sbd, "v%d f%d t%d rc%d name=%x;", h.Version, h.Flags, h.Type, h.ReferenceCount, h.Name)
	for _, m := range h.Messages {
		fmt.Fprintf(&sbd, "%d@%d:%x;", m.Type, m.Offset, m.Data)
	}
	return sbd.String()
}

func c17RenderAttrList(a []*core.Attribute) string {
	var sbd strings.Builder
	for _, x := range a {
		fmt.Fprintf(&sbd, "%x=%x;", x.Name, x.Data)
	}
	return sbd.String()
}

func c17OpsForFile(path string, limit int) ([]c17Op, []byte, error) {
	img, err := os.ReadFile(path)
	if err != nil {
		return nil, nil, err
	}
	ops := []c17Op{{"superblock", func(r io.ReaderAt) map[string]string {
		sb, err := core.ReadSuperblock(r)
		if err != nil {
			return map[string]string{"": c17Err}
		}
		return map[string]string{"": c17RenderSB(sb)}
	}}}
	f, err := hdf5.Open(path)
	if err != nil {
		return ops, img, nil
	}
	defer f.Close()
	sb := f.Superblock()
	type obj struct {
		addr uint64
		kind string
	}
	var objs []obj
	seenAddr := map[uint64]bool{}
	f.Walk(func(p string, o hdf5.Object) {
		switch x := o.(type) {
		case *hdf5.Group:
			if a := x.VerifAddress(); a != 0 && !seenAddr[a] {
				seenAddr[a] = true
				objs = append(objs, obj{a, "group"})
			}
		case *hdf5.Dataset:
			if a := x.Address(); !seenAddr[a] {
				seenAddr[a] = true
				objs = append(objs, obj{a, "dataset"})
			}
		case *hdf5.NamedDatatype:
			if a := x.VerifAddress(); !seenAddr[a] {
				seenAddr[a] = true
				objs = append(objs, obj{a, "datatype"})
			}
		}
	})
	bytesR := &c17ImgReader{img}
	for _, o := range objs {
		o := o
		// ReadObjectHeader: header part and attribute part (AttributesErr semantics) are separate components
		ops = append(ops, c17Op{fmt.Sprintf("ohdr@%d", o.addr), func(r io.ReaderAt) map[string]string {
			h, err := core.ReadObjectHeader(r, o.addr, sb)
			if err != nil {
				return map[string]string{"hdr": c17Err, "attrs": c17Err}
			}
			res := map[string]string{"hdr": c17RenderHdr(h)}
			if h.AttributesErr != nil {
				res["attrs"] = c17Err
			} else {
				res["attrs"] = c17RenderAttrList(h.Attributes)
				for i, a := range h.Attributes {
					v, err := a.ReadValue()
					if err != nil {
						res[fmt.Sprintf("attrval%d", i)] = c17Err
					} else {
						res[fmt.Sprintf("attrval%d", i)] = renderValue(v)
					}
				}
			}
			return res
		}})
		if o.kind == "dataset" {
			ops = append(ops, c17Op{fmt.Sprintf("read@%d", o.addr), func(r io.ReaderAt) map[string]string {
				h, err := core.ReadObjectHeader(r, o.addr, sb)
				if err != nil {
					return map[string]string{"raw": c17Err, "read": c17Err, "strings": c17Err, "compound": c17Err}
				}
				res := map[string]string{}
				if _, raw, err := core.VerifDatasetRaw(r, h, sb); err != nil {
					res["raw"] = c17Err
				} else {
					res["raw"] = c17Bytes(raw, limit)
				}
				if v, err := core.ReadDatasetFloat64(r, h, sb); err != nil {
					res["read"] = c17Err
				} else {
					res["read"] = c17Floats(v, limit)
				}
				if v, err := core.ReadDatasetStrings(r, h, sb); err != nil {
					res["strings"] = c17Err
				} else {
					res["strings"] = c17JSON(v)
				}
				if v, err := core.ReadDatasetCompound(r, h, sb); err != nil {
					res["compound"] = c17Err
				} else {
					full := make([]interface{}, len(v))
					for i, x := range v {
						full[i] = c06RenderMember(x)
					}
					res["compound"] = c17JSON(full)
				}
				return res
			}})
		}
		if o.kind == "group" {
			// symbol table path of a traditional group: local heap + group B-tree + symbol table nodes
			h, err := core.ReadObjectHeader(bytesR, o.addr, sb)
			if err != nil {
				continue
			}
			var bt, hp uint64
			for _, m := range h.Messages {
				if m.Type == core.MsgSymbolTable && len(m.Data) >= 16 {
					bt, hp = sb.Endianness.Uint64(m.Data[0:8]), sb.Endianness.Uint64(m.Data[8:16])
				}
			}
			if bt == 0 && sb.Version == 0 && o.addr == sb.RootGroup {
				bt, hp = sb.RootBTreeAddr, sb.RootHeapAddr
			}
			if bt == 0 {
				continue
			}
			ops = append(ops, c17Op{fmt.Sprintf("stab@%d", o.addr), func(r io.ReaderAt) map[string]string {
				heap, err := structures.LoadLocalHeap(r, hp, sb)
				if err != nil {
					return map[string]string{"": c17Err}
				}
				ents, err := structures.ReadGroupBTreeEntries(r, bt, sb)
				if err != nil {
					return map[string]string{"": c17Err}
				}
				var sbd strings.Builder
				for _, e := range ents {
					nm, err := heap.GetString(e.LinkNameOffset)
					if err != nil {
						return map[string]string{"": c17Err}
					}
					fmt.Fprintf(&sbd, "%x@%d/%d;", nm, e.ObjectAddress, e.CacheType)
				}
				return map[string]string{"": sbd.String()}
			}})
		}
	}
	return ops, img, nil
}

type c17ImgReader struct{ b []byte }

func (m *c17ImgReader) ReadAt(p []byte, off int64) (int, error) {
	if off < 0 {
		return 0, errors.New("negative offset")
	}
	if off >= int64(len(m.b)) {
		return 0, io.EOF
	}
	n := copy(p, m.b[off:])
	if n < len(p) {
		return n, io.EOF
	}
	return n, nil
}

// ---------------------------------------------------------------- parser level (tie with the Coq programs)

// Universal value: number -> int, bytes -> hex string, list -> array.
func c17vHdr(h *core.ObjectHeader) interface{} {
	msgs := []interface{}{}
	for _, m := range h.Messages {
		msgs = append(msgs, []interface{}{uint64(m.Type), m.Offset, hex.EncodeToString(m.Data)})
	}
	return []interface{}{uint64(h.Version), uint64(h.Flags), uint64(h.ReferenceCount), hex.EncodeToString([]byte(h.Name)), msgs}
}

func c17vSB(sb *core.Superblock) interface{} {
	be := uint64(0)
	if sb.Endianness != nil && sb.Endianness.String() == "BigEndian" {
		be = 1
	}
	return []interface{}{uint64(sb.Version), uint64(sb.OffsetSize), uint64(sb.LengthSize), be, sb.BaseAddress, sb.RootGroup,
		sb.SuperExtension, sb.DriverInfo, sb.RootBTreeAddr, sb.RootHeapAddr}
}

type c17ParseCase struct {
	Img   string   `json:"img"`  // hex
	Op    string   `json:"op"`   // superblock | ohdr | attrs | lheap | snod | gbtree | gheap | contig | btv1
	Addr  uint64   `json:"addr"` // object address
	Args  []uint64 `json:"args"`
	Cuts  []int    `json:"cuts"`  // truncation lengths (-1 = intact)
	Fault []int    `json:"fault"` // failing call index per case (-1 = none), parallel to Cuts
	Kind  string   `json:"kind"`
	ShortN int     `json:"shortn"`
	Dir    string  `json:"dir"` // scratch directory for op "open" (hdf5.Open needs a file)
}

func c17vNode(o hdf5.Object) interface{} {
	switch x := o.(type) {
	case *hdf5.Group:
		ch := []interface{}{}
		for _, c := range x.Children() {
			ch = append(ch, c17vNode(c))
		}
		return []interface{}{uint64(0), hex.EncodeToString([]byte(x.Name())), ch}
	case *hdf5.Dataset:
		return []interface{}{uint64(1), hex.EncodeToString([]byte(x.Name())), x.Address()}
	case *hdf5.NamedDatatype:
		return []interface{}{uint64(2), hex.EncodeToString([]byte(x.Name())), x.VerifAddress()}
	}
	return []interface{}{uint64(9)}
}

// c17OpenTree: hdf5.Open on a scratch file holding img; the tree of names / kinds / addresses.
func c17OpenTree(dir string, img []byte) (interface{}, error) {
	f, err := os.CreateTemp(dir, "open-*.h5")
	if err != nil {
		panic("harness: " + err.Error())
	}
	name := f.Name()
	defer os.Remove(name)
	if _, err := f.Write(img); err != nil {
		panic("harness: " + err.Error())
	}
	f.Close()
	h, err := hdf5.Open(name)
	if err != nil {
		return nil, err
	}
	defer h.Close()
	return c17vNode(h.Root()), nil
}

func c17ParseOne(op string, r io.ReaderAt, sb *core.Superblock, addr uint64, args []uint64) (interface{}, error) {
	switch op {
	case "superblock":
		s, err := core.ReadSuperblock(r)
		if err != nil {
			return nil, err
		}
		return c17vSB(s), nil
	case "ohdr": // header part of ReadObjectHeader
		h, err := core.ReadObjectHeader(r, addr, sb)
		if err != nil {
			return nil, err
		}
		return c17vHdr(h), nil
	case "attrs": // Attributes() of the object at addr: names + raw data
		h, err := core.ReadObjectHeader(r, addr, sb)
		if err != nil {
			return nil, err
		}
		if h.AttributesErr != nil {
			return nil, h.AttributesErr
		}
		out := []interface{}{}
		for _, a := range h.Attributes {
			out = append(out, []interface{}{hex.EncodeToString([]byte(a.Name)), hex.EncodeToString(a.Data)})
		}
		return out, nil
	case "lheap":
		h, err := structures.LoadLocalHeap(r, addr, sb)
		if err != nil {
			return nil, err
		}
		return hex.EncodeToString(h.Data), nil
	case "snod":
		n, err := structures.ParseSymbolTableNode(r, addr, sb)
		if err != nil {
			return nil, err
		}
		out := []interface{}{}
		for _, e := range n.Entries {
			out = append(out, []interface{}{e.LinkNameOffset, e.ObjectAddress, uint64(e.CacheType), e.CachedBTreeAddr, e.CachedHeapAddr})
		}
		return out, nil
	case "gbtree":
		ents, err := structures.ReadGroupBTreeEntries(r, addr, sb)
		if err != nil {
			return nil, err
		}
		out := []interface{}{}
		for _, e := range ents {
			out = append(out, []interface{}{e.LinkNameOffset, e.ObjectAddress, uint64(e.CacheType), e.CachedBTreeAddr, e.CachedHeapAddr})
		}
		return out, nil
	case "gheap":
		c, err := core.ReadGlobalHeapCollection(r, addr, int(sb.OffsetSize))
		if err != nil {
			return nil, err
		}
		out := []interface{}{}
		for _, o := range c.Objects {
			out = append(out, []interface{}{uint64(o.Index), hex.EncodeToString(o.Data)})
		}
		return out, nil
	case "read": // Dataset.Read: ReadObjectHeader + ReadDatasetFloat64 (class and call count only)
		h, err := core.ReadObjectHeader(r, addr, sb)
		if err != nil {
			return nil, err
		}
		if _, err := core.ReadDatasetFloat64(r, h, sb); err != nil {
			return nil, err
		}
		return []interface{}{}, nil
	case "strings", "compound": // Dataset.ReadStrings / ReadCompound: ReadObjectHeader + the reader (class and call count only)
		h, err := core.ReadObjectHeader(r, addr, sb)
		if err != nil {
			return nil, err
		}
		if op == "strings" {
			_, err = core.ReadDatasetStrings(r, h, sb)
		} else {
			_, err = core.ReadDatasetCompound(r, h, sb)
		}
		if err != nil {
			return nil, err
		}
		return []interface{}{}, nil
	case "attrval": // ReadValue of the args[0]-th attribute (variable-length strings: one global heap collection per element)
		h, err := core.ReadObjectHeader(r, addr, sb)
		if err != nil {
			return nil, err
		}
		if h.AttributesErr != nil {
			return nil, h.AttributesErr
		}
		if len(args) < 1 || int(args[0]) >= len(h.Attributes) {
			return nil, errors.New("no such attribute")
		}
		v, err := h.Attributes[args[0]].ReadValue()
		if err != nil {
			return nil, err
		}
		out := []interface{}{}
		switch x := v.(type) {
		case string:
			out = append(out, hex.EncodeToString([]byte(x)))
		case []string:
			for _, e := range x {
				out = append(out, hex.EncodeToString([]byte(e)))
			}
		case []interface{}:
		default:
			return nil, fmt.Errorf("harness: attrval is for string values, got %T", v)
		}
		return out, nil
	case "raw": // raw element bytes of the dataset at addr through the library's layout dispatch
		h, err := core.ReadObjectHeader(r, addr, sb)
		if err != nil {
			return nil, err
		}
		_, raw, err := core.VerifDatasetRaw(r, h, sb)
		if err != nil {
			return nil, err
		}
		return hex.EncodeToString(raw), nil
	}
	return nil, fmt.Errorf("harness: unknown op %q", op)
}

func init() {
	bulk["c17dump"] = func(args []string) error {
		if len(args) < 1 {
			return errors.New("usage: c17dump <file> [limit] [hashed]")
		}
		limit := 16
		if len(args) > 1 {
			limit, _ = strconv.Atoi(args[1])
		}
		c17Watchdog(120)
		runtime.LockOSThread() // strace counts `when=` per thread: keep every library I/O call on one thread
		c := c17DumpFile(args[0], limit)
		out := bufio.NewWriter(os.Stdout)
		defer out.Flush()
		if len(args) > 2 && args[2] == "hashed" {
			return json.NewEncoder(out).Encode(c17Hashed(c))
		}
		return json.NewEncoder(out).Encode(c)
	}

	// c17trunc: one process, one scratch copy, truncated progressively from the largest length downwards.
	bulk["c17trunc"] = func(args []string) error {
		if len(args) < 2 {
			return errors.New("usage: c17trunc <file> <workdir> [limit] [timeout]")
		}
		limit := 16
		if len(args) > 2 {
			limit, _ = strconv.Atoi(args[2])
		}
		secs := 600
		if len(args) > 3 {
			secs, _ = strconv.Atoi(args[3])
		}
		var cuts []int64
		if err := json.NewDecoder(bufio.NewReader(os.Stdin)).Decode(&cuts); err != nil {
			return err
		}
		sort.Slice(cuts, func(i, j int) bool { return cuts[i] > cuts[j] })
		if err := os.MkdirAll(args[1], 0o755); err != nil {
			return err
		}
		work := filepath.Join(args[1], fmt.Sprintf("t-%d.h5", os.Getpid()))
		if err := c17CopyFile(args[0], work); err != nil {
			return err
		}
		defer os.Remove(work)
		out := bufio.NewWriterSize(os.Stdout, 1<<20)
		defer out.Flush()
		enc := json.NewEncoder(out)
		t0 := time.Now()
		base := c17DumpFile(work, limit)
		st, _ := os.Stat(work)
		npanic := 0
		for _, v := range base.Res {
			if strings.HasPrefix(v, "P:") {
				npanic++
			}
		}
		enc.Encode(map[string]interface{}{"baseline": true, "open": c17Short(base.Open), "calls": len(base.Order), "size": st.Size(),
			"ms": time.Since(t0).Milliseconds(), "panics": npanic, "hashed": c17Hashed(base)})
		deadline := time.Now().Add(time.Duration(secs) * time.Second)
		for _, cut := range cuts {
			if cut < 0 || cut >= st.Size() {
				continue
			}
			if time.Now().After(deadline) {
				enc.Encode(map[string]interface{}{"deadline": true, "cut": cut})
				break
			}
			if err := os.Truncate(work, cut); err != nil {
				return err
			}
			got := c17DumpFile(work, limit)
			eq, errs, diffs := c17Compare(base, got)
			rec := map[string]interface{}{"cut": cut, "open": c17Short(got.Open), "eq": eq, "err": errs}
			if len(diffs) > 0 {
				if len(diffs) > 8 {
					diffs = diffs[:8]
				}
				rec["diffs"] = diffs
			}
			enc.Encode(rec)
		}
		return nil
	}

	// c17fault: internal entry points over a ReaderAt that fails at call k, for every k and every fault kind.
	bulk["c17fault"] = func(args []string) error {
		if len(args) < 1 {
			return errors.New("usage: c17fault <file> [limit] [maxk-per-op]")
		}
		limit := 16
		if len(args) > 1 {
			limit, _ = strconv.Atoi(args[1])
		}
		maxk := 0
		if len(args) > 2 {
			maxk, _ = strconv.Atoi(args[2])
		}
		c17Watchdog(300)
		ops, img, err := c17OpsForFile(args[0], limit)
		if err != nil {
			return err
		}
		out := bufio.NewWriterSize(os.Stdout, 1<<20)
		defer out.Flush()
		enc := json.NewEncoder(out)
		kinds := []string{"eio", "eof0", "short", "shorterr"}
		for _, op := range ops {
			op := op
			base := &c17FaultReader{r: &c17ImgReader{img}, k: -1}
			bres := c17Safe(func() map[string]string { return op.run(base) })
			n := base.calls
			rec := map[string]interface{}{"op": op.id, "calls": n}
			hist := map[string]int{}
			var diffs []c17Diff
			points := 0
			step := 1
			if maxk > 0 && n > maxk {
				step = (n + maxk - 1) / maxk
			}
			for k := 0; k < n; k += step {
				for _, kind := range kinds {
					fr := &c17FaultReader{r: &c17ImgReader{img}, k: k, kind: kind}
					got := c17Safe(func() map[string]string { return op.run(fr) })
					points++
					if p, ok := got[""]; ok && strings.HasPrefix(p, "P:") {
						diffs = append(diffs, c17Diff{ID: fmt.Sprintf("%s k=%d %s", op.id, k, kind), Got: c17Short(p), Kind: "panic"})
						hist["panic"]++
						continue
					}
					bad := false
					allEq := true
					for comp, bv := range bres {
						gv, ok := got[comp]
						switch {
						case !ok:
							if comp != "" && got["attrs"] == c17Err && strings.HasPrefix(comp, "attrval") {
								allEq = false // the attribute list call itself reported the error
								continue
							}
							if comp != "" && got["hdr"] == c17Err {
								allEq = false
								continue
							}
							bad = true
							diffs = append(diffs, c17Diff{ID: fmt.Sprintf("%s/%s k=%d %s", op.id, comp, k, kind), Intact: c17Short(bv), Kind: "missing"})
						case gv == bv:
						case gv == c17Err:
							allEq = false
						default:
							bad = true
							kd := "different"
							if bv == c17Err {
								kd = "ok-where-intact-errs"
							}
							diffs = append(diffs, c17Diff{ID: fmt.Sprintf("%s/%s k=%d %s", op.id, comp, k, kind), Intact: c17Short(bv), Got: c17Short(gv), Kind: kd})
						}
					}
					for comp, gv := range got {
						if _, ok := bres[comp]; !ok {
							bad = true
							diffs = append(diffs, c17Diff{ID: fmt.Sprintf("%s/%s k=%d %s", op.id, comp, k, kind), Got: c17Short(gv), Kind: "extra"})
						}
					}
					switch {
					case bad:
						hist["violation"]++
					case allEq:
						hist["equal"]++
					default:
						hist["error"]++
					}
				}
			}
			rec["points"] = points
			rec["hist"] = hist
			if len(diffs) > 8 {
				diffs = diffs[:8]
			}
			if len(diffs) > 0 {
				rec["diffs"] = diffs
			}
			if p, ok := bres[""]; ok && strings.HasPrefix(p, "P:") {
				rec["baseline_panic"] = c17Short(p)
			}
			enc.Encode(rec)
		}
		return nil
	}

	// c17parse: parser-level results for the tie with the Coq programs of Model/IOProgReader.v
	handlers["c17parse"] = func(raw json.RawMessage) (interface{}, error) {
		var c c17ParseCase
		if err := json.Unmarshal(raw, &c); err != nil {
			return nil, err
		}
		img, err := hex.DecodeString(c.Img)
		if err != nil {
			return nil, err
		}
		// the superblock the dependent parsers are given is the intact file's
		var sb *core.Superblock
		if c.Op != "superblock" && c.Op != "open" {
			sb, err = core.ReadSuperblock(&c17ImgReader{img})
			if err != nil {
				return nil, fmt.Errorf("harness: intact superblock: %w", err)
			}
		}
		type one struct {
			Class int         `json:"class"` // 0 ok, 1 err, 2 panic
			V     interface{} `json:"v,omitempty"`
			Calls int         `json:"calls"`
		}
		res := make([]one, len(c.Cuts))
		for i, cut := range c.Cuts {
			b := img
			if cut >= 0 && cut < len(img) {
				b = img[:cut]
			}
			k := -1
			if i < len(c.Fault) {
				k = c.Fault[i]
			}
			kind := c.Kind
			if kind == "" {
				kind = "eio"
			}
			fr := &c17FaultReader{r: &c17ImgReader{b}, k: k, kind: kind, shortN: c.ShortN}
			func() {
				defer func() {
					if r := recover(); r != nil {
						res[i] = one{Class: 2, Calls: fr.calls}
					}
				}()
				if c.Op == "open" {
					v, err := c17OpenTree(c.Dir, b)
					if err != nil {
						res[i] = one{Class: 1}
					} else {
						res[i] = one{Class: 0, V: v}
					}
					return
				}
				v, err := c17ParseOne(c.Op, fr, sb, c.Addr, c.Args)
				if err != nil {
					res[i] = one{Class: 1, Calls: fr.calls}
				} else {
					res[i] = one{Class: 0, V: v, Calls: fr.calls}
				}
			}()
		}
		return map[string]interface{}{"res": res}, nil
	}

	// c17targets: the parser-level targets of a file: object headers, symbol-table structures, global heaps
	bulk["c17targets"] = func(args []string) error {
		if len(args) < 1 {
			return errors.New("usage: c17targets <file>")
		}
		type tgt struct {
			Op   string   `json:"op"`
			Addr uint64   `json:"addr"`
			Args []uint64 `json:"args,omitempty"`
		}
		out := []tgt{}
		f, err := hdf5.Open(args[0])
		if err != nil {
			return json.NewEncoder(os.Stdout).Encode(out)
		}
		defer f.Close()
		sb := f.Superblock()
		seen := map[string]bool{}
		add := func(op string, a uint64) {
			k := fmt.Sprintf("%s@%d", op, a)
			if !seen[k] {
				seen[k] = true
				out = append(out, tgt{Op: op, Addr: a})
			}
			if op == "attrs" { // variable-length string attributes: ReadValue goes through the global heap
				if h, err := core.ReadObjectHeader(f.Reader(), a, sb); err == nil && h.AttributesErr == nil {
					for i, at := range h.Attributes {
						if at.Datatype != nil && at.Dataspace != nil && at.Datatype.IsVariableString() {
							out = append(out, tgt{Op: "attrval", Addr: a, Args: []uint64{uint64(i), at.Dataspace.TotalElements()}})
						}
					}
				}
			}
		}
		stab := func(addr uint64) {
			h, err := core.ReadObjectHeader(f.Reader(), addr, sb)
			if err != nil {
				return
			}
			var bt, hp uint64
			for _, m := range h.Messages {
				if m.Type == core.MsgSymbolTable && len(m.Data) >= 16 {
					bt, hp = sb.Endianness.Uint64(m.Data[0:8]), sb.Endianness.Uint64(m.Data[8:16])
				}
			}
			if bt == 0 && sb.Version == 0 && addr == sb.RootGroup {
				bt, hp = sb.RootBTreeAddr, sb.RootHeapAddr
			}
			if bt != 0 {
				add("lheap", hp)
				add("gbtree", bt)
				if ents, err := structures.ReadGroupBTreeEntries(f.Reader(), bt, sb); err == nil {
					_ = ents
				}
			}
		}
		f.Walk(func(p string, o hdf5.Object) {
			switch x := o.(type) {
			case *hdf5.Group:
				if a := x.VerifAddress(); a != 0 {
					add("ohdr", a)
					add("attrs", a)
					stab(a)
				}
			case *hdf5.Dataset:
				add("ohdr", x.Address())
				add("attrs", x.Address())
				if _, err := x.Read(); err == nil {
					add("read", x.Address())
				}
				if _, err := x.ReadStrings(); err == nil {
					add("strings", x.Address())
				}
				if _, err := x.ReadCompound(); err == nil {
					add("compound", x.Address())
				}
			case *hdf5.NamedDatatype:
				add("ohdr", x.VerifAddress())
			}
		})
		return json.NewEncoder(os.Stdout).Encode(out)
	}

	// c17whist: replay a write history (same format as `hist`) on a given path and report the per-call results;
	// used under strace with an injected pwrite64/fsync/ftruncate/close failure.  Unlike `hist` it performs no
	// reads of its own between the calls, so every pwrite64 of the process is one of the library's WriteAt calls.
	bulk["c17whist"] = func(args []string) error {
		if len(args) < 1 {
			return errors.New("usage: c17whist <target-file>  (history JSON on stdin)")
		}
		var c histCase
		if err := json.NewDecoder(bufio.NewReader(os.Stdin)).Decode(&c); err != nil {
			return err
		}
		runtime.LockOSThread() // strace counts `when=` per thread
		h := &histRun{c: &c, file: args[0], ds: map[string]*hdf5.DatasetWriter{},
			grp: map[string]*hdf5.GroupWriter{}, dtypeOf: map[string]string{}, strsize: map[string]uint32{}}
		var createRes opResult
		func() {
			defer func() {
				if r := recover(); r != nil {
					createRes = opResult{Panic: fmt.Sprint(r)}
				}
			}()
			opts := []interface{}{hdf5.WithSuperblockVersion(uint8(c.SB))}
			opts = append(opts, histConfigOptions(c.Config)...)
			fw, err := hdf5.CreateForWrite(h.file, hdf5.CreateTruncate, opts...)
			if err != nil {
				createRes = opResult{Err: err.Error()}
				return
			}
			h.fw = fw
			createRes = opResult{OK: true}
		}()
		results := []opResult{}
		for i := range c.Ops {
			op := &c.Ops[i]
			if op.Op == "dump" {
				results = append(results, opResult{OK: true})
				continue
			}
			if os.Getenv("C17_MARK") != "" {
				fmt.Fprintf(os.Stderr, "MARK op%d %s %s\n", i, op.Op, op.Path)
			}
			results = append(results, h.applySafe(op))
		}
		if os.Getenv("C17_MARK") != "" {
			fmt.Fprintf(os.Stderr, "MARK final_close\n")
		}
		var finalClose opResult
		if h.fw != nil {
			finalClose = h.applySafe(&histOp{Op: "close"})
		} else {
			finalClose = opResult{OK: true}
		}
		return json.NewEncoder(os.Stdout).Encode(map[string]interface{}{"create": createRes, "results": results, "final_close": finalClose})
	}
	_ = syscall.EIO
}
