//go:build verif

package main

import (
	"encoding/hex"
	"encoding/json"
	"fmt"
	"os"
	"path/filepath"

	"github.com/scigolib/hdf5"
)

// c02dense: CreateForWrite(superblock 2); CreateDataset("/"+name, dtype, dims); Write(data);
// WriteAttribute(attrs[0]); ...; WriteAttribute(attrs[n-1]); Close().
// Returns the WHOLE file, byte for byte (tools/props/c02file.py kind "dense": Model/FileImageDense.v).
type c02denseAttr struct {
	Name string `json:"name"` // hex
	Kind string `json:"kind"` // attrValue kind (hist.go)
	Val  string `json:"val"`  // hex, little-endian value bytes
}

type c02denseCase struct {
	Name  string         `json:"name"` // hex, without the leading "/"
	Dtype string         `json:"dtype"`
	Dims  []uint64       `json:"dims"`
	Data  string         `json:"data"` // hex, little-endian element bytes
	Attrs []c02denseAttr `json:"attrs"`
	Dir   string         `json:"dir"`
}

type c02denseResult struct {
	OK    bool   `json:"ok"`
	Stage string `json:"stage,omitempty"`
	Err   string `json:"err,omitempty"`
	File  string `json:"file,omitempty"` // hex of the whole file
}

func init() {
	handlers["c02dense"] = func(raw json.RawMessage) (interface{}, error) {
		var c c02denseCase
		if err := json.Unmarshal(raw, &c); err != nil {
			return nil, err
		}
		nameb, err := hex.DecodeString(c.Name)
		if err != nil {
			return nil, fmt.Errorf("bad hex name")
		}
		data, err := hex.DecodeString(c.Data)
		if err != nil {
			return nil, fmt.Errorf("bad hex data")
		}
		dt, ok := dtypeByName[c.Dtype]
		if !ok {
			return nil, fmt.Errorf("unknown dtype %q", c.Dtype)
		}
		dir := c.Dir
		if dir == "" {
			dir = os.TempDir()
		}
		tmp, err := os.MkdirTemp(dir, "c02dense-")
		if err != nil {
			return nil, err
		}
		defer os.RemoveAll(tmp)
		path := filepath.Join(tmp, "f.h5")
		fw, err := hdf5.CreateForWrite(path, hdf5.CreateTruncate, hdf5.WithSuperblockVersion(2))
		if err != nil {
			return c02denseResult{Stage: "create", Err: err.Error()}, nil
		}
		ds, err := fw.CreateDataset("/"+string(nameb), dt, c.Dims)
		if err != nil {
			_ = fw.Close()
			return c02denseResult{Stage: "dataset", Err: err.Error()}, nil
		}
		v, err := typedSlice(c.Dtype, data, 0)
		if err != nil {
			_ = fw.Close()
			return nil, err
		}
		if err := ds.Write(v); err != nil {
			_ = fw.Close()
			return c02denseResult{Stage: "write", Err: err.Error()}, nil
		}
		for i, a := range c.Attrs {
			anameb, e1 := hex.DecodeString(a.Name)
			araw, e2 := hex.DecodeString(a.Val)
			if e1 != nil || e2 != nil {
				_ = fw.Close()
				return nil, fmt.Errorf("bad hex attribute")
			}
			av, err := attrValue(a.Kind, araw)
			if err != nil {
				_ = fw.Close()
				return nil, err
			}
			if err := ds.WriteAttribute(string(anameb), av); err != nil {
				_ = fw.Close()
				return c02denseResult{Stage: fmt.Sprintf("attr %d", i), Err: err.Error()}, nil
			}
		}
		if err := fw.Close(); err != nil {
			return c02denseResult{Stage: "close", Err: err.Error()}, nil
		}
		b, err := os.ReadFile(path)
		if err != nil {
			return nil, err
		}
		return c02denseResult{OK: true, File: hex.EncodeToString(b)}, nil
	}
}
