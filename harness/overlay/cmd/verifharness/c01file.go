//go:build verif

package main

import (
	"encoding/hex"
	"encoding/json"
	"fmt"
	"os"
	"path/filepath"

	"github.com/scigolib/hdf5"
)

// c01file: CreateForWrite(superblock version); CreateDataset("/"+name, dtype, dims); Write(data); Close().
// Returns the WHOLE file, byte for byte, plus what hdf5.Open / Dataset reads back (tree, raw bytes).
type c01fileCase struct {
	SB    int      `json:"sb"`
	Name  string   `json:"name"` // hex, without the leading "/"
	Dtype string   `json:"dtype"`
	Dims  []uint64 `json:"dims"`
	Data  string   `json:"data"` // hex, little-endian element bytes
	Dir   string   `json:"dir"`
	// optional extensions (tools/props/c01file.py kinds "chunked", "v0", "attr")
	Chunk []uint64 `json:"chunk,omitempty"` // WithChunkDims
	AName string   `json:"aname,omitempty"` // hex; one WriteAttribute after Write when AKind is set
	AKind string   `json:"akind,omitempty"` // attrValue kind (hist.go)
	AVal  string   `json:"aval,omitempty"`  // hex, little-endian value bytes
}

type c01fileResult struct {
	OK    bool   `json:"ok"`
	Stage string `json:"stage,omitempty"`
	Err   string `json:"err,omitempty"`
	File  string `json:"file,omitempty"` // hex of the whole file
}

func init() {
	handlers["c01file"] = func(raw json.RawMessage) (interface{}, error) {
		var c c01fileCase
		if err := json.Unmarshal(raw, &c); err != nil {
			return nil, err
		}
		nameb, err := hex.DecodeString(c.Name)
		if err != nil {
			return nil, fmt.Errorf("bad hex name")
		}
		data, err := hex.DecodeString(c.Data)
		if err != nil {
			return nil, fmt.Errorf("bad hex data")
		}
		dt, ok := dtypeByName[c.Dtype]
		if !ok {
			return nil, fmt.Errorf("unknown dtype %q", c.Dtype)
		}
		dir := c.Dir
		if dir == "" {
			dir = os.TempDir()
		}
		tmp, err := os.MkdirTemp(dir, "c01file-")
		if err != nil {
			return nil, err
		}
		defer os.RemoveAll(tmp)
		path := filepath.Join(tmp, "f.h5")
		fw, err := hdf5.CreateForWrite(path, hdf5.CreateTruncate, hdf5.WithSuperblockVersion(uint8(c.SB)))
		if err != nil {
			return c01fileResult{Stage: "create", Err: err.Error()}, nil
		}
		var opts []hdf5.DatasetOption
		if len(c.Chunk) > 0 {
			opts = append(opts, hdf5.WithChunkDims(c.Chunk))
		}
		ds, err := fw.CreateDataset("/"+string(nameb), dt, c.Dims, opts...)
		if err != nil {
			_ = fw.Close()
			return c01fileResult{Stage: "dataset", Err: err.Error()}, nil
		}
		v, err := typedSlice(c.Dtype, data, 0)
		if err != nil {
			_ = fw.Close()
			return nil, err
		}
		if err := ds.Write(v); err != nil {
			_ = fw.Close()
			return c01fileResult{Stage: "write", Err: err.Error()}, nil
		}
		if c.AKind != "" {
			anameb, e1 := hex.DecodeString(c.AName)
			araw, e2 := hex.DecodeString(c.AVal)
			if e1 != nil || e2 != nil {
				_ = fw.Close()
				return nil, fmt.Errorf("bad hex attribute")
			}
			av, err := attrValue(c.AKind, araw)
			if err != nil {
				_ = fw.Close()
				return nil, err
			}
			if err := ds.WriteAttribute(string(anameb), av); err != nil {
				_ = fw.Close()
				return c01fileResult{Stage: "attr", Err: err.Error()}, nil
			}
		}
		if err := fw.Close(); err != nil {
			return c01fileResult{Stage: "close", Err: err.Error()}, nil
		}
		b, err := os.ReadFile(path)
		if err != nil {
			return nil, err
		}
		return c01fileResult{OK: true, File: hex.EncodeToString(b)}, nil
	}
}
