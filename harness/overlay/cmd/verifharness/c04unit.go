//go:build verif

package main

import (
	"encoding/json"
	"fmt"
	"os"
	"path/filepath"

	hdf5 "github.com/scigolib/hdf5"
	"github.com/scigolib/hdf5/internal/core"
)

// c04unit: replay a history (same op format as `hist`, same histRun machinery) and report, after the
// creation of the file and after every operation, the allocator state of the low-level writer, the
// physical file size and the byte ranges of the file that changed during the operation.
//
// input : {"sb":0|2|3, "ops":[...hist ops...], "dir":"..."}
// output: {"steps":[ step(create), step(op 0), ... ]}
//   step = {"res":{ok,err,panic}, "eof":allocator end of file, "nblocks":total blocks,
//           "newblocks":[[offset,size]...] blocks allocated during the step (allocation order),
//           "reset":true when the allocator object was replaced (reopen),
//           "fsize":physical size, "changed":[[start,len]...] maximal runs of bytes that differ from
//           the snapshot before the step (the older snapshot is zero-extended, like WriteAt does),
//           "hdraddr":address and "hdr":[[type,len]...] messages of the target's object header after the step}

type c04Case struct {
	SB  int      `json:"sb"`
	Ops []histOp `json:"ops"`
	Dir string   `json:"dir"`
}

type c04Step struct {
	Res       opResult    `json:"res"`
	EOF       uint64      `json:"eof"`
	NBlocks   int         `json:"nblocks"`
	NewBlocks [][2]uint64 `json:"newblocks"`
	Reset     bool        `json:"reset,omitempty"`
	Overlap   string      `json:"overlap,omitempty"` // Allocator.ValidateNoOverlaps() error text
	FSize     int64       `json:"fsize"`
	Changed   [][2]uint64 `json:"changed"`
	HdrAddr   uint64      `json:"hdraddr,omitempty"`
	Hdr       [][2]int    `json:"hdr,omitempty"`
	HdrErr    string      `json:"hdrerr,omitempty"`
}

func c04Diff(old, cur []byte) [][2]uint64 {
	out := [][2]uint64{}
	n := len(cur)
	if len(old) > n {
		n = len(old)
	}
	at := func(b []byte, i int) byte {
		if i < len(b) {
			return b[i]
		}
		return 0
	}
	i := 0
	for i < n {
		if at(old, i) == at(cur, i) {
			i++
			continue
		}
		j := i
		for j < n && at(old, j) != at(cur, j) {
			j++
		}
		out = append(out, [2]uint64{uint64(i), uint64(j - i)})
		i = j
	}
	return out
}

type c04Obs struct {
	h       *histRun
	snap    []byte
	nblocks int
	alloc   interface{} // identity of the allocator object seen last
}

func (o *c04Obs) observe(res opResult, target string) c04Step {
	st := c04Step{Res: res, NewBlocks: [][2]uint64{}}
	if o.h.fw != nil {
		w := o.h.fw.VerifC04Writer()
		if w != nil {
			a := w.Allocator()
			if o.alloc != interface{}(a) {
				st.Reset = o.alloc != nil
				o.alloc = a
				o.nblocks = 0
			}
			blocks := a.Blocks() // sorted by offset = allocation order for an append-only allocator
			st.EOF = a.EndOfFile()
			st.NBlocks = len(blocks)
			for _, b := range blocks[o.nblocks:] {
				st.NewBlocks = append(st.NewBlocks, [2]uint64{b.Offset, b.Size})
			}
			o.nblocks = len(blocks)
			if err := a.ValidateNoOverlaps(); err != nil {
				st.Overlap = err.Error()
			}
		}
	}
	cur, err := os.ReadFile(o.h.file)
	if err == nil {
		st.FSize = int64(len(cur))
		st.Changed = c04Diff(o.snap, cur)
		o.snap = cur
	} else {
		st.FSize = -1
		st.Changed = [][2]uint64{}
	}
	if target != "" && o.h.fw != nil {
		var addr uint64
		if d, ok := o.h.ds[target]; ok {
			addr = d.VerifC04Address()
		} else if g, ok := o.h.grp[target]; ok {
			addr = g.VerifC04Address()
		}
		if addr != 0 {
			st.HdrAddr = addr
			func() {
				defer func() {
					if r := recover(); r != nil {
						st.HdrErr = fmt.Sprint(r)
					}
				}()
				oh, err := core.ReadObjectHeader(o.h.fw.VerifC04Writer(), addr, o.h.fw.VerifC04Superblock())
				if err != nil {
					st.HdrErr = err.Error()
					return
				}
				for _, m := range oh.Messages {
					st.Hdr = append(st.Hdr, [2]int{int(m.Type), len(m.Data)})
				}
			}()
		}
	}
	return st
}

func init() {
	handlers["c04unit"] = func(raw json.RawMessage) (interface{}, error) {
		var c c04Case
		if err := json.Unmarshal(raw, &c); err != nil {
			return nil, err
		}
		dir := c.Dir
		if dir == "" {
			dir = os.TempDir()
		}
		tmp, err := os.MkdirTemp(dir, "c04unit-")
		if err != nil {
			return nil, err
		}
		defer os.RemoveAll(tmp)
		hc := &histCase{SB: c.SB, Ops: c.Ops}
		h := &histRun{c: hc, file: filepath.Join(tmp, "f.h5"), ds: map[string]*hdf5.DatasetWriter{},
			grp: map[string]*hdf5.GroupWriter{}, dtypeOf: map[string]string{}, strsize: map[string]uint32{}}
		obs := &c04Obs{h: h}
		var steps []c04Step
		var createRes opResult
		func() {
			defer func() {
				if r := recover(); r != nil {
					createRes = opResult{Panic: fmt.Sprint(r)}
				}
			}()
			fw, err := hdf5.CreateForWrite(h.file, hdf5.CreateTruncate, hdf5.WithSuperblockVersion(uint8(c.SB)))
			if err != nil {
				createRes = opResult{Err: err.Error()}
				return
			}
			h.fw = fw
			createRes = opResult{OK: true}
		}()
		steps = append(steps, obs.observe(createRes, ""))
		for i := range c.Ops {
			op := &c.Ops[i]
			if op.Op == "dump" {
				steps = append(steps, obs.observe(opResult{OK: true}, ""))
				continue
			}
			r := h.applySafe(op)
			target := op.Path
			if op.Op == "hardlink" {
				target = op.Target
			}
			steps = append(steps, obs.observe(r, target))
		}
		if h.fw != nil {
			_ = h.applySafe(&histOp{Op: "close"})
		}
		return map[string]interface{}{"steps": steps}, nil
	}
}
