//go:build verif

package main

import (
	"encoding/hex"
	"encoding/json"
	"fmt"
	"os"
	"path/filepath"

	hdf5 "github.com/scigolib/hdf5"
)

// c13unit: DatasetWriter.Resize at object header level.
//
// One case creates a file with one resizable (chunked, WithMaxDims) dataset "/r" through the public API
// and applies a list of operations through the creating handle.  Around every "resize" the whole file is
// read back from disk (the low-level writer is unbuffered) and the subcommand reports
//   - the bytes of the file from the object header address on (at most c13Window bytes) before and after,
//   - the maximal runs of bytes of the WHOLE file that differ (old image zero-extended),
//   - the result class of the call and the handle fields afterwards (dims, dataSize, chunks per dimension).
//
// input : {"sb":0|2|3,"dtype":"int32","dims":[..],"chunk":[..],"maxdims":[..],"dir":"...",
//          "ops":[{"op":"resize","dims":[..]} | {"op":"attr","name":"a","kind":"i32"|"str"|"[]i32","val":hex}
//                 | {"op":"delattr","name":"a"} | {"op":"hardlink","path":"/l1"} | {"op":"write"}]}
// output: {"create":res,"addr":N,"esize":N,"steps":[{"res":res, (resize only:) "before":hex,"after":hex,
//          "changed":[[start,len]..],"fsize":[before,after],"dims":[..],"datasize":N,"chunks":[..]}]}

const c13Window = 288

type c13Op struct {
	Op   string   `json:"op"`
	Dims []uint64 `json:"dims,omitempty"`
	Name string   `json:"name,omitempty"`
	Kind string   `json:"kind,omitempty"`
	Val  string   `json:"val,omitempty"`
	Path string   `json:"path,omitempty"`
}

type c13Case struct {
	SB      int      `json:"sb"`
	Dtype   string   `json:"dtype"`
	Dims    []uint64 `json:"dims"`
	Chunk   []uint64 `json:"chunk"`
	MaxDims []uint64 `json:"maxdims"`
	Dir     string   `json:"dir"`
	Ops     []c13Op  `json:"ops"`
}

type c13Step struct {
	Res      opResult    `json:"res"`
	Before   string      `json:"before,omitempty"`
	After    string      `json:"after,omitempty"`
	Changed  [][2]uint64 `json:"changed,omitempty"`
	FSize    [2]int      `json:"fsize,omitempty"`
	Dims     []uint64    `json:"dims,omitempty"`
	DataSize uint64      `json:"datasize,omitempty"`
	Chunks   []uint64    `json:"chunks,omitempty"`
	IsResize bool        `json:"is_resize,omitempty"`
}

type c13Out struct {
	Create opResult  `json:"create"`
	Addr   uint64    `json:"addr"`
	ESize  int       `json:"esize"`
	Steps  []c13Step `json:"steps"`
}

var c13ElemSize = map[string]int{"int8": 1, "uint8": 1, "int16": 2, "uint16": 2, "int32": 4, "uint32": 4,
	"float32": 4, "int64": 8, "uint64": 8, "float64": 8}

func c13Guard(f func() error) (res opResult) {
	defer func() {
		if r := recover(); r != nil {
			res = opResult{Panic: fmt.Sprint(r)}
		}
	}()
	if err := f(); err != nil {
		return opResult{Err: err.Error()}
	}
	return opResult{OK: true}
}

func c13Window_(img []byte, addr uint64) string {
	if addr >= uint64(len(img)) {
		return ""
	}
	end := addr + c13Window
	if end > uint64(len(img)) {
		end = uint64(len(img))
	}
	return hex.EncodeToString(img[addr:end])
}

func c13Diff(old, cur []byte) [][2]uint64 {
	out := [][2]uint64{}
	n := len(cur)
	if len(old) > n {
		n = len(old)
	}
	at := func(b []byte, i int) byte {
		if i < len(b) {
			return b[i]
		}
		return 0
	}
	i := 0
	for i < n {
		if at(old, i) == at(cur, i) {
			i++
			continue
		}
		j := i
		for j < n && at(old, j) != at(cur, j) {
			j++
		}
		out = append(out, [2]uint64{uint64(i), uint64(j - i)})
		i = j
	}
	return out
}

var c13Seq int

func init() {
	handlers["c13unit"] = func(raw json.RawMessage) (interface{}, error) {
		var c c13Case
		if err := json.Unmarshal(raw, &c); err != nil {
			return nil, err
		}
		dt, ok := dtypeByName[c.Dtype]
		esz, ok2 := c13ElemSize[c.Dtype]
		if !ok || !ok2 {
			return nil, fmt.Errorf("c13unit: unknown dtype %q", c.Dtype)
		}
		dir := c.Dir
		if dir == "" {
			dir = os.TempDir()
		}
		c13Seq++
		file := filepath.Join(dir, fmt.Sprintf("c13unit-%d-%d.h5", os.Getpid(), c13Seq))
		defer os.Remove(file)
		out := &c13Out{ESize: esz, Steps: []c13Step{}}
		var fw *hdf5.FileWriter
		var d *hdf5.DatasetWriter
		out.Create = c13Guard(func() error {
			var e error
			fw, e = hdf5.CreateForWrite(file, hdf5.CreateTruncate, hdf5.WithSuperblockVersion(uint8(c.SB)))
			if e != nil {
				return e
			}
			d, e = fw.CreateDataset("/r", dt, c.Dims, hdf5.WithChunkDims(c.Chunk), hdf5.WithMaxDims(c.MaxDims))
			return e
		})
		if fw != nil {
			defer func() { _ = c13Guard(fw.Close) }()
		}
		if !out.Create.OK || d == nil {
			return out, nil
		}
		out.Addr = d.VerifC13Address()
		for i := range c.Ops {
			op := &c.Ops[i]
			st := c13Step{}
			switch op.Op {
			case "resize":
				st.IsResize = true
				before, e := os.ReadFile(file)
				if e != nil {
					return nil, e
				}
				st.Res = c13Guard(func() error { return d.Resize(op.Dims) })
				after, e := os.ReadFile(file)
				if e != nil {
					return nil, e
				}
				st.Before = c13Window_(before, out.Addr)
				st.After = c13Window_(after, out.Addr)
				st.Changed = c13Diff(before, after)
				st.FSize = [2]int{len(before), len(after)}
				st.Dims, _, st.DataSize, st.Chunks = d.VerifC13State()
			case "attr":
				rawv, e := hex.DecodeString(op.Val)
				if e != nil {
					return nil, e
				}
				v, e := attrValue(op.Kind, rawv)
				if e != nil {
					return nil, e
				}
				st.Res = c13Guard(func() error { return d.WriteAttribute(op.Name, v) })
			case "delattr":
				st.Res = c13Guard(func() error { return d.DeleteAttribute(op.Name) })
			case "hardlink":
				st.Res = c13Guard(func() error { return fw.CreateHardLink(op.Path, "/r") })
			case "write":
				dims, _, _, _ := d.VerifC13State()
				n := uint64(1)
				for _, x := range dims {
					n *= x
				}
				if n > 1<<16 {
					st.Res = opResult{Err: "harness: write skipped (too many elements)"}
					break
				}
				rawd := make([]byte, int(n)*esz)
				for k := range rawd {
					rawd[k] = byte(k*7 + i)
				}
				v, e := typedSlice(c.Dtype, rawd, 0)
				if e != nil {
					return nil, e
				}
				st.Res = c13Guard(func() error { return d.Write(v) })
			default:
				return nil, fmt.Errorf("c13unit: unknown op %q", op.Op)
			}
			out.Steps = append(out.Steps, st)
		}
		return out, nil
	}
}
