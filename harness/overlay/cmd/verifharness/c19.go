//go:build verif

package main

import (
	"context"
	"encoding/hex"
	"encoding/json"
	"fmt"
	"math"
	"os"
	"path/filepath"
	"sort"
	"strings"
	"time"

	"github.com/scigolib/hdf5"
	"github.com/scigolib/hdf5/internal/core"
	"github.com/scigolib/hdf5/internal/rebalancing"
	"github.com/scigolib/hdf5/internal/structures"
)

// ---------------------------------------------------------------------------------------------
// c19sel: ConfigSelector.SelectConfig under a scripted clock.
//
// case:   {"strategy":"rule"|"script","table":[modes...],
//          "min_conf":u64 bits,"min_stab":int64 ns,"allowed":[modes...],
//          "obs":[{"del":bits,"write":bits,"read":bits,"burst":bool,"size":u64,"samples":int,
//                  "w":int,"sec":int64,"nsec":int64}, ...]}
// result: {"dec":[{"mode","conf"(bits),"kind","cfg","raw_mode","raw_conf","raw_cfg","reason"}...]}
//
// strategy "rule"   = the built-in RuleBasedStrategy (NewConfigSelector default);
// strategy "script" = a SelectionStrategy that is a pure function of its arguments: mode =
//   table[workloadType] ("none" outside the table), confidence = features.DeleteRatio, config kind
//   = features.FileSize (0 nil, 1 lazy, 2 incremental) - the same function as Model.Selector.scripted.
// ---------------------------------------------------------------------------------------------

type c19Obs struct {
	Del     uint64 `json:"del"`
	Write   uint64 `json:"write"`
	Read    uint64 `json:"read"`
	Burst   bool   `json:"burst"`
	Size    uint64 `json:"size"`
	Samples int    `json:"samples"`
	W       int    `json:"w"`
	Sec     int64  `json:"sec"`
	Nsec    int64  `json:"nsec"`
}

type c19SelCase struct {
	Strategy string   `json:"strategy"`
	Table    []string `json:"table"`
	MinConf  uint64   `json:"min_conf"`
	MinStab  int64    `json:"min_stab"`
	Allowed  []string `json:"allowed"`
	Obs      []c19Obs `json:"obs"`
}

type c19Dec struct {
	Mode    string `json:"mode"`
	Conf    uint64 `json:"conf"`
	Kind    int    `json:"kind"`
	Cfg     int    `json:"cfg"`
	RawMode string `json:"raw_mode"`
	RawConf uint64 `json:"raw_conf"`
	RawCfg  int    `json:"raw_cfg"`
	Reason  string `json:"reason"`
}

type c19Clock struct{ now time.Time }

func (c *c19Clock) Now() time.Time { return c.now }

type c19Script struct{ table []rebalancing.Mode }

func (s *c19Script) Select(f rebalancing.WorkloadFeatures, w rebalancing.WorkloadType) rebalancing.Decision {
	m := rebalancing.ModeNone
	if int(w) >= 0 && int(w) < len(s.table) {
		m = s.table[int(w)]
	}
	var cfg interface{}
	switch f.FileSize {
	case 1:
		c := structures.DefaultLazyConfig()
		cfg = &c
	case 2:
		c := structures.DefaultIncrementalConfig()
		cfg = &c
	}
	return rebalancing.Decision{Mode: m, Confidence: f.DeleteRatio, Config: cfg, Reason: "scripted"}
}

func c19CfgKind(cfg interface{}) int {
	switch c := cfg.(type) {
	case nil:
		return 0
	case *structures.LazyRebalancingConfig:
		if c == nil {
			return 0
		}
		return 1
	case *structures.IncrementalRebalancingConfig:
		if c == nil {
			return 0
		}
		return 2
	default:
		return 9
	}
}

func c19ReasonKind(reason string) int {
	switch {
	case strings.HasPrefix(reason, "Low confidence"):
		return 1
	case strings.HasPrefix(reason, "Mode ") && strings.Contains(reason, "not allowed"):
		return 2
	case strings.HasPrefix(reason, "Mode stability enforced"):
		return 3
	default:
		return 0
	}
}

func c19Features(o c19Obs) rebalancing.WorkloadFeatures {
	return rebalancing.WorkloadFeatures{
		DeleteRatio:   math.Float64frombits(o.Del),
		WriteRatio:    math.Float64frombits(o.Write),
		ReadRatio:     math.Float64frombits(o.Read),
		BurstDetected: o.Burst,
		FileSize:      o.Size,
		SampleSize:    o.Samples,
	}
}

func c19Sel(raw json.RawMessage) (interface{}, error) {
	var c c19SelCase
	if err := json.Unmarshal(raw, &c); err != nil {
		return nil, err
	}
	clock := &c19Clock{}
	allowed := make([]rebalancing.Mode, len(c.Allowed))
	for i, m := range c.Allowed {
		allowed[i] = rebalancing.Mode(m)
	}
	cons := rebalancing.DefaultSafetyConstraints()
	cons.MinConfidence = math.Float64frombits(c.MinConf)
	cons.MinStabilityPeriod = time.Duration(c.MinStab)
	cons.AllowedModes = allowed
	opts := []rebalancing.SelectorOption{
		rebalancing.WithSafetyConstraints(cons),
		rebalancing.WithSelectorClock(clock),
	}
	var rawStrategy rebalancing.SelectionStrategy = &rebalancing.RuleBasedStrategy{}
	if c.Strategy == "script" {
		t := make([]rebalancing.Mode, len(c.Table))
		for i, m := range c.Table {
			t[i] = rebalancing.Mode(m)
		}
		rawStrategy = &c19Script{table: t}
		opts = append(opts, rebalancing.WithStrategy(rawStrategy))
	}
	sel := rebalancing.NewConfigSelector(opts...)
	out := make([]c19Dec, 0, len(c.Obs))
	for _, o := range c.Obs {
		f := c19Features(o)
		w := rebalancing.WorkloadType(o.W)
		clock.now = time.Unix(o.Sec, o.Nsec)
		rd := rawStrategy.Select(f, w) // the proposal (both strategies are pure functions)
		d := sel.SelectConfig(f, w)
		out = append(out, c19Dec{
			Mode: string(d.Mode), Conf: math.Float64bits(d.Confidence),
			Kind: c19ReasonKind(d.Reason), Cfg: c19CfgKind(d.Config),
			RawMode: string(rd.Mode), RawConf: math.Float64bits(rd.Confidence), RawCfg: c19CfgKind(rd.Config),
			Reason: d.Reason,
		})
	}
	return map[string]interface{}{"dec": out}, nil
}

// ---------------------------------------------------------------------------------------------
// c19eval: the whole pipeline SmartRebalancer.Evaluate = WorkloadDetector.ExtractFeatures +
// DetectWorkloadType + ConfigSelector.SelectConfig, every component on one scripted clock.
//
// case:   {"min_conf","min_stab","allowed","window":ns,"min_samples":int,"capacity":int,
//          "steps":[{"sec","nsec","op":0|1|2 (record read/write/delete) | 9 (evaluate),"size":u64}...]}
// result: {"dec":[ for every evaluate step: {"mode","conf","kind","cfg","w":workload type,
//           "del","write","read" (ratio bits),"burst","size","samples"} ]}
// ---------------------------------------------------------------------------------------------

type c19Step struct {
	Sec  int64  `json:"sec"`
	Nsec int64  `json:"nsec"`
	Op   int    `json:"op"`
	Size uint64 `json:"size"`
}

type c19EvalCase struct {
	MinConf    uint64    `json:"min_conf"`
	MinStab    int64     `json:"min_stab"`
	Allowed    []string  `json:"allowed"`
	Window     int64     `json:"window"`
	MinSamples int       `json:"min_samples"`
	Capacity   int       `json:"capacity"`
	Steps      []c19Step `json:"steps"`
}

type c19BTree struct{ size uint64 }

func (b *c19BTree) EnableLazyRebalancing(structures.LazyRebalancingConfig) error { return nil }
func (b *c19BTree) EnableIncrementalRebalancing(structures.IncrementalRebalancingConfig) error {
	return nil
}
func (b *c19BTree) DisableRebalancing() error                          { return nil }
func (b *c19BTree) StartBackgroundRebalancing(context.Context) error { return nil }
func (b *c19BTree) StopBackgroundRebalancing() error                   { return nil }
func (b *c19BTree) GetFileSize() uint64                                { return b.size }

func c19Eval(raw json.RawMessage) (interface{}, error) {
	var c c19EvalCase
	if err := json.Unmarshal(raw, &c); err != nil {
		return nil, err
	}
	clock := &c19Clock{}
	if len(c.Steps) > 0 {
		clock.now = time.Unix(c.Steps[0].Sec, c.Steps[0].Nsec)
	}
	allowed := make([]rebalancing.Mode, len(c.Allowed))
	for i, m := range c.Allowed {
		allowed[i] = rebalancing.Mode(m)
	}
	cons := rebalancing.DefaultSafetyConstraints()
	cons.MinConfidence = math.Float64frombits(c.MinConf)
	cons.MinStabilityPeriod = time.Duration(c.MinStab)
	cons.AllowedModes = allowed
	det := rebalancing.NewWorkloadDetector(
		rebalancing.WithWindowSize(time.Duration(c.Window)),
		rebalancing.WithMinSampleSize(c.MinSamples),
		rebalancing.WithCapacity(c.Capacity),
		rebalancing.WithClock(clock),
	)
	defer det.Close()
	sel := rebalancing.NewConfigSelector(
		rebalancing.WithSafetyConstraints(cons),
		rebalancing.WithSelectorClock(clock),
	)
	bt := &c19BTree{}
	sr := rebalancing.NewSmartRebalancer(bt,
		rebalancing.WithDetector(det), rebalancing.WithSelector(sel), rebalancing.WithRebalancerClock(clock))
	var out []map[string]interface{}
	for _, s := range c.Steps {
		clock.now = time.Unix(s.Sec, s.Nsec)
		if s.Op != 9 {
			bt.size = s.Size
			if err := sr.RecordOperation(rebalancing.OperationType(s.Op)); err != nil {
				return nil, err
			}
			continue
		}
		f := det.ExtractFeatures()
		w := det.DetectWorkloadType()
		d, err := sr.Evaluate()
		if err != nil {
			return nil, err
		}
		out = append(out, map[string]interface{}{
			"mode": string(d.Mode), "conf": math.Float64bits(d.Confidence),
			"kind": c19ReasonKind(d.Reason), "cfg": c19CfgKind(d.Config), "w": int(w),
			"del": math.Float64bits(f.DeleteRatio), "write": math.Float64bits(f.WriteRatio),
			"read": math.Float64bits(f.ReadRatio), "burst": f.BurstDetected, "size": f.FileSize,
			"samples": f.SampleSize, "reason": d.Reason,
		})
	}
	return map[string]interface{}{"dec": out}, nil
}

// ---------------------------------------------------------------------------------------------
// c19cfg: one attribute history on one dataset, written through the public API under a given
// rebalancing configuration, closed, reopened with hdf5.Open, dumped.
//
// case: {"path":file under <clone>/build,"config":{"kind":"default|none|immediate|lazy|incremental|smart",
//          "threshold":f,"delay":ns,"batch":n,"budget":ns,"interval":ns,
//          "autodetect":b,"autoswitch":b,"minsize":n,"allowed":[..]},
//        "toggles":[{"at":opIndex,"action":"disable|enable|enable_lazy|disable_lazy|enable_incr|stop_incr|
//                     rebalance_all|force_batch|rebalance_attr"}],
//        "ops":[{"op":"set","name":..,"type":"i32|f64|str|i32s|f64s","i":..,"f":bits,"s":..,"is":[..],"fs":[bits..]},
//               {"op":"del","name":..},
//               {"op":"reopen"}   Close + OpenForWrite (WriteOptions of the configuration) + OpenDataset]}
// result: {"ops":["ok"|"err"...],"errs":[messages],"toggles":[...],"close":"ok|err",
//          "dump":[{"name","class","size","dims","data"(hex),"value"}...] | "open_err"}
// ---------------------------------------------------------------------------------------------

type c19Config struct {
	Kind       string   `json:"kind"`
	Threshold  float64  `json:"threshold"`
	Delay      int64    `json:"delay"`
	Batch      int      `json:"batch"`
	Budget     int64    `json:"budget"`
	Interval   int64    `json:"interval"`
	AutoDetect bool     `json:"autodetect"`
	AutoSwitch bool     `json:"autoswitch"`
	MinSize    uint64   `json:"minsize"`
	Allowed    []string `json:"allowed"`
}

type c19Toggle struct {
	At     int    `json:"at"`
	Action string `json:"action"`
}

type c19AttrOp struct {
	Op   string   `json:"op"`
	Name string   `json:"name"`
	Type string   `json:"type"`
	I    int32    `json:"i"`
	F    uint64   `json:"f"`
	S    string   `json:"s"`
	Is   []int32  `json:"is"`
	Fs   []uint64 `json:"fs"`
}

type c19CfgCase struct {
	Path    string      `json:"path"`
	Config  c19Config   `json:"config"`
	Toggles []c19Toggle `json:"toggles"`
	Ops     []c19AttrOp `json:"ops"`
}

func c19Options(c c19Config) []interface{} {
	switch c.Kind {
	case "none":
		return []interface{}{hdf5.WithBTreeRebalancing(false)}
	case "immediate":
		return []interface{}{hdf5.WithBTreeRebalancing(true)}
	case "lazy":
		return []interface{}{hdf5.WithLazyRebalancing(
			hdf5.LazyThreshold(c.Threshold), hdf5.LazyMaxDelay(time.Duration(c.Delay)), hdf5.LazyBatchSize(c.Batch))}
	case "incremental":
		return []interface{}{
			hdf5.WithLazyRebalancing(),
			hdf5.WithIncrementalRebalancing(
				hdf5.IncrementalBudget(time.Duration(c.Budget)), hdf5.IncrementalInterval(time.Duration(c.Interval))),
		}
	case "smart":
		return []interface{}{hdf5.WithSmartRebalancing(
			hdf5.SmartAutoDetect(c.AutoDetect), hdf5.SmartAutoSwitch(c.AutoSwitch),
			hdf5.SmartMinFileSize(c.MinSize), hdf5.SmartAllowedModes(c.Allowed...))}
	default:
		return nil
	}
}

// c19ReopenOptions: what of a configuration can be given to OpenForWrite (WriteOptions only).
func c19ReopenOptions(c c19Config) []hdf5.WriteOption {
	switch c.Kind {
	case "none":
		return []hdf5.WriteOption{hdf5.WithBTreeRebalancing(false)}
	case "immediate":
		return []hdf5.WriteOption{hdf5.WithBTreeRebalancing(true)}
	default:
		return nil
	}
}

func c19Value(o c19AttrOp) interface{} {
	switch o.Type {
	case "i32":
		return o.I
	case "f64":
		return math.Float64frombits(o.F)
	case "str":
		return o.S
	case "i32s":
		return append([]int32{}, o.Is...)
	default: // f64s
		v := make([]float64, len(o.Fs))
		for i, b := range o.Fs {
			v[i] = math.Float64frombits(b)
		}
		return v
	}
}

func okErr(err error) string {
	if err != nil {
		return "err"
	}
	return "ok"
}

func c19Toggle1(fw *hdf5.FileWriter, ds *hdf5.DatasetWriter, c c19Config, action string) error {
	switch action {
	case "disable":
		fw.DisableRebalancing()
	case "enable":
		fw.EnableRebalancing()
	case "enable_lazy":
		lc := structures.DefaultLazyConfig()
		if c.Threshold > 0 {
			lc.Threshold = c.Threshold
		}
		if c.Delay > 0 {
			lc.MaxDelay = time.Duration(c.Delay)
		}
		return fw.EnableLazyRebalancing(lc)
	case "disable_lazy":
		return fw.DisableLazyRebalancing()
	case "enable_incr":
		ic := structures.DefaultIncrementalConfig()
		if c.Budget > 0 {
			ic.Budget = time.Duration(c.Budget)
		}
		if c.Interval > 0 {
			ic.Interval = time.Duration(c.Interval)
		}
		return fw.EnableIncrementalRebalancing(ic)
	case "stop_incr":
		return fw.StopIncrementalRebalancing()
	case "rebalance_all":
		return fw.RebalanceAllBTrees()
	case "force_batch":
		return fw.ForceBatchRebalance()
	case "rebalance_attr":
		return ds.RebalanceAttributeBTree()
	default:
		return fmt.Errorf("unknown toggle %q", action)
	}
	return nil
}

func c19DumpAttrs(path string) (interface{}, string) {
	f, err := hdf5.Open(path)
	if err != nil {
		return nil, "open: " + err.Error()
	}
	defer f.Close()
	var ds *hdf5.Dataset
	f.Walk(func(p string, o hdf5.Object) {
		if d, ok := o.(*hdf5.Dataset); ok && (p == "/d" || p == "/d/" || strings.TrimSuffix(p, "/") == "/d") {
			ds = d
		}
	})
	if ds == nil {
		return nil, "dataset /d not found after reopen"
	}
	attrs, err := ds.Attributes()
	if err != nil {
		return nil, "attributes: " + err.Error()
	}
	type ent struct {
		Name  string   `json:"name"`
		Class int      `json:"class"`
		Size  uint32   `json:"size"`
		Dims  []uint64 `json:"dims"`
		Data  string   `json:"data"`
		Value string   `json:"value"`
	}
	out := make([]ent, 0, len(attrs))
	for _, a := range attrs {
		e := ent{Name: a.Name, Data: hex.EncodeToString(a.Data), Dims: []uint64{}}
		if a.Datatype != nil {
			e.Class, e.Size = int(a.Datatype.Class), a.Datatype.Size
		}
		if a.Dataspace != nil && a.Dataspace.Dimensions != nil {
			e.Dims = a.Dataspace.Dimensions
		}
		v, verr := a.ReadValue()
		if verr != nil {
			e.Value = "ERR"
		} else {
			e.Value = fmt.Sprintf("%T:%v", v, v)
		}
		out = append(out, e)
	}
	sort.SliceStable(out, func(i, j int) bool { return out[i].Name < out[j].Name })
	return out, ""
}

func c19Cfg(raw json.RawMessage) (interface{}, error) {
	var c c19CfgCase
	if err := json.Unmarshal(raw, &c); err != nil {
		return nil, err
	}
	if !strings.Contains(filepath.ToSlash(c.Path), "/build/") {
		return nil, fmt.Errorf("refusing to write outside a build directory: %s", c.Path)
	}
	if err := os.MkdirAll(filepath.Dir(c.Path), 0o755); err != nil {
		return nil, err
	}
	defer os.Remove(c.Path)
	fw, err := hdf5.CreateForWrite(c.Path, hdf5.CreateTruncate, c19Options(c.Config)...)
	if err != nil {
		return map[string]interface{}{"create_err": err.Error()}, nil
	}
	ds, err := fw.CreateDataset("/d", hdf5.Int32, []uint64{3})
	if err != nil {
		_ = fw.Close()
		return map[string]interface{}{"create_err": "dataset: " + err.Error()}, nil
	}
	werr := ds.Write([]int32{1, 2, 3})
	togAt := map[int][]string{}
	for _, t := range c.Toggles {
		togAt[t.At] = append(togAt[t.At], t.Action)
	}
	ops := make([]string, 0, len(c.Ops))
	errs := make([]string, 0)
	togs := make([]string, 0)
	for i, o := range c.Ops {
		for _, a := range togAt[i] {
			togs = append(togs, a+":"+okErr(c19Toggle1(fw, ds, c.Config, a)))
		}
		var e error
		switch {
		case o.Op == "reopen":
			// session boundary (part of the HISTORY, the same under every configuration): Close, then
			// OpenForWrite with the WriteOptions of the configuration (OpenForWrite takes no FileWriterOption)
			// and OpenDataset: the following calls go through the cached-header paths
			// (writeAttributeWithCachedHeader / deleteAttributeWithCachedHeader).
			if e = fw.Close(); e == nil {
				var nfw *hdf5.FileWriter
				if nfw, e = hdf5.OpenForWrite(c.Path, hdf5.OpenReadWrite, c19ReopenOptions(c.Config)...); e == nil {
					var nds *hdf5.DatasetWriter
					if nds, e = nfw.OpenDataset("/d"); e == nil {
						fw, ds = nfw, nds
					} else {
						_ = nfw.Close()
					}
				}
			}
			if e != nil {
				// no writer any more: report and stop (the same happens under every configuration)
				ops = append(ops, "err")
				errs = append(errs, fmt.Sprintf("%d:reopen: %v", i, e))
				res := map[string]interface{}{"ops": ops, "errs": errs, "toggles": togs, "write": okErr(werr), "close": "reopen-failed"}
				dump, derr := c19DumpAttrs(c.Path)
				if derr != "" {
					res["open_err"] = derr
				} else {
					res["dump"] = dump
				}
				return res, nil
			}
		case o.Op == "del":
			e = ds.DeleteAttribute(o.Name)
		default:
			e = ds.WriteAttribute(o.Name, c19Value(o))
		}
		ops = append(ops, okErr(e))
		if e != nil {
			errs = append(errs, fmt.Sprintf("%d:%v", i, e))
		}
	}
	cerr := fw.Close()
	res := map[string]interface{}{"ops": ops, "errs": errs, "toggles": togs, "write": okErr(werr), "close": okErr(cerr)}
	dump, derr := c19DumpAttrs(c.Path)
	if derr != "" {
		res["open_err"] = derr
	} else {
		res["dump"] = dump
	}
	return res, nil
}

// ---------------------------------------------------------------------------------------------
// c19del: the three delete entry points of WritableBTreeV2 on the same record list.
//
// case:   {"names":[inserted in this order, heap id = index+1],"dels":[names to delete in order],
//          "entry":"plain|rebalancing|lazy|dense_plain|dense_rebalancing|dense_lazy","threshold":f}
//         the dense_* entries go through core.DeleteDenseAttribute's switch (attribute_modify.go:370-380)
// result: {"ops":["ok"|"err"...],"records":[[hash, heapid]...],"total":TotalRecords as seen by GetRecords}
// ---------------------------------------------------------------------------------------------

type c19DelCase struct {
	Names     []string `json:"names"`
	Dels      []string `json:"dels"`
	Entry     string   `json:"entry"`
	Threshold float64  `json:"threshold"`
}

func c19Del(raw json.RawMessage) (interface{}, error) {
	var c c19DelCase
	if err := json.Unmarshal(raw, &c); err != nil {
		return nil, err
	}
	bt := structures.NewWritableBTreeV2(4096)
	ins := make([]string, 0, len(c.Names))
	for i, n := range c.Names {
		ins = append(ins, okErr(bt.InsertRecord(n, uint64(i+1))))
	}
	if strings.HasSuffix(c.Entry, "lazy") {
		lc := structures.DefaultLazyConfig()
		if c.Threshold != 0 {
			lc.Threshold = c.Threshold
		}
		bt.EnableLazyRebalancing(lc)
	}
	ops := make([]string, 0, len(c.Dels))
	for _, n := range c.Dels {
		var e error
		switch c.Entry {
		case "plain":
			e = bt.DeleteRecord(n)
		case "rebalancing":
			e = bt.DeleteRecordWithRebalancing(n)
		case "lazy":
			e = bt.DeleteRecordLazy(n)
		default:
			e = c19DenseDelete(bt, n, c.Entry == "dense_rebalancing")
		}
		ops = append(ops, okErr(e))
	}
	recs := bt.GetRecords()
	out := make([][2]uint64, 0, len(recs))
	for _, r := range recs {
		var b [8]byte
		copy(b[:7], r.HeapID[:])
		var id uint64
		for k := 6; k >= 0; k-- {
			id = id<<8 | uint64(b[k])
		}
		out = append(out, [2]uint64{uint64(r.NameHash), id})
	}
	found := make([]bool, 0, len(c.Names))
	for _, n := range c.Names {
		_, ok := bt.SearchRecord(n)
		found = append(found, ok)
	}
	return map[string]interface{}{"ins": ins, "ops": ops, "records": out, "found": found}, nil
}

// c19Heap is a HeapWriter that accepts everything (the heap is not what c19del looks at).
type c19Heap struct{}

func (c19Heap) GetObject([]byte) ([]byte, error)        { return nil, nil }
func (c19Heap) OverwriteObject([]byte, []byte) error    { return nil }
func (c19Heap) DeleteObject([]byte) error               { return nil }
func (c19Heap) InsertObject([]byte) ([]byte, error)     { return make([]byte, 7), nil }

func c19DenseDelete(bt *structures.WritableBTreeV2, name string, rebalance bool) error {
	return core.DeleteDenseAttribute(c19Heap{}, bt, name, rebalance)
}

func init() {
	handlers["c19sel"] = c19Sel
	handlers["c19eval"] = c19Eval
	handlers["c19cfg"] = c19Cfg
	handlers["c19del"] = c19Del
}
