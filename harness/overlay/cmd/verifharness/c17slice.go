//go:build verif

package main

// C17: Dataset.ReadSlice / ReadHyperslab / ChunkIterator on a Dataset handle built WITHOUT hdf5.Open
// (hdf5.VerifDatasetAt), so that the pread64 calls of the process are exactly the I/O calls of the method:
//   - single mode (no cuts): one call; run under strace (trace + inject=pread64) by tools/props/c17.py;
//   - cuts mode: the same call on truncated scratch copies, in process.
// The superblock handed to the Dataset is the intact file's, parsed from memory (no pread64).

import (
	"bufio"
	"encoding/binary"
	"encoding/hex"
	"encoding/json"
	"errors"
	"fmt"
	"math"
	"os"
	"path/filepath"
	"runtime"

	"github.com/scigolib/hdf5"
	"github.com/scigolib/hdf5/internal/core"
)

type c17SliceCase struct {
	Addr   uint64   `json:"addr"`
	Op     string   `json:"op"` // slice | hyperslab | chunkiter | chunks
	Start  []uint64 `json:"start"`
	Count  []uint64 `json:"count"`
	Stride []uint64 `json:"stride"` // null = nil
	Block  []uint64 `json:"block"`  // null = nil
	Cuts   []int    `json:"cuts"`
	Dir    string   `json:"dir"`
}

type c17SliceRes struct {
	Class int         `json:"class"` // 0 ok, 1 err, 2 panic
	V     interface{} `json:"v,omitempty"`
	Err   string      `json:"err,omitempty"`
}

// c17Unfloat: the element bytes the []float64 result was converted from (convertToFloat64 is injective on them
// for float64, float32, int32 and for the int64 values below 2^53 the tie uses)
func c17Unfloat(vals []float64, dt *core.DatatypeMessage) string {
	bo := dt.GetByteOrder()
	var out []byte
	u32 := func(v uint32) { var b [4]byte; bo.PutUint32(b[:], v); out = append(out, b[:]...) }
	u64 := func(v uint64) { var b [8]byte; bo.PutUint64(b[:], v); out = append(out, b[:]...) }
	for _, x := range vals {
		switch {
		case dt.IsFloat64():
			u64(math.Float64bits(x))
		case dt.IsFloat32():
			u32(math.Float32bits(float32(x)))
		case dt.IsInt32():
			if dt.IsSigned() {
				u32(uint32(int32(x)))
			} else {
				u32(uint32(x))
			}
		case dt.IsInt64():
			if dt.IsSigned() {
				u64(uint64(int64(x)))
			} else {
				u64(uint64(x))
			}
		}
	}
	return hex.EncodeToString(out)
}

var _ = binary.LittleEndian

func c17SliceCall(f *os.File, sb *core.Superblock, dt *core.DatatypeMessage, c *c17SliceCase) (res c17SliceRes) {
	defer func() {
		if r := recover(); r != nil {
			res = c17SliceRes{Class: 2, Err: fmt.Sprint(r)}
		}
	}()
	d := hdf5.VerifDatasetAt(f, sb, c.Addr)
	fail := func(err error) c17SliceRes { return c17SliceRes{Class: 1, Err: err.Error()} }
	switch c.Op {
	case "slice", "hyperslab":
		var v interface{}
		var err error
		if c.Op == "slice" {
			v, err = d.ReadSlice(c.Start, c.Count)
		} else {
			v, err = d.ReadHyperslab(&hdf5.HyperslabSelection{Start: c.Start, Count: c.Count, Stride: c.Stride, Block: c.Block})
		}
		if err != nil {
			return fail(err)
		}
		fl, ok := v.([]float64)
		if !ok || dt == nil {
			return c17SliceRes{Class: 0, V: fmt.Sprintf("%T", v)}
		}
		return c17SliceRes{Class: 0, V: c17Unfloat(fl, dt)}
	case "chunkiter", "chunks":
		it, err := d.ChunkIterator()
		if err != nil {
			return fail(err)
		}
		coords := []interface{}{}
		for it.Next() {
			cc := it.ChunkCoords()
			coords = append(coords, append([]uint64{}, cc...))
			if c.Op == "chunks" {
				if _, err := it.Chunk(); err != nil {
					return fail(err)
				}
			}
		}
		if err := it.Err(); err != nil {
			return fail(err)
		}
		return c17SliceRes{Class: 0, V: []interface{}{coords, it.ChunkDims(), it.DatasetDims()}}
	}
	panic("harness: unknown op " + c.Op)
}

func init() {
	// c17slice <file>   (case on stdin)
	bulk["c17slice"] = func(args []string) error {
		if len(args) < 1 {
			return errors.New("usage: c17slice <file>  (JSON case on stdin)")
		}
		var c c17SliceCase
		if err := json.NewDecoder(bufio.NewReader(os.Stdin)).Decode(&c); err != nil {
			return err
		}
		img, err := os.ReadFile(args[0]) // read(2), not pread64
		if err != nil {
			return err
		}
		sb, err := core.ReadSuperblock(&c17ImgReader{img})
		if err != nil {
			return fmt.Errorf("harness: intact superblock: %w", err)
		}
		var dt *core.DatatypeMessage
		if h, err := core.ReadObjectHeader(&c17ImgReader{img}, c.Addr, sb); err == nil {
			if info, err := core.ReadDatasetInfo(h, sb); err == nil {
				dt = info.Datatype
			}
		}
		c17Watchdog(120)
		out := bufio.NewWriter(os.Stdout)
		defer out.Flush()
		if len(c.Cuts) == 0 {
			runtime.LockOSThread() // strace counts `when=` per thread
			f, err := os.Open(args[0])
			if err != nil {
				return err
			}
			defer f.Close()
			return json.NewEncoder(out).Encode(c17SliceCall(f, sb, dt, &c))
		}
		if err := os.MkdirAll(c.Dir, 0o755); err != nil {
			return err
		}
		work := filepath.Join(c.Dir, fmt.Sprintf("s-%d.h5", os.Getpid()))
		defer os.Remove(work)
		res := make([]c17SliceRes, len(c.Cuts))
		for i, cut := range c.Cuts {
			b := img
			if cut >= 0 && cut < len(img) {
				b = img[:cut]
			}
			if err := os.WriteFile(work, b, 0o644); err != nil {
				return err
			}
			f, err := os.Open(work)
			if err != nil {
				return err
			}
			res[i] = c17SliceCall(f, sb, dt, &c)
			f.Close()
		}
		return json.NewEncoder(out).Encode(map[string]interface{}{"res": res})
	}

	// c17slicetargets <file>: the datasets ReadSlice can serve: address, dimensions, layout, chunk dimensions
	bulk["c17slicetargets"] = func(args []string) error {
		if len(args) < 1 {
			return errors.New("usage: c17slicetargets <file>")
		}
		type tgt struct {
			Addr   uint64   `json:"addr"`
			Path   string   `json:"path"`
			Dims   []uint64 `json:"dims"`
			Layout int      `json:"layout"`
			Chunk  []uint64 `json:"chunk,omitempty"`
			Size   uint32   `json:"size"`
		}
		out := []tgt{}
		f, err := hdf5.Open(args[0])
		if err != nil {
			return json.NewEncoder(os.Stdout).Encode(out)
		}
		defer f.Close()
		seen := map[uint64]bool{}
		f.Walk(func(p string, o hdf5.Object) {
			ds, ok := o.(*hdf5.Dataset)
			if !ok || seen[ds.Address()] {
				return
			}
			seen[ds.Address()] = true
			h, err := core.ReadObjectHeader(f.Reader(), ds.Address(), f.Superblock())
			if err != nil {
				return
			}
			info, err := core.ReadDatasetInfo(h, f.Superblock())
			if err != nil || len(info.Dataspace.Dimensions) == 0 {
				return
			}
			dt := info.Datatype
			if !dt.IsFloat64() && !dt.IsFloat32() && !dt.IsInt32() && !dt.IsInt64() {
				return
			}
			zero := make([]uint64, len(info.Dataspace.Dimensions))
			one := make([]uint64, len(zero))
			for i := range one {
				one[i] = 1
			}
			if _, err := ds.ReadSlice(zero, one); err != nil {
				return
			}
			out = append(out, tgt{Addr: ds.Address(), Path: p, Dims: info.Dataspace.Dimensions, Layout: int(info.Layout.Class),
				Chunk: info.Layout.ChunkSize, Size: dt.Size})
		})
		return json.NewEncoder(os.Stdout).Encode(out)
	}
}
