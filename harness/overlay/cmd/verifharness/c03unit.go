//go:build verif

package main

// c03unit: unit-level tie for property C03 (group/link namespace).
//
// mode "struct": drives the real structures.LocalHeap / structures.SymbolTableNode
//   {"mode":"struct","cap":256,"scap":32,"k":3,"reload":true,"names":["6162",...]}
//   NewLocalHeap(cap), NewSymbolTableNode(scap); for every name AddString then (if that succeeded)
//   AddEntry; after every k-th name WriteTo + WriteAt(…,32,…) into an in-memory file and, when reload is
//   set, LoadLocalHeap + PrepareForModification + ParseSymbolTableNode (what linkToParent does before each
//   insertion).  At the end one more write/load cycle; returns offsets, errors, the final data segment,
//   the entries and GetString of every entry.
//
// mode "link": drives linkToParent (and the calls around it) on a real file
//   {"mode":"link","sb":2,"ops":[{"op":"mkgroup","path":hex},{"op":"mkds","path":hex},
//        {"op":"hardlink","path":hex,"target":hex},{"op":"softlink","path":hex,"target":hex},
//        {"op":"link","parent":hex,"name":hex,"child":N}]}
//   after every call: ok/err, whether any registered group's heap segment or node entries changed on
//   disk, and the object address in the entry that was appended; at the end every registered group's
//   heap segment + entries and the reference count of every linked object.

import (
	"bytes"
	"encoding/binary"
	"encoding/hex"
	"encoding/json"
	"fmt"
	"io"
	"os"
	"path/filepath"
	"sort"
	"strings"

	hdf5 "github.com/scigolib/hdf5"
	"github.com/scigolib/hdf5/internal/core"
	"github.com/scigolib/hdf5/internal/structures"
)

type c03Op struct {
	Op     string `json:"op"`
	Path   string `json:"path"`
	Target string `json:"target"`
	Parent string `json:"parent"`
	Name   string `json:"name"`
	Child  uint64 `json:"child"`
}

type c03Case struct {
	Mode   string   `json:"mode"`
	Cap    uint64   `json:"cap"`
	SCap   uint16   `json:"scap"`
	K      int      `json:"k"`
	Reload bool     `json:"reload"`
	Names  []string `json:"names"`
	SB     int      `json:"sb"`
	Ops    []c03Op  `json:"ops"`
	Dir    string   `json:"dir"`
	Reopen bool     `json:"reopen"` // link mode: close, hdf5.Open, Walk at the end
}

// c03memFile: io.ReaderAt + io.WriterAt over a byte slice (zero-extends like os.File.WriteAt).
type c03memFile struct{ b []byte }

func (m *c03memFile) WriteAt(p []byte, off int64) (int, error) {
	end := int(off) + len(p)
	if end > len(m.b) {
		m.b = append(m.b, make([]byte, end-len(m.b))...)
	}
	copy(m.b[off:], p)
	return len(p), nil
}

func (m *c03memFile) ReadAt(p []byte, off int64) (int, error) {
	if int(off) >= len(m.b) {
		return 0, io.EOF
	}
	n := copy(p, m.b[off:])
	if n < len(p) {
		return n, io.EOF
	}
	return n, nil
}

type c03Step struct {
	Off  uint64 `json:"off"`
	HErr bool   `json:"herr"`
	SErr bool   `json:"serr"`
}

func c03Struct(c *c03Case) (interface{}, error) {
	const heapAddr, snodAddr = 0, 1 << 16
	sb := &core.Superblock{Version: 2, OffsetSize: 8, LengthSize: 8, Endianness: binary.LittleEndian}
	f := &c03memFile{}
	heap := structures.NewLocalHeap(c.Cap)
	node := structures.NewSymbolTableNode(c.SCap)
	dss := heap.DataSegmentSize
	cycle := func(reload bool) error {
		if err := heap.WriteTo(f, heapAddr); err != nil {
			return fmt.Errorf("WriteTo: %w", err)
		}
		if err := node.WriteAt(f, snodAddr, 8, 32, binary.LittleEndian); err != nil {
			return fmt.Errorf("WriteAt: %w", err)
		}
		if !reload {
			return nil
		}
		h, err := structures.LoadLocalHeap(f, heapAddr, sb)
		if err != nil {
			return fmt.Errorf("LoadLocalHeap: %w", err)
		}
		if err := h.PrepareForModification(); err != nil {
			return fmt.Errorf("PrepareForModification: %w", err)
		}
		n, err := structures.ParseSymbolTableNode(f, snodAddr, sb)
		if err != nil {
			return fmt.Errorf("ParseSymbolTableNode: %w", err)
		}
		heap, node = h, n
		return nil
	}
	steps := make([]c03Step, 0, len(c.Names))
	for i, hx := range c.Names {
		nm, err := hex.DecodeString(hx)
		if err != nil {
			return nil, fmt.Errorf("bad hex name")
		}
		var st c03Step
		off, err := heap.AddString(string(nm))
		if err != nil {
			st.HErr = true
		} else {
			st.Off = off
			if err := node.AddEntry(structures.SymbolTableEntry{LinkNameOffset: off, ObjectAddress: uint64(i + 1)}); err != nil {
				st.SErr = true
			}
		}
		steps = append(steps, st)
		if c.K > 0 && (i+1)%c.K == 0 {
			if err := cycle(c.Reload); err != nil {
				return map[string]interface{}{"cycle_error": err.Error(), "at": i, "steps": steps}, nil
			}
		}
	}
	if err := cycle(true); err != nil {
		return map[string]interface{}{"cycle_error": err.Error(), "at": len(c.Names), "steps": steps}, nil
	}
	entries := make([][2]uint64, 0, len(node.Entries))
	names := make([]*string, 0, len(node.Entries))
	for _, e := range node.Entries {
		entries = append(entries, [2]uint64{e.LinkNameOffset, e.ObjectAddress})
		s, err := heap.GetString(e.LinkNameOffset)
		if err != nil {
			names = append(names, nil)
		} else {
			h := hex.EncodeToString([]byte(s))
			names = append(names, &h)
		}
	}
	return map[string]interface{}{"dss": dss, "steps": steps, "data": hex.EncodeToString(heap.Data),
		"entries": entries, "names": names, "snod_cap": cap(node.Entries)}, nil
}

type c03Group struct {
	Path    string      `json:"path"` // hex; "" = root
	Data    string      `json:"data"`
	Entries [][2]uint64 `json:"entries"`
	Err     string      `json:"err,omitempty"`
}

type c03OpRes struct {
	OK      bool   `json:"ok"`
	Err     string `json:"err,omitempty"`
	Panic   string `json:"panic,omitempty"`
	Changed bool   `json:"changed"`
	NewAddr uint64 `json:"newaddr"`
	Header  uint64 `json:"header,omitempty"`
}

func c03Snapshot(fw *hdf5.FileWriter, paths []string) []c03Group {
	out := make([]c03Group, 0, len(paths))
	for _, p := range paths {
		g := c03Group{Path: hex.EncodeToString([]byte(p))}
		ha, sa, ok := fw.VerifGroupStructures(p)
		if !ok {
			g.Err = "not registered"
		} else if data, ents, err := fw.VerifReadGroupStructures(ha, sa); err != nil {
			g.Err = err.Error()
		} else {
			g.Data, g.Entries = hex.EncodeToString(data), ents
			if g.Entries == nil {
				g.Entries = [][2]uint64{}
			}
		}
		out = append(out, g)
	}
	return out
}

func c03Link(c *c03Case) (interface{}, error) {
	dir := c.Dir
	if dir == "" {
		dir = os.TempDir()
	}
	tmp, err := os.MkdirTemp(dir, "c03-")
	if err != nil {
		return nil, err
	}
	defer os.RemoveAll(tmp)
	fpath := filepath.Join(tmp, "f.h5")
	fw, err := hdf5.CreateForWrite(fpath, hdf5.CreateTruncate, hdf5.WithSuperblockVersion(uint8(c.SB)))
	if err != nil {
		return map[string]interface{}{"create_error": err.Error()}, nil
	}
	defer fw.Close()
	tracked := []string{""}
	unhex := func(s string) string { b, _ := hex.DecodeString(s); return string(b) }
	results := make([]c03OpRes, 0, len(c.Ops))
	for i := range c.Ops {
		op := &c.Ops[i]
		before := c03Snapshot(fw, tracked)
		var r c03OpRes
		func() {
			defer func() {
				if rec := recover(); rec != nil {
					r = c03OpRes{Panic: fmt.Sprint(rec)}
				}
			}()
			var e error
			switch op.Op {
			case "mkgroup":
				var g *hdf5.GroupWriter
				g, e = fw.CreateGroup(unhex(op.Path))
				if e == nil {
					r.Header = g.VerifHeaderAddr()
				}
			case "mkds":
				_, e = fw.CreateDataset(unhex(op.Path), hdf5.Int32, []uint64{2})
			case "hardlink":
				e = fw.CreateHardLink(unhex(op.Path), unhex(op.Target))
			case "softlink":
				e = fw.CreateSoftLink(unhex(op.Path), unhex(op.Target))
			case "extlink":
				e = fw.CreateExternalLink(unhex(op.Path), "other.h5", unhex(op.Target))
			case "link":
				e = fw.VerifLinkToParent(unhex(op.Parent), unhex(op.Name), op.Child)
			default:
				e = fmt.Errorf("harness: unknown op %q", op.Op)
			}
			if e != nil {
				r.Err = e.Error()
			} else {
				r.OK = true
			}
		}()
		after := c03Snapshot(fw, tracked)
		for j := range before {
			if before[j].Data != after[j].Data || len(before[j].Entries) != len(after[j].Entries) {
				r.Changed = true
			} else {
				for k := range before[j].Entries {
					if before[j].Entries[k] != after[j].Entries[k] {
						r.Changed = true
					}
				}
			}
			if len(after[j].Entries) == len(before[j].Entries)+1 {
				r.NewAddr = after[j].Entries[len(after[j].Entries)-1][1]
			}
		}
		if r.OK && op.Op == "mkgroup" {
			// fw.groups is keyed by the path CreateGroup registered (raw, or with one trailing slash trimmed)
			key := unhex(op.Path)
			if _, _, ok := fw.VerifGroupStructures(key); !ok {
				key = strings.TrimSuffix(key, "/")
			}
			tracked = append(tracked, key)
		}
		results = append(results, r)
	}
	final := c03Snapshot(fw, tracked)
	// reference counts of every object linked anywhere
	seen := map[uint64]bool{}
	var addrs []uint64
	for _, g := range final {
		for _, e := range g.Entries {
			if !seen[e[1]] {
				seen[e[1]] = true
				addrs = append(addrs, e[1])
			}
		}
	}
	sort.Slice(addrs, func(i, j int) bool { return addrs[i] < addrs[j] })
	rcs := make([][2]uint64, 0, len(addrs))
	for _, a := range addrs {
		if a >= 1<<40 { // synthetic child of a raw "link" op
			continue
		}
		rc, err := fw.VerifRefCount(a)
		if err != nil {
			continue
		}
		rcs = append(rcs, [2]uint64{a, uint64(rc)})
	}
	out := map[string]interface{}{"results": results, "groups": final, "refcounts": rcs}
	if c.Reopen {
		// what the reader shows: Close, Open, Walk (paths, kinds, object addresses in walk order)
		if err := fw.Close(); err != nil {
			out["close_error"] = err.Error()
		}
		func() {
			defer func() {
				if rec := recover(); rec != nil {
					out["open_panic"] = fmt.Sprint(rec)
				}
			}()
			f, err := hdf5.Open(fpath)
			if err != nil {
				out["open_error"] = err.Error()
				return
			}
			defer f.Close()
			walk := [][3]interface{}{}
			f.Walk(func(p string, obj hdf5.Object) {
				switch o := obj.(type) {
				case *hdf5.Group:
					walk = append(walk, [3]interface{}{hex.EncodeToString([]byte(p)), "g", o.VerifAddress()})
				case *hdf5.Dataset:
					walk = append(walk, [3]interface{}{hex.EncodeToString([]byte(p)), "d", o.Address()})
				default:
					walk = append(walk, [3]interface{}{hex.EncodeToString([]byte(p)), fmt.Sprintf("%T", obj), 0})
				}
			})
			out["walk"] = walk
		}()
	}
	return out, nil
}

func init() {
	handlers["c03unit"] = func(raw json.RawMessage) (interface{}, error) {
		var c c03Case
		dec := json.NewDecoder(bytes.NewReader(raw))
		if err := dec.Decode(&c); err != nil {
			return nil, err
		}
		switch c.Mode {
		case "struct":
			return c03Struct(&c)
		case "link":
			return c03Link(&c)
		}
		return nil, fmt.Errorf("c03unit: unknown mode %q", c.Mode)
	}
}
