//go:build verif

package main

import (
	"bytes"
	"encoding/hex"
	"encoding/json"
	"fmt"

	"github.com/scigolib/hdf5/internal/core"
)

// Kind "ohdrv1cont" of subcommand c11: a version 1 object header whose message list continues in ONE
// continuation block, header and block at arbitrary (aligned or unaligned) addresses.
// The library's writer never emits continuation blocks; a version 1 continuation block is a bare sequence of
// version 1 messages, i.e. exactly what ObjectHeaderWriter.writeToV1 writes after its 16-byte prefix.  "enc"
// therefore builds the image with the library's own writer:
//
//	pre | WriteTo(header messages, at addr = len(pre)) | between | WriteTo(block messages)[16:] | suf
//
// The header messages are handed over ready-made (the generator has put the continuation message, type
// 0x10, with the block's address and size among them).  "dec" runs core.ReadObjectHeader at sb.addr and
// returns the same VAL shape as kind "ohdr", continuation message included.
func init() {
	type msg struct {
		Type uint16 `json:"type"`
		Data string `json:"data"`
	}
	mk := func(ms []msg, refc uint32) (*core.ObjectHeaderWriter, error) {
		w := &core.ObjectHeaderWriter{Version: 1, RefCount: refc}
		for _, m := range ms {
			d, err := hex.DecodeString(m.Data)
			if err != nil {
				return nil, err
			}
			w.Messages = append(w.Messages, core.MessageWriter{Type: core.MessageType(m.Type), Data: d})
		}
		return w, nil
	}
	c11Codecs["ohdrv1cont"] = c11Codec{
		enc: func(val json.RawMessage, sb *core.Superblock) ([]byte, error) {
			var v struct {
				RefCount uint32 `json:"refcount"`
				Pre      string `json:"pre"`
				Msgs     []msg  `json:"msgs"`
				Between  string `json:"between"`
				Blk      []msg  `json:"blk"`
				Suf      string `json:"suf"`
			}
			if err := json.Unmarshal(val, &v); err != nil {
				return nil, err
			}
			pre, err1 := hex.DecodeString(v.Pre)
			between, err2 := hex.DecodeString(v.Between)
			suf, err3 := hex.DecodeString(v.Suf)
			if err1 != nil || err2 != nil || err3 != nil {
				return nil, fmt.Errorf("bad hex")
			}
			if uint64(len(pre)) != sb.BaseAddress {
				return nil, fmt.Errorf("pre has %d bytes, address is %d", len(pre), sb.BaseAddress)
			}
			w, err := mk(v.Msgs, v.RefCount)
			if err != nil {
				return nil, err
			}
			mem := &c11Mem{b: append([]byte(nil), pre...)}
			n, err := w.WriteTo(mem, sb.BaseAddress)
			if err != nil {
				return nil, err
			}
			if n != w.Size() || uint64(len(mem.b)) != sb.BaseAddress+n {
				return nil, fmt.Errorf("WriteTo returned %d, Size() = %d, image length %d", n, w.Size(), len(mem.b))
			}
			wb, err := mk(v.Blk, 0)
			if err != nil {
				return nil, err
			}
			tmp := &c11Mem{}
			nb, err := wb.WriteTo(tmp, 0)
			if err != nil {
				return nil, err
			}
			if nb != uint64(len(tmp.b)) || nb < 16 {
				return nil, fmt.Errorf("block: WriteTo returned %d, wrote %d", nb, len(tmp.b))
			}
			img := append(mem.b, between...)
			img = append(img, tmp.b[16:]...)
			return append(img, suf...), nil
		},
		dec: func(data []byte, sb *core.Superblock) (interface{}, error) {
			addr := sb.BaseAddress
			sb2 := *sb
			sb2.BaseAddress = 0
			oh, err := core.ReadObjectHeader(bytes.NewReader(data), addr, &sb2)
			if err != nil {
				return nil, err
			}
			msgs := make(vl, len(oh.Messages))
			for i, m := range oh.Messages {
				msgs[i] = vl{uint16(m.Type), m.Offset, vBytes(m.Data)}
			}
			return vl{oh.Version, oh.Flags, oh.ReferenceCount, vBytes([]byte(oh.Name)), msgs}, nil
		},
	}
}
