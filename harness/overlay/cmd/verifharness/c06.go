//go:build verif

package main

import (
	"encoding/hex"
	"encoding/json"
	"fmt"
	"math"
	"os"
	"runtime/debug"
	"sort"
	"strconv"
	"time"

	hdf5 "github.com/scigolib/hdf5"
	"github.com/scigolib/hdf5/internal/core"
	"github.com/scigolib/hdf5/internal/structures"
)

// c06: everything the public read API returns for ONE reference file, as one JSON document.
//
//	verifharness c06 <file.h5> <limit> [timeout-seconds]
//
// It reuses dumpFile (hist.go: Walk, Children, Attributes, ReadValue, Info, Read, ReadStrings and
// the raw element bytes through the library's own layout code) and adds what dumpFile does not
// report: ReadCompound results, named datatypes, the datatype/dataspace the reader parsed for every
// attribute.  <limit> truncates every per-dataset value list (raw bytes, Read, ReadStrings,
// ReadCompound) to the first <limit> elements; 0 = everything.  The process is the unit of isolation:
// the caller starts one process per file with a wall-clock limit; in addition a watchdog inside the
// process reports a hang as {"timeout":true} (a C07 matter; C06 only counts it).

type c06Compound struct {
	Err   string        `json:"err,omitempty"`
	Panic string        `json:"panic,omitempty"`
	N     int           `json:"n"`
	Elems []interface{} `json:"elems,omitempty"`
}

type c06Named struct {
	Path  string `json:"path"`
	Class int    `json:"class"`
	Size  uint32 `json:"size"`
	Bits  uint32 `json:"bits"`
	Props string `json:"props"`
	Nil   bool   `json:"nil,omitempty"`
}

// c06Link is one link of a group as the group's own link messages / symbol table state it (parsed with the
// reader's parsers); every hard link must be a member of what Children() returns.
type c06Link struct {
	Name    string `json:"name"` // hex
	Kind    string `json:"kind"` // hard | soft | other
	Addr    uint64 `json:"addr"`
	LoadErr string `json:"loaderr,omitempty"` // what the reader's child loader says about a hard link target
}

type c06Extra struct {
	Path      string       `json:"path"`
	Links     []c06Link    `json:"links,omitempty"`
	LinksErr  string       `json:"linkserr,omitempty"`
	LinksSrc  string       `json:"linkssrc,omitempty"`
	NRead     int          `json:"nread"`
	NRaw      int          `json:"nraw"` // raw length in bytes before truncation
	Props     string       `json:"props"`
	DsType    int          `json:"dstype"` // dataspace type the reader parsed (0 scalar 1 simple 2 null), -1 unknown
	Compound  *c06Compound `json:"compound,omitempty"`
	AttrTypes []c06AttrTy  `json:"attrtypes,omitempty"`
}

type c06AttrTy struct {
	Name   string `json:"name"` // hex
	Props  string `json:"props"`
	DsType int    `json:"dstype"`
	NoDS   bool   `json:"nods,omitempty"`
}

type c06Out struct {
	Path    string              `json:"file"`
	Limit   int                 `json:"limit"`
	Timeout bool                `json:"timeout,omitempty"`
	Dump    *fileDump           `json:"dump,omitempty"`
	Extra   map[string]c06Extra `json:"extra,omitempty"`
	Named   []c06Named          `json:"named,omitempty"`
	Panic   string              `json:"panic,omitempty"`
	WallMS  int64               `json:"wall_ms"`
}

// renderMember renders one compound member value losslessly.
func c06RenderMember(v interface{}) interface{} {
	switch x := v.(type) {
	case int32:
		return "i:" + strconv.FormatInt(int64(x), 10)
	case int64:
		return "i:" + strconv.FormatInt(x, 10)
	case uint32:
		return "i:" + strconv.FormatUint(uint64(x), 10)
	case uint64:
		return "i:" + strconv.FormatUint(x, 10)
	case float32:
		return fmt.Sprintf("f32:%08x", math.Float32bits(x))
	case float64:
		return fmt.Sprintf("f64:%016x", math.Float64bits(x))
	case string:
		return "s:" + hex.EncodeToString([]byte(x))
	case core.CompoundValue:
		m := map[string]interface{}{}
		for k, e := range x {
			m[hex.EncodeToString([]byte(k))] = c06RenderMember(e)
		}
		return m
	case map[string]interface{}:
		m := map[string]interface{}{}
		for k, e := range x {
			m[hex.EncodeToString([]byte(k))] = c06RenderMember(e)
		}
		return m
	}
	return fmt.Sprintf("?%T:%v", v, v)
}

func c06AttrTypes(attrs []*core.Attribute) []c06AttrTy {
	var out []c06AttrTy
	for _, a := range attrs {
		t := c06AttrTy{Name: hex.EncodeToString([]byte(a.Name)), DsType: -1}
		if a.Datatype != nil {
			t.Props = hex.EncodeToString(a.Datatype.Properties)
		}
		if a.Dataspace != nil {
			t.DsType = int(a.Dataspace.Type)
		} else {
			t.NoDS = true
		}
		out = append(out, t)
	}
	return out
}

func c06Run(path string, limit int) (out c06Out) {
	out.Path, out.Limit = path, limit
	defer func() {
		if r := recover(); r != nil {
			st := string(debug.Stack())
			if len(st) > 2500 {
				st = st[:2500]
			}
			out.Panic = fmt.Sprint(r) + "\n" + st
		}
	}()
	// quick tier (limit > 0): dumpFile without data (it would hex-encode whole datasets), values fetched below and
	// truncated before encoding; thorough tier: dumpFile with everything
	nodata := limit > 0
	fd := dumpFile(path, nodata)
	byPath := map[string]*objDump{}
	for i := range fd.Objects {
		byPath[fd.Objects[i].Path] = &fd.Objects[i]
	}
	out.Extra = map[string]c06Extra{}
	// second pass over the same public API for what dumpFile does not report
	if fd.OpenErr == "" && fd.Panic == "" {
		func() {
			f, err := hdf5.Open(path)
			if err != nil {
				return
			}
			defer f.Close()
			f.Walk(func(p string, obj hdf5.Object) {
				switch o := obj.(type) {
				case *hdf5.NamedDatatype:
					n := c06Named{Path: p}
					if dt := o.Datatype(); dt != nil {
						n.Class, n.Size, n.Bits = int(dt.Class), dt.Size, dt.ClassBitField
						n.Props = hex.EncodeToString(dt.Properties)
					} else {
						n.Nil = true
					}
					out.Named = append(out.Named, n)
				case *hdf5.Group:
					ex := c06Extra{Path: p, DsType: -1}
					if attrs, err := o.Attributes(); err == nil {
						ex.AttrTypes = c06AttrTypes(attrs)
					}
					c06GroupLinks(f, o, &ex)
					out.Extra[p] = ex
				case *hdf5.Dataset:
					ex := c06Extra{Path: p, DsType: -1}
					if attrs, err := o.Attributes(); err == nil {
						ex.AttrTypes = c06AttrTypes(attrs)
					}
					if hdr, err := core.ReadObjectHeader(f.Reader(), o.Address(), f.Superblock()); err == nil {
						for _, m := range hdr.Messages {
							if m.Type == core.MsgDatatype {
								if dt, err := core.ParseDatatypeMessage(m.Data); err == nil {
									ex.Props = hex.EncodeToString(dt.Properties)
									if dt.Class == core.DatatypeCompound {
										ex.Compound = c06ReadCompound(o, limit)
									}
								}
							}
							if m.Type == core.MsgDataspace {
								if ds, err := core.ParseDataspaceMessage(m.Data); err == nil {
									ex.DsType = int(ds.Type)
								}
							}
						}
					}
					if od := byPath[p]; nodata && od != nil {
						c06FillData(f, o, od, &ex, limit)
					}
					out.Extra[p] = ex
				}
			})
		}()
	}
	// truncate value lists
	for i := range fd.Objects {
		od := &fd.Objects[i]
		if od.Kind != "dataset" {
			continue
		}
		ex := out.Extra[od.Path]
		ex.Path = od.Path
		if !nodata {
			ex.NRead = len(od.Read)
			if od.Raw != nil {
				ex.NRaw = len(*od.Raw) / 2
			}
		}
		out.Extra[od.Path] = ex
		if limit > 0 {
			if len(od.Read) > limit {
				od.Read = od.Read[:limit]
			}
			if len(od.Strings) > limit {
				od.Strings = od.Strings[:limit]
			}
			if od.Raw != nil && od.Size > 0 && len(*od.Raw) > 2*limit*int(od.Size) {
				s := (*od.Raw)[:2*limit*int(od.Size)]
				od.Raw = &s
			}
		}
	}
	sort.Slice(out.Named, func(i, j int) bool { return out.Named[i].Path < out.Named[j].Path })
	out.Dump = &fd
	return out
}

// c06FillData does for one dataset what dumpFile does when data is requested, truncating before encoding.
func c06FillData(f *hdf5.File, o *hdf5.Dataset, od *objDump, ex *c06Extra, limit int) {
	defer func() {
		if r := recover(); r != nil {
			od.ReadErr = "panic: " + fmt.Sprint(r)
		}
	}()
	if hdr, err := core.ReadObjectHeader(f.Reader(), o.Address(), f.Superblock()); err == nil {
		_, raw, rerr := core.VerifDatasetRaw(f.Reader(), hdr, f.Superblock())
		if rerr == nil {
			ex.NRaw = len(raw)
			if od.Size > 0 && len(raw) > limit*int(od.Size) {
				raw = raw[:limit*int(od.Size)]
			}
			s := hex.EncodeToString(raw)
			od.Raw = &s
		}
	}
	if od.ReadErr == "" {
		if vals, err := o.Read(); err != nil {
			od.ReadErr = err.Error()
		} else {
			ex.NRead = len(vals)
			if len(vals) > limit {
				vals = vals[:limit]
			}
			od.Read = make([]string, len(vals))
			for i, v := range vals {
				od.Read[i] = fmt.Sprintf("%016x", math.Float64bits(v))
			}
		}
	}
}

// c06GroupLinks lists the links a group's object header announces (link messages, or the symbol table it points to).
func c06GroupLinks(f *hdf5.File, g *hdf5.Group, ex *c06Extra) {
	defer func() {
		if r := recover(); r != nil {
			ex.LinksErr = "panic: " + fmt.Sprint(r)
		}
	}()
	addr := g.VerifAddress()
	if addr == 0 {
		return
	}
	sb := f.Superblock()
	hdr, err := core.ReadObjectHeader(f.Reader(), addr, sb)
	if err != nil {
		ex.LinksErr = err.Error()
		return
	}
	add := func(name, kind string, a uint64) {
		l := c06Link{Name: hex.EncodeToString([]byte(name)), Kind: kind, Addr: a}
		if kind == "hard" {
			if _, e := hdf5.VerifLoadObject(f, a, name); e != nil {
				l.LoadErr = e.Error()
			}
		}
		ex.Links = append(ex.Links, l)
	}
	var btree, heap uint64
	for _, m := range hdr.Messages {
		switch m.Type {
		case core.MsgLinkMessage:
			ex.LinksSrc = "link messages"
			lm, err := structures.ParseLinkMessage(m.Data, sb)
			if err != nil {
				ex.LinksErr = err.Error()
				return
			}
			switch {
			case lm.IsHardLink():
				add(lm.Name, "hard", lm.ObjectAddress)
			case lm.IsSoftLink():
				add(lm.Name, "soft", 0)
			default:
				add(lm.Name, "other", 0)
			}
		case core.MsgSymbolTable:
			if len(m.Data) >= 16 {
				btree = sb.Endianness.Uint64(m.Data[0:8])
				heap = sb.Endianness.Uint64(m.Data[8:16])
			}
		}
	}
	if ex.LinksSrc == "" && btree != 0 {
		ex.LinksSrc = "symbol table"
		h, err := structures.LoadLocalHeap(f.Reader(), heap, sb)
		if err != nil {
			ex.LinksErr = err.Error()
			return
		}
		entries, err := structures.ReadGroupBTreeEntries(f.Reader(), btree, sb)
		if err != nil {
			ex.LinksErr = err.Error()
			return
		}
		for _, e := range entries {
			name, err := h.GetString(e.LinkNameOffset)
			if err != nil {
				ex.LinksErr = err.Error()
				return
			}
			if e.IsSoftLink() {
				add(name, "soft", 0)
			} else {
				ex.Links = append(ex.Links, c06Link{Name: hex.EncodeToString([]byte(name)), Kind: "hard", Addr: e.ObjectAddress})
			}
		}
	}
}

func c06ReadCompound(o *hdf5.Dataset, limit int) (res *c06Compound) {
	res = &c06Compound{}
	defer func() {
		if r := recover(); r != nil {
			res.Panic = fmt.Sprint(r)
		}
	}()
	vals, err := o.ReadCompound()
	if err != nil {
		res.Err = err.Error()
		return res
	}
	res.N = len(vals)
	for i, v := range vals {
		if limit > 0 && i >= limit {
			break
		}
		res.Elems = append(res.Elems, c06RenderMember(v))
	}
	return res
}

func init() {
	bulk["c06"] = func(args []string) error {
		if len(args) < 2 {
			return fmt.Errorf("usage: c06 file limit [timeout-seconds]")
		}
		limit, err := strconv.Atoi(args[1])
		if err != nil {
			return err
		}
		secs := 60
		if len(args) > 2 {
			if secs, err = strconv.Atoi(args[2]); err != nil {
				return err
			}
		}
		t0 := time.Now()
		done := make(chan c06Out, 1)
		go func() { done <- c06Run(args[0], limit) }()
		var out c06Out
		select {
		case out = <-done:
		case <-time.After(time.Duration(secs) * time.Second):
			out = c06Out{Path: args[0], Limit: limit, Timeout: true}
		}
		out.WallMS = time.Since(t0).Milliseconds()
		enc := json.NewEncoder(os.Stdout)
		return enc.Encode(out)
	}
}

// c06hdr <file> <addr|root>: the messages the reader's object-header parser yields (triage aid).
func init() {
	bulk["c06hdr"] = func(args []string) error {
		if len(args) < 2 {
			return fmt.Errorf("usage: c06hdr file addr|root")
		}
		f, err := hdf5.Open(args[0])
		if err != nil {
			return err
		}
		defer f.Close()
		sb := f.Superblock()
		addr := sb.RootGroup
		if args[1] != "root" {
			if addr, err = strconv.ParseUint(args[1], 0, 64); err != nil {
				return err
			}
		}
		hdr, err := core.ReadObjectHeader(f.Reader(), addr, sb)
		if err != nil {
			return err
		}
		fmt.Printf("sb=%d root=%d addr=%d version=%d flags=%#x type=%d nattrs=%d\n", sb.Version, sb.RootGroup, addr, hdr.Version, hdr.Flags, hdr.Type, len(hdr.Attributes))
		for _, m := range hdr.Messages {
			d := m.Data
			if len(d) > 48 {
				d = d[:48]
			}
			fmt.Printf("  msg type=%#04x off=%d len=%d data=%x\n", uint16(m.Type), m.Offset, len(m.Data), d)
		}
		_, aerr := core.ParseAttributesFromMessages(f.Reader(), hdr.Messages, sb)
		fmt.Printf("  ParseAttributesFromMessages err=%v\n", aerr)
		for _, m := range hdr.Messages {
			if m.Type == core.MsgAttribute {
				_, e := core.ParseAttributeMessage(m.Data, sb.Endianness)
				fmt.Printf("  attribute message at %d: err=%v\n", m.Offset, e)
			}
		}
		return nil
	}
}

// c06ev <file>: per object, the facts about its object header that explain a silent omission or a wrong value
// (used by tools/c06_triage.py to assign root causes; not part of the gating comparison).
type c06Ev struct {
	Path       string     `json:"path"`
	Addr       uint64     `json:"addr"`
	Kind       string     `json:"kind"`
	HdrVersion int        `json:"hdrversion"`
	HdrErr     string     `json:"hdrerr,omitempty"`
	Msgs       [][3]int   `json:"msgs"` // type, flags, len
	AttrErrs   []string   `json:"attrerrs,omitempty"`
	AttrShared []int      `json:"attrshared,omitempty"` // flags byte of each attribute message (v>=2)
	LinkErrs   []c06LinkE `json:"linkerrs,omitempty"`
	LinkKinds  []int      `json:"linkkinds,omitempty"` // link type of each link message
	Filters    []int      `json:"filters,omitempty"`
	DenseLinks bool       `json:"denselinks,omitempty"`
	DenseAttrs bool       `json:"denseattrs,omitempty"`
	DenseErr   string     `json:"denseerr,omitempty"`
	DsHead     string     `json:"dshead,omitempty"`
	DtHead     string     `json:"dthead,omitempty"`
	Chunks     int        `json:"chunks,omitempty"`
	ChunkFail  int        `json:"chunkfail,omitempty"` // chunks on which the pipeline fails when no filter may be skipped
	ChunkErr   string     `json:"chunkerr,omitempty"`
	ChunkMask  int        `json:"chunkmask,omitempty"` // chunks whose filter mask is non-zero
}

type c06LinkE struct {
	Name string `json:"name"`
	Err  string `json:"err"`
}

func c06Evidence(f *hdf5.File, p, kind string, addr uint64) c06Ev {
	ev := c06Ev{Path: p, Addr: addr, Kind: kind}
	sb := f.Superblock()
	if addr == 0 {
		return ev
	}
	hdr, err := core.ReadObjectHeader(f.Reader(), addr, sb)
	if err != nil {
		ev.HdrErr = err.Error()
		return ev
	}
	ev.HdrVersion = int(hdr.Version)
	undef := ^uint64(0)
	for _, m := range hdr.Messages {
		fl := make([]byte, 1)
		off := int64(m.Offset) + 4
		if hdr.Version == 2 {
			off = int64(m.Offset) + 3
		}
		_, _ = f.Reader().ReadAt(fl, off)
		ev.Msgs = append(ev.Msgs, [3]int{int(m.Type), int(fl[0]), len(m.Data)})
		switch uint16(m.Type) {
		case 0x0C:
			if _, e := core.ParseAttributeMessage(m.Data, sb.Endianness); e != nil {
				ev.AttrErrs = append(ev.AttrErrs, e.Error())
			}
			if len(m.Data) > 1 {
				ev.AttrShared = append(ev.AttrShared, int(m.Data[1]))
			}
		case 0x15:
			// Attribute Info: version, flags, [max creation index 2], heap address, name index address
			d := m.Data
			o := 2
			if len(d) > 1 && d[1]&1 != 0 {
				o += 2
			}
			if len(d) >= o+8 && sb.Endianness.Uint64(d[o:o+8]) != undef {
				ev.DenseAttrs = true
			}
		case 0x02:
			d := m.Data
			o := 2
			if len(d) > 1 && d[1]&1 != 0 {
				o += 8
			}
			if len(d) >= o+8 && sb.Endianness.Uint64(d[o:o+8]) != undef {
				ev.DenseLinks = true
			}
		case 0x06:
			d := m.Data
			if len(d) > 2 {
				lt := 0
				if d[1]&0x08 != 0 {
					lt = int(d[2])
				}
				ev.LinkKinds = append(ev.LinkKinds, lt)
			}
		case 0x0B:
			if fp, e := core.ParseFilterPipelineMessage(m.Data); e == nil && fp != nil {
				for _, fl := range fp.Filters {
					ev.Filters = append(ev.Filters, int(fl.ID))
				}
			}
		case 0x01:
			d := m.Data
			if len(d) > 4 {
				d = d[:4]
			}
			ev.DsHead = hex.EncodeToString(d)
		case 0x03:
			d := m.Data
			if len(d) > 8 {
				d = d[:8]
			}
			ev.DtHead = hex.EncodeToString(d)
		}
	}
	c06ChunkEvidence(f, hdr, &ev)
	return ev
}

// c06ChunkEvidence re-runs the filter pipeline on every chunk with the "optional" flag cleared, so that a
// decode failure the reader skips silently (filterpipeline.go, ApplyFilters: `if isOptional { continue }`) is seen.
func c06ChunkEvidence(f *hdf5.File, hdr *core.ObjectHeader, ev *c06Ev) {
	defer func() {
		if r := recover(); r != nil {
			ev.ChunkErr = "panic: " + fmt.Sprint(r)
		}
	}()
	sb := f.Superblock()
	var lm, fm *core.HeaderMessage
	for _, m := range hdr.Messages {
		switch m.Type {
		case core.MsgDataLayout:
			lm = m
		case core.MsgFilterPipeline:
			fm = m
		}
	}
	if lm == nil || fm == nil {
		return
	}
	layout, err := core.ParseDataLayoutMessage(lm.Data, sb)
	if err != nil || !layout.IsChunked() {
		return
	}
	fp, err := core.ParseFilterPipelineMessage(fm.Data)
	if err != nil || fp == nil {
		return
	}
	strict := *fp
	strict.Filters = append([]core.Filter(nil), fp.Filters...)
	for i := range strict.Filters {
		strict.Filters[i].Flags &^= 1
	}
	bt, err := core.ParseBTreeV1Node(f.Reader(), layout.DataAddress, sb.OffsetSize, len(layout.ChunkSize), layout.ChunkSize)
	if err != nil {
		ev.ChunkErr = err.Error()
		return
	}
	chunks, err := bt.CollectAllChunks(f.Reader(), sb.OffsetSize, layout.ChunkSize)
	if err != nil {
		ev.ChunkErr = err.Error()
		return
	}
	for _, c := range chunks {
		ev.Chunks++
		if c.Key.FilterMask != 0 {
			ev.ChunkMask++
		}
		if c.Key.Nbytes > 1<<26 {
			continue
		}
		buf := make([]byte, c.Key.Nbytes)
		if _, err := f.Reader().ReadAt(buf, int64(c.Address)); err != nil {
			continue
		}
		if _, err := strict.ApplyFilters(buf); err != nil {
			ev.ChunkFail++
			if ev.ChunkErr == "" {
				ev.ChunkErr = err.Error()
			}
		}
	}
}

func init() {
	bulk["c06ev"] = func(args []string) error {
		if len(args) < 1 {
			return fmt.Errorf("usage: c06ev file")
		}
		f, err := hdf5.Open(args[0])
		if err != nil {
			return json.NewEncoder(os.Stdout).Encode(map[string]interface{}{"openerr": err.Error()})
		}
		defer f.Close()
		var evs []c06Ev
		f.Walk(func(p string, obj hdf5.Object) {
			switch o := obj.(type) {
			case *hdf5.Group:
				evs = append(evs, c06Evidence(f, p, "group", o.VerifAddress()))
			case *hdf5.Dataset:
				evs = append(evs, c06Evidence(f, p, "dataset", o.Address()))
			case *hdf5.NamedDatatype:
				evs = append(evs, c06Evidence(f, p, "datatype", o.VerifAddress()))
			}
		})
		return json.NewEncoder(os.Stdout).Encode(map[string]interface{}{"objects": evs})
	}
}
