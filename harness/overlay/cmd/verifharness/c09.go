//go:build verif

package main

import (
	"encoding/json"
	"fmt"
	"math"
	"os"
	"path/filepath"
	"strconv"
	"sync/atomic"

	"github.com/scigolib/hdf5"
)

// c09: partial reads versus the full read, through the public API only.
//
// input  {"dims":["4","6"],"chunk":["2","4"]|null,"gzip":0..9,"shuffle":bool,"fletcher":bool,
//         "dtype":"int32|int64|float32|float64",
//         "file":"/path/existing.h5","dataset":"name"      (instead of dims..dtype: read an existing file)
//         "sels":[{"api":"hyperslab|slice","start":[..],"count":[..],"stride":[..]|null,"block":[..]|null}],
//         "iter":bool}
// All uint64 are decimal strings (2^64-1 must be expressible).
// The handler creates the dataset with element i = i (row-major), closes, reopens with hdf5.Open,
// reads it in full once, then performs every selection on the same open file.
// output {"full":[...],"sels":[{"ok":true,"vals":[...]}|{"ok":false,"err":"..."}|{"panic":"..."}],
//         "iter":{"total":n,"coords":[[..]],"pieces":[[..]],"errs":[..],"err":".."}}
// Values are reported as integers (every written value is an integer below 2^24); a value that
// is not an integer is reported as the string of its float64.
type c09Sel struct {
	API    string   `json:"api"`
	Start  []string `json:"start"`
	Count  []string `json:"count"`
	Stride []string `json:"stride"`
	Block  []string `json:"block"`
}

type c09Case struct {
	Dims     []string `json:"dims"`
	Chunk    []string `json:"chunk"`
	Gzip     int      `json:"gzip"`
	Shuffle  bool     `json:"shuffle"`
	Fletcher bool     `json:"fletcher"`
	Dtype    string   `json:"dtype"`
	File     string   `json:"file"`
	Dataset  string   `json:"dataset"`
	Sels     []c09Sel `json:"sels"`
	Iter     bool     `json:"iter"`
}

var c09Counter uint64

func c09U64s(xs []string) ([]uint64, error) {
	if xs == nil {
		return nil, nil
	}
	out := make([]uint64, len(xs))
	for i, s := range xs {
		v, err := strconv.ParseUint(s, 10, 64)
		if err != nil {
			return nil, err
		}
		out[i] = v
	}
	return out, nil
}

func c09BuildDir() string {
	// the harness binary lives in <clone>/build/scratch/run-xxxx/verifharness
	if d := os.Getenv("VERIF_C09_DIR"); d != "" {
		return d
	}
	exe, err := os.Executable()
	if err == nil {
		return filepath.Dir(exe)
	}
	return "."
}

func c09Vals(v interface{}) interface{} {
	switch x := v.(type) {
	case []float64:
		out := make([]interface{}, len(x))
		for i, f := range x {
			if f == math.Trunc(f) && math.Abs(f) < 1e15 {
				out[i] = int64(f)
			} else {
				out[i] = strconv.FormatFloat(f, 'g', -1, 64)
			}
		}
		return out
	case nil:
		return []interface{}{}
	default:
		return fmt.Sprintf("unexpected result type %T", v)
	}
}

func c09Write(c *c09Case, path string) error {
	dims, err := c09U64s(c.Dims)
	if err != nil {
		return err
	}
	chunk, err := c09U64s(c.Chunk)
	if err != nil {
		return err
	}
	fw, err := hdf5.CreateForWrite(path, hdf5.CreateTruncate)
	if err != nil {
		return fmt.Errorf("CreateForWrite: %w", err)
	}
	var opts []hdf5.DatasetOption
	if chunk != nil {
		opts = append(opts, hdf5.WithChunkDims(chunk))
		if c.Shuffle {
			opts = append(opts, hdf5.WithShuffle())
		}
		if c.Gzip > 0 {
			opts = append(opts, hdf5.WithGZIPCompression(c.Gzip))
		}
		if c.Fletcher {
			opts = append(opts, hdf5.WithFletcher32())
		}
	}
	n := uint64(1)
	for _, d := range dims {
		n *= d
	}
	var dt hdf5.Datatype
	var data interface{}
	switch c.Dtype {
	case "int32", "":
		dt = hdf5.Int32
		a := make([]int32, n)
		for i := range a {
			a[i] = int32(i)
		}
		data = a
	case "int64":
		dt = hdf5.Int64
		a := make([]int64, n)
		for i := range a {
			a[i] = int64(i)
		}
		data = a
	case "float32":
		dt = hdf5.Float32
		a := make([]float32, n)
		for i := range a {
			a[i] = float32(i)
		}
		data = a
	case "float64":
		dt = hdf5.Float64
		a := make([]float64, n)
		for i := range a {
			a[i] = float64(i)
		}
		data = a
	default:
		return fmt.Errorf("unknown dtype %q", c.Dtype)
	}
	dw, err := fw.CreateDataset("/d", dt, dims, opts...)
	if err != nil {
		_ = fw.Close()
		return fmt.Errorf("CreateDataset: %w", err)
	}
	if err := dw.Write(data); err != nil {
		_ = fw.Close()
		return fmt.Errorf("Write: %w", err)
	}
	if err := fw.Close(); err != nil {
		return fmt.Errorf("Close: %w", err)
	}
	return nil
}

func c09FindDataset(f *hdf5.File, name string) *hdf5.Dataset {
	var ds *hdf5.Dataset
	f.Walk(func(path string, obj hdf5.Object) {
		if d, ok := obj.(*hdf5.Dataset); ok && ds == nil {
			if name == "" || path == name || d.Name() == name || path == "/"+name {
				ds = d
			}
		}
	})
	return ds
}

func c09One(ds *hdf5.Dataset, s c09Sel) (res map[string]interface{}) {
	defer func() {
		if r := recover(); r != nil {
			res = map[string]interface{}{"panic": fmt.Sprint(r)}
		}
	}()
	start, e1 := c09U64s(s.Start)
	count, e2 := c09U64s(s.Count)
	stride, e3 := c09U64s(s.Stride)
	block, e4 := c09U64s(s.Block)
	for _, e := range []error{e1, e2, e3, e4} {
		if e != nil {
			return map[string]interface{}{"harness_error": e.Error()}
		}
	}
	var v interface{}
	var err error
	if s.API == "slice" {
		v, err = ds.ReadSlice(start, count)
	} else {
		v, err = ds.ReadHyperslab(&hdf5.HyperslabSelection{Start: start, Count: count, Stride: stride, Block: block})
	}
	if err != nil {
		return map[string]interface{}{"ok": false, "err": err.Error()}
	}
	return map[string]interface{}{"ok": true, "vals": c09Vals(v)}
}

func c09Iter(ds *hdf5.Dataset) (res map[string]interface{}) {
	defer func() {
		if r := recover(); r != nil {
			res = map[string]interface{}{"panic": fmt.Sprint(r)}
		}
	}()
	it, err := ds.ChunkIterator()
	if err != nil {
		return map[string]interface{}{"err": err.Error()}
	}
	coords := [][]string{}
	pieces := []interface{}{}
	errs := []string{}
	for it.Next() {
		cc := it.ChunkCoords()
		cs := make([]string, len(cc))
		for i, x := range cc {
			cs[i] = strconv.FormatUint(x, 10)
		}
		coords = append(coords, cs)
		v, err := it.Chunk()
		if err != nil {
			errs = append(errs, err.Error())
			pieces = append(pieces, nil)
		} else {
			errs = append(errs, "")
			pieces = append(pieces, c09Vals(v))
		}
	}
	out := map[string]interface{}{"total": it.Total(), "coords": coords, "pieces": pieces, "errs": errs}
	if e := it.Err(); e != nil {
		out["err"] = e.Error()
	}
	cd := it.ChunkDims()
	cds := make([]string, len(cd))
	for i, x := range cd {
		cds[i] = strconv.FormatUint(x, 10)
	}
	out["chunk_dims"] = cds
	return out
}

// c09scan file...: one JSON line per dataset found: file, path, info, full-read status.
func c09Scan(args []string) error {
	enc := json.NewEncoder(os.Stdout)
	for _, path := range args {
		func() {
			defer func() {
				if r := recover(); r != nil {
					_ = enc.Encode(map[string]interface{}{"file": path, "panic": fmt.Sprint(r)})
				}
			}()
			f, err := hdf5.Open(path)
			if err != nil {
				_ = enc.Encode(map[string]interface{}{"file": path, "open_error": err.Error()})
				return
			}
			defer f.Close()
			f.Walk(func(p string, obj hdf5.Object) {
				d, ok := obj.(*hdf5.Dataset)
				if !ok {
					return
				}
				rec := map[string]interface{}{"file": path, "path": p, "name": d.Name()}
				if info, err := d.Info(); err == nil {
					rec["info"] = info
				} else {
					rec["info_error"] = err.Error()
				}
				func() {
					defer func() {
						if r := recover(); r != nil {
							rec["read_panic"] = fmt.Sprint(r)
						}
					}()
					if v, err := d.Read(); err == nil {
						rec["n"] = len(v)
					} else {
						rec["read_error"] = err.Error()
					}
				}()
				_ = enc.Encode(rec)
			})
		}()
	}
	return nil
}

func init() {
	bulk["c09scan"] = c09Scan
	handlers["c09"] = func(raw json.RawMessage) (interface{}, error) {
		var c c09Case
		if err := json.Unmarshal(raw, &c); err != nil {
			return nil, err
		}
		path := c.File
		if path == "" {
			dir := c09BuildDir()
			path = filepath.Join(dir, fmt.Sprintf("c09-%d-%d.h5", os.Getpid(), atomic.AddUint64(&c09Counter, 1)))
			defer os.Remove(path)
			if err := c09Write(&c, path); err != nil {
				return map[string]interface{}{"create_error": err.Error()}, nil
			}
		}
		f, err := hdf5.Open(path)
		if err != nil {
			return map[string]interface{}{"open_error": err.Error()}, nil
		}
		defer f.Close()
		ds := c09FindDataset(f, c.Dataset)
		if ds == nil {
			return map[string]interface{}{"open_error": "dataset not found"}, nil
		}
		out := map[string]interface{}{}
		if info, err := ds.Info(); err == nil {
			out["info"] = info
		}
		full, err := ds.Read()
		if err != nil {
			out["full_error"] = err.Error()
		} else {
			out["full"] = c09Vals(full)
		}
		sels := make([]interface{}, len(c.Sels))
		for i, s := range c.Sels {
			sels[i] = c09One(ds, s)
		}
		out["sels"] = sels
		if c.Iter {
			out["iter"] = c09Iter(ds)
		}
		return out, nil
	}
}
