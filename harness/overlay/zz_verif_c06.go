//go:build verif

package hdf5

// C06 triage aids (add-only).

// VerifAddress returns the object header address of a committed datatype.
func (n *NamedDatatype) VerifAddress() uint64 { return n.address }

// VerifLoadObject runs the reader's child loader on (address, name) and reports its error: group.go drops
// a child whose load fails (loadModernGroup, link messages) without reporting anything.
func VerifLoadObject(f *File, address uint64, name string) (kind string, err error) {
	defer func() {
		if r := recover(); r != nil {
			kind, err = "", errPanic{r}
		}
	}()
	o, e := loadObject(f, address, name)
	if e != nil {
		return "", e
	}
	switch o.(type) {
	case *Group:
		return "group", nil
	case *Dataset:
		return "dataset", nil
	case *NamedDatatype:
		return "datatype", nil
	}
	return "other", nil
}

type errPanic struct{ v interface{} }

func (e errPanic) Error() string { return "panic" }
