//go:build verif

package hdf5

// Add-only access for the C03 unit tie (tools/props/c03unit.py): linkToParent and the group
// structures it edits, and the reference count the writer would read back.

import "github.com/scigolib/hdf5/internal/core"

// VerifLinkToParent calls the unexported linkToParent.
func (fw *FileWriter) VerifLinkToParent(parent, name string, addr uint64) error {
	return fw.linkToParent(parent, name, addr)
}

// VerifGroupStructures returns the heap and symbol-table-node addresses registered for a group
// path in fw.groups ("" = root group).
func (fw *FileWriter) VerifGroupStructures(path string) (heapAddr, stNodeAddr uint64, ok bool) {
	if path == "" {
		return fw.rootHeapAddr, fw.rootStNodeAddr, true
	}
	m, ok := fw.groups[path]
	if !ok {
		return 0, 0, false
	}
	return m.heapAddr, m.stNodeAddr, true
}

// VerifReadGroupStructures reads a heap data segment and the node entries back from the file
// (the same loaders linkToParent uses).
func (fw *FileWriter) VerifReadGroupStructures(heapAddr, stNodeAddr uint64) (data []byte, entries [][2]uint64, err error) {
	heap, err := fw.readLocalHeap(heapAddr)
	if err != nil {
		return nil, nil, err
	}
	node, err := fw.readSymbolTableNode(stNodeAddr)
	if err != nil {
		return nil, nil, err
	}
	for _, e := range node.Entries {
		entries = append(entries, [2]uint64{e.LinkNameOffset, e.ObjectAddress})
	}
	return heap.Data, entries, nil
}

// VerifHeaderAddr returns the object header address of a group created in this session.
func (g *GroupWriter) VerifHeaderAddr() uint64 { return g.headerAddr }

// VerifResolve calls resolveObjectAddress.
func (fw *FileWriter) VerifResolve(path string) (uint64, error) { return fw.resolveObjectAddress(path) }

// VerifRefCount re-reads an object header and returns the reference count the library sees.
func (fw *FileWriter) VerifRefCount(addr uint64) (uint32, error) {
	oh, err := core.ReadObjectHeader(fw.writer, addr, fw.file.sb)
	if err != nil {
		return 0, err
	}
	return oh.ReferenceCount, nil
}
