//go:build verif

package hdf5

// VerifLoadCount returns the number of object loads Open counted against its limit.
func (f *File) VerifLoadCount() int64 { return f.loadCount }

// VerifMaxLoads returns the limit for VerifLoadCount (derived from the file size in Open).
func (f *File) VerifMaxLoads() int64 { return f.maxLoads }

// VerifVisitedBTrees returns the number of group B-tree addresses that are marked as visited after Open.
func (f *File) VerifVisitedBTrees() int { return len(f.visitedBTrees) }
