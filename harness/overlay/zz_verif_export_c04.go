//go:build verif

package hdf5

import (
	"github.com/scigolib/hdf5/internal/core"
	"github.com/scigolib/hdf5/internal/writer"
)

// Add-only accessors used by the c04unit subcommand (allocation trace / frame observation).

// VerifC04Writer returns the low-level writer (allocator state, end of file).
func (fw *FileWriter) VerifC04Writer() *writer.FileWriter { return fw.writer }

// VerifC04Superblock returns the superblock the writer uses for encoding parameters.
func (fw *FileWriter) VerifC04Superblock() *core.Superblock {
	if fw.file == nil {
		return nil
	}
	return fw.file.sb
}

// VerifC04Address returns the object header address of a dataset handle.
func (dw *DatasetWriter) VerifC04Address() uint64 { return dw.address }

// VerifC04Address returns the object header address of a group handle.
func (g *GroupWriter) VerifC04Address() uint64 { return g.headerAddr }
