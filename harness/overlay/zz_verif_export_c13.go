//go:build verif

package hdf5

// Add-only accessors used by the c13unit subcommand (Resize at object header level).

// VerifC13Address returns the object header address of a dataset handle.
func (dw *DatasetWriter) VerifC13Address() uint64 { return dw.address }

// VerifC13State returns the handle fields Resize reads and writes: dims, maxDims, dataSize and the
// chunk coordinator's chunks per dimension (nil when the handle has no coordinator).
func (dw *DatasetWriter) VerifC13State() (dims, maxDims []uint64, dataSize uint64, numChunks []uint64) {
	dims = append([]uint64(nil), dw.dims...)
	maxDims = append([]uint64(nil), dw.maxDims...)
	if dw.chunkCoordinator != nil {
		numChunks = dw.chunkCoordinator.NumChunks()
	}
	return dims, maxDims, dw.dataSize, numChunks
}
