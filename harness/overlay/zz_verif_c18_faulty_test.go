//go:build verif

package hdf5

// C18 (dynamic half, added after seeded change C18-e was missed): FAILED reads on one
// handle must not disturb anybody else.
//
// Faulty copies of a library-written file (version 2 object headers), of a library-written
// file with superblock version 0 (symbol tables, B-tree v1, local heap) and of reference
// files: cut at EVERY length in turn (the first read that runs past the end fails, so a
// failed read at every ReadAt of the open path is hit), and copies with one byte of a
// signature flipped.
//
//   TestVerifC18_FaultyOpensBesideHealthyReaders
//     (1) one goroutine: the outcome of every variant; after every open of a faulty copy (and
//       after every dump of a healthy file) the byte-buffer pool is probed: it must never hand
//       out the same backing array to two holders ([pool-alias]: some buffer was released
//       twice on the path just taken).
//     (2) K goroutines keep opening faulty copies through handles of their own (the call sites
//       get equal shares: the variants are grouped by the outcome they have sequentially and
//       the groups are visited round robin) while N goroutines dump healthy files through
//       handles of their own; every result - of the healthy and of the faulty files - must be
//       the one computed sequentially before ([result-diff]).
//
// Run with -race. Environment as in zz_verif_c18_test.go.

import (
	"bytes"
	"fmt"
	"hash/fnv"
	"math/rand"
	"os"
	"path/filepath"
	"regexp"
	"runtime"
	"sort"
	"sync/atomic"
	"testing"

	"github.com/scigolib/hdf5/internal/utils"
)

// verifC18Signatures are the block signatures of the format.
var verifC18Signatures = []string{
	"\x89HDF\r\n\x1a\n", "OHDR", "OCHK", "TREE", "HEAP", "SNOD", "BTHD", "BTLF", "BTIN",
	"FRHP", "FHDB", "FHIB", "GCOL", "FSHD", "FSSE", "SMTB",
}

// verifC18Variant is one faulty copy: the first `cut` bytes of the source, or (flip >= 0) the
// whole source with bit 0 of byte `flip` inverted.
type verifC18Variant struct {
	src  int // index of the source file
	cut  int
	flip int
	want string // sequential outcome
}

func (v verifC18Variant) String() string {
	if v.flip >= 0 {
		return fmt.Sprintf("source %d with byte %d flipped", v.src, v.flip)
	}
	return fmt.Sprintf("first %d bytes of source %d", v.cut, v.src)
}

func (v verifC18Variant) bytes(whole []byte) []byte {
	if v.flip >= 0 {
		b := append([]byte(nil), whole...)
		b[v.flip] ^= 0x01
		return b
	}
	return whole[:v.cut]
}

// verifC18Outcome opens path through a new handle; the outcome is the error of Open, or the
// digest of the complete dump, or the panic. light: a file that opens is only walked.
func verifC18Outcome(path string, light bool) (out string) {
	defer func() {
		if r := recover(); r != nil {
			out = "panic: " + verifC18PanicString(r)
		}
	}()
	if light {
		f, err := Open(path)
		if err != nil {
			return "open-error: " + err.Error()
		}
		defer func() { _ = f.Close() }()
		n := 0
		f.Walk(func(string, Object) { n++ })
		return fmt.Sprintf("opened objects=%d", n)
	}
	d, err := verifC18Dump(path)
	if err != nil {
		return "open-error: " + err.Error()
	}
	h := fnv.New64a()
	_, _ = h.Write([]byte(d))
	return fmt.Sprintf("dump lines=%d fnv=%x", bytes.Count([]byte(d), []byte("\n"))+1, h.Sum64())
}

var verifC18Digits = regexp.MustCompile(`[0-9]+|0x[0-9a-fA-F]+`)

// verifC18Class groups outcomes by call site: the message without its numbers.
func verifC18Class(outcome string) string {
	return verifC18Digits.ReplaceAllString(outcome, "#")
}

// verifC18PoolProbe takes n buffers out of the pool and holds them together: two of them
// sharing a backing array mean that an array sits in the pool twice. Returns the number of
// aliased pairs; aliased buffers are not given back.
func verifC18PoolProbe(n int) int {
	held := make([][]byte, 0, n)
	seen := make(map[*byte]bool, n)
	dups := 0
	for i := 0; i < n; i++ {
		b := utils.GetBuffer(1)
		p := &b[:1][0]
		if seen[p] {
			dups++
			continue
		}
		seen[p] = true
		held = append(held, b)
	}
	if dups == 0 {
		for _, b := range held {
			utils.ReleaseBuffer(b)
		}
	}
	return dups
}

// verifC18WriteSmall writes a small file (a few KB, so that every cut can be tried): groups,
// small datasets, attributes, one chunked dataset.
func verifC18WriteSmall(path string, idx int, opts ...interface{}) (err error) {
	fw, err := CreateForWrite(path, CreateTruncate, opts...)
	if err != nil {
		return fmt.Errorf("CreateForWrite: %w", err)
	}
	defer func() {
		if cerr := fw.Close(); err == nil && cerr != nil {
			err = fmt.Errorf("Close: %w", cerr)
		}
	}()
	g, err := fw.CreateGroup("/g")
	if err != nil {
		return fmt.Errorf("CreateGroup: %w", err)
	}
	if err := g.WriteAttribute("index", int32(idx)); err != nil {
		return fmt.Errorf("group attribute: %w", err)
	}
	if _, err := fw.CreateGroup("/g/sub"); err != nil {
		return fmt.Errorf("CreateGroup nested: %w", err)
	}
	for d, name := range []string{"/a", "/g/b", "/g/sub/c"} {
		ds, err := fw.CreateDataset(name, Float64, []uint64{4})
		if err != nil {
			return fmt.Errorf("CreateDataset %s: %w", name, err)
		}
		if err := ds.Write([]float64{float64(idx), float64(d), 0.5, -1}); err != nil {
			return fmt.Errorf("write %s: %w", name, err)
		}
		if err := ds.WriteAttribute("tag", int32(idx*10+d)); err != nil {
			return fmt.Errorf("attribute of %s: %w", name, err)
		}
		if err := ds.WriteAttribute("unit", fmt.Sprintf("u%d", d)); err != nil {
			return fmt.Errorf("attribute of %s: %w", name, err)
		}
	}
	dsC, err := fw.CreateDataset("/chunked", Int32, []uint64{4, 4}, WithChunkDims([]uint64{2, 2}))
	if err != nil {
		return fmt.Errorf("CreateDataset chunked: %w", err)
	}
	vals := make([]int32, 16)
	for i := range vals {
		vals[i] = int32(idx + i*3)
	}
	if err := dsC.Write(vals); err != nil {
		return fmt.Errorf("write chunked: %w", err)
	}
	return nil
}

// verifC18FaultySources returns the healthy source files (written here and reference
// files) with their bytes.
func verifC18FaultySources(t *testing.T, name string, seed int64, dir string) (paths []string, contents [][]byte) {
	t.Helper()
	for idx, opts := range [][]interface{}{nil, {WithSuperblockVersion(SuperblockV0)}} {
		p := filepath.Join(dir, fmt.Sprintf("healthy_%d.h5", idx))
		if err := verifC18WriteSmall(p, idx, opts...); err != nil {
			t.Fatalf("[result-diff] %s seed=%d: writing %s: %v", name, seed, p, err)
		}
		paths = append(paths, p)
	}
	for _, p := range []string{"testdata/v0.h5"} {
		if _, err := verifC18Dump(p); err != nil {
			t.Logf("%s: skipping %s: %v", name, p, err)
			continue
		}
		paths = append(paths, p)
	}
	for _, p := range paths {
		b, err := os.ReadFile(p)
		if err != nil {
			t.Fatalf("[result-diff] %s seed=%d: %v", name, seed, err)
		}
		contents = append(contents, b)
	}
	return paths, contents
}

// verifC18FlipOffsets: for every occurrence of a block signature one byte of it (rotating).
func verifC18FlipOffsets(whole []byte) []int {
	var out []int
	k := 0
	for _, sig := range verifC18Signatures {
		from := 0
		for {
			i := bytes.Index(whole[from:], []byte(sig))
			if i < 0 {
				break
			}
			out = append(out, from+i+k%len(sig))
			k++
			from += i + len(sig)
		}
	}
	sort.Ints(out)
	return out
}

// verifC18Variants lists the faulty variants of all sources: every cut and the signature
// flips. VERIF_C18_SWEEP=0 / 1 restricts the cuts to the even / odd lengths: the driver
// gives the processes of one run (one per GOMAXPROCS value) alternating halves, so that a
// run tries every length and each process at least every second one (the smallest unit read
// by the library is 2 bytes; the message prefixes are 4, 6 and 8 bytes). Unset: every length.
func verifC18Variants(contents [][]byte) []verifC18Variant {
	parity := -1
	if v := os.Getenv("VERIF_C18_SWEEP"); v == "0" || v == "1" {
		parity = int(v[0] - '0')
	}
	var vs []verifC18Variant
	for s, whole := range contents {
		for n := 0; n < len(whole); n++ {
			if parity >= 0 && n%2 != parity {
				continue
			}
			vs = append(vs, verifC18Variant{src: s, cut: n, flip: -1})
		}
		for _, off := range verifC18FlipOffsets(whole) {
			vs = append(vs, verifC18Variant{src: s, cut: len(whole), flip: off})
		}
	}
	return vs
}

// verifC18SequentialOutcomes computes the outcome of every variant in one goroutine and
// probes the buffer pool after each of them. Returns the variants with `want` filled in and
// the [pool-alias] messages (one per outcome class).
func verifC18SequentialOutcomes(t *testing.T, name string, seed int64, dir string, paths []string, contents [][]byte) ([]verifC18Variant, []string) {
	t.Helper()
	var msgs []string
	reported := map[string]bool{}
	scratch := filepath.Join(dir, "faulty_seq.h5")
	all := verifC18Variants(contents)
	// Cuts are made by shrinking one file step by step; the variants of a source are
	// therefore visited from the longest cut to the shortest one.
	sort.SliceStable(all, func(i, j int) bool {
		a, b := all[i], all[j]
		if a.src != b.src {
			return a.src < b.src
		}
		if (a.flip >= 0) != (b.flip >= 0) {
			return a.flip >= 0
		}
		return a.cut > b.cut
	})
	cur := -1
	for i := range all {
		v := &all[i]
		if v.flip >= 0 || v.src != cur {
			if err := os.WriteFile(scratch, v.bytes(contents[v.src]), 0o600); err != nil {
				t.Fatalf("[result-diff] %s seed=%d: %v", name, seed, err)
			}
			cur = -1
			if v.flip < 0 {
				cur = v.src
			}
		} else if err := os.Truncate(scratch, int64(v.cut)); err != nil {
			t.Fatalf("[result-diff] %s seed=%d: %v", name, seed, err)
		}
		v.want = verifC18Outcome(scratch, true)
		if d := verifC18PoolProbe(12); d != 0 {
			cls := verifC18Class(v.want)
			if !reported[cls] {
				reported[cls] = true
				msgs = append(msgs, fmt.Sprintf("[pool-alias] %s seed=%d: after opening the %s (%s; outcome %q) the buffer pool hands out one backing array to two holders (%d aliased pairs): a pooled buffer was released twice on that path", name, seed, *v, paths[v.src], v.want, d))
			}
		}
	}
	return all, msgs
}

func TestVerifC18_FaultyOpensBesideHealthyReaders(t *testing.T) {
	const name = "TestVerifC18_FaultyOpensBesideHealthyReaders"
	seed := verifC18Seed()
	iters := verifC18Iters()
	rng := rand.New(rand.NewSource(seed))
	dir := t.TempDir()
	before := runtime.NumGoroutine()
	paths, contents := verifC18FaultySources(t, name, seed, dir)

	// Sequential reference: healthy dumps (the pool is probed after each), then the outcome of
	// every faulty variant (the pool is probed after each).
	if d := verifC18PoolProbe(12); d != 0 {
		t.Fatalf("[pool-alias] %s seed=%d: the buffer pool hands out one backing array twice before any faulty file was opened (%d aliased pairs)", name, seed, d)
	}
	want := make([]string, len(paths))
	for i, p := range paths {
		d, err := verifC18Dump(p)
		if err != nil {
			t.Fatalf("[result-diff] %s seed=%d: sequential dump of %s: %v", name, seed, p, err)
		}
		want[i] = d
		if d := verifC18PoolProbe(12); d != 0 {
			t.Errorf("[pool-alias] %s seed=%d: after a complete dump of healthy file %s the buffer pool hands out one backing array to two holders (%d aliased pairs): a pooled buffer was released twice", name, seed, p, d)
		}
	}
	all, aliasMsgs := verifC18SequentialOutcomes(t, name, seed, dir, paths, contents)
	for i, m := range aliasMsgs {
		if i < 4 {
			t.Error(m)
		}
	}
	byClass := map[string][]verifC18Variant{}
	for _, v := range all {
		cls := fmt.Sprintf("src%d %s", v.src, verifC18Class(v.want))
		byClass[cls] = append(byClass[cls], v)
	}
	classes := make([]string, 0, len(byClass))
	for c := range byClass {
		classes = append(classes, c)
	}
	sort.Strings(classes)
	for _, c := range classes {
		vs := byClass[c]
		rng.Shuffle(len(vs), func(i, j int) { vs[i], vs[j] = vs[j], vs[i] })
		if os.Getenv("VERIF_C18_DEBUG") != "" {
			t.Logf("%5d variants: %s", len(vs), c)
		}
	}

	// Concurrent phase. Goroutines 0..nReaders-1 read healthy files, the others open
	// faulty copies (each through a scratch file of its own) until the readers are done.
	const nReaders, nFaulty = 6, 4
	reps := 2 + iters/4
	var readersLeft atomic.Int64
	readersLeft.Store(nReaders)
	var faultyOpens atomic.Int64
	type suspect struct {
		v   verifC18Variant
		got string
		who int
	}
	suspects := make([][]suspect, nFaulty)
	msgs, finished := verifC18Parallel(nReaders+nFaulty, name, func(i int, beat func()) []string {
		var out []string
		if i < nReaders {
			defer readersLeft.Add(-1)
			for rep := 0; rep < reps; rep++ {
				for k := range paths {
					beat()
					s := (i + k) % len(paths)
					got, err := verifC18Dump(paths[s])
					if err != nil {
						out = append(out, fmt.Sprintf("[result-diff] %s seed=%d reader=%d rep=%d: dump of healthy file %s failed beside failing opens of other files: %v", name, seed, i, rep, paths[s], err))
					} else if got != want[s] {
						out = append(out, fmt.Sprintf("[result-diff] %s seed=%d reader=%d rep=%d: dump of healthy file %s beside failing opens of other files differs from the sequential one: %s", name, seed, i, rep, paths[s], verifC18FirstDiff(want[s], got)))
					}
					if len(out) >= 2 {
						return out
					}
				}
			}
			return out
		}
		k := i - nReaders
		mine := filepath.Join(dir, fmt.Sprintf("faulty_%d.h5", k))
		for round := 0; ; round++ {
			for _, c := range classes {
				if readersLeft.Load() == 0 && round > 0 {
					return out
				}
				beat()
				vs := byClass[c]
				v := vs[(round*nFaulty+k)%len(vs)]
				if err := os.WriteFile(mine, v.bytes(contents[v.src]), 0o600); err != nil {
					out = append(out, fmt.Sprintf("[result-diff] %s seed=%d faulty=%d: %v", name, seed, k, err))
					return out
				}
				got := verifC18Outcome(mine, true)
				faultyOpens.Add(1)
				if got != v.want && len(suspects[k]) < 8 {
					suspects[k] = append(suspects[k], suspect{v, got, k})
				}
			}
		}
	})
	if !finished {
		t.Fatalf("[stop-timeout] %s seed=%d: the goroutines did not finish", name, seed)
	}
	for _, m := range msgs {
		t.Error(m)
	}
	// A faulty open whose outcome differed: concurrency is to blame when the sequential
	// outcome is reproducible now.
	scratch := filepath.Join(dir, "faulty_recheck.h5")
	nsus := 0
	for _, ss := range suspects {
		for _, s := range ss {
			stable := true
			for j := 0; j < 2; j++ {
				if err := os.WriteFile(scratch, s.v.bytes(contents[s.v.src]), 0o600); err != nil {
					t.Fatalf("[result-diff] %s seed=%d: %v", name, seed, err)
				}
				if verifC18Outcome(scratch, true) != s.v.want {
					stable = false
				}
			}
			if !stable {
				t.Logf("%s: outcome of the %s is not reproducible sequentially; ignored", name, s.v)
				continue
			}
			nsus++
			if nsus <= 3 {
				t.Errorf("[result-diff] %s seed=%d faulty=%d: opening the %s (%s) beside other handles gives %q, sequentially %q", name, seed, s.who, s.v, paths[s.v.src], s.got, s.v.want)
			}
		}
	}
	if n, ok := verifC18Settle(before); !ok {
		t.Errorf("[goroutine-leak] %s seed=%d: %d goroutines before, %d after all files were closed", name, seed, before, n)
	}
	t.Logf("%s seed=%d sweep=%q sources=%d variants=%d outcomeClasses=%d poolProbes=%d readers=%d x%d x%d faultyGoroutines=%d faultyOpens=%d", name, seed, os.Getenv("VERIF_C18_SWEEP"), len(paths), len(all), len(classes), len(all)+len(paths)+1, nReaders, reps, len(paths), nFaulty, faultyOpens.Load())
}
