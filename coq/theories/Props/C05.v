(* C05 - written files are well-formed: in bounds, disjoint, consistent, spec-decodable.
   Theorems only; definitions in Model/Wellformed.v, lemmas in Proofs/Wellformed.v. *)
From HV Require Import Base.Prelude Base.Crc32 Spec.Lookup3 Model.Wellformed Proofs.Wellformed.
From Coq Require Import Sorted.

(* The executable sweep the tie evaluates on the decoder's extent lists decides exactly:
   every extent is non-empty, inside the file, at or below the recorded end-of-file address,
   and no two extents (at different list positions) overlap. *)
Theorem C05_extents_ok_sound : forall fs eof l, extents_ok fs eof l = true ->
  Forall (fun e => fst e < snd e /\ snd e <= fs /\ snd e <= eof) l /\ ForallOrdPairs disjoint l.
Proof. exact extents_ok_sound. Qed.
Print Assumptions C05_extents_ok_sound.

Theorem C05_extents_ok_complete : forall fs eof l,
  Forall (fun e => fst e < snd e /\ snd e <= fs /\ snd e <= eof) l -> ForallOrdPairs disjoint l ->
  extents_ok fs eof l = true.
Proof. exact extents_ok_complete. Qed.
Print Assumptions C05_extents_ok_complete.

(* The append-only allocator (allocator.go, uint64 arithmetic transcribed), for every initial offset and every
   list of requests whose total stays below 2^64: the blocks handed out are pairwise disjoint, in increasing
   order, tile [initial, EndOfFile) without gaps, and EndOfFile = initial + sum of the sizes
   (zero-size requests fail and change nothing). *)
Theorem C05_alloc_disjoint : forall initial reqs,
  initial + sum_sizes reqs < 18446744073709551616 ->
  let a := allocate_all (new_allocator initial) reqs in
  ForallOrdPairs disjoint (block_exts a) /\
  StronglySorted (fun x y => snd x <= fst y) (block_exts a) /\
  tiles initial (block_exts a) (end_of_file a) /\
  end_of_file a = initial + sum_sizes reqs.
Proof. exact alloc_disjoint. Qed.
Print Assumptions C05_alloc_disjoint.

Theorem C05_alloc_extents_ok : forall initial reqs,
  initial + sum_sizes reqs < 18446744073709551616 ->
  let a := allocate_all (new_allocator initial) reqs in
  extents_ok (end_of_file a) (end_of_file a) (block_exts a) = true.
Proof. exact alloc_extents_ok. Qed.
Print Assumptions C05_alloc_extents_ok.

(* "below the end-of-file address recorded in the superblock": the field is written once at creation and
   Close does not rewrite it, so after the first successful allocation a block ends beyond it. *)
Definition C05_eof_full : Prop := eof_full.

Theorem C05_eof_refuted : ~ C05_eof_full.
Proof. exact eof_full_refuted. Qed.
Print Assumptions C05_eof_refuted.

Theorem C05_eof_stale : forall initial s reqs, s <> 0 ->
  initial + sum_sizes (s :: reqs) < 18446744073709551616 ->
  ~ below_eof (wf_close (wf_allocs (wf_create initial) (s :: reqs))).
Proof. exact eof_stale_general. Qed.
Print Assumptions C05_eof_stale.

(* with the proposed repair (Close rewrites the end-of-file field) the full statement holds *)
Theorem C05_eof_fixed : forall initial reqs, initial + sum_sizes reqs < 18446744073709551616 ->
  below_eof (wf_close_fixed (wf_allocs (wf_create initial) reqs)).
Proof. exact eof_fixed. Qed.
Print Assumptions C05_eof_fixed.

(* checksum models: the catalogue / reference-source test vectors *)
Theorem C05_crc32_check : crc32 (unhex "313233343536373839") = 3421780262.
Proof. exact crc32_check. Qed.
Print Assumptions C05_crc32_check.

Theorem C05_lookup3_check : hashlittle [] 0 = 3735928559 /\
  hashlittle (ascii_bytes "Four score and seven years ago") 0 = 393676113 /\
  hashlittle (ascii_bytes "Four score and seven years ago") 1 = 3445784929.
Proof. exact (conj lookup3_empty_0 (conj lookup3_four_score_0 lookup3_four_score_1)). Qed.
Print Assumptions C05_lookup3_check.
