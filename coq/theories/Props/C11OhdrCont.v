(* C11 - every metadata encoder is inverted by its decoder: object header version 2 with continuation
   chunks.  Property theorems only.  The library's writer never emits continuation chunks; the encoder is
   the specification-side encoder build_chain of Model/CodecOhdrCont.v, the decoder is the transcription
   dec_ohdr_c of core.ReadObjectHeader / parseV2Header as it is since /repo 57823d4. *)
From HV Require Import Base.Prelude Base.Outcome Base.Bytes Model.CodecOhdr Model.CodecOhdrCont
  Proofs.CodecOhdrCont Proofs.CodecOhdrContRT.

(* the model with continuation chunks extends the model without them (Model/CodecOhdr.v, which stops with an
   error at a continuation message): same result wherever the old model returns a header - every file
   image, address, offset size, length size and byte order *)
Theorem C11_ohdr_v2_cont_conservative : forall os ls sbBE file addr r,
  dec_ohdr sbBE file addr = Ok r -> dec_ohdr_c os ls sbBE file addr = Ok r.
Proof. exact dec_ohdr_conservative. Qed.
Print Assumptions C11_ohdr_v2_cont_conservative.

(* round trip over a chain of continuation chunks of any length (0 .. 1024): arbitrary bytes before the
   header, between the chunks and after them; every chunk holds arbitrary well-formed messages before and
   after its linking message; the reader returns the concatenated message list - the continuation messages
   themselves included - with the absolute offsets, and flags, reference count and name computed from it *)
Theorem C11_ohdr_v2_cont_roundtrip : forall os ls sbBE (pre : bytes) flags a0 b0 ks (suf : bytes),
  wf_chain os ls flags a0 b0 ks = true ->
  let file := build_chain os ls sbBE pre flags a0 b0 ks suf in
  blen file < 9223372036854775808 -> blen file < 256 ^ os -> blen file < 256 ^ ls ->
  (ks = [] -> 1 <= blen suf) ->
  dec_ohdr_c os ls sbBE file (blen pre) = Ok (proj_chain os ls sbBE (blen pre) flags a0 b0 ks).
Proof. exact chain_roundtrip. Qed.
Print Assumptions C11_ohdr_v2_cont_roundtrip.

Theorem C11_ohdr_v2_cont_roundtrip_one_cont : forall os ls sbBE (pre : bytes) flags a0 b0 k (suf : bytes),
  wf_chain os ls flags a0 b0 [k] = true ->
  let file := build_chain os ls sbBE pre flags a0 b0 [k] suf in
  blen file < 9223372036854775808 -> blen file < 256 ^ os -> blen file < 256 ^ ls ->
  dec_ohdr_c os ls sbBE file (blen pre) = Ok (proj_chain os ls sbBE (blen pre) flags a0 b0 [k]).
Proof. exact chain_roundtrip_one_cont. Qed.
Print Assumptions C11_ohdr_v2_cont_roundtrip_one_cont.

(* the hypotheses are satisfiable: a 105-byte file with two continuation chunks and seven messages; the
   model without continuation chunks refuses it *)
Theorem C11_ohdr_v2_cont_example :
  wf_chain 8 8 8 [ex_m 1 [1; 2; 3]] [ex_m 3 [4]] ex_ks = true /\
  blen ex_file = 105 /\
  omap (fun o => (ohp_refcount o, ohp_name o, map hmp_type (ohp_msgs o), map hmp_offset (ohp_msgs o)))
       (dec_ohdr_c 8 8 false ex_file 5)
  = Ok (7, [65; 66], [1; 16; 3; 13; 16; 1; 22], [12; 19; 39; 51; 58; 78; 93]) /\
  dec_ohdr_c 8 8 false ex_file 5 = Ok (proj_chain 8 8 false 5 8 [ex_m 1 [1; 2; 3]] [ex_m 3 [4]] ex_ks) /\
  dec_ohdr false ex_file 5 = Err.
Proof. exact chain_example. Qed.
Print Assumptions C11_ohdr_v2_cont_example.

(* refusals of the reader: a continuation naming a chunk already read (itself, or an earlier one) is an
   error - no endless loop -, so are a size below 8, a missing "OCHK" signature, a chunk beyond the file *)
Theorem C11_ohdr_v2_cont_cycle_refused :
  dec_ohdr_c 8 8 false
    (build_chain 8 8 false [] 0 [] []
       [ {| k_between := []; k_a := []; k_b := [cont_msg 8 8 false 27 28]; k_gap := []; k_ck := [0; 0; 0; 0] |} ] []) 0 = Err.
Proof. exact cont_cycle_refused. Qed.
Print Assumptions C11_ohdr_v2_cont_cycle_refused.

Theorem C11_ohdr_v2_cont_cycle2_refused :
  dec_ohdr_c 8 8 false
    (build_chain 8 8 false [] 0 [] []
       [ {| k_between := []; k_a := []; k_b := []; k_gap := []; k_ck := [0; 0; 0; 0] |};
         {| k_between := []; k_a := []; k_b := [cont_msg 8 8 false 27 28]; k_gap := []; k_ck := [0; 0; 0; 0] |} ] []) 0 = Err.
Proof. exact cont_cycle2_refused. Qed.
Print Assumptions C11_ohdr_v2_cont_cycle2_refused.

Theorem C11_ohdr_v2_cont_short_size_refused :
  dec_ohdr_c 8 8 false (build_chain 8 8 false [] 0 [] [cont_msg 8 8 false 27 7] [] ochk_min) 0 = Err /\
  oclass (dec_ohdr_c 8 8 false (build_chain 8 8 false [] 0 [] [cont_msg 8 8 false 27 13] [] ochk_min) 0) = 0.
Proof. exact cont_short_size_refused. Qed.
Print Assumptions C11_ohdr_v2_cont_short_size_refused.

Theorem C11_ohdr_v2_cont_bad_signature_refused :
  dec_ohdr_c 8 8 false (build_chain 8 8 false [] 0 [] [cont_msg 8 8 false 28 12] [] ochk_min) 0 = Err /\
  dec_ohdr_c 8 8 false (build_chain 8 8 false [] 0 [] [cont_msg 8 8 false 27 13] [] ([79; 67; 72; 88] ++ skipn 4 ochk_min)) 0 = Err.
Proof. exact cont_bad_signature_refused. Qed.
Print Assumptions C11_ohdr_v2_cont_bad_signature_refused.

Theorem C11_ohdr_v2_cont_beyond_file_refused :
  dec_ohdr_c 8 8 false (build_chain 8 8 false [] 0 [] [cont_msg 8 8 false 1000 13] [] ochk_min) 0 = Err.
Proof. exact cont_beyond_file_refused. Qed.
Print Assumptions C11_ohdr_v2_cont_beyond_file_refused.
