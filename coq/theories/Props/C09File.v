(* C09 at file level.  The two transcriptions of dataset_read_hyperslab.go are related and the property is lifted to the
   file image:
     Model/Hyperslab.v    (C09: which element goes where; Props/C09.v)
     Model/IOProgSlice.v  (C17: which bytes are read, as an I/O program over the file; tied to Go on the sequence of I/O calls)
     Model/SliceRefine.v  slice_value: what Go computes from the bytes it has read (elements as little-endian values).
   Only theorem statements here; proofs in Proofs/SliceRefine*.v.  Contiguous layout; the chunked layout is NOT covered
   (see DESIGN / the worker's report: what is missing is the analogue of C09_slice_program_refines_model for p_slice_chunked). *)
From HV Require Import Base.Prelude Base.Outcome Base.Bytes Model.IOProg Model.IOProgReader Model.IOProgSlice.
From HV Require Import Model.CodecSuper Model.CodecType Model.FileImage Proofs.FileImage Proofs.FileImageData Proofs.FileImageProd.
From HV Require Import Model.SliceRefine Proofs.SliceRefineBytes Proofs.SliceRefineContig Proofs.SliceRefineArith
  Proofs.SliceRefineValidate Proofs.SliceRefineMain Proofs.SliceRefineFile Proofs.SliceRefineTop Proofs.SliceRefineSlice Proofs.SliceRefineExamples.
From HV Require Proofs.HyperslabValidate Proofs.SliceRefineSliceH.

(* ---- (1) refinement: on ANY file in which the dataset's data block (prod(dims) elements of es bytes) is placed at addr, for
   EVERY valid filled selection, the I/O program of readHyperslabContiguous succeeds and the value Go computes from the bytes
   read is the value of C09's contiguous dispatcher on the element values of the data block.  All three paths: one run
   (SlRun), one strict read per element (rank 2, SlElems), selection run + extraction (SlSpan). *)
Theorem C09_slice_program_refines_model : forall f addr es data, placed f addr data -> 0 < es -> addr + blen data <= MAXI64 ->
  forall dims, blen data = Hs.prodN dims * es -> Hs.prodN dims < 4294967296 ->
  forall s, sel_lens s (length dims) -> Hs.axes_valid (axes_of_sel s) dims -> dims <> [] ->
  exists sd, run0 f (p_slice_contig s dims es addr) = Ok sd /\
             slice_value es dims [] (axes_of_sel s) sd = Hs.read_hyperslab_contiguous (evals es data) dims (axes_of_sel s).
Proof. exact p_slice_contig_refines. Qed.
Print Assumptions C09_slice_program_refines_model.

(* the two validations agree on all uint64 inputs (and so do the checks of ReadSlice) *)
Theorem C09_validate_refines : forall s dims,
  Forall Hs.u64 dims -> HyperslabValidate.u64_sel (hsel_of s) (length dims) ->
  validate s dims = match Hs.validate (hsel_of s) dims with Hs.Ok => Some (fill s (length dims)) | Hs.Err => None end.
Proof. exact validate_refines. Qed.
Print Assumptions C09_validate_refines.

Theorem C09_validate_slice_refines : forall st cn dims, Forall Hs.u64 dims -> Forall Hs.u64 st -> Forall Hs.u64 cn ->
  validate_slice st cn dims =
  match Hs.slice_validate st cn dims with
  | Hs.Ok => Some (fill {| s_start := st; s_count := cn; s_stride := None; s_block := None |} (length dims))
  | Hs.Err => None
  end.
Proof. exact validate_slice_refines. Qed.
Print Assumptions C09_validate_slice_refines.

(* the uint64 arithmetic of the program is the unbounded arithmetic of the element-level model on valid selections *)
Theorem C09_program_arithmetic : forall s dims,
  sel_lens s (length dims) -> Hs.axes_valid (axes_of_sel s) dims -> Hs.prodN dims < 4294967296 -> dims <> [] ->
  out_size s = Hs.out_elems (axes_of_sel s) /\
  is_contig s dims = Hs.is_contiguous_selection (axes_of_sel s) dims /\
  (forall i, (i < length dims)%nat -> sel_idx s dims i = Hs.axis_idx (nth i (axes_of_sel s) (Hs.mkAxis 0 0 0 0))).
Proof. exact program_arithmetic. Qed.
Print Assumptions C09_program_arithmetic.

(* ---- (2) file level.  For ALL link names, basic datatypes of 4 or 8 bytes (int32/uint32/int64/uint64/float32/float64), shapes
   of rank 1..24 with extents > 0, data of exactly product(dims)*size bytes (< 4 GiB), and ALL selections (start, count,
   stride, block; Stride/Block may be nil) made of uint64 numbers: on the image of the file the writer leaves behind, the
   Dataset.ReadHyperslab PROGRAM returns bytes whose value is `select data (sel_coords sel)` in row-major order of the
   selection if the selection is valid (and selects at most 10^9 blocks: utils.MaxHyperslabElements), and an error if it
   is not valid. *)
Theorem C09_file_slice_contiguous : forall name class size cbf dims data,
  link_name_ok name = true -> basic_dtype class size cbf = true -> dims_ok dims = true ->
  blen data = product dims * size -> blen data < 4294967296 ->
  forall s hfuel, (3 < hfuel)%nat -> size = 4 \/ size = 8 -> HyperslabValidate.u64_sel (hsel_of s) (length dims) ->
  let f := image_v2 name class size cbf dims data in
  (Hs.valid (hsel_of s) dims -> Hs.prodN (s_count s) <= Hs.max_hyperslab_elements ->
   exists sd, run0 f (api_read_hyperslab SB' hfuel (dset_addr data) s) = Ok sd /\
     slice_value size dims [] (Hs.axes_of (hsel_of s) (length dims)) sd
     = Hs.select (evals size data) dims (Hs.axes_of (hsel_of s) (length dims))) /\
  (~ Hs.valid (hsel_of s) dims -> run0 f (api_read_hyperslab SB' hfuel (dset_addr data) s) = Err).
Proof. exact file_hyperslab_contiguous. Qed.
Print Assumptions C09_file_slice_contiguous.

(* the 1- and 2-byte types of the registry cannot be read through ReadSlice / ReadHyperslab at all: every request is an error *)
Theorem C09_file_slice_small_types_refused : forall name class size cbf dims data,
  link_name_ok name = true -> basic_dtype class size cbf = true -> dims_ok dims = true ->
  blen data = product dims * size -> blen data < 4294967296 ->
  forall s hfuel, (3 < hfuel)%nat -> size = 1 \/ size = 2 ->
  run0 (image_v2 name class size cbf dims data) (api_read_hyperslab SB' hfuel (dset_addr data) s) = Err.
Proof. exact file_hyperslab_small_type. Qed.
Print Assumptions C09_file_slice_small_types_refused.

(* the head stage alone: on the image, ReadSlice / ReadHyperslab reduce to the contiguous reader on the data block *)
Theorem C09_file_slice_head : forall name class size cbf dims data,
  link_name_ok name = true -> basic_dtype class size cbf = true -> dims_ok dims = true ->
  blen data = total_elems dims * size -> blen data < 4294967296 ->
  forall fuel check, (3 < fuel)%nat ->
  run0 (image_v2 name class size cbf dims data) (api_slice_with SB' fuel (dset_addr data) check) =
  match check dims with
  | None => Err
  | Some s => run0 (image_v2 name class size cbf dims data) (after_decode class size dims DATA_ADDR s)
  end.
Proof. exact slice_head. Qed.
Print Assumptions C09_file_slice_head.

(* the ReadSlice entry point, for ALL (start, count) of uint64 numbers: the selection of the written data when the request
   lies inside the dataset (start[i] + count[i] <= dims[i], same rank) and has at most 10^9 elements -- a count of 0 gives
   the empty result without data I/O --, an error when it does not lie inside the dataset, and an error when it has more
   than 10^9 elements (the second validation inside readHyperslab: utils.CalculateHyperslabElements). *)
Theorem C09_file_read_slice_contiguous : forall name class size cbf dims data,
  link_name_ok name = true -> basic_dtype class size cbf = true -> dims_ok dims = true ->
  blen data = product dims * size -> blen data < 4294967296 ->
  forall st cn hfuel, (3 < hfuel)%nat -> size = 4 \/ size = 8 -> Forall Hs.u64 st -> Forall Hs.u64 cn ->
  let f := image_v2 name class size cbf dims data in
  (Hs.slice_valid st cn dims -> Hs.prodN cn <= Hs.max_hyperslab_elements ->
   exists sd, run0 f (api_read_slice SB' hfuel (dset_addr data) st cn) = Ok sd /\
     slice_value size dims [] (Hs.slice_axes st cn) sd = Hs.select (evals size data) dims (Hs.slice_axes st cn)) /\
  (~ Hs.slice_valid st cn dims -> run0 f (api_read_slice SB' hfuel (dset_addr data) st cn) = Err) /\
  (Hs.slice_valid st cn dims -> Hs.max_hyperslab_elements < Hs.prodN cn ->
   run0 f (api_read_slice SB' hfuel (dset_addr data) st cn) = Err).
Proof. exact file_read_slice_contiguous. Qed.
Print Assumptions C09_file_read_slice_contiguous.

(* an accepted hyperslab selects at most MaxHyperslabElements blocks (why the bound is a hypothesis above) *)
Theorem C09_validate_count_bound : forall h dims, Hs.validate h dims = Hs.Ok -> Hs.prodN (Hs.h_count h) <= Hs.max_hyperslab_elements.
Proof. exact SliceRefineSliceH.validate_count_bound. Qed.
Print Assumptions C09_validate_count_bound.

(* ... and the element-level model of ReadSlice refuses a larger request that lies inside the dataset *)
Theorem C09_read_slice_too_large : forall lay full dims st cn, Forall Hs.u64 dims -> Hs.slice_valid st cn dims ->
  Hs.max_hyperslab_elements < Hs.prodN cn -> Hs.read_slice lay full dims st cn = None.
Proof. exact SliceRefineSliceH.read_slice_too_large. Qed.
Print Assumptions C09_read_slice_too_large.

(* the hypotheses of C09_file_slice_contiguous and C09_file_read_slice_contiguous are satisfiable (the runs themselves:
   C09_file_example_2d, Proofs/SliceRefineExamples.v ex_slice) *)
Theorem C09_file_slice_witness :
  link_name_ok [100] = true /\ basic_dtype 0 4 8 = true /\ dims_ok [4; 6] = true /\
  blen wit_data = product [4; 6] * 4 /\ blen wit_data < 4294967296 /\
  HyperslabValidate.u64_sel (hsel_of wit_sel) (length [4; 6]) /\ Hs.valid (hsel_of wit_sel) [4; 6] /\
  Hs.prodN (s_count wit_sel) <= Hs.max_hyperslab_elements /\
  Forall Hs.u64 [1; 2] /\ Forall Hs.u64 [2; 3] /\ Hs.slice_valid [1; 2] [2; 3] [4; 6] /\ Hs.prodN [2; 3] <= Hs.max_hyperslab_elements.
Proof. exact file_slice_witness. Qed.
Print Assumptions C09_file_slice_witness.

(* ---- (3) non-vacuity and concrete runs (vm_compute on the image of int32 [4,6] = 0..23, rank 2, stride and block > 1) *)
Theorem C09_file_example_2d :
  run0 ex_img (api_read_hyperslab SBI 64 (dset_addr ex_data) ex_sel_2d) = Ok ex_sd_2d
  /\ slice_value 4 [4; 6] [] (Hs.axes_of (hsel_of ex_sel_2d) 2) ex_sd_2d
     = [1; 2; 4; 5; 7; 8; 10; 11; 13; 14; 16; 17; 19; 20; 22; 23]
  /\ Hs.select (evals 4 ex_data) [4; 6] (Hs.axes_of (hsel_of ex_sel_2d) 2)
     = [1; 2; 4; 5; 7; 8; 10; 11; 13; 14; 16; 17; 19; 20; 22; 23]
  /\ Hs.read_hyperslab Hs.Contiguous (evals 4 ex_data) [4; 6] (hsel_of ex_sel_2d)
     = Some [1; 2; 4; 5; 7; 8; 10; 11; 13; 14; 16; 17; 19; 20; 22; 23].
Proof. exact ex_hyperslab_2d. Qed.
Print Assumptions C09_file_example_2d.

Theorem C09_file_example_span :
  run0 ex_img3 (api_read_hyperslab SBI 64 (dset_addr ex_data) ex_sel_span) = Ok ex_sd_span
  /\ slice_value 4 [2; 3; 4] [] (Hs.axes_of (hsel_of ex_sel_span) 3) ex_sd_span = [1; 3; 9; 11; 13; 15; 21; 23]
  /\ Hs.select (evals 4 ex_data) [2; 3; 4] (Hs.axes_of (hsel_of ex_sel_span) 3) = [1; 3; 9; 11; 13; 15; 21; 23]
  /\ Hs.read_hyperslab Hs.Contiguous (evals 4 ex_data) [2; 3; 4] (hsel_of ex_sel_span) = Some [1; 3; 9; 11; 13; 15; 21; 23].
Proof. exact ex_hyperslab_span. Qed.
Print Assumptions C09_file_example_span.
