(* C12 - Variable-length data round-trips through the global heap.
   Model: Model/GHeap.v (transcription of global_heap_write.go, internal/core/globalheap.go, the vlen
   datatype message encoder (repaired: /repo 71914eb, notes/fixes/vlen-datatype-header.patch) and
   ParseDatatypeMessage).  Lemmas: Proofs/GHeap.v.
   [minsz] = globalHeapWriter.minCollectionSize, [blk] = the rounding unit of createNewHeap (both 4096
   in the source); params_ok: 0 < blk, blk mod 8 = 0, minsz mod 8 = 0, minsz + blk <= 1048000.
   [ops]: any history of vlen elements written (W bytes, any length including 0 and beyond a
   collection, any byte values) interleaved with other allocations of the file writer (A n);
   run_close = fresh writer at end-of-file e0, the history, Close (Flush).  [eof fin < 2^64]: the
   file fits 8-byte addresses. *)
From HV Require Import Base.Prelude Model.GHeap Proofs.GHeap.

(* the writer never fails (no out-of-range store in encodeHeapCollection, no missing collection) *)
Theorem C12_total : forall minsz blk e0 ops, params_ok minsz blk ->
  exists fin ids, run_close minsz blk e0 ops = Some (fin, ids).
Proof. exact C12_total_lemma. Qed.
Print Assumptions C12_total.

(* every element, resolved from its 16-byte dataset element through ParseGlobalHeapReference,
   ReadGlobalHeapCollection and GetObject on the closed file, is exactly the bytes written *)
Theorem C12_roundtrip : forall minsz blk e0 ops fin ids, params_ok minsz blk ->
  run_close minsz blk e0 ops = Some (fin, ids) -> eof fin < W64 ->
  length ids = length (writes ops) /\
  forall i d, nth_error (writes ops) i = Some d ->
    exists id, nth_error ids i = Some id /\ resolve (disk fin) (encode_reference id) = Ok d.
Proof. exact C12_roundtrip_lemma. Qed.
Print Assumptions C12_roundtrip.

(* every collection on disk satisfies the format predicate (signature, version, declared size =
   byte length, 8-byte object alignment, unique non-zero indices, object sizes inside the collection,
   free-space object covering exactly the tail; free-space size convention = this library's) *)
Theorem C12_wellformed : forall minsz blk e0 ops fin ids, params_ok minsz blk ->
  run_close minsz blk e0 ops = Some (fin, ids) -> eof fin < W64 ->
  forall a b, In (a, b) (disk fin) -> wf_gcol 16 b = true.
Proof. exact C12_wellformed_lemma. Qed.
Print Assumptions C12_wellformed.

(* the uint16 object index never wraps and is never the free-space index 0 *)
Theorem C12_index_in_range : forall minsz blk e0 ops fin ids, params_ok minsz blk ->
  run_close minsz blk e0 ops = Some (fin, ids) ->
  forall i id, nth_error ids i = Some id -> 1 <= h_idx id /\ h_idx id < 65536.
Proof. exact C12_index_lemma. Qed.
Print Assumptions C12_index_in_range.

Theorem C12_reference_roundtrip : forall id, h_addr id < W64 -> h_idx id < 4294967296 ->
  parse_reference (encode_reference id) = Ok id.
Proof. exact parse_encode_reference. Qed.
Print Assumptions C12_reference_roundtrip.

(* repaired datatype message: recognised as class 9 (variable length) of the written base type,
   for every base type the writer offers *)
Theorem C12_vlen_datatype_roundtrip : forall b, exists m base bprops,
  enc_vlen b = Ok m /\ enc_base b = Ok base
  /\ parse_datatype m = Ok (mkdt 9 1 16 (vl_bits b) base)
  /\ parse_datatype base = Ok (mkdt (fst (fst (base_cls b))) 1 (snd (fst (base_cls b))) (snd (base_cls b)) bprops)
  /\ is_variable_string (mkdt 9 1 16 (vl_bits b) base) = is_vstring b
  /\ vlen_recognised b m = true.
Proof. exact C12_vlen_dt_lemma. Qed.
Print Assumptions C12_vlen_datatype_roundtrip.

(* the layout of the pinned tree (finding D10) is NOT recognised: it parses as fixed-point, version 9 *)
Theorem C12_vlen_datatype_old_refuted : forall b, exists m d,
  enc_vlen_old b = Ok m /\ parse_datatype m = Ok d /\ d_class d = 0 /\ d_version d = 9
  /\ vlen_recognised b m = false.
Proof. exact C12_vlen_dt_old_lemma. Qed.
Print Assumptions C12_vlen_datatype_old_refuted.

(* the shipped constants satisfy the side conditions of the theorems above *)
Theorem C12_params_shipped : params_ok 4096 4096.
Proof. exact params_shipped. Qed.
Print Assumptions C12_params_shipped.

(* non-vacuity: a concrete history (empty element, exact fill, roll-over, foreign allocation, 70 000
   byte element, embedded NULs and UTF-8) runs, resolves, is well-formed; the predicate rejects the
   other free-space convention and a wrong declared size *)
Theorem C12_example : ex_check = true.
Proof. exact C12_example_lemma. Qed.
Print Assumptions C12_example.
