(* C01 - dataset write / close / reopen / read: chunk tiling and element round trips (unit level).
   Model: Model/Chunk.v, Model/Elem.v.  Lemmas: Proofs/Chunk*.v, Proofs/Elem.v.
   Non-vacuity examples: Proofs/ChunkExamples.v. *)
From HV Require Import Base.Prelude Model.Chunk Model.Elem
  Proofs.ChunkLists Proofs.ChunkSpec Proofs.ChunkCoords Proofs.ChunkTiling Proofs.Elem Proofs.ChunkExamples.
From HV Require Import Model.ChunkIndex Proofs.ChunkIndex.
From Coq Require Import Permutation.

(* every rank >= 1, every positive extents / chunk extents (larger, equal, non-dividing), every
   element size: the reader's placement of all chunks the writer emits rebuilds the data *)
Theorem C01_chunk_tiling : forall dims cdims esz data,
  shape_ok dims cdims esz -> lenN data = vol dims esz ->
  read_chunked dims cdims esz (write_chunks dims cdims esz data) = Ok data.
Proof. exact chunk_tiling. Qed.
Print Assumptions C01_chunk_tiling.

(* the chunk index may present the chunks in any order *)
Theorem C01_order_irrelevant : forall dims cdims esz data chunks,
  shape_ok dims cdims esz -> lenN data = vol dims esz ->
  Permutation chunks (write_chunks dims cdims esz data) ->
  read_chunked dims cdims esz chunks = read_chunked dims cdims esz (write_chunks dims cdims esz data).
Proof. exact chunk_order_irrelevant. Qed.
Print Assumptions C01_order_irrelevant.

(* the loop over linear chunk indices visits every chunk coordinate exactly once, row-major *)
Theorem C01_chunk_enumeration : forall dims cdims,
  Forall (fun x => 0 < x) dims -> Forall (fun x => 0 < x) cdims ->
  all_chunk_coords dims cdims = coords_of (num_chunks dims cdims).
Proof. exact all_chunk_coords_enum. Qed.
Print Assumptions C01_chunk_enumeration.

(* integers of either signedness, every width: the reader (using the recorded sign bit) recovers
   the written value *)
Theorem C01_int_roundtrip : forall w signed v,
  (0 < w)%nat -> in_range w signed v -> dec_int w signed (enc_int w v) = v.
Proof. exact int_roundtrip. Qed.
Print Assumptions C01_int_roundtrip.

(* in particular unsigned values with the top bit set are not read as negative *)
Theorem C01_unsigned_nonneg : forall w v,
  (0 < w)%nat -> in_range w false v -> (0 <= dec_int w false (enc_int w v))%Z.
Proof. exact unsigned_nonneg. Qed.
Print Assumptions C01_unsigned_nonneg.

Theorem C01_float64_bits : forall bits, bits < 2 ^ 64 -> to_f64_f64 (enc_f64 bits) = bits.
Proof. exact f64_roundtrip. Qed.
Print Assumptions C01_float64_bits.

(* fixed strings: what was written, cut to the size and at the first NUL *)
Theorem C01_string_roundtrip : forall n s, dec_string n (enc_string n s) = until_nul (firstn n s).
Proof. exact string_roundtrip. Qed.
Print Assumptions C01_string_roundtrip.

(* the reader's int -> float64 widening (f64_of_Z, tied to the Go conversion on bit patterns) is exact
   for 0 < |z| < 2^53: sign, significand m = |z| * 2^(52 - log2 |z|) and exponent e = log2 |z| - 52,
   i.e. (-1)^s * m * 2^e = z *)
Theorem C01_widen_exact : forall z, (0 < Z.abs z < 2 ^ 53)%Z ->
  f64_fields (f64_of_Z z)
  = ((z <? 0)%Z, Z.to_N (Z.abs z) * 2 ^ (52 - N.log2 (Z.to_N (Z.abs z))),
     (Z.of_N (N.log2 (Z.to_N (Z.abs z))) - 52)%Z).
Proof. exact f64_of_Z_exact. Qed.
Print Assumptions C01_widen_exact.

(* ---- the chunk index (version 1 B-tree, node type 1) between the chunk writer and the chunk reader:
   Model/ChunkIndex.v, Proofs/ChunkIndex.v ---- *)

(* every rank, every number of entries up to 65534 (index_pre; beyond: the two _refuted theorems below), every
   offsets/addresses/sizes that fit their fields: the reader (ParseBTreeV1Node + CollectAllChunks on the bytes
   WriteToFile produced) returns exactly the written entries, each once, in the writer's sort order, offsets divided
   by the chunk extents, filter mask 0; never Panic / out of fuel *)
Theorem C01_index_roundtrip_partial : forall cdims es f eof,
  index_pre cdims es eof = true ->
  exists f',
    write_index (length cdims) es f eof = Outcome.Ok (f', eof + Bytes.blen (serialize_leaf (length cdims) es), eof) /\
    read_index f' eof 8 cdims = COk (map (expected_entry cdims) (sort_entries es)).
Proof. exact index_roundtrip. Qed.
Print Assumptions C01_index_roundtrip_partial.

(* ... and the sort is a permutation: every written entry appears exactly once, nothing else appears *)
Theorem C01_index_sort_permutation : forall es, Permutation (sort_entries es) es.
Proof. exact sort_entries_perm. Qed.
Print Assumptions C01_index_sort_permutation.

(* 65535 entries: WriteToFile succeeds, the reader panics (len(Keys) = uint16(65535 + 1) = 0) *)
Theorem C01_index_roundtrip_refuted_65535 : forall cdims es f eof,
  all_pos cdims = true -> Forall (fun e => entry_ok (length cdims) e = true) es ->
  N.of_nat (length es) = 65535 ->
  eof + Bytes.blen (serialize_leaf (length cdims) es) <= MAXINT64 ->
  exists f' eof',
    write_index (length cdims) es f eof = Outcome.Ok (f', eof', eof) /\
    read_index f' eof 8 cdims = CPanic.
Proof. exact index_65535_refuted. Qed.
Print Assumptions C01_index_roundtrip_refuted_65535.

(* 65536 entries (any multiple): WriteToFile succeeds, entries used = uint16(65536) = 0, the reader returns no
   chunk and no error *)
Theorem C01_index_roundtrip_refuted_65536 : forall cdims es f eof,
  Forall (fun e => entry_ok (length cdims) e = true) es ->
  es <> [] -> wrap16 (N.of_nat (length es)) = 0 ->
  eof + 24 <= MAXINT64 ->
  exists f' eof',
    write_index (length cdims) es f eof = Outcome.Ok (f', eof', eof) /\
    read_index f' eof 8 cdims = COk [] /\ map (expected_entry cdims) (sort_entries es) <> [].
Proof. exact index_count_wraps_refuted. Qed.
Print Assumptions C01_index_roundtrip_refuted_65536.
