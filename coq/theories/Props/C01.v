From HV Require Import Base.Prelude.
Theorem C01_placeholder : True. Proof. exact I. Qed.
Print Assumptions C01_placeholder.
